#!/venv/bin/python
"""Confirm a seeded fault and run the checks against it.
usage: seedeval.py <dir with patch.diff demo.py meta.json> <seed-id> <check> [<check> ...]
Works in a scratch git worktree of /repo (outside /repo and /verif), removed afterwards.
Confirms: demo passes on the clean tree, fails with the patch; the test suite still has 245 passed.
Then runs each check with VERIF_REPO=<scratch> and stores everything under /verif/seeded/<seed-id>/."""
import json, os, re, shutil, subprocess, sys, tempfile
src, sid, checks = sys.argv[1], sys.argv[2], sys.argv[3:]
scratch = tempfile.mkdtemp(prefix="verif-seed-")
os.rmdir(scratch)
run = lambda *a, **k: subprocess.run(*a, stdout=subprocess.PIPE, stderr=subprocess.STDOUT, text=True, **k)
out = {}
try:
    r = run(["git", "-C", "/repo", "worktree", "add", "--detach", scratch, "HEAD"]); assert r.returncode == 0, r.stdout
    env = dict(os.environ, PYTHONPATH=scratch, PYTHONDONTWRITEBYTECODE="1")
    demo = os.path.join(scratch, "seed_demo.py")
    shutil.copy(os.path.join(src, "demo.py"), demo)
    r = run(["/venv/bin/python", "-B", demo], cwd=scratch, env=env); out["demo_clean_rc"] = r.returncode
    r = run(["git", "apply", os.path.join(os.path.abspath(src), "patch.diff")], cwd=scratch); out["apply_rc"] = r.returncode
    if r.returncode != 0:
        out["apply_out"] = r.stdout
    r = run(["/venv/bin/python", "-B", demo], cwd=scratch, env=env); out["demo_patched_rc"] = r.returncode
    out["demo_patched_tail"] = r.stdout[-600:]
    tests = subprocess.Popen(["/venv/bin/python", "-m", "pytest", "-q", "-p", "no:cacheprovider", "--timeout=900",
                              "--continue-on-collection-errors"], cwd=scratch, stdout=subprocess.PIPE, stderr=subprocess.STDOUT, text=True,
                             env=dict(os.environ, PYTHONDONTWRITEBYTECODE="1"))
    out["checks"] = {}
    def one(c):
        r = run(["/verif/check", c, "--tier", "quick"], env=dict(os.environ, VERIF_REPO=scratch, VERIF_OUT=os.path.join(scratch, ".verif-out", c)))
        keys = sorted(set(re.findall(r"^  key=(.*)$", r.stdout, re.M)))
        return c, dict(rc=r.returncode, keys=keys[:12], tail=r.stdout[-1200:] if r.returncode == 2 else "")
    from concurrent.futures import ThreadPoolExecutor
    with ThreadPoolExecutor(4) as ex:
        for c, v in ex.map(one, checks):
            out["checks"][c] = v
    tout, _ = tests.communicate()
    m = re.search(r"(\d+) passed", tout)
    out["tests_passed"] = int(m.group(1)) if m else None
    out["tests_tail"] = tout.strip().splitlines()[-1] if tout.strip() else ""
finally:
    subprocess.run(["git", "-C", "/repo", "worktree", "remove", "--force", scratch], stdout=subprocess.DEVNULL, stderr=subprocess.DEVNULL)
    shutil.rmtree(scratch, ignore_errors=True)
confirmed = out.get("apply_rc") == 0 and out.get("demo_clean_rc") == 0 and out.get("demo_patched_rc") not in (0, None) and out.get("tests_passed") == 245
out["confirmed"] = confirmed
dst = os.path.join("/verif/seeded", sid)
os.makedirs(dst, exist_ok=True)
for f in ("patch.diff", "demo.py"):
    shutil.copy(os.path.join(src, f), dst)
meta = json.load(open(os.path.join(src, "meta.json")))
meta["verified"] = out
meta["detected_by"] = [c for c, v in out.get("checks", {}).items() if v["rc"] == 1]
json.dump(meta, open(os.path.join(dst, "meta.json"), "w"), indent=1)
print(sid, "confirmed=%s" % confirmed, {c: (v["rc"], v["keys"][:3]) for c, v in out.get("checks", {}).items()},
      "tests=%s demo clean/patched=%s/%s" % (out.get("tests_passed"), out.get("demo_clean_rc"), out.get("demo_patched_rc")))
