#!/venv/bin/python
"""Regression over the kept seeded faults: run the owning quick check (and the sibling checks recorded as detecting
it) against each fault again with the harness as it is now.  No pytest, no demo (those were confirmed when the fault
was kept).  usage: reseed.py [-j N] [id-prefix ...]   -> /verif/seeded/REGRESSION.json and a summary on stdout"""
import json, os, re, shutil, subprocess, sys, tempfile
from concurrent.futures import ThreadPoolExecutor

args = sys.argv[1:]
jobs = 3
if args[:1] == ["-j"]:
    jobs = int(args[1]); args = args[2:]
UPDATE = "--update-meta" in args          # write the new verdicts into seeded/<id>/meta.json (after a strengthening)
args = [a for a in args if a != "--update-meta"]
EXTRA = [a[1:] for a in args if a.startswith("+")]      # +Cnn: also run that check against every selected fault
args = [a for a in args if not a.startswith("+")]
ids = sorted(d for d in os.listdir("/verif/seeded") if os.path.isfile("/verif/seeded/%s/patch.diff" % d)
             and (not args or any(d.startswith(a) for a in args)))


def one(sid):
    meta = json.load(open("/verif/seeded/%s/meta.json" % sid))
    own = sid.split("-")[0]
    checks = [own] + [c for c in meta.get("detected_by", []) + EXTRA if c != own]
    d = tempfile.mkdtemp(prefix="verif-reseed-")
    out = {}
    try:
        shutil.copytree("/repo/qucumber", os.path.join(d, "qucumber"))
        subprocess.run(["patch", "-p1", "-s", "-d", d, "-i", "/verif/seeded/%s/patch.diff" % sid], check=True)
        for c in checks:
            r = subprocess.run(["/verif/check", c, "--tier", "quick"], env=dict(os.environ, VERIF_REPO=d),
                               stdout=subprocess.PIPE, stderr=subprocess.STDOUT, text=True)
            out[c] = dict(rc=r.returncode, keys=sorted(set(re.findall(r"^  key=(.*)$", r.stdout, re.M)))[:4],
                          tail=r.stdout[-600:] if r.returncode == 2 else "")
            if r.returncode == 1:
                break
    finally:
        shutil.rmtree(d, ignore_errors=True)
    caught = [c for c, v in out.items() if v["rc"] == 1]
    if UPDATE:
        meta.setdefault("verified", {}).setdefault("checks", {})
        for c, v in out.items():
            meta["verified"]["checks"][c] = dict(rc=v["rc"], keys=v["keys"])
        meta["detected_by"] = [c for c, v in meta["verified"]["checks"].items() if v["rc"] == 1]
        json.dump(meta, open("/verif/seeded/%s/meta.json" % sid, "w"), indent=1)
    print(sid, "CAUGHT by %s" % caught[0] if caught else "MISSED %s" % {c: v["rc"] for c, v in out.items()}, flush=True)
    return sid, out


with ThreadPoolExecutor(jobs) as ex:
    res = dict(ex.map(one, ids))
path = "/verif/seeded/REGRESSION.json"
old = json.load(open(path)) if os.path.exists(path) else {}
old.update(res)
json.dump(old, open(path, "w"), indent=1, sort_keys=True)
missed = [s for s, o in res.items() if not any(v["rc"] == 1 for v in o.values())]
print("faults: %d  caught: %d  missed: %s" % (len(res), len(res) - len(missed), missed))
