#!/venv/bin/python
"""Write the prompt for a fresh fault-seeding sub-agent (it sees the property text and its own scratch
worktree only, nothing from /verif).
usage: seedprompt.py <round> <Cnn> [...]   -> /tmp/seedprompts<round>/Cnn.txt, worktree /tmp/wt<round>-Cnn
The summaries of the faults already kept under /verif/seeded for that property are listed as 'already tried'."""
import glob, json, os, subprocess, sys

DIRECTIONS = {
    "2": "state that is carried across calls (caches, buffers, attributes set by an earlier call); the order of two "
         "operations; an unusual but legal form of an argument (a 0-d tensor, a numpy scalar, a tuple instead of a list, "
         "a negative number, a strided or Fortran-ordered array).",
    "3": "an interleaving of two features that are each fine alone (e.g. a callback combined with a particular optimizer "
         "or scheduler, sampling combined with an observable, saving combined with training); behaviour that differs between "
         "the first and a later epoch / batch / call; a boundary between two code paths (batch size equal to the data size, "
         "exactly one hidden unit, the last site, the first row); values at the edge of the documented range (large "
         "magnitudes, exact zeros, negative numbers); a wrong result only for one of the three state types or only when a "
         "documented optional argument is given.",
    "4": "a fault that is invisible on small inputs and appears only with many rows / many sites / many epochs / many "
         "observables (blocking, chunking, recursion depth, accumulated rounding through a changed formula); a fault that "
         "needs two public calls in a particular order on the same object, or the same object shared by two owners (one "
         "callback in two lists, one RBM module in two states, one observable in two systems); keyword versus positional "
         "passing of a documented argument; subclasses of the library's classes (a user subclass overriding one method); "
         "the documented default value of an argument versus the same value passed explicitly; dtype / device / layout of "
         "inputs (float32 tensors, integer tensors, numpy integer arrays, nested lists); the part of the property's "
         "statement that is quoted least often.",
    "5": "the error path: after an exception was raised (and caught by the user) inside a public call, the object is left in a "
         "state that makes the NEXT, perfectly legal call violate the property; objects that went through copy.deepcopy, "
         "pickle or a save/load round trip before use; the numerical regime (quantities that underflow or overflow in "
         "float32 but not float64, exact ties, probabilities of exactly 0 or 1, -0.0); counters and thresholds that are only "
         "reached late (epoch numbers >= 10 or >= 100 where a string sort or a format width matters, the 2nd/3rd/17th call, "
         "periods larger than the number of epochs); Python protocol details (dict iteration order, a generator or a tuple "
         "where a list is usual, a user subclass calling super(), isinstance versus duck typing, __eq__/__hash__ of "
         "library objects, keyword-only use of rarely passed documented arguments); ambient torch state that users "
         "legitimately change (torch.set_default_dtype(torch.float32), torch.no_grad(), torch.set_num_threads, a model moved "
         "with .double()/.to()); public functions and arguments in the anchored files that no example or test exercises.",
    "6": "several live objects at once (two states, two RBMs, two evaluators, two observables of the same class) whose "
         "behaviour leaks into each other through class attributes, module-level globals, default arguments evaluated once, "
         "or shared tensors; a method that one subclass overrides (DensityMatrix vs the wavefunctions, PurificationRBM vs "
         "BinaryRBM, VarianceBasedEarlyStopping vs EarlyStopping) so that only the entry points going through the override are "
         "wrong; errors that build up slowly (a buffer reused across calls, a counter never reset, rounding that accumulates) "
         "and are invisible in the first dozen calls or epochs; zero-size and one-size edges (a batch of one row, one epoch, "
         "one chain, one hidden unit, num_samples equal to num_chains, a period larger than the run, an empty list of bases "
         "or callbacks); numeric arguments given as numpy / torch scalars (np.int64 epochs or period, np.float32 learning "
         "rate or tolerance, a 0-d tensor as k) or as Python bools; a callback or observable that legitimately touches the "
         "model or the callback list while it is being called; two documented features used together that are each "
         "exercised alone by the examples (saving during training with early stopping, statistics with user-given chains "
         "and overwrite, rotation with a user dictionary passed positionally).",
    "7": "THIS ROUND IS DIFFERENT: produce FOUR changes (directories seeded/1 .. seeded/4), each a SMALL slip of the kind a "
         "mutation tool or a tired maintainer produces - one line, at most three tokens changed: an off-by-one in a range or "
         "a slice, a sign, `<` for `<=`, `and` for `or`, the wrong one of two similar variables (v / vp, samples / samples_, "
         "num_hidden / num_visible, rbm_am / rbm_ph, real / imag, left / right), two swapped arguments, a dropped `.t()` / "
         "`.clone()` / `abs`, a wrong default value, a wrong axis (dim=0 for dim=1), `+=` for `=`, a dropped term of a sum.  "
         "Each must still pass the test-suite and must NOT be wrong for every input (requirement (c) stands: it needs "
         "non-zero biases, a non-square shape, a particular argument form, a second call, ... to show).  Spread the four over "
         "different functions of the anchored files, preferring functions and branches that the earlier, more elaborate "
         "faults listed above did not touch.",
}


def main():
    rnd, pids = sys.argv[1], sys.argv[2:]
    props = {json.loads(l)["id"]: json.loads(l) for l in open("/verif/properties.jsonl")}
    out = "/tmp/seedprompts%s" % rnd
    os.makedirs(out, exist_ok=True)
    for pid in pids:
        p = props[pid]
        wt = "/tmp/wt%s-%s" % (rnd, pid)
        if not os.path.isdir(wt):
            r = subprocess.run(["git", "-C", "/repo", "worktree", "add", "--detach", wt, "HEAD"],
                               stdout=subprocess.PIPE, stderr=subprocess.STDOUT, text=True)
            assert r.returncode == 0, r.stdout
        tried = []
        for d in sorted(glob.glob("/verif/seeded/%s-*/meta.json" % pid)):
            tried.append("- " + json.load(open(d)).get("summary", "").replace("\n", " ")[:300])
        q = p.get("quantifier", {})
        anchors = ", ".join(p.get("anchors", {}).get("files", []))
        txt = f"""You are helping to evaluate how strong a verification framework is, by writing realistic faults for it to find. You work ONLY inside the directory {wt}, which is a git worktree of the Python library QuCumber (PyTorch-based reconstruction of quantum wavefunctions / density matrices with restricted Boltzmann machines). The directory /verif is OFF LIMITS: do not read, list or search it (your change must be independent of what the framework can already detect). Do not touch /repo either. Use the interpreter /venv/bin/python.

The property to break:
  id: {pid}
  title: {p['title']}
  statement: {p['statement']}
  quantified over: {q.get('text', '')}
  why the existing tests cannot settle it: {p.get('why_tests_cant', '')}
  code it is anchored in: {anchors}

Task: produce TWO independent changes to the library source (files under {wt}/qucumber/ only), each of which breaks this property while
 (a) the package still imports and
 (b) the existing test-suite still passes:  cd {wt} && /venv/bin/python -m pytest -q -p no:cacheprovider --timeout=900 --continue-on-collection-errors   (expected on the unchanged tree and with your change: 245 passed and 2 collection errors; the two collection errors, tests/test_grads.py and tests/test_training.py, pre-exist and are expected) and
 (c) the fault needs something SPECIFIC to manifest - a particular interleaving of callbacks/events, a multi-step sequence of operations, an unusual but legitimate input or configuration (sizes, periods, batch sizes that do not divide, a stop at a particular event, non-zero biases, a particular basis string ...), or two cooperating sites that each look fine alone - NOT something ordinary use would expose at once (e.g. not a crash on every call, not a wrong result for every input).
Make the changes look like plausible maintenance mistakes (a refactor, an 'optimisation', an off-by-one, a misplaced statement), a few lines each.

For each change i in {{1,2}} write, under {wt}/seeded/<i>/ :
  patch.diff  - `git diff` of the change against the worktree's HEAD (apply-able with `git apply` at the repository root); reset the tree between the two changes (git checkout -- qucumber) so that each patch stands alone;
  demo.py     - a small self-contained program, run as `cd {wt} && PYTHONPATH={wt} /venv/bin/python seeded/<i>/demo.py`, that exits 0 when the property holds on the behaviour it exercises and exits 1 (printing what went wrong) when it is violated; it must exit 1 with your change applied and exit 0 on the unchanged tree.  (scipy is not installed: qucumber.utils.training_statistics cannot be imported unless you first put a stub module named scipy.linalg with a function sqrtm into sys.modules - only needed if your demo uses it.)
  meta.json   - {{"property": "{pid}", "summary": "...what the change does...", "needs": "...what is needed for it to manifest...", "ran": ["commands you ran and their outcome"]}}
Verify all of (a), (b), (c) yourself by actually running the commands (the test-suite takes 1-3 minutes; the machine is busy, be patient), with the patch applied; then leave the worktree's qucumber/ directory clean (git checkout -- qucumber) so that only the seeded/ directory remains as untracked output. Finally report, for each change: a one-paragraph description, what it needs to manifest, and the test-suite / demo outcomes you observed.
IMPORTANT: never use `git stash` (all worktrees of this repository share one stash and other agents work in sibling worktrees); to get a clean tree save your diff to a file (git diff > /tmp/<name>.diff), run `git checkout -- qucumber`, and later `git apply` the file again.
"""
        if tried:
            txt += ("\n\nOther engineers have already tried the following changes for this property; yours must be DIFFERENT ideas, "
                    "in different places or with different mechanisms (do not repeat or lightly vary them):\n" + "\n".join(tried) + "\n")
        if rnd in DIRECTIONS:
            txt += "Good directions that are still open: " + DIRECTIONS[rnd] + "\n"
        with open(os.path.join(out, pid + ".txt"), "w") as fh:
            fh.write(txt)
        print(os.path.join(out, pid + ".txt"), wt)


if __name__ == "__main__":
    main()
