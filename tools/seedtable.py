#!/venv/bin/python
"""Markdown table of the seeded faults under /verif/seeded (from their meta.json)."""
import json, os, glob
rows = []
for d in sorted(glob.glob("/verif/seeded/*/meta.json")):
    m = json.load(open(d))
    sid = os.path.basename(os.path.dirname(d))
    v = m.get("verified", {})
    det = []
    for c, r in v.get("checks", {}).items():
        det.append("%s %s" % (c, "caught (`%s`)" % r["keys"][0] if r["rc"] == 1 and r["keys"] else ("caught" if r["rc"] == 1 else ("MISSED" if r["rc"] == 0 else "machinery failure"))))
    rows.append("| %s | %s | %s | %s |" % (sid, m.get("summary", "").replace("|", "/").replace("\n", " ")[:230],
                                          m.get("needs", "").replace("|", "/").replace("\n", " ")[:200], "; ".join(det)))
print("| id | change | needs to manifest | quick check verdict |\n|---|---|---|---|")
print("\n".join(rows))
