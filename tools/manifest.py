"""Regenerate MANIFEST.json from tools/claims.json (the per-property claims) so the
manifest is always valid and not_applicable is always the complement."""
import json, os
V = os.path.dirname(os.path.dirname(os.path.abspath(__file__)))
claims = json.load(open(os.path.join(V, "tools", "claims.json")))
props = [json.loads(l)["id"] for l in open(os.path.join(V, "properties.jsonl"))]
m = {
 "version": 1,
 "setup_cmd": "./check setup",
 "hooks": {"guard": "QUCUMBER_VERIF",
           "enable": "no source hooks in /repo: every check observes through public arguments (callbacks=, optimizer=, scheduler=) and harness-side wrappers installed on instances / module attributes; ./check exports QUCUMBER_VERIF=1 for uniformity",
           "baseline_off_cmd": "cd /repo && /venv/bin/python -m pytest -ra -q -p no:cacheprovider --timeout=900 --continue-on-collection-errors",
           "source_commits": [], "add_only": True},
 "engines": [{"name": "tlc", "path": "/opt/veriftools/tla/tla2tools.jar",
              "serves_properties": sorted(claims["checks"].keys()),
              "kind_free_text": "TLC 1.8 explicit-state model checker (+ CommunityModules) over the TLA+ specifications in /verif/spec; conformance harness in /verif/harness (spec behaviours replayed into the Python implementation, recorded implementation traces validated by Trace*.tla)"}],
 "checks": [], "not_applicable": [],
 "notes": "Single entry point ./check <id> --tier quick|thorough. Exit 0 held, 1 violation (VIOLATION line), 2 machinery failure. known_findings.json lists recorded findings and fixed defects. Lines starting EXTENSION-FINDING report disagreements in behaviour no listed property speaks of (Timer, LivePlotting, Logger texts, progress bar, deprecated keyword aliases): they come with a replay file and never change the exit code. VERIF_SEED selects the seed, VERIF_TLC_TIMEOUT_SCALE (default 3) multiplies every TLC time limit."}
for pid in props:
    if pid in claims["checks"]:
        c = claims["checks"][pid]
        m["checks"].append({
            "property_id": pid,
            "quick_cmd": "./check %s --tier quick" % pid,
            "thorough_cmd": "./check %s --tier thorough" % pid,
            "evidence_file": "/verif/evidence/%s.json" % pid,
            "replay_cmd_template": "./check %s --replay {path}" % pid,
            "engine": "tlc",
            "level_claimed": {"category": "model_checking", "text": c["text"], "design_ref": c.get("design_ref", "DESIGN.md section 6, " + pid)},
            "level_note": c["note"],
            "technique": c["technique"]})
    else:
        m["not_applicable"].append({"property_id": pid, "reason": claims["na"].get(pid, "check under construction (DESIGN.md section 6); claimed once its TLA+ spec and binding are committed")})
json.dump(m, open(os.path.join(V, "MANIFEST.json"), "w"), indent=1)
print("claimed:", [c["property_id"] for c in m["checks"]])
