#!/venv/bin/python
"""Write the prompt for a sub-agent that produces CORRECT, behaviour-preserving maintenance changes (to hunt
false alarms).  usage: benignprompt.py <Cnn> [...]  -> /tmp/seedpromptsB/Cnn.txt, worktree /tmp/wtB-Cnn"""
import json, os, subprocess, sys

TEXT = """You are helping to evaluate a verification framework for FALSE ALARMS, by writing realistic, CORRECT maintenance changes that it must not object to. You work ONLY inside the directory WT, which is a git worktree of the Python library QuCumber (PyTorch-based reconstruction of quantum wavefunctions / density matrices with restricted Boltzmann machines). The directory /verif is OFF LIMITS: do not read, list or search it. Do not touch /repo either. Use the interpreter /venv/bin/python.

The property that must KEEP holding:
  id: PID
  title: TITLE
  statement: STATEMENT
  quantified over: QUANT
  code it is anchored in: ANCHORS

Task: produce THREE independent changes to the library source (files under WT/qucumber/ only) in the code this property is anchored in, each of which a maintainer could plausibly commit and each of which PRESERVES the property and every documented behaviour of the public API exactly: same results up to floating-point rounding of ~1e-13 relative, same exceptions for the same inputs, same callback events in the same order, same use of the global torch random generator (the same torch random functions called in the same order with the same arguments, so that seeded runs stay bit-identical), same files written, same printed text. Aim for changes that alter the INTERNALS noticeably: a real refactor (helper extracted or inlined, loop vectorised or un-vectorised, an equivalent formula, blocking a long batch into chunks WITH the remainder handled, a cache that is correctly invalidated, private attributes or helper functions renamed or added, independent statements reordered, type checks made more general, keyword arguments passed positionally inside the library, temporaries avoided with out= or in-place operations on tensors the library itself created, extra private methods or attributes on the public classes, dtype/device handling made explicit). Do not change public signatures, defaults, documented return types or shapes, printed text, file formats, or which exceptions are raised.
Each change must (a) import, (b) pass the existing test-suite:  cd WT && /venv/bin/python -m pytest -q -p no:cacheprovider --timeout=900 --continue-on-collection-errors   (expected: 245 passed and 2 collection errors; tests/test_grads.py and tests/test_training.py fail to collect on the unchanged tree too), and (c) be checked by you for equivalence: FIRST, on the clean tree, record reference outputs for a few dozen varied inputs (including seeded sampling / training runs) into a JSON file; then apply your change and compare (bitwise for seeded sampling / training, 1e-12 relative for floating-point formulas).

For each change i in {1,2,3} write, under WT/seeded/<i>/ :
  patch.diff  - `git diff` of the change against the worktree's HEAD (apply-able with `git apply` at the repository root); reset the tree between the changes (git checkout -- qucumber) so that each patch stands alone;
  demo.py     - your equivalence check, run as `cd WT && PYTHONPATH=WT /venv/bin/python seeded/<i>/demo.py`; it must exit 0 with the patch applied AND on the unchanged tree (it compares with the reference values stored next to it, e.g. seeded/<i>/reference.json);
  meta.json   - {"property": "PID", "summary": "...what the change does...", "why_equivalent": "...", "ran": ["commands you ran and their outcome"]}
(scipy is not installed: qucumber.utils.training_statistics cannot be imported unless you first put a stub module named scipy.linalg with a function sqrtm into sys.modules.)
Leave the worktree's qucumber/ directory clean at the end (git checkout -- qucumber). IMPORTANT: never use `git stash` (shared between sibling worktrees); save diffs to files under /tmp instead. Report, for each change, one paragraph: what it restructures and why behaviour is preserved, and the test-suite / demo outcomes you observed.
"""


ROUND = os.environ.get("BROUND", "B")       # a second round: BROUND=B2 -> worktrees /tmp/wtB2-Cnn, ids B2-Cnn-i

SECOND = """
This is a SECOND round: other engineers already wrote the changes listed below for this property - write DIFFERENT ones (other functions, other kinds of change). This time prefer changes of these kinds, as long as they are provably equivalent: a defensive copy removed where the library itself created the tensor (never one of a caller's tensor); a copy ADDED; a default argument spelled out or a spelled-out default removed INSIDE the library's own calls; `x.clone()` replaced by an equivalent construction; a private helper that changes the ORDER in which the library reads (not writes) its parameters; float32 constants promoted to float64 where the result is bit-identical; an early `return` for a trivial case that returns exactly what the general path returns; the exception message (not the class) of an internal error reworded; extra private attributes / methods / class-level constants; `isinstance` checks widened to accept what was accepted before through duck typing; local imports moved to module level; a loop over `self.networks` unrolled or rolled up. Use OMP_NUM_THREADS=4 for every python / pytest process you start.
Earlier changes for this property (do not repeat):
EARLIER
"""


def main():
    props = {json.loads(l)["id"]: json.loads(l) for l in open("/verif/properties.jsonl")}
    out = "/tmp/seedprompts" + ROUND
    os.makedirs(out, exist_ok=True)
    for pid in sys.argv[1:]:
        p = props[pid]
        wt = "/tmp/wt%s-%s" % (ROUND, pid)
        if not os.path.isdir(wt):
            r = subprocess.run(["git", "-C", "/repo", "worktree", "add", "--detach", wt, "HEAD"],
                               stdout=subprocess.PIPE, stderr=subprocess.STDOUT, text=True)
            assert r.returncode == 0, r.stdout
        txt = (TEXT.replace("WT", wt).replace("PID", pid).replace("TITLE", p["title"]).replace("STATEMENT", p["statement"])
               .replace("QUANT", p.get("quantifier", {}).get("text", "")).replace("ANCHORS", ", ".join(p.get("anchors", {}).get("files", []))))
        if ROUND != "B":
            import glob
            earlier = []
            for m in sorted(glob.glob("/verif/benign/B*-%s-*/meta.json" % pid)):
                earlier.append("  - " + json.load(open(m)).get("summary", "")[:300].replace("\n", " "))
            txt += SECOND.replace("EARLIER", "\n".join(earlier))
        with open(os.path.join(out, pid + ".txt"), "w") as fh:
            fh.write(txt)
        print(os.path.join(out, pid + ".txt"), wt)


if __name__ == "__main__":
    main()
