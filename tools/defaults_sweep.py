#!/venv/bin/python
"""Development aid: flip one default value of a public signature at a time (the commonest one-line slip of round 7) and
run the owning quick check against the mutant.  usage: defaults_sweep.py [-j N] [name-prefix ...]"""
import os, re, shutil, subprocess, sys, tempfile
from concurrent.futures import ThreadPoolExecutor

Q = "qucumber/"
M = [  # name, file, old, new, checks
    ("sample.num_samples", Q + "nn_states/neural_state.py", "def sample(self, k, num_samples=1,", "def sample(self, k, num_samples=2,", ["C05"]),
    ("probability.Z", Q + "nn_states/neural_state.py", "def probability(self, v, Z=1.0):", "def probability(self, v, Z=2.0):", ["C01"]),
    ("rbm.gibbs.overwrite", Q + "rbm/binary_rbm.py", "def gibbs_steps(self, k, initial_state, overwrite=False):", "def gibbs_steps(self, k, initial_state, overwrite=True):", ["C05", "C14"]),
    ("purif.gibbs.overwrite", Q + "rbm/purification_rbm.py", "def gibbs_steps(self, k, initial_state, overwrite=False):", "def gibbs_steps(self, k, initial_state, overwrite=True):", ["C05", "C14"]),
    ("rbm.eeg.reduce", Q + "rbm/binary_rbm.py", "def effective_energy_gradient(self, v, reduce=True):", "def effective_energy_gradient(self, v, reduce=False):", ["C03"]),
    ("purif.eeg.reduce", Q + "rbm/purification_rbm.py", "def effective_energy_gradient(self, v, reduce=True):", "def effective_energy_gradient(self, v, reduce=False):", ["C03"]),
    ("purif.gamma.eta", Q + "rbm/purification_rbm.py", "def gamma(self, v, vp, eta=1, expand=True):", "def gamma(self, v, vp, eta=-1, expand=True):", ["C02"]),
    ("purif.gamma.expand", Q + "rbm/purification_rbm.py", "def gamma(self, v, vp, eta=1, expand=True):", "def gamma(self, v, vp, eta=1, expand=False):", ["C02"]),
    ("purif.gamma_grad.expand", Q + "rbm/purification_rbm.py", "def gamma_grad(self, v, vp, eta=1, expand=False):", "def gamma_grad(self, v, vp, eta=1, expand=True):", ["C03"]),
    ("dm.pi.expand", Q + "nn_states/density_matrix.py", "def pi(self, v, vp, expand=True):", "def pi(self, v, vp, expand=False):", ["C02"]),
    ("dm.pi_grad.phase", Q + "nn_states/density_matrix.py", "def pi_grad(self, v, vp, phase=False, expand=False):", "def pi_grad(self, v, vp, phase=True, expand=False):", ["C03"]),
    ("dm.rho.expand", Q + "nn_states/density_matrix.py", "def rho(self, v, vp=None, expand=True):", "def rho(self, v, vp=None, expand=False):", ["C02"]),
    ("obs.sample.num_samples", Q + "observables/observable.py", "def sample(self, nn_state, k, num_samples=1,", "def sample(self, nn_state, k, num_samples=2,", ["C13", "C14"]),
    ("obs.stats.steps", Q + "observables/observable.py", "        steps=1,\n        initial_state=None,", "        steps=2,\n        initial_state=None,", ["C13"]),
    ("obs.stats.burn", Q + "observables/observable.py", "        burn_in=1000,", "        burn_in=100,", ["C13"]),
    ("obs.stats.chains", Q + "observables/observable.py", "        num_chains=0,", "        num_chains=1,", ["C13"]),
    ("sys.stats.steps", Q + "observables/system.py", "        steps=1,", "        steps=2,", ["C13"]),
    ("sys.stats.burn", Q + "observables/system.py", "        burn_in=1000,", "        burn_in=100,", ["C13"]),
    ("sys.stats.overwrite", Q + "observables/system.py", "        overwrite=False,", "        overwrite=True,", ["C13", "C14"]),
    ("obs.stats.overwrite", Q + "observables/observable.py", "        steps=1,\n        initial_state=None,\n        overwrite=False,", "        steps=1,\n        initial_state=None,\n        overwrite=True,", ["C13", "C14"]),
    ("sigmax.absolute", Q + "observables/pauli.py", "class SigmaX(ObservableBase):", "class SigmaX(ObservableBase):\n    _flip = 1", ["C08"]),   # placeholder replaced below
    ("nn.periodic", Q + "observables/interactions.py", "def __init__(self, periodic_bcs=False, c=1):", "def __init__(self, periodic_bcs=True, c=1):", ["C08"]),
    ("nn.c", Q + "observables/interactions.py", "def __init__(self, periodic_bcs=False, c=1):", "def __init__(self, periodic_bcs=False, c=2):", ["C08"]),
    ("fit.k.positive", Q + "nn_states/positive_wavefunction.py", "        k=1,", "        k=2,", ["C06"]),
    ("fit.k.complex", Q + "nn_states/complex_wavefunction.py", "        k=1,", "        k=2,", ["C06"]),
    ("fit.lr.positive", Q + "nn_states/positive_wavefunction.py", "        lr=1e-3,", "        lr=1e-2,", ["C06"]),
    ("fit.starting_epoch.complex", Q + "nn_states/complex_wavefunction.py", "        starting_epoch=1,", "        starting_epoch=0,", ["C12", "C17"]),
    ("fit.time.positive", Q + "nn_states/positive_wavefunction.py", "        time=False,", "        time=True,", ["C12"]),
    ("fit.pos_batch.density", Q + "nn_states/density_matrix.py", "        pos_batch_size=100,", "        pos_batch_size=10,", ["C07"]),
    ("fit.epochs.positive", Q + "nn_states/positive_wavefunction.py", "        epochs=100,", "        epochs=10,", ["C12"]),
    ("seed.cpu", Q + "__init__.py", "def set_random_seed(seed, cpu=True, gpu=False, quiet=False):", "def set_random_seed(seed, cpu=False, gpu=False, quiet=False):", ["C14"]),
    ("timer.verbose", Q + "callbacks/timer.py", "def __init__(self, verbose=True):", "def __init__(self, verbose=False):", ["C12"]),
    ("get_value.index", Q + "callbacks/metric_evaluator.py", "def get_value(self, name, index=None):", "def get_value(self, name, index=0):", ["C17"]),
    ("obs.get_value.index", Q + "callbacks/observable_evaluator.py", "def get_value(self, name, index=None):", "def get_value(self, name, index=0):", ["C17"]),
    ("rotate.include_extras", Q + "utils/unitaries.py", "include_extras=False", "include_extras=True", ["C04"]),
    ("einsum.imag_part", Q + "utils/cplx.py", "imag_part=True", "imag_part=False", ["C15"]),
    ("autoload.gpu", Q + "nn_states/positive_wavefunction.py", "def autoload(location, gpu=True):", "def autoload(location, gpu=False):", ["C11"]),
    ("rbm.zero_weights", Q + "rbm/binary_rbm.py", "def __init__(self, num_visible, num_hidden=None, zero_weights=False, gpu=True):", "def __init__(self, num_visible, num_hidden=None, zero_weights=True, gpu=True):", ["C20"]),
]
M = [m for m in M if m[0] != "sigmax.absolute"]
args = sys.argv[1:]
jobs = 3
if args[:1] == ["-j"]:
    jobs = int(args[1]); args = args[2:]
M = [m for m in M if not args or any(m[0].startswith(a) for a in args)]


def one(m):
    name, f, old, new, checks = m
    d = tempfile.mkdtemp(prefix="verif-dflt-")
    try:
        shutil.copytree("/repo/qucumber", os.path.join(d, "qucumber"))
        p = os.path.join(d, f)
        s = open(p).read()
        n = s.count(old)
        if n == 0:
            return name, "pattern not found"
        open(p, "w").write(s.replace(old, new, 1))
        out = {}
        for c in checks:
            r = subprocess.run(["/verif/check", c, "--tier", "quick"], env=dict(os.environ, VERIF_REPO=d),
                               stdout=subprocess.PIPE, stderr=subprocess.STDOUT, text=True)
            keys = sorted(set(re.findall(r"^  key=(.*)$", r.stdout, re.M)))[:2]
            out[c] = (r.returncode, keys)
            if r.returncode == 1:
                break
        print(name, out, "(pattern x%d)" % n, flush=True)
        return name, out
    finally:
        shutil.rmtree(d, ignore_errors=True)


with ThreadPoolExecutor(jobs) as ex:
    res = list(ex.map(one, M))
missed = [n for n, o in res if not (isinstance(o, dict) and any(v[0] == 1 for v in o.values()))]
print("mutants: %d  not caught: %s" % (len(res), missed))
