#!/venv/bin/python
"""Run the checks against a behaviour-preserving change (false-alarm hunting).
usage: benigneval.py <dir with patch.diff demo.py meta.json> <id> [<check> ...]
Scratch git worktree of /repo (outside /repo and /verif), removed afterwards.  Confirms that the change applies,
its own equivalence demo passes and the 245 tests pass; then runs every check whose property is anchored in a file
the patch touches (or the checks named).  Everything is stored under /verif/benign/<id>/ ; exit status 1 if a check
did not hold (to be analysed: a false alarm of the check, or a change that is not benign after all)."""
import json, os, re, shutil, subprocess, sys, tempfile
src, bid, checks = sys.argv[1], sys.argv[2], sys.argv[3:]
run = lambda *a, **k: subprocess.run(*a, stdout=subprocess.PIPE, stderr=subprocess.STDOUT, text=True, **k)
patch = open(os.path.join(src, "patch.diff")).read()
touched = sorted(set(re.findall(r"^\+\+\+ b/(\S+)", patch, re.M)))
if not checks:
    for l in open("/verif/properties.jsonl"):
        p = json.loads(l)
        if set(p.get("anchors", {}).get("files", [])) & set(touched):
            checks.append(p["id"])
if len(checks) > 8:
    # a change in a file most properties are anchored in: the owner and the checks whose recorders sit closest to
    # fit() / sample() / statistics()
    own = re.match(r"B\d*-(C\d+)-", bid)
    keep = {"C05", "C06", "C07", "C12", "C13", "C14", "C17", "C20"} | ({own.group(1)} if own else set())
    checks = [c for c in checks if c in keep]
scratch = tempfile.mkdtemp(prefix="verif-benign-")
os.rmdir(scratch)
out = dict(touched=touched)
try:
    r = run(["git", "-C", "/repo", "worktree", "add", "--detach", scratch, "HEAD"]); assert r.returncode == 0, r.stdout
    env = dict(os.environ, PYTHONPATH=scratch, PYTHONDONTWRITEBYTECODE="1")
    shutil.copytree(src, os.path.join(scratch, "seeded", "x"))
    r = run(["git", "apply", os.path.join(os.path.abspath(src), "patch.diff")], cwd=scratch); out["apply_rc"] = r.returncode
    r = run(["/venv/bin/python", "-B", "seeded/x/demo.py"], cwd=scratch, env=env); out["demo_patched_rc"] = r.returncode
    out["demo_tail"] = r.stdout[-400:]
    shutil.rmtree(os.path.join(scratch, "seeded"), ignore_errors=True)
    tests = subprocess.Popen(["/venv/bin/python", "-m", "pytest", "-q", "-p", "no:cacheprovider", "--timeout=900",
                              "--continue-on-collection-errors"], cwd=scratch, stdout=subprocess.PIPE, stderr=subprocess.STDOUT, text=True,
                             env=dict(os.environ, PYTHONDONTWRITEBYTECODE="1"))
    out["checks"] = {}
    def one(c):
        r = run(["/verif/check", c, "--tier", "quick"], env=dict(os.environ, VERIF_REPO=scratch, VERIF_OUT=os.path.join(scratch, ".verif-out", c)))
        keys = sorted(set(re.findall(r"^  key=(.*)$", r.stdout, re.M)))
        return c, dict(rc=r.returncode, keys=keys[:12], tail=r.stdout[-1500:] if r.returncode else "")
    from concurrent.futures import ThreadPoolExecutor
    with ThreadPoolExecutor(4) as ex:
        for c, v in ex.map(one, checks):
            out["checks"][c] = v
    tout, _ = tests.communicate()
    m = re.search(r"(\d+) passed", tout)
    out["tests_passed"] = int(m.group(1)) if m else None
finally:
    subprocess.run(["git", "-C", "/repo", "worktree", "remove", "--force", scratch], stdout=subprocess.DEVNULL, stderr=subprocess.DEVNULL)
    shutil.rmtree(scratch, ignore_errors=True)
dst = os.path.join("/verif/benign", bid)
os.makedirs(dst, exist_ok=True)
for f in os.listdir(src):
    if os.path.isfile(os.path.join(src, f)) and os.path.getsize(os.path.join(src, f)) < 400000:
        shutil.copy(os.path.join(src, f), dst)
meta = json.load(open(os.path.join(src, "meta.json")))
meta["verified"] = out
alarms = [c for c, v in out.get("checks", {}).items() if v["rc"] != 0]
meta["alarms"] = alarms
json.dump(meta, open(os.path.join(dst, "meta.json"), "w"), indent=1)
ok = out.get("apply_rc") == 0 and out.get("demo_patched_rc") == 0 and out.get("tests_passed") == 245
print(bid, "benign-confirmed=%s" % ok, {c: (v["rc"], v["keys"][:3]) for c, v in out.get("checks", {}).items()},
      "tests=%s demo=%s" % (out.get("tests_passed"), out.get("demo_patched_rc")))
sys.exit(1 if alarms else 0)
