#!/bin/sh
# run every registered check of one tier against /repo; one summary line each
# usage: tools/runall.sh [-j N] [quick|thorough] [Cnn ...]      (N checks at a time, default 1; logs in /tmp/verif-runall)
cd "$(dirname "$0")/.." || exit 2
jobs=1
if [ "$1" = "-j" ]; then jobs=$2; shift 2; fi
tier=${1:-quick}; [ $# -gt 0 ] && shift
ids=${*:-C01 C02 C03 C04 C05 C06 C07 C08 C09 C10 C11 C12 C13 C14 C15 C16 C17 C18 C19 C20}
mkdir -p /tmp/verif-runall
one() {
  c=$1; s=$(date +%s)
  ./check "$c" --tier "$tier" > /tmp/verif-runall/$c.$tier.log 2>&1; rc=$?
  e=$(date +%s)
  echo "$c $tier rc=$rc $((e-s))s $(tail -1 /tmp/verif-runall/$c.$tier.log | cut -c1-160)"
  return $rc
}
if [ "$jobs" -le 1 ]; then
  bad=0
  for c in $ids; do one "$c" || bad=1; done
  exit $bad
fi
# parallel: the long checks first
order=""
for c in C03 C01 C02 C05 C04 C12 C10 C17 C18 C06 C07 C08 C09 C11 C13 C14 C15 C16 C19 C20; do
  case " $ids " in *" $c "*) order="$order $c";; esac
done
out=$(mktemp)
for c in $order; do echo "$c"; done | xargs -P "$jobs" -I{} sh -c '
  c={}; s=$(date +%s)
  ./check "$c" --tier '"$tier"' > /tmp/verif-runall/$c.'"$tier"'.log 2>&1; rc=$?
  e=$(date +%s)
  echo "$c '"$tier"' rc=$rc $((e-s))s $(tail -1 /tmp/verif-runall/$c.'"$tier"'.log | cut -c1-160)"' | tee "$out"
bad=0
grep -q "rc=[12]" "$out" && bad=1
rm -f "$out"
exit $bad
