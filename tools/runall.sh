#!/bin/sh
# run every registered check of one tier against /repo, sequentially; one summary line each
# usage: tools/runall.sh [quick|thorough] [Cnn ...]
cd "$(dirname "$0")/.." || exit 2
tier=${1:-quick}; [ $# -gt 0 ] && shift
ids=${*:-C01 C02 C03 C04 C05 C06 C07 C08 C09 C10 C11 C12 C13 C14 C15 C16 C17 C18 C19 C20}
mkdir -p /tmp/verif-runall
bad=0
for c in $ids; do
  s=$(date +%s)
  ./check "$c" --tier "$tier" > /tmp/verif-runall/$c.$tier.log 2>&1; rc=$?
  e=$(date +%s)
  echo "$c $tier rc=$rc $((e-s))s $(tail -1 /tmp/verif-runall/$c.$tier.log | cut -c1-160)"
  [ $rc -ne 0 ] && bad=1
done
exit $bad
