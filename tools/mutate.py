#!/venv/bin/python
"""Development aid: apply a textual mutation (or a patch file) to a scratch copy of
/repo (outside /repo and /verif), run the given checks against it with VERIF_REPO,
delete the copy.  usage: mutate.py [--patch p.diff | --file F --old S --new S] -- C07 C12 [--tier quick]"""
import argparse, os, shutil, subprocess, sys, tempfile
ap = argparse.ArgumentParser()
ap.add_argument("--patch"); ap.add_argument("--file"); ap.add_argument("--old"); ap.add_argument("--new")
ap.add_argument("--tier", default="quick")
ap.add_argument("checks", nargs="+")
a = ap.parse_args()
d = tempfile.mkdtemp(prefix="verif-mut-")
try:
    shutil.copytree("/repo/qucumber", os.path.join(d, "qucumber"))
    if a.patch:
        subprocess.run(["patch", "-p1", "-s", "-d", d, "-i", os.path.abspath(a.patch)], check=True)
    else:
        p = os.path.join(d, a.file)
        s = open(p).read()
        if s.count(a.old) != 1:
            sys.exit("pattern occurs %d times" % s.count(a.old))
        open(p, "w").write(s.replace(a.old, a.new))
    rc = {}
    for c in a.checks:
        r = subprocess.run(["/verif/check", c, "--tier", a.tier], env=dict(os.environ, VERIF_REPO=d),
                           stdout=subprocess.PIPE, stderr=subprocess.STDOUT, text=True)
        lines = [l for l in r.stdout.splitlines() if l.startswith(("VIOLATION", "  key=", c, "MACHINERY", "KNOWN"))]
        print("\n".join(lines[:8]))
        rc[c] = r.returncode
    print("RESULT", rc)
finally:
    shutil.rmtree(d, ignore_errors=True)
