#!/bin/sh
# evaluate everything sub-agents have left behind and that is not yet under /verif/seeded or /verif/benign, 3 at a time
# usage: tools/evalall.sh <round>
r=${1:-5}
cd /verif || exit 2
{
for d in /tmp/wt$r-C*/seeded/[1234]; do
  [ -f $d/patch.diff ] && [ -f $d/meta.json ] || continue
  c=$(echo $d | sed "s#/tmp/wt$r-\(C[0-9]*\)/seeded/.*#\1#"); i=$(basename $d)
  [ -d /verif/seeded/$c-r$r-$i ] || echo "tools/seedeval.py $d $c-r$r-$i $c"
done
for B in B B2; do
for d in /tmp/wt$B-C*/seeded/[123]; do
  [ -f $d/patch.diff ] && [ -f $d/meta.json ] || continue
  c=$(echo $d | sed "s#/tmp/wt$B-\(C[0-9]*\)/seeded/.*#\1#"); i=$(basename $d)
  [ -d /verif/benign/$B-$c-$i ] || echo "tools/benigneval.py $d $B-$c-$i"
done
done
} | xargs -P 3 -I{} sh -c '{} 2>&1 | tail -1'
