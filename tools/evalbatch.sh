#!/bin/sh
# evaluate what sub-agents left behind, sequentially
# usage: tools/evalbatch.sh benign Cnn...   |   tools/evalbatch.sh seed <round> Cnn...
kind=$1; shift
cd /verif || exit 2
if [ "$kind" = benign ]; then
  for c in "$@"; do for i in 1 2 3; do
    d=/tmp/wtB-$c/seeded/$i
    [ -f $d/patch.diff ] && [ ! -d /verif/benign/B-$c-$i ] && tools/benigneval.py $d B-$c-$i 2>&1 | tail -1
  done; done
else
  r=$1; shift
  for c in "$@"; do for i in 1 2; do
    d=/tmp/wt$r-$c/seeded/$i
    [ -f $d/patch.diff ] && [ ! -d /verif/seeded/$c-r$r-$i ] && tools/seedeval.py $d $c-r$r-$i $c 2>&1 | tail -1
  done; done
fi
