------------------------------ MODULE KronSweep ------------------------------
(* qucumber.utils.unitaries._kron_mult as a state machine, and rotate_psi /
   rotate_rho built on it (property C04).

       l, r = prod(n), 1 ; y = x.clone()
       for s in reversed(range(len(n))):          <- one SweepSite step per site
           l //= n[s]
           for k in range(l): for i in range(r):
               slc = slice(k*n[s]*r + i, (k+1)*n[s]*r + i, r)
               y[:, slc, ...] = matmul(m_s, y[:, slc, ...])
           r *= n[s]
   rotate_psi = one sweep on the vector; rotate_rho = sweep on the matrix (rows),
   conjugate-transpose, sweep again.

   y holds Gaussian integers: the true value is y * 2^(-f/2), f = number of
   processed sites whose letter carries the factor 2^(-1/2).  Sites are 1..n here
   (library site s-1); array position p (0-based) is sequence index p+1. *)
EXTENDS Unitaries, FiniteSets, TLC, Json

CONSTANTS BasisSet,          \* basis strings explored (sequences of letters)
          GenPsi(_),         \* n |-> set of seeded generic Gaussian-integer vectors of length 2^n
          GenRho(_),         \* n |-> set of seeded Hermitian matrices, non-zero imaginary off-diagonals
          GenGram(_),        \* n |-> set of seeded 2^n x m matrices A; the input is the PSD matrix A A^H
          Selected(_, _, _), \* (basis, kind, fam) |-> BOOLEAN: is this input family explored for the string
          Exported(_, _, _)  \* (basis, kind, fam) |-> BOOLEAN: are its cases printed for the replay

VARIABLES pc,      \* "pick" | "sweep" | "conj" | "done"
          basis,   \* the basis string
          kind,    \* "psi" (vector, rotate_psi) | "rho" (matrix, rotate_rho)
          fam,     \* input family: "unit" | "herm" | "gen" | "gram"
          x,       \* the input array
          y,       \* the array being rotated in place
          dx,      \* ghost: Dense(basis) applied to x (materialised once per case)
          s,       \* next site to process (n down to 1; 0 = sweep finished)
          l, r,    \* the algorithm's stride variables
          ph       \* sweep number (1; 2 = second sweep of rotate_rho)
vars == <<pc, basis, kind, fam, x, y, dx, s, l, r, ph>>

n == Len(basis)
N == Pow2(Len(basis))

\* ---- input families ----
PsiFamily(m, f) == CASE f = "unit" -> UnitVecs(Pow2(m)) [] f = "gen" -> GenPsi(m) [] OTHER -> {}
RhoFamily(m, f) == CASE f = "herm" -> HermBasis(Pow2(m)) [] f = "gen" -> GenRho(m)
                     [] f = "gram" -> {Gram(A) : A \in GenGram(m)} [] OTHER -> {}
Families == {"unit", "herm", "gen", "gram"}

Init == /\ pc = "pick" /\ basis \in BasisSet
        /\ kind = "" /\ fam = "" /\ x = <<>> /\ y = <<>> /\ dx = <<>>
        /\ s = 0 /\ l = 0 /\ r = 0 /\ ph = 0

Start(kd, f, inp) ==
    /\ kind' = kd /\ fam' = f /\ x' = inp
    /\ y' = inp                                          \* y = x.clone()
    /\ dx' = IF kd = "psi" THEN MatVec(Dense(basis), inp) ELSE MatMul(Dense(basis), inp)
    /\ s' = n /\ l' = N /\ r' = 1 /\ ph' = 1             \* l, r = prod(n), 1
    /\ pc' = "sweep"
    /\ UNCHANGED basis

Pick == /\ pc = "pick"
        /\ \E f \in Families :
             \/ Selected(basis, "psi", f) /\ \E inp \in PsiFamily(n, f) : Start("psi", f, inp)
             \/ Selected(basis, "rho", f) /\ \E inp \in RhoFamily(n, f) : Start("rho", f, inp)

\* the two (0-based) positions of  slice(k*2*rr + i, (k+1)*2*rr + i, rr)
SlicePos(k, i, rr) == <<k * 2 * rr + i, k * 2 * rr + i + rr>>

\* y[:, slc, ...] = matmul(M, y[:, slc, ...]) for every slice (k, i): position p lies in slice
\* (p div 2rr, p mod rr) at offset a = (p div rr) mod 2 (SlicesPartition); the new entry there is
\* row a of M applied to the slice's two old entries.  For a matrix the entries are rows.
SweepVec(M, yy, rr) == [p \in 1..Len(yy) |->
    LET sl == SlicePos((p - 1) \div (2 * rr), (p - 1) % rr, rr)
        a  == ((p - 1) \div rr) % 2
    IN  GAdd(GMul(M[a + 1][1], yy[sl[1] + 1]), GMul(M[a + 1][2], yy[sl[2] + 1]))]
SweepMat(M, yy, rr) == [p \in 1..Len(yy) |->
    LET sl == SlicePos((p - 1) \div (2 * rr), (p - 1) % rr, rr)
        a  == ((p - 1) \div rr) % 2
    IN  [c \in 1..Len(yy[p]) |-> GAdd(GMul(M[a + 1][1], yy[sl[1] + 1][c]), GMul(M[a + 1][2], yy[sl[2] + 1][c]))]]

SweepSite ==
    /\ pc = "sweep" /\ s >= 1
    /\ LET l2 == l \div 2                               \* l //= n[s]
           M  == U(basis[s])                            \* m = matrices[s]
       IN  /\ y' = IF kind = "psi" THEN SweepVec(M, y, r) ELSE SweepMat(M, y, r)
           /\ l' = l2
           /\ r' = r * 2                                \* r *= n[s]
    /\ s' = s - 1
    /\ pc' = IF s > 1 THEN "sweep" ELSE IF kind = "rho" /\ ph = 1 THEN "conj" ELSE "done"
    /\ UNCHANGED <<basis, kind, fam, x, dx, ph>>

\* rho_r = _kron_mult(us, cplx.conjugate(rho_r)): conjugate-transpose, then a fresh sweep
ConjStep ==
    /\ pc = "conj"
    /\ y' = ConjT(y)
    /\ s' = n /\ l' = N /\ r' = 1 /\ ph' = 2
    /\ pc' = "sweep"
    /\ UNCHANGED <<basis, kind, fam, x, dx>>

Next == Pick \/ SweepSite \/ ConjStep

\* ---- invariants ----
Live == pc # "pick"

TypeOK == Live => /\ kind \in {"psi", "rho"} /\ fam \in Families /\ s \in 0..n /\ ph \in 1..2
                  /\ Len(x) = N /\ Len(y) = N
                  /\ kind = "rho" => \A i \in 1..N : Len(x[i]) = N /\ Len(y[i]) = N

\* stride bookkeeping and the slices of one site partition the positions
Strides == Live => /\ l * r = N
                   /\ r = Pow2(n - s)
SlicesPartition == (pc = "sweep" /\ s >= 1) =>
    LET l2 == l \div 2
        pos == {SlicePos(k, i, r)[j] : k \in 0..(l2 - 1), i \in 0..(r - 1), j \in 1..2}
    IN  /\ pos = 0..(N - 1)
        /\ Cardinality((0..(l2 - 1)) \X (0..(r - 1)) \X (1..2)) = N
        /\ \A p \in 0..(N - 1) : SlicePos(p \div (2 * r), p % r, r)[((p \div r) % 2) + 1] = p

\* the unitary applied so far: sites s+1..n rotated, sites 1..s untouched
Partial(s0) == Dense([t \in 1..n |-> IF t <= s0 THEN "Z" ELSE basis[t]])

\* after sites s+1..n the partial product has been applied; at s = 0 this is y = Dense * x
SweepRefinesDense == Live =>
    /\ (ph = 1 /\ kind = "psi") => SameVec(y, MatVec(Partial(s), x))
    /\ (ph = 1 /\ kind = "rho") => SameMat(y, MatMul(Partial(s), x))
    /\ (ph = 2 /\ pc # "conj")  => SameMat(y, MatMul(Partial(s), ConjT(dx)))
    /\ (s = 0 /\ ph = 1) => y = dx

\* rotate_rho returns Dense rho Dense^H (rho Hermitian)
RhoRotated == (pc = "done" /\ kind = "rho") =>
    /\ SameMat(y, MatMul(dx, ConjT(Dense(basis))))
    /\ IsHermitian(y)

InputsOK == Live =>
    /\ kind = "rho" => IsHermitian(x)
    /\ (kind = "rho" /\ fam \in {"gen", "gram"}) => ~IsSymmetric(x)      \* rho # rho^T
    /\ (kind = "psi" /\ fam = "gen") => \A p \in 1..N : x[p][1] # 0 /\ x[p][2] # 0

\* probabilities of a physical state: real, summing to the normalisation (times 2^NFac in
\* integer units) in every basis, and non-negative when rho is PSD by construction
Physical == pc = "done" =>
    /\ kind = "psi" => ISumUpTo([p \in 1..N |-> GNorm2(y[p])], N)
                         = Pow2(NFac(basis)) * ISumUpTo([p \in 1..N |-> GNorm2(x[p])], N)
    /\ kind = "rho" => /\ \A p \in 1..N : y[p][p][2] = 0
                       /\ TraceRe(y) = Pow2(NFac(basis)) * TraceRe(x)
    /\ (kind = "rho" /\ fam = "gram") => \A p \in 1..N : y[p][p][1] >= 0

Export == (pc = "done" /\ Exported(basis, kind, fam)) =>
    PrintT(ToJson([basis |-> basis, nfac |-> NFac(basis), kind |-> kind, fam |-> fam, x |-> x, y |-> y]))
=============================================================================
