------------------------------ MODULE TrainInd ------------------------------
(***************************************************************************)
(* History-free control skeleton of NeuralStateBase.fit                    *)
(* (qucumber/nn_states/neural_state.py:558-636), the same actions, pc      *)
(* labels and guards as Train.tla, but over integers and booleans only:    *)
(* no configuration record, no permutation, no event history.  What the    *)
(* history carried in Train.tla is carried here by ghost counters.         *)
(*                                                                         *)
(* Purpose: an UNBOUNDED safety argument for the stop protocol of C12.     *)
(* IndInv below is an inductive invariant,                                 *)
(*      Init => IndInv          and          IndInv /\ Next => IndInv',    *)
(* discharged by Apalache (SMT, integers unbounded) for ALL startEp,       *)
(* epochs, nb, nets, scheduler on/off and every pattern of stop requests,  *)
(* where TLC explores Train.tla only up to a bound.  TLC also checks this  *)
(* module on small bounds (MCInit...) so that the two tools agree.         *)
(*                                                                         *)
(* The environment (callbacks) may request a stop during every callback    *)
(* dispatch (TS, ES, BS, BE, EE, TE), any number of times, and never       *)
(* clears the flag.                                                        *)
(***************************************************************************)
EXTENDS Integers

VARIABLES
    \* @type: Str;
    pc,          \* control point: the event that happens next (labels of Train.tla)
    \* @type: Int;
    ep,          \* current epoch
    \* @type: Int;
    b,           \* current batch index, 0-based
    \* @type: Int;
    net,         \* index of the network whose gradient is assigned next
    \* @type: Bool;
    stop,        \* nn_state.stop_training
    \* @type: Int;
    pver,        \* parameter version: number of optimizer steps applied
    \* @type: Int;
    sched,       \* number of scheduler steps
    (* parameters of the run: arbitrary, never change *)
    \* @type: Int;
    nb,          \* num_batches, any integer >= 1
    \* @type: Int;
    nets,        \* number of networks, any integer >= 1
    \* @type: Int;
    startEp,     \* starting_epoch, any integer
    \* @type: Int;
    epochs,      \* index of the last epoch, any integer
    \* @type: Bool;
    hasSched,    \* a scheduler was given
    (* ghosts: what an observer of the events could have counted *)
    \* @type: Bool;
    entryStop,   \* stop flag when fit() was entered
    \* @type: Int;
    pver0,       \* parameter version when fit() was entered
    \* @type: Bool;
    everStop,    \* a stop has been in force at some point
    \* @type: Bool;
    stopAtEnd,   \* a stop was in force at the end of a batch-end or epoch-end dispatch
    \* @type: Int;
    afterStop,   \* shuffles + epoch-starts + batch-starts that happened while stopAtEnd
    \* @type: Int;
    bsLate,      \* batch-starts dispatched although a stop was already in force before them
    \* @type: Int;
    esLate,      \* epoch-starts dispatched although a stop was already in force before them
    \* @type: Int;
    started,     \* batch-starts of the current epoch
    \* @type: Int;
    ended,       \* batch-ends of the current epoch
    \* @type: Int;
    pverAtBS,    \* parameter version seen by the latest batch-start
    \* @type: Int;
    nTS,         \* number of train-start / epoch-start / epoch-end / train-end /
    \* @type: Int;
    nES,         \* batch-start / batch-end events of the run so far
    \* @type: Int;
    nEE,
    \* @type: Int;
    nTE,
    \* @type: Int;
    nBS,
    \* @type: Int;
    nBE

params == <<nb, nets, startEp, epochs, hasSched, entryStop, pver0>>
vars == <<pc, ep, b, net, stop, pver, sched, nb, nets, startEp, epochs, hasSched,
          entryStop, pver0, everStop, stopAtEnd, afterStop, bsLate, esLate,
          started, ended, pverAtBS, nTS, nES, nEE, nTE, nBS, nBE>>

PCs     == {"Entry", "TS", "SH", "ES", "BS", "CG", "ZG", "AS", "OS", "BE", "SC", "EE", "TE", "Done"}
InStep  == {"CG", "ZG", "AS", "OS"}                 \* after a batch-start, optimizer step not yet applied
InBatch == {"CG", "ZG", "AS", "OS", "BE"}           \* after a batch-start, before its batch-end
InEpoch == {"BS", "CG", "ZG", "AS", "OS", "BE", "SC", "EE"}   \* after an epoch-start, before its epoch-end

-----------------------------------------------------------------------------
(* Initial states *)

InitCore ==
    /\ pc = "Entry"
    /\ ep = -1 /\ b = -1 /\ net = 0
    /\ pver = pver0 /\ sched = 0
    /\ stop = entryStop /\ everStop = entryStop
    /\ stopAtEnd = FALSE /\ afterStop = 0 /\ bsLate = 0 /\ esLate = 0
    /\ started = 0 /\ ended = 0 /\ pverAtBS = pver0
    /\ nTS = 0 /\ nES = 0 /\ nEE = 0 /\ nTE = 0 /\ nBS = 0 /\ nBE = 0

\* every run: any integers, any flags
Init ==
    /\ nb \in Int /\ nb >= 1
    /\ nets \in Int /\ nets >= 1
    /\ startEp \in Int /\ epochs \in Int
    /\ hasSched \in BOOLEAN /\ entryStop \in BOOLEAN
    /\ pver0 \in Int
    /\ InitCore

\* the bounded runs TLC can enumerate (cross-check of the two tools)
MCInit ==
    /\ nb \in 1..3 /\ nets \in 1..2
    /\ startEp \in -1..2 /\ epochs \in -2..3
    /\ hasSched \in BOOLEAN /\ entryStop \in BOOLEAN
    /\ pver0 \in {0, 5}
    /\ InitCore

-----------------------------------------------------------------------------
(* Actions: one per action of Train.tla *)

\* a CallbackList dispatch: any callback may set the flag, none clears it
EnvStop ==
    /\ stop' \in BOOLEAN
    /\ stop => stop'
    /\ everStop' = (everStop \/ stop')

NoStopChange == UNCHANGED <<stop, everStop>>

SchedOrEE == IF hasSched THEN "SC" ELSE "EE"

\* `if self.stop_training: return`
Entry ==
    /\ pc = "Entry"
    /\ pc' = IF stop THEN "Done" ELSE "TS"
    /\ NoStopChange
    /\ UNCHANGED <<ep, b, net, pver, sched, params, stopAtEnd, afterStop, bsLate, esLate,
                   started, ended, pverAtBS, nTS, nES, nEE, nTE, nBS, nBE>>

TrainStart ==
    /\ pc = "TS"
    /\ EnvStop
    /\ nTS' = nTS + 1
    /\ IF startEp <= epochs
       THEN pc' = "SH" /\ ep' = startEp
       ELSE pc' = "TE" /\ ep' = ep
    /\ UNCHANGED <<b, net, pver, sched, params, stopAtEnd, afterStop, bsLate, esLate,
                   started, ended, pverAtBS, nES, nEE, nTE, nBS, nBE>>

\* _shuffle_data, before on_epoch_start
Shuffle ==
    /\ pc = "SH"
    /\ pc' = "ES" /\ b' = 0
    /\ started' = 0 /\ ended' = 0
    /\ afterStop' = IF stopAtEnd THEN afterStop + 1 ELSE afterStop
    /\ NoStopChange
    /\ UNCHANGED <<ep, net, pver, sched, params, stopAtEnd, bsLate, esLate,
                   pverAtBS, nTS, nES, nEE, nTE, nBS, nBE>>

EpochStart ==
    /\ pc = "ES"
    /\ EnvStop
    /\ nES' = nES + 1
    /\ esLate' = IF stop THEN esLate + 1 ELSE esLate
    /\ afterStop' = IF stopAtEnd THEN afterStop + 1 ELSE afterStop
    /\ pc' = "BS"
    /\ UNCHANGED <<ep, b, net, pver, sched, params, stopAtEnd, bsLate,
                   started, ended, pverAtBS, nTS, nEE, nTE, nBS, nBE>>

BatchStart ==
    /\ pc = "BS"
    /\ EnvStop
    /\ nBS' = nBS + 1 /\ started' = started + 1
    /\ pverAtBS' = pver
    /\ bsLate' = IF stop THEN bsLate + 1 ELSE bsLate
    /\ afterStop' = IF stopAtEnd THEN afterStop + 1 ELSE afterStop
    /\ pc' = "CG"
    /\ UNCHANGED <<ep, b, net, pver, sched, params, stopAtEnd, esLate,
                   ended, nTS, nES, nEE, nTE, nBE>>

Compute ==
    /\ pc = "CG"
    /\ pc' = "ZG"
    /\ NoStopChange
    /\ UNCHANGED <<ep, b, net, pver, sched, params, stopAtEnd, afterStop, bsLate, esLate,
                   started, ended, pverAtBS, nTS, nES, nEE, nTE, nBS, nBE>>

ZeroGrad ==
    /\ pc = "ZG"
    /\ pc' = "AS" /\ net' = 1
    /\ NoStopChange
    /\ UNCHANGED <<ep, b, pver, sched, params, stopAtEnd, afterStop, bsLate, esLate,
                   started, ended, pverAtBS, nTS, nES, nEE, nTE, nBS, nBE>>

Assign ==
    /\ pc = "AS"
    /\ IF net < nets THEN net' = net + 1 /\ pc' = "AS" ELSE net' = 0 /\ pc' = "OS"
    /\ NoStopChange
    /\ UNCHANGED <<ep, b, pver, sched, params, stopAtEnd, afterStop, bsLate, esLate,
                   started, ended, pverAtBS, nTS, nES, nEE, nTE, nBS, nBE>>

OptStep ==
    /\ pc = "OS"
    /\ pver' = pver + 1
    /\ pc' = "BE"
    /\ NoStopChange
    /\ UNCHANGED <<ep, b, net, sched, params, stopAtEnd, afterStop, bsLate, esLate,
                   started, ended, pverAtBS, nTS, nES, nEE, nTE, nBS, nBE>>

BatchEnd ==
    /\ pc = "BE"
    /\ EnvStop
    /\ nBE' = nBE + 1 /\ ended' = ended + 1
    /\ stopAtEnd' = (stopAtEnd \/ stop')
    /\ IF stop' THEN pc' = SchedOrEE /\ b' = b                     \* break
       ELSE IF b + 1 < nb THEN pc' = "BS" /\ b' = b + 1
       ELSE pc' = SchedOrEE /\ b' = b
    /\ UNCHANGED <<ep, net, pver, sched, params, afterStop, bsLate, esLate,
                   started, pverAtBS, nTS, nES, nEE, nTE, nBS>>

SchedStep ==
    /\ pc = "SC"
    /\ sched' = sched + 1
    /\ pc' = "EE"
    /\ NoStopChange
    /\ UNCHANGED <<ep, b, net, pver, params, stopAtEnd, afterStop, bsLate, esLate,
                   started, ended, pverAtBS, nTS, nES, nEE, nTE, nBS, nBE>>

EpochEnd ==
    /\ pc = "EE"
    /\ EnvStop
    /\ nEE' = nEE + 1
    /\ stopAtEnd' = (stopAtEnd \/ stop')
    /\ IF stop' THEN pc' = "TE" /\ ep' = ep                        \* break
       ELSE IF ep + 1 <= epochs THEN pc' = "SH" /\ ep' = ep + 1
       ELSE pc' = "TE" /\ ep' = ep
    /\ UNCHANGED <<b, net, pver, sched, params, afterStop, bsLate, esLate,
                   started, ended, pverAtBS, nTS, nES, nTE, nBS, nBE>>

TrainEnd ==
    /\ pc = "TE"
    /\ EnvStop
    /\ nTE' = nTE + 1
    /\ pc' = "Done"
    /\ UNCHANGED <<ep, b, net, pver, sched, params, stopAtEnd, afterStop, bsLate, esLate,
                   started, ended, pverAtBS, nTS, nES, nEE, nBS, nBE>>

Next == \/ Entry \/ TrainStart \/ Shuffle \/ EpochStart \/ BatchStart \/ Compute \/ ZeroGrad
        \/ Assign \/ OptStep \/ BatchEnd \/ SchedStep \/ EpochEnd \/ TrainEnd

Spec == Init /\ [][Next]_vars

-----------------------------------------------------------------------------
(* The inductive invariant *)

B2I(x) == IF x THEN 1 ELSE 0

TypeOK ==
    /\ pc \in PCs
    /\ ep \in Int /\ b \in Int /\ net \in Int /\ stop \in BOOLEAN /\ pver \in Int /\ sched \in Int
    /\ nb \in Int /\ nets \in Int /\ startEp \in Int /\ epochs \in Int /\ hasSched \in BOOLEAN
    /\ entryStop \in BOOLEAN /\ pver0 \in Int /\ everStop \in BOOLEAN /\ stopAtEnd \in BOOLEAN
    /\ afterStop \in Int /\ bsLate \in Int /\ esLate \in Int
    /\ started \in Int /\ ended \in Int /\ pverAtBS \in Int
    /\ nTS \in Int /\ nES \in Int /\ nEE \in Int /\ nTE \in Int /\ nBS \in Int /\ nBE \in Int
    /\ nb >= 1 /\ nets >= 1

\* nothing has happened: no event, no parameter change, no counter moved
Untouched ==
    /\ stop = entryStop /\ pver = pver0 /\ sched = 0
    /\ ep = -1 /\ b = -1 /\ net = 0
    /\ nTS = 0 /\ nES = 0 /\ nEE = 0 /\ nTE = 0 /\ nBS = 0 /\ nBE = 0
    /\ started = 0 /\ ended = 0 /\ pverAtBS = pver0
    /\ ~stopAtEnd /\ afterStop = 0 /\ bsLate = 0 /\ esLate = 0

(* S1: once a stop was in force at the end of a batch-end / epoch-end dispatch,
   no shuffle, epoch-start or batch-start happens any more (afterStop counts
   them), and control is on the way out: scheduler step, epoch-end, train-end. *)
S1 == /\ (stopAtEnd => pc \in {"SC", "EE", "TE", "Done"})
      /\ afterStop = 0

(* S2: the request persists (everStop is set by every dispatch that ends with
   the flag set and is never reset). *)
S2 == /\ stop = everStop
      /\ (stopAtEnd => stop)
      /\ (entryStop => stop)

(* S3: parameters change only in OptStep, strictly between a batch-start and its
   batch-end, exactly once per batch. *)
S3 == /\ (pc \in InStep => pver = pverAtBS)
      /\ (pc = "BE" => pver = pverAtBS + 1)
      /\ pver = pver0 + nBS - B2I(pc \in InStep)
      /\ nBE = nBS - B2I(pc \in InBatch)
      /\ pverAtBS = (IF nBS = 0 THEN pver0 ELSE pver0 + nBS - 1)

(* S4: within an epoch the batches are numbered 0, 1, 2, ... < nb (the number a
   batch-start carries is the number of batch-starts before it in this epoch),
   the epochs startEp, startEp + 1, ... <= epochs; a new epoch begins only after
   all nb batches of the previous one; without a stop at a batch/epoch end the
   run is the full schedule. *)
S4 == /\ (pc \in {"SH", "ES"} =>
             /\ startEp <= ep /\ ep <= epochs
             /\ nES = ep - startEp /\ nEE = nES)
      /\ (pc = "SH" => \/ nES = 0 /\ b = -1 /\ started = 0 /\ ended = 0
                       \/ nES > 0 /\ b = nb - 1 /\ started = nb /\ ended = nb)
      /\ (pc = "ES" => b = 0 /\ started = 0 /\ ended = 0)
      /\ (pc \in InEpoch =>
             /\ startEp <= ep /\ ep <= epochs
             /\ nES = ep - startEp + 1 /\ nEE = nES - 1
             /\ 0 <= b /\ b < nb)
      /\ (pc = "BS" => started = b /\ ended = b)
      /\ (pc \in InBatch => started = b + 1 /\ ended = b)
      /\ (pc \in {"SC", "EE"} =>
             /\ started = b + 1 /\ ended = b + 1
             /\ stopAtEnd = stop
             /\ (~stop => b + 1 = nb))
      /\ (pc \in {"TE", "Done"} /\ ~entryStop =>
             /\ nES = nEE /\ nES >= 0
             /\ (nES = 0 => /\ startEp > epochs /\ ep = -1 /\ b = -1
                            /\ started = 0 /\ ended = 0 /\ ~stopAtEnd)
             /\ (nES > 0 => /\ ep = startEp + nES - 1 /\ ep <= epochs
                            /\ 0 <= b /\ b < nb /\ started = b + 1 /\ ended = b + 1
                            /\ (pc = "TE" => stopAtEnd = stop)
                            /\ (~stopAtEnd => ep = epochs /\ b + 1 = nb)))
      \* every epoch that was begun has at least one batch
      /\ nBS >= nEE + (IF pc \in InEpoch THEN started ELSE 0)
      /\ nBS >= 0 /\ (nES = 0 => nBS = 0)

(* S5: entry with the flag already set goes straight to Done; nothing is emitted
   and nothing changes.  Otherwise train-start and train-end happen exactly once. *)
S5 == /\ (entryStop => pc \in {"Entry", "Done"})
      /\ (pc \in {"Entry", "TS"} \/ entryStop => Untouched)
      /\ (pc = "TS" => ~stop)
      /\ (pc \notin {"Entry", "TS"} /\ ~entryStop => nTS = 1)
      /\ nTE = B2I(pc = "Done" /\ ~entryStop)

(* S6 (the other cases of StopHonoured in Train.tla): a stop requested at train
   start, epoch start or batch start lets at most the one following epoch-start
   and the one following batch still begin. *)
S6 == /\ 0 <= bsLate /\ bsLate <= 1 /\ 0 <= esLate /\ esLate <= 1
      /\ (bsLate > 0 \/ esLate > 0 => stop)
      /\ (pc \in {"SH", "ES", "BS"} => bsLate = 0)
      /\ (pc \in {"SH", "ES"} => esLate = 0)
      /\ (pc \in {"SH", "ES"} /\ nES > 0 => ~stop)
      /\ (pc = "BS" /\ b > 0 => ~stop)

\* auxiliary: inner loop over the networks, scheduler once per epoch before epoch-end
Aux == /\ (pc = "AS" => 1 <= net /\ net <= nets)
       /\ (pc # "AS" => net = 0)
       /\ (pc = "SC" => hasSched)
       /\ sched = (IF hasSched THEN nEE + B2I(pc = "EE") ELSE 0)

IndInv == TypeOK /\ S1 /\ S2 /\ S3 /\ S4 /\ S5 /\ S6 /\ Aux

(* The same facts as properties of single steps (an action invariant). *)
StepInv ==
    /\ (stop => stop')                                                        \* S2
    /\ (pver' # pver => pc = "OS" /\ pc' = "BE" /\ pver' = pver + 1)          \* S3
    /\ (stopAtEnd => pc \notin {"SH", "ES", "BS"} /\ pc' \notin {"SH", "ES", "BS"})   \* S1
    /\ (pc' = "BS" => IF pc = "ES" THEN b' = 0 ELSE pc = "BE" /\ b' = b + 1 /\ ep' = ep)   \* S4
    /\ (pc = "Entry" /\ stop => pc' = "Done" /\ pver' = pver /\ nTS' = 0)      \* S5
StepProp == [][StepInv]_vars

-----------------------------------------------------------------------------
(* Deliberately broken variants (negative controls): IndInv must NOT be
   inductive for them. *)

\* the `break` after on_batch_end removed
BatchEndNoBreak ==
    /\ pc = "BE"
    /\ EnvStop
    /\ nBE' = nBE + 1 /\ ended' = ended + 1
    /\ stopAtEnd' = (stopAtEnd \/ stop')
    /\ IF b + 1 < nb THEN pc' = "BS" /\ b' = b + 1
       ELSE pc' = SchedOrEE /\ b' = b
    /\ UNCHANGED <<ep, net, pver, sched, params, afterStop, bsLate, esLate,
                   started, pverAtBS, nTS, nES, nEE, nTE, nBS>>

\* the `break` after on_epoch_end removed
EpochEndNoBreak ==
    /\ pc = "EE"
    /\ EnvStop
    /\ nEE' = nEE + 1
    /\ stopAtEnd' = (stopAtEnd \/ stop')
    /\ IF ep + 1 <= epochs THEN pc' = "SH" /\ ep' = ep + 1
       ELSE pc' = "TE" /\ ep' = ep
    /\ UNCHANGED <<b, net, pver, sched, params, afterStop, bsLate, esLate,
                   started, ended, pverAtBS, nTS, nES, nTE, nBS, nBE>>

\* on_epoch_start resets the request
EpochStartClears ==
    /\ pc = "ES"
    /\ stop' = FALSE /\ everStop' = everStop
    /\ nES' = nES + 1
    /\ esLate' = IF stop THEN esLate + 1 ELSE esLate
    /\ afterStop' = IF stopAtEnd THEN afterStop + 1 ELSE afterStop
    /\ pc' = "BS"
    /\ UNCHANGED <<ep, b, net, pver, sched, params, stopAtEnd, bsLate,
                   started, ended, pverAtBS, nTS, nEE, nTE, nBS, nBE>>

\* the scheduler step touches the parameters
SchedStepLeaks ==
    /\ pc = "SC"
    /\ sched' = sched + 1 /\ pver' = pver + 1
    /\ pc' = "EE"
    /\ NoStopChange
    /\ UNCHANGED <<ep, b, net, params, stopAtEnd, afterStop, bsLate, esLate,
                   started, ended, pverAtBS, nTS, nES, nEE, nTE, nBS, nBE>>

\* one batch too many (b + 1 <= nb)
BatchEndOffByOne ==
    /\ pc = "BE"
    /\ EnvStop
    /\ nBE' = nBE + 1 /\ ended' = ended + 1
    /\ stopAtEnd' = (stopAtEnd \/ stop')
    /\ IF stop' THEN pc' = SchedOrEE /\ b' = b
       ELSE IF b + 1 <= nb THEN pc' = "BS" /\ b' = b + 1
       ELSE pc' = SchedOrEE /\ b' = b
    /\ UNCHANGED <<ep, net, pver, sched, params, afterStop, bsLate, esLate,
                   started, pverAtBS, nTS, nES, nEE, nTE, nBS>>

\* the early return at entry removed
EntryIgnoresStop ==
    /\ pc = "Entry"
    /\ pc' = "TS"
    /\ NoStopChange
    /\ UNCHANGED <<ep, b, net, pver, sched, params, stopAtEnd, afterStop, bsLate, esLate,
                   started, ended, pverAtBS, nTS, nES, nEE, nTE, nBS, nBE>>

Common == \/ Shuffle \/ BatchStart \/ Compute \/ ZeroGrad \/ Assign \/ OptStep \/ TrainStart \/ TrainEnd

NextNoBreakBE == Common \/ Entry \/ EpochStart \/ SchedStep \/ EpochEnd \/ BatchEndNoBreak
NextNoBreakEE == Common \/ Entry \/ EpochStart \/ SchedStep \/ BatchEnd \/ EpochEndNoBreak
NextClearStop == Common \/ Entry \/ SchedStep \/ BatchEnd \/ EpochEnd \/ EpochStartClears
NextLeakyPver == Common \/ Entry \/ EpochStart \/ BatchEnd \/ EpochEnd \/ SchedStepLeaks
NextOffByOne  == Common \/ Entry \/ EpochStart \/ SchedStep \/ EpochEnd \/ BatchEndOffByOne
NextNoEarlyReturn == Common \/ EpochStart \/ SchedStep \/ BatchEnd \/ EpochEnd \/ EntryIgnoresStop

=============================================================================
