----------------------------- MODULE Lifecycle -----------------------------
(***************************************************************************)
(* C14 - operation-level model of a QuCumber session.                      *)
(*                                                                         *)
(* A session is a sequence of public operations on one neural state        *)
(* (construct, reinitialise, sample, statistics, evaluate, rotate,         *)
(* gradients, metrics, save, load, fit, set the stop flag, seed).          *)
(* What an outside observer can tell after each operation is               *)
(*   pv   - one value per internal network: the *contents* of its          *)
(*          parameter tensors,                                             *)
(*   rng  - the state of torch's CPU generator,                            *)
(*   out  - the value the operation returned.                              *)
(* All three are modelled as *terms* (uninterpreted function applications, *)
(* hash-consed into the table `tb`, so a term is a small integer): the     *)
(* only thing the model knows about a value is what it was computed from.  *)
(* Two values are "the same" exactly if they were computed by the same     *)
(* operation with the same arguments from the same parameter values and    *)
(* the same generator state.                                               *)
(*                                                                         *)
(* Every operation is given as a small *program* over the primitive        *)
(* effects of the code (one Bernoulli / randn / randperm / randint draw;   *)
(* a write to all networks), following the anchored source:                *)
(*   sample()            neural_state.py:104-131                           *)
(*   gibbs_steps()       binary_rbm.py:204-231, purification_rbm.py:309-338*)
(*   statistics()        observable.py / system.py (time-step loop)        *)
(*   fit(), _shuffle_data() neural_state.py:449-640                        *)
(*   initialize_parameters() binary_rbm.py:48-72, purification_rbm.py:81   *)
(* and, separately, the *catalogue* (TableWrites / TableDraws) states per  *)
(* operation whether it may write parameters and whether it advances the   *)
(* generator.  TLC checks the catalogue against the programs on every      *)
(* transition (ReadOnlyKeepsParams, RNGDiscipline) and runs the product of *)
(* three sessions:                                                         *)
(*   A - the reference run,                                                *)
(*   B - same operations, but the generator is in a different (unknown)    *)
(*       state before the first Seed and numpy / `random` are perturbed    *)
(*       at arbitrary points,                                              *)
(*   C - same operations with every seed replaced by a different one.      *)
(* TwoRunsAgree: A and B are indistinguishable after every common          *)
(* operation.  SeedsDiffer: A and C never share a generator state, freshly *)
(* drawn parameters or a large sample.                                     *)
(*                                                                         *)
(* TraceOps.tla reuses StepRun to validate token streams recorded from     *)
(* the implementation.                                                     *)
(***************************************************************************)
EXTENDS Integers, Sequences, FiniteSets, TLC

CONSTANTS Types,        \* state types explored: subset of {"positive", "complex", "density"}
          Seeds,        \* values the Seed operation may use
          Ks,           \* numbers of Gibbs steps
          SampleNs,     \* numbers of samples requested from Sample (>= 64 counts as a large draw)
          StatsArgs,    \* <<kind, burn_in, steps, time steps, initial state given>> variants
          EvalFns,      \* names of the pure evaluation operations
          FitArgs,      \* <<k, batch sizes differ (0/1), epochs>> variants
          MaxLen,       \* number of operations explored per session
          NpReaders,    \* operations that consult numpy / `random`  (the claim: none)
          RequireSeed,  \* TRUE: a session starts with Seed (the property's premise)
          Export        \* TRUE: keep the operation history (export / simulation runs)

VARIABLES type,         \* the state type of this session
          tb,           \* hash-consing table of terms
          ra, rb, rc,   \* the three runs
          prev,         \* <<ra, rb, rc>> before the last operation
          last,         \* the last operation
          n,            \* number of operations so far
          hist          \* the operations so far (only when Export)

vars == <<type, tb, ra, rb, rc, prev, last, n, hist>>

-----------------------------------------------------------------------------
(* Operations *)

MkOp(o, f, k, m, e, i) == [o |-> o, f |-> f, k |-> k, n |-> m, e |-> e, init |-> i]
NoOp == MkOp("None", "", 0, 0, 0, FALSE)
PerturbOp == MkOp("Perturb", "", 0, 0, 0, FALSE)

Catalogue ==
         {MkOp("Seed", "", s, 0, 0, FALSE) : s \in Seeds}
    \cup {MkOp("Construct", "", 0, 0, 0, FALSE), MkOp("Reinit", "", 0, 0, 0, FALSE)}
    \cup {MkOp("Sample", "", k, m, 0, i) : k \in Ks, m \in SampleNs, i \in BOOLEAN}
    \cup {MkOp("ObsSample", "", k, 3, 0, i) : k \in Ks, i \in BOOLEAN}
    \cup {MkOp("Stats", a[1], a[2], a[3], a[4], a[5]) : a \in StatsArgs}
    \cup {MkOp("Eval", f, 0, 0, 0, FALSE) : f \in EvalFns}
    \cup {MkOp("BatchGrads", "", k, 0, 0, FALSE) : k \in Ks}
    \cup {MkOp("Save", "", 0, 0, 0, FALSE), MkOp("Load", "", 0, 0, 0, FALSE)}
    \cup {MkOp("SetStop", "", 0, 0, 0, v) : v \in BOOLEAN}
    \cup {MkOp("Fit", "", a[1], a[2], a[3], FALSE) : a \in FitArgs}

OpNames == {"Seed", "Construct", "Reinit", "Sample", "ObsSample", "Stats", "Eval", "BatchGrads",
            "Save", "Load", "SetStop", "Fit", "Perturb"}

\* well-shaped operation (also used by the trace validator; any k, n, e >= 0)
OpOK(op) == /\ op.o \in OpNames
            /\ op.k \in Nat /\ op.n \in Nat /\ op.e \in Nat /\ op.init \in BOOLEAN
            /\ (op.o = "Stats" => op.e >= 1)

Nets(ty) == IF ty = "positive" THEN 1 ELSE 2

-----------------------------------------------------------------------------
(* Programs: number of primitive draws an operation makes, and whether it writes *)

\* one block-Gibbs step: h then v (BinaryRBM); h, a, v (PurificationRBM)
GibbsDraws(ty, k) == k * (IF ty = "density" THEN 3 ELSE 2)
\* NeuralStateBase.sample: Bernoulli(1/2) initial state unless one is given, then k Gibbs steps
SampleDraws(ty, k, given) == (IF given THEN 0 ELSE 1) + GibbsDraws(ty, k)
\* ObservableBase.statistics / System.statistics: time step 1 runs burn_in steps from the
\* initial state (drawn if not given), every later time step continues the chains for `steps`
StatsDraws(ty, op) == SampleDraws(ty, op.k, op.init) + (op.e - 1) * SampleDraws(ty, op.n, TRUE)
\* _shuffle_data: randperm always; randint unless (no bases and equal batch sizes)
NegPath(ty, op) == IF ty = "positive" THEN (IF op.n = 0 THEN "A" ELSE "B") ELSE "C"
NB == 2                 \* batches per epoch in the abstract program (any positive number)
FitDraws(ty, op, stop) ==
    IF stop THEN 0      \* fit returns immediately when stop_training is set
    ELSE op.e * (1 + (IF NegPath(ty, op) = "A" THEN 0 ELSE 1) + NB * GibbsDraws(ty, op.k))
\* initialize_parameters: one randn per weight matrix
InitDraws(ty) == Nets(ty) * (IF ty = "density" THEN 2 ELSE 1)

NDraws(ty, op, stop) ==
    CASE op.o \in {"Construct", "Reinit"} -> InitDraws(ty)
      [] op.o \in {"Sample", "ObsSample"} -> SampleDraws(ty, op.k, op.init)
      [] op.o = "Stats" -> StatsDraws(ty, op)
      [] op.o = "BatchGrads" -> GibbsDraws(ty, op.k)
      [] op.o = "Fit" -> FitDraws(ty, op, stop)
      [] OTHER -> 0
ProgWrites(ty, op, stop) ==
    \/ op.o \in {"Construct", "Reinit", "Load"}
    \/ op.o = "Fit" /\ ~stop /\ op.e >= 1          \* >= 1 optimizer step ran

(* The catalogue of the design: write-set and generator effect per operation *)
TableWrites(op) == op.o \in {"Construct", "Reinit", "Load", "Fit"}
TableDraws(op, stop) ==
    CASE op.o \in {"Construct", "Reinit"} -> TRUE
      [] op.o \in {"Sample", "ObsSample"} -> op.k > 0 \/ ~op.init
      [] op.o = "Stats" -> ~op.init \/ op.k > 0 \/ (op.e > 1 /\ op.n > 0)
      [] op.o = "BatchGrads" -> op.k > 0
      [] op.o = "Fit" -> ~stop /\ op.e >= 1
      [] OTHER -> FALSE
\* operations whose *result* carries >= 128 fair random bits (64 rows x >= 2 sites drawn
\* from Bernoulli(1/2)); freshly drawn parameters are covered separately in SeedsDiffer
BigDraw(op) == op.o = "Sample" /\ ~op.init /\ op.n >= 64

-----------------------------------------------------------------------------
(* Terms *)

NoTerm == 0
D(t, a, op, from) == [t |-> t, a |-> a, op |-> op, from |-> from]
UnkD(run)  == D("unk", run, NoOp, <<>>)        \* generator state nobody chose
SeedD(s)   == D("seed", s, NoOp, <<>>)         \* generator state right after manual_seed(s)
AdvD(r, op, x) == D("adv", r, op, x)           \* generator state r after the draws of op
WD(net, op, from) == D("w", net, op, from)     \* parameter values written by op from `from`

Intern(t, d) == IF \E i \in 1..Len(t) : t[i] = d
                THEN [tb |-> t, id |-> CHOOSE i \in 1..Len(t) : t[i] = d]
                ELSE [tb |-> Append(t, d), id |-> Len(t) + 1]

\* noise from the other random sources, visible only to operations in NpReaders
Noise(r, op) == IF op.o \in NpReaders THEN <<1000 + r.np>> ELSE <<>>

InitRun(id) == [pv |-> <<>>, rng |-> id, stop |-> FALSE, saved |-> <<>>, built |-> FALSE,
                seeded |-> FALSE, np |-> 0,
                out |-> [op |-> NoOp, pv |-> <<>>, r |-> 0, st |-> FALSE, x |-> <<>>]]

Enabled(r, op) ==
    /\ (RequireSeed /\ ~r.seeded) => op.o = "Seed"
    /\ ~r.built => op.o \in {"Seed", "Construct"}
    /\ op.o = "Load" => r.saved # <<>>

(* One operation applied to one run.  Returns the new table and the new run. *)
StepRun(t0, ty, r, op) ==
    LET nd  == NDraws(ty, op, r.stop)
        wr  == ProgWrites(ty, op, r.stop)
        \* generator
        g   == IF op.o = "Seed" THEN Intern(t0, SeedD(op.k))
               ELSE IF nd > 0 THEN Intern(t0, AdvD(r.rng, op, Noise(r, op)))
               ELSE [tb |-> t0, id |-> r.rng]
        \* parameters: what a written value is computed from
        src == IF op.o = "Fit" THEN <<r.rng>> \o r.pv \o Noise(r, op) ELSE <<r.rng>> \o Noise(r, op)
        w1  == Intern(g.tb, WD(1, op, src))
        w2  == Intern(w1.tb, WD(2, op, src))
        rnd == wr /\ op.o # "Load"
        pv2 == IF op.o = "Load" THEN r.saved
               ELSE IF ~wr THEN r.pv
               ELSE IF Nets(ty) = 1 THEN <<w1.id>> ELSE <<w1.id, w2.id>>
        t2  == IF ~rnd THEN g.tb ELSE IF Nets(ty) = 1 THEN w1.tb ELSE w2.tb
    IN [tb |-> t2,
        r  |-> [r EXCEPT !.pv = pv2,
                         !.rng = g.id,
                         !.stop = IF op.o = "SetStop" THEN op.init
                                  ELSE IF op.o = "Construct" THEN FALSE ELSE @,
                         !.saved = IF op.o = "Save" THEN r.pv ELSE @,
                         !.built = @ \/ op.o = "Construct",
                         !.seeded = @ \/ op.o = "Seed",
                         \* the result is a function of the arguments, the parameters and - only if the
                         \* operation draws - the generator state it started from
                         !.out = [op |-> op, pv |-> r.pv, r |-> IF nd > 0 THEN r.rng ELSE NoTerm,
                                  st |-> r.stop, x |-> Noise(r, op)]]]

-----------------------------------------------------------------------------
(* The product of three sessions *)

SeedShift == 1000
OtherSeed(op) == IF op.o = "Seed" THEN [op EXCEPT !.k = @ + SeedShift] ELSE op

Init == /\ type \in Types
        /\ tb = <<UnkD(1), UnkD(2), UnkD(3)>>
        /\ ra = InitRun(1) /\ rb = InitRun(2) /\ rc = InitRun(3)
        /\ prev = <<InitRun(1), InitRun(2), InitRun(3)>>
        /\ last = NoOp /\ n = 0 /\ hist = <<>>

Do(op) == /\ Enabled(ra, op)
          /\ LET a == StepRun(tb, type, ra, op)
                 b == StepRun(a.tb, type, rb, op)
                 c == StepRun(b.tb, type, rc, OtherSeed(op))
             IN tb' = c.tb /\ ra' = a.r /\ rb' = b.r /\ rc' = c.r
          /\ prev' = <<ra, rb, rc>> /\ last' = op /\ n' = n + 1
          /\ hist' = IF Export THEN Append(hist, op) ELSE hist
          /\ UNCHANGED type

\* numpy.random / `random` reseeded in run B only
Perturb == /\ n > 0 /\ last.o # "Perturb"
           /\ rb' = [rb EXCEPT !.np = 1 - @]
           /\ prev' = <<ra, rb, rc>> /\ last' = PerturbOp /\ n' = n + 1
           /\ hist' = IF Export THEN Append(hist, PerturbOp) ELSE hist
           /\ UNCHANGED <<type, tb, ra, rc>>

Next == /\ n < MaxLen
        /\ \/ \E op \in Catalogue : Do(op)
           \/ Perturb

Spec == Init /\ [][Next]_vars

-----------------------------------------------------------------------------
(* Invariants *)

Proj(r) == [pv |-> r.pv, rng |-> r.rng, stop |-> r.stop, saved |-> r.saved, out |-> r.out]
Runs == <<ra, rb, rc>>
Real == last.o \notin {"None", "Perturb"}

TypeOK == /\ type \in Types /\ n \in 0..MaxLen
          /\ \A i \in 1..3 : /\ Len(Runs[i].pv) \in {0, Nets(type)}
                             /\ Runs[i].rng \in 1..Len(tb)
                             /\ \A j \in 1..Len(Runs[i].pv) : Runs[i].pv[j] \in 1..Len(tb)
          /\ ra.built = rb.built /\ ra.seeded = rb.seeded /\ ra.built = rc.built

\* parameters change only in the writer operations of the catalogue
ReadOnlyKeepsParams ==
    \A i \in 1..3 : (Real /\ ~TableWrites(last)) => Runs[i].pv = prev[i].pv

\* the generator moves exactly in the drawing operations of the catalogue; Seed resets it to
\* a state that depends on the seed alone
RNGDiscipline ==
    \A i \in 1..3 :
        /\ (Real /\ last.o # "Seed" /\ ~TableDraws(last, prev[i].stop)) => Runs[i].rng = prev[i].rng
        /\ (Real /\ last.o # "Seed" /\ TableDraws(last, prev[i].stop)) => Runs[i].rng # prev[i].rng
        /\ (Real /\ last.o = "Seed") => tb[Runs[i].rng].t = "seed" /\ tb[Runs[i].rng].from = <<>>
        /\ last.o = "Perturb" => Proj(Runs[i]) = Proj(prev[i])

\* the catalogue never promises less than the programs do
TableSound ==
    \A op \in Catalogue : \A ty \in Types : \A st \in BOOLEAN :
        /\ ProgWrites(ty, op, st) => TableWrites(op)
        /\ (NDraws(ty, op, st) > 0) <=> TableDraws(op, st)

\* a fit under a standing stop request is inert
InertUnderStop == (last.o = "Fit" /\ prev[1].stop) => ra.pv = prev[1].pv /\ ra.rng = prev[1].rng

\* the two identically seeded runs are indistinguishable, whatever the other sources did
TwoRunsAgree == ra.seeded => Proj(ra) = Proj(rb)

\* a different seed gives a different stream
SeedsDiffer ==
    ra.seeded =>
        /\ ra.rng # rc.rng
        /\ (last.o \in {"Construct", "Reinit"} => \A j \in 1..Nets(type) : ra.pv[j] # rc.pv[j])
        /\ (Real /\ BigDraw(last)) => ra.out # rc.out

LoadRestores == (last.o = "Load") => ra.pv = prev[1].saved
=============================================================================
