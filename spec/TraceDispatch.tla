--------------------------- MODULE TraceDispatch ---------------------------
(* Validate recorded calls through the real decorators of qucumber/utils/__init__.py
   against Dispatch.tla.  One JVM handles a file of traces; each ndjson line is one call:

     [m |-> "U", c |-> [I, args, out], ev |-> events]     auto_unsqueeze_args
     [m |-> "K", c |-> [al, kw, npos], ev |-> events]     deprecated_kwarg

   Events of a U call, in the order the real wrapper produced them:
     [k |-> "unsq", i]            the wrapper asked position i for its dim() and replaced it by unsqueeze(0)
     [k |-> "keep", i]            the wrapper asked position i for its dim() and left it
     [k |-> "invoke", seen]       the body ran; per position [own (the caller's own object), s, root]
     [k |-> "squeeze", s]         squeeze_(0) was called on the result; its shape afterwards
     [k |-> "done", exc, ran, rk, rs, caller]   how the call ended; the caller's shapes afterwards
   Events of a K call:
     [k |-> "warn", alias, true]  one warning
     [k |-> "kinvoke", body]      the body ran; body[name] = the caller's name of the value, "" if absent
     [k |-> "kdone", exc, ran]

   The specification's machine runs by its own actions (Unsqueeze, Keep, UInvoke, USqueeze,
   Rename, KInvoke are matched with events; UPickCase, UFail, UReturn, the failing squeeze_ of a
   result that is not a tensor, KPickCase, KSkip, Clash, python's refusal to bind the call produce
   no event).  A trace is accepted iff every event is matched in order; the
   invariants of Dispatch.tla are evaluated on every state of every accepted prefix.

   Where Dispatch.tla names a deviation, the behaviour a user would expect instead is
   accepted too (the caller's tensor NOT changed by the squeeze; another exception type
   for a call refused before the body).                                              *)
EXTENDS Dispatch, Json, IOUtils, TLCExt

Traces == ndJsonDeserialize(IOEnv.TRACE_FILE)

VARIABLES tid, pos
trvars == <<vars, tid, pos>>

T == Traces[tid]
ToSet(s) == {s[i] : i \in 1..Len(s)}

TrInit == /\ tid \in 1..Len(Traces)
          /\ pos = 0
          /\ IF Traces[tid].m = "U"
             THEN UInitWith(Traces[tid].c.I, Len(Traces[tid].c.args)) /\ IdleK
             ELSE KInitWith(Traces[tid].c.al) /\ IdleU
          /\ TLCSet(tid, 0)

SeenMatches(es, sn) ==
    /\ Len(es) = Len(sn)
    /\ \A j \in 1..Len(sn) : /\ es[j].own = (sn[j].id = j)
                             /\ es[j].s = sn[j].s
                             /\ es[j].root = sn[j].root

UDoneMatches(e) ==
    /\ upc = "Done"
    /\ \/ e.exc = uexc
       \/ ~ran /\ uexc \in {"IndexError", "AttributeError"} /\ e.exc # ""     \* refused before the body
    /\ e.ran = ran
    /\ e.rk = res.k
    /\ (res.k = "tensor" /\ uexc = "" => e.rs = heap[res.id].s)
    /\ Len(e.caller) = N
    /\ \A j \in 1..N : \/ e.caller[j] = heap[j].s
                       \/ DevAliasSqueeze(j) /\ e.caller[j] = Args[j]

USilent == T.m = "U" /\ UNCHANGED kvars
           /\ (UPickCase(T.c.args, T.c.out) \/ UFail \/ UReturn \/ (upc = "Ret" /\ res.k = "nontensor" /\ USqueeze))
KSilent == T.m = "K" /\ UNCHANGED uvars
           /\ (KPickCase(ToSet(T.c.kw), T.c.npos) \/ KSkip \/ Clash \/ (KInvoke /\ kexc' = "TypeError"))

UEvent(e) ==
    \/ e.k = "unsq" /\ Unsqueeze(e.i)
    \/ e.k = "keep" /\ Keep(e.i)
    \/ e.k = "invoke" /\ UInvoke /\ SeenMatches(e.seen, seen')
    \/ e.k = "squeeze" /\ USqueeze /\ uexc' = "" /\ heap'[res.id].s = e.s
    \/ e.k = "done" /\ UDoneMatches(e) /\ UNCHANGED uvars

KEvent(e) ==
    \/ e.k = "warn" /\ Rename(e.alias) /\ True(kposn + 1) = e.true
    \/ e.k = "kinvoke" /\ KInvoke /\ kran' /\ \A nm \in KNames : kbody'[nm] = e.body[nm]
    \/ e.k = "kdone" /\ kpc = "Done" /\ kexc = e.exc /\ kran = e.ran /\ UNCHANGED kvars

TrNext == /\ UNCHANGED tid
          /\ \/ (USilent \/ KSilent) /\ UNCHANGED pos
             \/ /\ pos < Len(T.ev)
                /\ pos' = pos + 1
                /\ IF T.m = "U" THEN UEvent(T.ev[pos + 1]) /\ UNCHANGED kvars
                                ELSE KEvent(T.ev[pos + 1]) /\ UNCHANGED uvars

TrTrack == TLCSet(tid, IF pos > TLCGet(tid) THEN pos ELSE TLCGet(tid))

TrVerdicts ==
    \A i \in 1..Len(Traces) :
        PrintT(ToJson([tid |-> i, matched |-> TLCGet(i), need |-> Len(Traces[i].ev)]))
=============================================================================
