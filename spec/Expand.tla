------------------------------- MODULE Expand --------------------------------
(* qucumber.utils.unitaries._rotate_basis_state and the two functions built on
   it, rotate_psi_inner_prod and rotate_rho_probs (property C04).

   For a basis string and an outcome row sigma:
     R      = the sites whose letter is not "Z", in increasing order, m = |R|;
     tau_t  = row t of generate_hilbert_space(m)  (t = 0..2^m-1, Bits.Row(m, t));
     v_t    = sigma with the sites R overwritten by tau_t;
     u_t    = prod_j U(basis[R_j])[sigma[R_j], tau_t[j]]      (Ut, times 2^(NFac/2));
     amplitude   = sum_t u_t * psi(v_t)                        (rotate_psi_inner_prod)
     probability = sum_{t,t'} u_t * conj(u_t') * rho(v_t, v_t') (rotate_rho_probs)
   Model path: psi / rho are evaluated on the rows v_t.  Explicit path: the
   arrays are indexed at Index(v_t).  Sites are 1..n (library site s-1). *)
EXTENDS Unitaries, FiniteSets, TLC, Json

CONSTANTS BasisSet, GenPsi(_), GenRho(_), GenGram(_), Selected(_, _, _), ExportTerms

VARIABLES pc,     \* "expand" | "pick" | "done"
          basis, sig,   \* basis string, outcome position (sigma = Row(n, sig))
          terms,  \* sequence of [v, u, idx] in the order of the expansion
          kind, fam, x,  \* the input (as in KronSweep)
          acc     \* the value computed by the expansion
vars == <<pc, basis, sig, terms, kind, fam, x, acc>>

n == Len(basis)
N == Pow2(Len(basis))
Sigma == Row(n, sig)

\* np.where(basis != "Z")[0]
RotSites(b) == SelectSeq([t \in 1..Len(b) |-> t], LAMBDA t : b[t] # "Z")
RankOf(b, t) == Cardinality({q \in 1..t : b[q] # "Z"})     \* position of rotated site t inside R

TermsOf(b, sg) ==
    LET R == RotSites(b)
        m == Len(R)
    IN  [t \in 1..Pow2(m) |->
           LET tau == Row(m, t - 1)
               v   == [q \in 1..Len(b) |-> IF b[q] # "Z" THEN tau[RankOf(b, q)] ELSE sg[q]]
           IN  [v |-> v,
                u |-> GProdUpTo([j \in 1..m |-> U(b[R[j]])[sg[R[j]] + 1][tau[j] + 1]], m),
                idx |-> Index(v)]]

PsiFamily(m, f) == CASE f = "unit" -> UnitVecs(Pow2(m)) [] f = "gen" -> GenPsi(m) [] OTHER -> {}
RhoFamily(m, f) == CASE f = "herm" -> HermBasis(Pow2(m)) [] f = "gen" -> GenRho(m)
                     [] f = "gram" -> {Gram(A) : A \in GenGram(m)} [] OTHER -> {}
Families == {"unit", "herm", "gen", "gram"}

\* explicit path: psi[:, idx], rho[:, idx_t, idx_t']
SumPsi(ts, vec) == GSumUpTo([t \in 1..Len(ts) |-> GMul(ts[t].u, vec[ts[t].idx + 1])], Len(ts))
SumRho(ts, mat) == GSumUpTo([t \in 1..Len(ts) |->
                      GSumUpTo([t2 \in 1..Len(ts) |->
                          GMul(GMul(ts[t].u, GConj(ts[t2].u)), mat[ts[t].idx + 1][ts[t2].idx + 1])], Len(ts))], Len(ts))
\* model path: the array holds the model's values in generate_hilbert_space order, the model is
\* asked for the value on the row v itself
ModelPsi(vec, v) == vec[(CHOOSE k \in 0..(N - 1) : \A q \in 1..n : Row(n, k)[q] = v[q]) + 1]
SumPsiModel(ts, vec) == GSumUpTo([t \in 1..Len(ts) |-> GMul(ts[t].u, ModelPsi(vec, ts[t].v))], Len(ts))

Init == /\ pc = "expand" /\ basis \in BasisSet /\ sig \in 0..(Pow2(Len(basis)) - 1)
        /\ terms = <<>> /\ kind = "" /\ fam = "" /\ x = <<>> /\ acc = GZero

ExpandStep == /\ pc = "expand"
              /\ terms' = TermsOf(basis, Sigma)
              /\ pc' = "pick"
              /\ UNCHANGED <<basis, sig, kind, fam, x, acc>>

Start(kd, f, inp) ==
    /\ kind' = kd /\ fam' = f /\ x' = inp
    /\ acc' = IF kd = "psi" THEN SumPsi(terms, inp) ELSE SumRho(terms, inp)
    /\ pc' = "done"
    /\ UNCHANGED <<basis, sig, terms>>

Pick == /\ pc = "pick"
        /\ \E f \in Families :
             \/ Selected(basis, "psi", f) /\ \E inp \in PsiFamily(n, f) : Start("psi", f, inp)
             \/ Selected(basis, "rho", f) /\ \E inp \in RhoFamily(n, f) : Start("rho", f, inp)

Next == ExpandStep \/ Pick

\* ---- invariants ----
TermsShape == pc # "expand" =>
    LET R == RotSites(basis) m == Len(R) IN
    /\ Len(terms) = Pow2(m)
    /\ \A j \in 1..m : basis[R[j]] # "Z" /\ (j > 1 => R[j - 1] < R[j])
    /\ Cardinality({q \in 1..n : basis[q] # "Z"}) = m
    /\ \A t \in 1..Len(terms) :
         /\ \A q \in 1..n : basis[q] = "Z" => terms[t].v[q] = Sigma[q]         \* untouched sites keep the outcome
         /\ \A j \in 1..m : terms[t].v[R[j]] = Row(m, t - 1)[j]                \* rotated sites enumerate in Row order
         /\ terms[t].idx = Index(terms[t].v)
         /\ \A q \in 1..n : Row(n, terms[t].idx)[q] = terms[t].v[q]            \* the index denotes that row
         /\ terms[t].u = PosEntry(basis, sig, terms[t].idx)                    \* = Dense[sigma, v_t]
    /\ \A t \in 1..Len(terms) : \A t2 \in 1..Len(terms) : t # t2 => terms[t].idx # terms[t2].idx
    \* every other column of row sigma of the dense unitary vanishes
    /\ \A c \in 0..(N - 1) : (\A t \in 1..Len(terms) : terms[t].idx # c) => DenseEntry(basis, 1, sig, c) = GZero

\* the expansion computes entry sigma of Dense*psi, resp. entry (sigma, sigma) of Dense rho Dense^H
ExpandEqualsDense == pc = "done" =>
    /\ kind = "psi" => acc = GSumUpTo([c \in 1..N |-> GMul(DenseEntry(basis, 1, sig, c - 1), x[c])], N)
    /\ kind = "rho" => acc = GSumUpTo([a \in 1..N |-> GSumUpTo([c \in 1..N |->
                                  GMul(GMul(DenseEntry(basis, 1, sig, a - 1), x[a][c]),
                                       GConj(DenseEntry(basis, 1, sig, c - 1)))], N)], N)
    /\ kind = "rho" => acc[2] = 0                                 \* "imaginary parts will cancel out anyway"
    /\ (kind = "rho" /\ fam = "gram") => acc[1] >= 0

PathsAgree == (pc = "done" /\ kind = "psi") => SumPsiModel(terms, x) = acc

InputsOK == pc = "done" =>
    /\ kind = "rho" => IsHermitian(x)
    /\ (kind = "rho" /\ fam \in {"gen", "gram"}) => ~IsSymmetric(x)

\* structure of the expansion, independent of the input: replayed by the harness on explicit
\* Gaussian-integer arrays (integer exact) and on the models' own numbers
Export == (pc = "pick" /\ ExportTerms) =>
    PrintT(ToJson([basis |-> basis, nfac |-> NFac(basis), sig |-> sig, row |-> Sigma, terms |-> terms]))
=============================================================================
