----------------------------- MODULE TraceTrain -----------------------------
(* Validate recorded runs of the real fit() against Train.tla.  One JVM handles a
   whole file of traces: each ndjson line is [cfg, ev (events), fin (final
   projection)].  A trace is accepted iff some behaviour of Train with that cfg
   produces exactly the recorded events and final projection. *)
EXTENDS Train, Json, IOUtils, TLCExt

Traces == ndJsonDeserialize(IOEnv.TRACE_FILE)
NoCfgs(s) == {}

VARIABLE tid
tvars == <<vars, tid>>

T == Traces[tid]

TInit == /\ tid \in 1..Len(Traces)
         /\ InitWith(Traces[tid].cfg)
         /\ TLCSet(tid, 0)

\* the events appended by this step are exactly the next recorded ones
Matches == /\ Len(hist') <= Len(T.ev)
           /\ \A i \in (Len(hist) + 1)..Len(hist') : hist'[i] = T.ev[i]

TShuffle == /\ pc = "SH" /\ Len(hist) < Len(T.ev)
            /\ LET e == T.ev[Len(hist) + 1] IN e.k = "SH" /\ ShuffleWith(e.perm, e.neg)

TNext == /\ \/ Entry \/ TrainStart \/ TShuffle \/ EpochStart \/ BatchStart \/ Compute
            \/ ZeroGrad \/ Assign \/ OptStep \/ BatchEnd \/ SchedStep \/ EpochEnd \/ TrainEnd
         /\ Matches
         /\ UNCHANGED tid

FinalOK == /\ stop = T.fin.stop /\ pver = T.fin.pver /\ sched = T.fin.sched
           /\ \A i \in 1..NCb(cfg) : cfg.cbs[i].t \in {"logger", "early"} => cbs[i] = T.fin.cbs[i]
           /\ \A i \in 1..NCb(cfg) : cfg.cbs[i].t = "eval" =>
                 /\ Len(cbs[i]) = Len(T.fin.cbs[i])
                 /\ \A j \in 1..Len(cbs[i]) : cbs[i][j][1] = T.fin.cbs[i][j][1] /\ cbs[i][j][2] = T.fin.cbs[i][j][2]
           /\ \A i \in 1..NCb(cfg) : cfg.cbs[i].t = "saver" =>
                 /\ Len(cbs[i]) = Len(T.fin.cbs[i])
                 /\ \A j \in 1..Len(cbs[i]) : cbs[i][j][1] = T.fin.cbs[i][j][1]

\* progress register: number of matched events, +1 when the run is complete and the final state agrees
Progress == Len(hist) + (IF pc = "Done" /\ Len(hist) = Len(T.ev) /\ FinalOK THEN 1 ELSE 0)
Track == TLCSet(tid, IF Progress > TLCGet(tid) THEN Progress ELSE TLCGet(tid))

\* the invariants of Train are evaluated on every state of every accepted prefix
Verdicts ==
    \A i \in 1..Len(Traces) :
        PrintT(ToJson([tid |-> i, matched |-> TLCGet(i), need |-> Len(Traces[i].ev) + 1]))
=============================================================================
