----------------------------- MODULE TraceTrain -----------------------------
(* Validate recorded runs of the real fit() against Train.tla.  One JVM handles a
   whole file of traces: each ndjson line is [cfg, ev (events), fin (final
   projection)].  A trace is accepted iff some behaviour of Train with that cfg
   produces exactly the recorded events and final projection. *)
EXTENDS Train, Json, IOUtils, TLCExt

Traces == ndJsonDeserialize(IOEnv.TRACE_FILE)
NoCfgs(s) == {}

VARIABLE tid
tvars == <<vars, tid>>

T == Traces[tid]

TInit == /\ tid \in 1..Len(Traces)
         /\ InitWith(Traces[tid].cfg)
         /\ TLCSet(tid, 0)

\* the events appended by this step are exactly the next recorded ones
Matches == /\ Len(hist') <= Len(T.ev)
           /\ \A i \in (Len(hist) + 1)..Len(hist') : hist'[i] = T.ev[i]

TShuffle == /\ pc = "SH" /\ Len(hist) < Len(T.ev)
            /\ LET e == T.ev[Len(hist) + 1] IN e.k = "SH" /\ ShuffleWith(e.perm, e.neg)

(* C06 numbers.  When a trace carries `x` (one record per batch, reals in 1e-6 fixed
   point), the Compute / Assign / OptStep steps must also satisfy the contrastive-
   divergence arithmetic: the gradient handed to the optimizer for the amplitude network
   is the positive phase minus the effective-energy gradient of the k-step Gibbs states
   divided by the negative batch size, the phase network gets the positive phase only,
   every value lands on the parameter it belongs to, and plain SGD moves each parameter by
   -lr * grad with the learning rate of the current scheduler epoch. *)
HasX == "x" \in DOMAIN T
X == T.x[pver + 1]
AbsI(v) == IF v < 0 THEN -v ELSE v
RECURSIVE Concat(_)
Concat(ss) == IF ss = <<>> THEN <<>> ELSE Head(ss) \o Concat(Tail(ss))
RECURSIVE Halve(_, _)
Halve(v, n) == IF n = 0 THEN v ELSE Halve(v \div 2, n - 1)

NumCompute ==
    /\ Len(hist) < Len(T.ev) /\ pver + 1 <= Len(T.x)
    /\ LET x == X
           cg == T.ev[Len(hist) + 1] IN
       /\ cg.k = "CG"
       /\ x.k = T.k                                   \* k Gibbs steps ...
       /\ x.ginit = cg.neg                            \* ... started from the negative batch
       /\ x.nb = Len(cg.neg)
       /\ Len(x.gradAm) = Len(x.posAm) /\ Len(x.negSum) = Len(x.posAm)
       /\ \A i \in 1..Len(x.gradAm) :
             AbsI(x.nb * x.gradAm[i] - (x.nb * x.posAm[i] - x.negSum[i])) <= x.nb + 1
       /\ (Nets(cfg) = 2 => x.gradPh = x.posPh)       \* no negative phase for the phase network
NumAssign ==
    LET x == X IN
    x.assigned[net] = (IF net = 1 THEN x.gradAm ELSE x.gradPh)
NumStep ==
    LET x == X IN
    /\ \A n \in 1..Nets(cfg) :
          /\ Concat(x.pgrad[n]) = x.assigned[n]     \* each slice is on the parameter it belongs to
          /\ Len(x.pgrad[n]) = Len(x.shapes[n])
          /\ \A j \in 1..Len(x.pgrad[n]) : Len(x.pgrad[n][j]) = x.shapes[n][j]
          /\ \A j \in 1..Len(x.pgrad[n]) : \A i \in 1..Len(x.pgrad[n][j]) :
                AbsI(x.dlr[n][j][i] - x.pgrad[n][j][i]) <= 2
    /\ x.lr = (IF cfg.sched THEN Halve(T.lr0, sched) ELSE T.lr0)
NumOK == HasX => CASE pc = "CG" -> NumCompute
                   [] pc = "AS" -> NumAssign
                   [] pc = "OS" -> NumStep
                   [] OTHER -> TRUE

TNext == /\ NumOK
         /\ \/ Entry \/ TrainStart \/ TShuffle \/ EpochStart \/ BatchStart \/ Compute
            \/ ZeroGrad \/ Assign \/ OptStep \/ BatchEnd \/ SchedStep \/ EpochEnd \/ TrainEnd
         /\ Matches
         /\ UNCHANGED tid

FinalOK == /\ stop = T.fin.stop /\ pver = T.fin.pver /\ sched = T.fin.sched
           /\ \A i \in 1..NCb(cfg) : cfg.cbs[i].t \in {"logger", "early"} => cbs[i] = T.fin.cbs[i]
           /\ \A i \in 1..NCb(cfg) : cfg.cbs[i].t = "eval" =>
                 /\ Len(cbs[i]) = Len(T.fin.cbs[i])
                 /\ \A j \in 1..Len(cbs[i]) : cbs[i][j][1] = T.fin.cbs[i][j][1] /\ cbs[i][j][2] = T.fin.cbs[i][j][2]
           /\ \A i \in 1..NCb(cfg) : cfg.cbs[i].t = "saver" =>
                 /\ Len(cbs[i]) = Len(T.fin.cbs[i])
                 /\ \A j \in 1..Len(cbs[i]) : cbs[i][j][1] = T.fin.cbs[i][j][1]

\* progress register: number of matched events, +1 when the run is complete and the final state agrees
\* (a run ended by a raising user callback - cfg.again = "abort" - is complete in "Aborted")
Progress == Len(hist) + (IF pc \in {"Done", "Aborted"} /\ Len(hist) = Len(T.ev) /\ FinalOK THEN 1 ELSE 0)
Track == TLCSet(tid, IF Progress > TLCGet(tid) THEN Progress ELSE TLCGet(tid))

\* the invariants of Train are evaluated on every state of every accepted prefix
Verdicts ==
    \A i \in 1..Len(Traces) :
        PrintT(ToJson([tid |-> i, matched |-> TLCGet(i), need |-> Len(Traces[i].ev) + 1]))
=============================================================================
