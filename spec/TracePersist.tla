---------------------------- MODULE TracePersist ----------------------------
(***************************************************************************)
(* Code -> specification direction of C11: validate histories of public    *)
(* calls RECORDED from the real QuCumber classes (harness/persist_trace.py)*)
(* against Persist.tla.  One JVM handles a whole ndjson file; one line =   *)
(*                                                                         *)
(*   [setup |-> [types, shapes, keys |-> [m0, m1, m2 |-> <<key names>>],   *)
(*               saver],                                                   *)
(*    init  |-> projection of the freshly built world,                     *)
(*    ev    |-> << [op, m, f, k,         the label of the call             *)
(*                  out,                 what the real call reported       *)
(*                  notfresh,            a new content equals a dead one   *)
(*                  models, files, metas projection AFTER the call] ... >>]*)
(*                                                                         *)
(* projection = for every model slot [type, shape, pver, udict], for every *)
(* path [present] or [present, type, shape, pver, udict, mkeys, mver], for *)
(* every caller-owned metadata object [keys, ver].  The tokens are the     *)
(* recorder's canonical names of content hashes, chosen by the rule of     *)
(* Persist!Fresh (smallest number not referenced in the state BEFORE the   *)
(* call), so that a conforming history is matched token for token.         *)
(*                                                                         *)
(* A trace is accepted iff Persist's Init equals the recorded initial      *)
(* projection and, call after call, Persist!Step(label) is enabled, the    *)
(* outcome Persist computes is the recorded one and the successor state    *)
(* equals the recorded projection in EVERY field.  All traces of one file  *)
(* share NM and NF (constants of Persist); Setups is read off the file.    *)
(* The invariants and action properties of Persist are evaluated on every  *)
(* accepted prefix as well.                                                *)
(***************************************************************************)
EXTENDS Persist, Json, IOUtils, TLCExt

Traces == ndJsonDeserialize(IOEnv.TRACE_FILE)

VARIABLES tid,     \* which trace
          l        \* number of matched items: 0 = nothing, 1 = initial projection, 1 + n = n calls
tvars == <<vars, tid, l>>

T == Traces[tid]

\* JSON arrays arrive as sequences
ToSet(s) == {s[i] : i \in 1..Len(s)}

SetupOf(s) == [types |-> s.types, shapes |-> s.shapes,
               keys |-> [k \in MetaIds |-> ToSet(s.keys[k])], saver |-> s.saver]
TraceSetups == {SetupOf(Traces[i].setup) : i \in 1..Len(Traces)}

-----------------------------------------------------------------------------
(* recorded projection -> specification state *)
ModelOf(r) == [type |-> r.type, shape |-> r.shape, pver |-> r.pver, udict |-> r.udict]
FileOf(r)  == IF r.present
              THEN [present |-> TRUE, type |-> r.type, shape |-> r.shape, pver |-> r.pver,
                    udict |-> r.udict, meta |-> [keys |-> ToSet(r.mkeys), ver |-> r.mver]]
              ELSE NoFile
MetaRecOf(r) == [keys |-> ToSet(r.keys), ver |-> r.ver]

WellSized(e) == Len(e.models) = NM /\ Len(e.files) = NF
Proj(e) == [models |-> [m \in Models |-> ModelOf(e.models[m])],
            files  |-> [f \in Files |-> FileOf(e.files[f])],
            metas  |-> [k \in MetaIds |-> MetaRecOf(e.metas[k])]]

\* what the specification expected where a trace stops matching (one line per rejected trace)
Expected(at, out, ms, fs, mt) ==
    PrintT(ToJson([tid |-> tid, at |-> at,
                   expected |-> [out |-> out, models |-> ms, files |-> fs, metas |-> mt]]))

-----------------------------------------------------------------------------
TInit == /\ tid \in 1..Len(Traces)
         /\ setup = SetupOf(Traces[tid].setup)
         /\ Init
         /\ l = 0
         /\ TLCSet(tid, 0)

\* the freshly constructed world is Persist's initial state
TStart == /\ l = 0
          /\ LET e == T.init IN
             IF /\ WellSized(e) /\ ~e.notfresh
                /\ models = Proj(e).models /\ files = Proj(e).files /\ metas = Proj(e).metas
             THEN TRUE
             ELSE Expected(0, "ok", models, files, metas) /\ FALSE
          /\ l' = 1
          /\ UNCHANGED <<vars, tid>>

\* the next recorded call is a step of Persist with exactly the recorded outcome and effect
TStep == /\ l >= 1 /\ l <= Len(T.ev)
         /\ LET e == T.ev[l]
                a == Lbl(e.op, e.m, e.f, e.k) IN
            /\ a \in Labels
            /\ Step(a)
            /\ last' = [op |-> a.op, m |-> a.m, f |-> a.f, k |-> a.k, out |-> Outcome(a)]
            /\ IF /\ WellSized(e) /\ ~e.notfresh
                  /\ Outcome(a) = e.out
                  /\ models' = Proj(e).models /\ files' = Proj(e).files /\ metas' = Proj(e).metas
               THEN TRUE
               ELSE Expected(l, Outcome(a), models', files', metas') /\ FALSE
         /\ l' = l + 1
         /\ UNCHANGED tid

TNext == TStart \/ TStep

\* progress register: the longest matched prefix of trace tid
Track == TLCSet(tid, IF l > TLCGet(tid) THEN l ELSE TLCGet(tid))

Verdicts ==
    \A i \in 1..Len(Traces) :
        PrintT(ToJson([tid |-> i, matched |-> TLCGet(i), need |-> Len(Traces[i].ev) + 1]))
=============================================================================
