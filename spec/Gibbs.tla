------------------------------- MODULE Gibbs -------------------------------
(***************************************************************************)
(* Block Gibbs sampling (BinaryRBM.gibbs_steps, PurificationRBM.gibbs_steps,*)
(* NeuralStateBase.sample) as a transition system on batches of chains.    *)
(* One step = draw every hidden unit (and, for a purification RBM, every   *)
(* auxiliary unit) from its conditional given the CURRENT visible state,   *)
(* then every visible unit from its conditional given those draws.         *)
(* Parameters live on the lattice t*ln B, so each conditional is the exact *)
(* rational B^m/(1+B^m); its 1e-6 fixed-point rounding is computed in      *)
(* integers (bounds: |m| <= 10 for B = 2, <= 6 for B = 3).                 *)
(***************************************************************************)
EXTENDS Integers, Sequences, FiniteSets, TLC

CONSTANTS Models,    \* set of model records [kind, nv, nh, na, B, W, b, c, U, d]
          Starts,    \* set of start batches (sequences of bit rows), used by the exhaustive config
          MaxK

VARIABLES M,       \* the model
          pc,      \* "Idle" | "H" | "A" | "V" | "End"
          chain,   \* current visible states (sequence of rows)
          hid, aux,
          left,    \* Gibbs steps still to do
          k0, ow,
          buf,     \* content of the caller's tensor
          ret,     \* what the call returned (<<>> until End)
          rounds   \* completed H,(A),V rounds of this call
vars == <<M, pc, chain, hid, aux, left, k0, ow, buf, ret, rounds>>

RECURSIVE SumS(_)
SumS(s) == IF s = <<>> THEN 0 ELSE Head(s) + SumS(Tail(s))
RECURSIVE PowI(_, _)
PowI(b, e) == IF e = 0 THEN 1 ELSE b * PowI(b, e - 1)

\* pre-activations (lattice units)
MH(m, v, j) == m.c[j] + SumS([i \in 1..m.nv |-> m.W[j][i] * v[i]])
MA(m, v, k) == m.d[k] + SumS([i \in 1..m.nv |-> m.U[k][i] * v[i]])
MV(m, h, a, i) == m.b[i] + SumS([j \in 1..m.nh |-> h[j] * m.W[j][i]])
                  + (IF m.kind = "purif" THEN SumS([k \in 1..m.na |-> a[k] * m.U[k][i]]) ELSE 0)

\* round(10^6 * B^e / (1 + B^e)) in integers
SigFx(B, e) == LET n == IF e >= 0 THEN PowI(B, e) ELSE 1
                   d == IF e >= 0 THEN 1 + PowI(B, e) ELSE PowI(B, -e) + 1
               IN (2 * 1000000 * n + d) \div (2 * d)
InRange(B, e) == IF B = 2 THEN e >= -10 /\ e <= 10 ELSE e >= -6 /\ e <= 6

ProbsH(m, vs) == [r \in 1..Len(vs) |-> [j \in 1..m.nh |-> SigFx(m.B, MH(m, vs[r], j))]]
ProbsA(m, vs) == [r \in 1..Len(vs) |-> [k \in 1..m.na |-> SigFx(m.B, MA(m, vs[r], k))]]
ProbsV(m, hs, as) == [r \in 1..Len(hs) |-> [i \in 1..m.nv |->
                         SigFx(m.B, MV(m, hs[r], IF m.kind = "purif" THEN as[r] ELSE <<>>, i))]]

IsBits(x, rows, cols) == /\ Len(x) = rows
                         /\ \A r \in 1..rows : Len(x[r]) = cols /\ \A i \in 1..cols : x[r][i] \in {0, 1}
BitRows(rows, cols) == [1..rows -> [1..cols -> {0, 1}]]

-----------------------------------------------------------------------------
Init == /\ M \in Models
        /\ pc = "Idle" /\ chain = <<>> /\ hid = <<>> /\ aux = <<>>
        /\ left = 0 /\ k0 = 0 /\ ow = FALSE /\ buf = <<>> /\ ret = <<>> /\ rounds = 0

\* gibbs_steps(k, initial_state, overwrite)
BeginWith(v0, k, o) ==
    /\ pc = "Idle"
    /\ IsBits(v0, Len(v0), M.nv) /\ k >= 0
    /\ chain' = v0 /\ buf' = v0 /\ k0' = k /\ ow' = o /\ left' = k /\ rounds' = 0
    /\ hid' = <<>> /\ aux' = <<>> /\ ret' = <<>>
    /\ pc' = IF k = 0 THEN "End" ELSE "H"
    /\ UNCHANGED M
Begin == \E v0 \in Starts, k \in 0..MaxK, o \in BOOLEAN : BeginWith(v0, k, o)

\* every outcome has non-zero probability (conditionals are strictly inside (0,1))
DrawHWith(bits) ==
    /\ pc = "H" /\ IsBits(bits, Len(chain), M.nh)
    /\ hid' = bits
    /\ pc' = IF M.kind = "purif" THEN "A" ELSE "V"
    /\ UNCHANGED <<M, chain, aux, left, k0, ow, buf, ret, rounds>>
DrawAWith(bits) ==
    /\ pc = "A" /\ IsBits(bits, Len(chain), M.na)
    /\ aux' = bits
    /\ pc' = "V"
    /\ UNCHANGED <<M, chain, hid, left, k0, ow, buf, ret, rounds>>
DrawVWith(bits) ==
    /\ pc = "V" /\ IsBits(bits, Len(chain), M.nv)
    /\ chain' = bits
    /\ buf' = IF ow THEN bits ELSE buf          \* in-place update of the caller's tensor iff overwrite
    /\ left' = left - 1 /\ rounds' = rounds + 1
    /\ pc' = IF left - 1 > 0 THEN "H" ELSE "End"
    /\ UNCHANGED <<M, hid, aux, k0, ow, ret>>
End ==
    /\ pc = "End"
    /\ ret' = chain
    /\ pc' = "Idle"
    /\ UNCHANGED <<M, chain, hid, aux, left, k0, ow, buf, rounds>>

DrawH == pc = "H" /\ \E bits \in BitRows(Len(chain), M.nh) : DrawHWith(bits)
DrawA == pc = "A" /\ \E bits \in BitRows(Len(chain), M.na) : DrawAWith(bits)
DrawV == pc = "V" /\ \E bits \in BitRows(Len(chain), M.nv) : DrawVWith(bits)
Next == Begin \/ DrawH \/ DrawA \/ DrawV \/ End

-----------------------------------------------------------------------------
(* protocol invariants *)
ExactlyK   == pc = "End" => rounds = k0 /\ left = 0
ZeroSteps  == pc = "End" /\ k0 = 0 => chain = buf            \* k = 0 returns the start
CallerBuf  == (pc \in {"H", "A", "V", "End"}) =>
                 IF ow THEN (rounds > 0 => buf = chain) ELSE TRUE
\* the caller's tensor is left untouched unless overwriting was requested (action property)
Untouched  == [][(~ow' /\ pc # "Idle") => buf' = buf]_vars
Shapes     == /\ (pc \in {"A", "V"} => IsBits(hid, Len(chain), M.nh))
              /\ (pc = "V" /\ M.kind = "purif" => IsBits(aux, Len(chain), M.na))
              /\ (ret # <<>> => IsBits(ret, Len(ret), M.nv))
=============================================================================
