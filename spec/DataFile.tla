------------------------------ MODULE DataFile -------------------------------
(* Data files and their loaders (property C19, second half).

   A file is a sequence of rows of tokens.  load_data / load_data_DM return what
   is written: samples and bases row by row, the wavefunction target as a 2 x N
   array (row 0 = first column of the file, row 1 = second column), the density
   matrix target as the pair (real file, imaginary file), cell (i, j) from row i,
   column j of each file; numeric tokens are read to single precision (the
   harness applies binary32 rounding to the token's decimal value - tokens are
   opaque ids here).  extract_refbasis_samples returns the subsequence of sample
   rows whose basis row is all "Z", in order. *)
EXTENDS Naturals, Sequences, FiniteSets, TLC, Json

CONSTANTS MaxRows,     \* files with 1..MaxRows rows
          MaxSites,    \* 1..MaxSites tokens per row
          Alphabet     \* basis tokens

VARIABLES pc,       \* "pick" | "done"
          kind,     \* "ref" (samples + bases), "psi" (wavefunction target), "dm" (density-matrix target)
          nrows, nsites,
          bases, samples,   \* the files (for "psi": samples = the target file; for "dm": <<real file, imag file>>)
          loaded    \* what the loaders return
vars == <<pc, kind, nrows, nsites, bases, samples, loaded>>

RECURSIVE P2(_)
P2(e) == IF e = 0 THEN 1 ELSE 2 * P2(e - 1)

AllZ(row) == \A s \in 1..Len(row) : row[s] = "Z"

\* ---- the loaders ----
LoadRows(file) == file                                   \* identity on rows
LoadPsi(file) == [re |-> [k \in 1..Len(file) |-> file[k][1]],
                  im |-> [k \in 1..Len(file) |-> file[k][2]]]
LoadDM(fre, fim) == [re |-> fre, im |-> fim]

\* the rows whose basis row is all "Z", in file order (a filter; SelectSeq keeps the order)
ExtractRef(ss, bs) ==
    LET keep == SelectSeq([i \in 1..Len(ss) |-> i], LAMBDA i : AllZ(bs[i]))
    IN  [j \in 1..Len(keep) |-> ss[keep[j]]]

\* ---- what "exactly the all-Z rows, in order" means, said without the recursion ----
RefIdx(bs) == {i \in 1..Len(bs) : AllZ(bs[i])}
IsRefExtraction(out, ss, bs) ==
    /\ Len(out) = Cardinality(RefIdx(bs))
    /\ \E f \in [1..Len(out) -> RefIdx(bs)] :
         /\ \A i \in 1..Len(out) : \A j \in 1..Len(out) : i < j => f[i] < f[j]
         /\ \A i \in 1..Len(out) : out[i] = ss[f[i]]

\* sample rows: a ramp through the bit rows, or heavy duplication (row identity must not matter)
Bits(m, k) == [s \in 1..m |-> (k \div P2(m - s)) % 2]
SampleVariants(rows, m) == { [i \in 1..rows |-> Bits(m, (i - 1) % P2(m))],
                             [i \in 1..rows |-> Bits(m, IF i % 2 = 1 THEN P2(m) - 1 ELSE 0)],
                             [i \in 1..rows |-> Bits(m, (rows - i + 1) % P2(m))] }
\* target files: every cell holds a distinct token id
PsiFile(m) == [k \in 1..P2(m) |-> <<2 * k - 1, 2 * k>>]
DMFile(m, off) == [i \in 1..P2(m) |-> [j \in 1..P2(m) |-> off + (i - 1) * P2(m) + j]]

Init == /\ pc = "pick"
        /\ nrows \in 1..MaxRows /\ nsites \in 1..MaxSites
        /\ kind = "" /\ bases = <<>> /\ samples = <<>> /\ loaded = <<>>

PickRef == /\ \E bs \in [1..nrows -> [1..nsites -> Alphabet]] :
                \E ss \in SampleVariants(nrows, nsites) :
                  /\ bases' = bs /\ samples' = ss
                  /\ loaded' = [samples |-> LoadRows(ss), bases |-> LoadRows(bs),
                                ref |-> ExtractRef(LoadRows(ss), LoadRows(bs))]
           /\ kind' = "ref"
PickPsi == /\ nrows = 1
           /\ samples' = PsiFile(nsites) /\ bases' = <<>>
           /\ loaded' = LoadPsi(PsiFile(nsites))
           /\ kind' = "psi"
PickDM  == /\ nrows = 1
           /\ samples' = <<DMFile(nsites, 0), DMFile(nsites, 100)>> /\ bases' = <<>>
           /\ loaded' = LoadDM(DMFile(nsites, 0), DMFile(nsites, 100))
           /\ kind' = "dm"

Pick == /\ pc = "pick"
        /\ PickRef \/ PickPsi \/ PickDM
        /\ pc' = "done"
        /\ UNCHANGED <<nrows, nsites>>
Next == Pick

\* ---- invariants ----
Done == pc = "done"
RefExact == (Done /\ kind = "ref") =>
    /\ loaded.samples = samples /\ loaded.bases = bases
    /\ IsRefExtraction(loaded.ref, samples, bases)
    /\ \A i \in 1..Len(bases) : AllZ(bases[i]) <=> (\A s \in 1..nsites : bases[i][s] = "Z")
\* not the rows containing a Z somewhere: whenever some row has a Z but is not all Z it is left out
RefNotAny == (Done /\ kind = "ref") =>
    Len(loaded.ref) <= Cardinality({i \in 1..nrows : \E s \in 1..nsites : bases[i][s] = "Z"})
PsiLayout == (Done /\ kind = "psi") =>
    /\ Len(loaded.re) = P2(nsites) /\ Len(loaded.im) = P2(nsites)
    /\ \A k \in 1..P2(nsites) : loaded.re[k] = samples[k][1] /\ loaded.im[k] = samples[k][2]
DMLayout == (Done /\ kind = "dm") =>
    \A i \in 1..P2(nsites) : \A j \in 1..P2(nsites) :
        /\ loaded.re[i][j] = samples[1][i][j]
        /\ loaded.im[i][j] = samples[2][i][j]

Export == Done => PrintT(ToJson([kind |-> kind, nrows |-> nrows, nsites |-> nsites, bases |-> bases,
                                 samples |-> samples, loaded |-> loaded]))
=============================================================================
