------------------------------- MODULE Train -------------------------------
(***************************************************************************)
(* NeuralStateBase.fit (qucumber/nn_states/neural_state.py) as a state     *)
(* machine, one action per critical section of the code, together with the *)
(* library callbacks that hang off its events (MetricEvaluator /           *)
(* ObservableEvaluator, ModelSaver, Logger, EarlyStopping) and a user      *)
(* callback that records events and may request a stop.                    *)
(*                                                                         *)
(* Every action appends to `hist` exactly the events an outside observer   *)
(* of the real run can record (callback invocations, randperm/randint      *)
(* draws, compute_batch_gradients, optimizer.zero_grad / vector_to_grads / *)
(* optimizer.step, scheduler.step, metric evaluation, save, log line).     *)
(* The same actions are reused by TraceTrain.tla to validate recorded runs.*)
(***************************************************************************)
EXTENDS Integers, Sequences, FiniteSets, TLC

CONSTANTS Shards,   \* the configuration space is split into shards (TLC handles initial states on one
          CfgsOf(_),\* thread, so Init only picks a shard and the Pick action picks the configuration)
          MaxInj    \* how many stop requests the environment may inject per run

VARIABLES cfg,      \* the configuration of this run
          pc,       \* control point: the event that happens next
          ep, b,    \* current epoch, current batch index (0-based like the code)
          net,      \* index of the network whose gradient is assigned next
          stop,     \* nn_state.stop_training
          pver,     \* number of optimizer steps applied so far (parameter version)
          sched,    \* number of scheduler steps so far
          perm,     \* permutation drawn for this epoch (sequence over 1..N)
          negIdx,   \* indices drawn for the negative phase (<<>> on path A)
          hist,     \* observable event history
          inj,      \* number of stop requests injected so far
          cbs,      \* per-callback state (records of evaluators, saver, logger, stopper)
          carry     \* <<>> or what the previous fit() on the same callbacks left behind

vars == <<cfg, pc, ep, b, net, stop, pver, sched, perm, negIdx, hist, inj, cbs, carry>>

-----------------------------------------------------------------------------
(* Configuration *)

Ceil(a, d) == (a + d - 1) \div d
NB(c)    == Ceil(c.N, c.posB)                       \* num_batches = ceil(N / pos_batch_size)
NegB(c)  == IF c.negB = 0 THEN c.posB ELSE c.negB   \* neg_batch_size defaults to pos_batch_size
HasBases(c) == Len(c.bases) > 0
NegPath(c) == IF ~HasBases(c) /\ NegB(c) = c.posB THEN "A"
              ELSE IF ~HasBases(c) THEN "B" ELSE "C"
Nets(c)  == IF c.type = "positive" THEN 1 ELSE 2
NCb(c)   == Len(c.cbs)
\* rows measured entirely in the reference basis (basis code 0 = all Z), in order
RECURSIVE ZSeqFrom(_, _)
ZSeqFrom(c, i) == IF i > c.N THEN <<>>
                  ELSE IF c.bases[i] = 0 THEN <<i>> \o ZSeqFrom(c, i + 1) ELSE ZSeqFrom(c, i + 1)
ZSeq(c) == ZSeqFrom(c, 1)

CfgOK(c) ==
    /\ c.type \in {"positive", "complex", "density"}
    /\ c.N >= 1 /\ c.posB >= 1 /\ c.negB >= 0
    /\ Len(c.data) = c.N
    /\ (HasBases(c) => Len(c.bases) = c.N /\ Len(ZSeq(c)) >= 1)   \* precondition: >= 1 all-Z row
    /\ (c.type = "positive" => ~HasBases(c))
    /\ (c.type # "positive" => HasBases(c))      \* complex / mixed states refuse to train without bases
    /\ c.again \in {"no", "keep", "clear", "keepStop", "abort"}
    /\ NCb(c) >= 1 /\ \E i \in 1..NCb(c) : c.cbs[i].t = "rec"

IsPerm(p, n) == /\ Len(p) = n
                /\ \A i \in 1..n : p[i] \in 1..n
                /\ \A i, j \in 1..n : i # j => p[i] # p[j]
Identity(n) == [i \in 1..n |-> i]
Perms(n) == {p \in [1..n -> 1..n] : \A i, j \in 1..n : i # j => p[i] # p[j]}

\* candidate draws; the exhaustive configs restrict them (c.perms), the trace spec binds them
PermCands(c) == CASE c.perms = "id"  -> {Identity(c.N)}
                  [] c.perms = "rev" -> {Identity(c.N), [i \in 1..c.N |-> c.N + 1 - i]}
                  [] c.perms = "all" -> Perms(c.N)
NegPool(c)   == IF NegPath(c) = "C" THEN 1..Len(ZSeq(c)) ELSE 1..c.N
NegLen(c)    == IF NegPath(c) = "A" THEN 0 ELSE NB(c) * NegB(c)
NegCycle(c)  == [i \in 1..NegLen(c) |-> ((i - 1) % Cardinality(NegPool(c))) + 1]
NegCands(c)  == IF NegPath(c) = "A" THEN {<<>>}
                ELSE IF c.perms = "id" THEN {NegCycle(c)}
                ELSE {[i \in 1..NegLen(c) |-> x] : x \in NegPool(c)} \cup {NegCycle(c)}
NegOK(c, s)  == Len(s) = NegLen(c) /\ \A i \in 1..Len(s) : s[i] \in NegPool(c)

-----------------------------------------------------------------------------
(* Batches (pure functions of cfg, perm, negIdx) *)

Lo(sz, bi) == bi * sz + 1
Hi(sz, bi, n) == IF (bi + 1) * sz < n THEN (bi + 1) * sz ELSE n
Slice(s, lo, hi) == [i \in 1..(hi - lo + 1) |-> s[lo + i - 1]]

PosIdx(c, p, bi)  == Slice(p, Lo(c.posB, bi), Hi(c.posB, bi, c.N))         \* indices into data
PosRows(c, p, bi) == [i \in 1..Len(PosIdx(c, p, bi)) |-> c.data[PosIdx(c, p, bi)[i]]]
PosBases(c, p, bi) == IF HasBases(c)
                      THEN [i \in 1..Len(PosIdx(c, p, bi)) |-> c.bases[PosIdx(c, p, bi)[i]]]
                      ELSE <<>>
NegRows(c, p, ni, bi) ==
    CASE NegPath(c) = "A" -> PosRows(c, p, bi)
      [] NegPath(c) = "B" -> [i \in 1..NegB(c) |-> c.data[ni[Lo(NegB(c), bi) + i - 1]]]
      [] NegPath(c) = "C" -> [i \in 1..NegB(c) |-> c.data[ZSeq(c)[ni[Lo(NegB(c), bi) + i - 1]]]]

-----------------------------------------------------------------------------
(* Events *)

CbEv(kind, e, bi, i, st, pv, injected) ==
    [k |-> kind, ep |-> e, b |-> bi, cb |-> i, stop |-> st, pv |-> pv, inj |-> injected]

\* scripted evaluator values: what the monitored quantity is at epoch e
Val(c, e) == c.vals[e + 1]
Var(c, e) == c.vars[e + 1]

Abs(x) == IF x < 0 THEN -x ELSE x

(* The documented convergence rule (EarlyStopping docstring): deviation between
   the current evaluation M_t and the evaluation p evaluations earlier M_{t-p}.
   tol = tolN / tolD, tolD = 0 encodes +infinity.  A zero denominator makes the
   deviation infinite / undefined, never below a tolerance. *)
Below(d, rec) ==
    LET n   == Len(rec)
        cur == rec[n]
        ref == rec[n - d.patience]
        num == Abs(ref[2] - cur[2])
    IN CASE d.crit = "absolute" -> IF d.tolD = 0 THEN TRUE ELSE num * d.tolD < d.tolN
         [] d.crit = "relative" -> IF ref[2] = 0 THEN FALSE
                                   ELSE IF d.tolD = 0 THEN TRUE
                                   ELSE num * d.tolD < d.tolN * Abs(ref[2])
         [] d.crit = "variance" -> IF ref[3] = 0 THEN FALSE
                                   ELSE IF d.tolD = 0 THEN TRUE
                                   ELSE num * num * d.tolD * d.tolD < d.tolN * d.tolN * ref[3]

(* One CallbackList dispatch: the callbacks are invoked in list order; a stop
   requested by one is visible to the next.  Returns the new stop flag, the
   events produced and the new callback states. *)
RECURSIVE Dispatch(_, _, _, _, _, _, _, _, _)
Dispatch(c, kind, e, bi, pv, i, st, cs, acc) ==
    \* acc = [ev |-> events so far, injAt |-> index of the callback that injects (0 = none)]
    IF i > NCb(c) THEN [stop |-> st, ev |-> acc.ev, cbs |-> cs, raised |-> FALSE]
    ELSE LET d == c.cbs[i] IN
      CASE d.t = "rec" ->
             IF acc.raiseAt = i
             THEN \* the user's callback sees the event and raises: the rest of the list is not called, the
                  \* exception leaves fit() (the "RZ" pseudo-event is what the raising callback itself logs)
                  [stop |-> st, cbs |-> cs, raised |-> TRUE,
                   ev |-> acc.ev \o <<CbEv(kind, e, bi, i, st, pv, FALSE),
                                      [k |-> "RZ", kk |-> kind, ep |-> e, b |-> bi, cb |-> i]>>]
             ELSE
             Dispatch(c, kind, e, bi, pv, i + 1, st \/ (acc.injAt = i), cs,
                      [acc EXCEPT !.ev = Append(@, CbEv(kind, e, bi, i, st, pv, acc.injAt = i))])
        [] d.t = "eval" ->
             IF kind = "EE" /\ e % d.period = 0 /\ acc.raiseAt = i
             THEN \* the user's metric function (or the sampling behind an observable) raises during a due
                  \* evaluation: the evaluation never completed, so it leaves no record behind
                  [stop |-> st, cbs |-> cs, raised |-> TRUE,
                   ev |-> acc.ev \o <<[k |-> "EV", cb |-> i, ep |-> e],
                                      [k |-> "RZ", kk |-> kind, ep |-> e, b |-> bi, cb |-> i]>>]
             ELSE IF kind = "EE" /\ e % d.period = 0
             THEN Dispatch(c, kind, e, bi, pv, i + 1, st,
                           [cs EXCEPT ![i] = Append(@, <<e, Val(c, e), Var(c, e)>>)],
                           [acc EXCEPT !.ev = Append(@, [k |-> "EV", cb |-> i, ep |-> e])])
             ELSE Dispatch(c, kind, e, bi, pv, i + 1, st, cs, acc)
        [] d.t = "saver" ->
             IF kind = "TS" /\ d.initial
             THEN Dispatch(c, kind, e, bi, pv, i + 1, st,
                           [cs EXCEPT ![i] = Append(@, <<-1, pv>>)],
                           [acc EXCEPT !.ev = Append(@, [k |-> "SV", cb |-> i, name |-> -1, pv |-> pv])])
             ELSE IF kind = "EE" /\ e % d.period = 0
             THEN Dispatch(c, kind, e, bi, pv, i + 1, st,
                           [cs EXCEPT ![i] = Append(@, <<e, pv>>)],
                           [acc EXCEPT !.ev = Append(@, [k |-> "SV", cb |-> i, name |-> e, pv |-> pv])])
             ELSE Dispatch(c, kind, e, bi, pv, i + 1, st, cs, acc)
        [] d.t = "logger" ->
             IF kind = "EE" /\ e % d.period = 0
             THEN Dispatch(c, kind, e, bi, pv, i + 1, st,
                           [cs EXCEPT ![i] = Append(@, e)],
                           [acc EXCEPT !.ev = Append(@, [k |-> "LG", cb |-> i, ep |-> e])])
             ELSE Dispatch(c, kind, e, bi, pv, i + 1, st, cs, acc)
        [] d.t = "early" ->
             IF /\ kind = "EE" /\ e % d.period = 0
                /\ Len(cs[d.ev]) >= d.patience + 1
                /\ Below(d, cs[d.ev])
             THEN Dispatch(c, kind, e, bi, pv, i + 1, TRUE, [cs EXCEPT ![i] = <<e>>], acc)
             ELSE Dispatch(c, kind, e, bi, pv, i + 1, st, cs, acc)

RecIdx(c) == {i \in 1..NCb(c) : c.cbs[i].t = "rec"}

-----------------------------------------------------------------------------
(* Actions *)

InitWith(c) ==
    /\ cfg = c
    /\ pc = "Entry"
    /\ ep = -1 /\ b = -1 /\ net = 0
    /\ stop = c.entryStop
    /\ pver = 0 /\ sched = 0
    /\ perm = <<>> /\ negIdx = <<>>
    /\ hist = <<>> /\ inj = 0
    /\ cbs = [i \in 1..NCb(c) |-> <<>>]
    /\ carry = <<>>

Init ==
    /\ \E s \in Shards : cfg = [shard |-> s]
    /\ pc = "Pick"
    /\ ep = -1 /\ b = -1 /\ net = 0 /\ stop = FALSE /\ pver = 0 /\ sched = 0
    /\ perm = <<>> /\ negIdx = <<>> /\ hist = <<>> /\ inj = 0 /\ cbs = <<>> /\ carry = <<>>

\* the user constructs the run: configuration, callbacks, a stop possibly already requested
Pick ==
    /\ pc = "Pick"
    /\ \E c \in CfgsOf(cfg.shard) :
          /\ cfg' = c /\ stop' = c.entryStop /\ cbs' = [i \in 1..NCb(c) |-> <<>>]
    /\ pc' = "Entry"
    /\ UNCHANGED <<ep, b, net, pver, sched, perm, negIdx, hist, inj, carry>>

\* `if self.stop_training: return` -- nothing happens at all
Entry ==
    /\ pc = "Entry"
    /\ pc' = IF stop THEN "Done" ELSE "TS"
    /\ UNCHANGED <<cfg, ep, b, net, stop, pver, sched, perm, negIdx, hist, inj, cbs, carry>>

SchedOrEE == IF cfg.sched THEN "SC" ELSE "EE"

\* a CallbackList dispatch of event `kind`; the environment may inject one stop request, or (runs with
\* cfg.again = "abort") make one user callback raise, which ends the run on the spot
DispatchStep(kind, e, bi, injAt, raiseAt) ==
    LET r == Dispatch(cfg, kind, e, bi, pver, 1, stop, cbs, [ev |-> <<>>, injAt |-> injAt, raiseAt |-> raiseAt]) IN
    /\ hist' = hist \o r.ev
    /\ stop' = r.stop
    /\ cbs' = r.cbs
    /\ inj' = IF injAt = 0 THEN inj ELSE inj + 1
    /\ (raiseAt # 0) = r.raised        \* a raise is chosen only where it takes effect (an evaluator that is due)

InjChoices == IF inj < MaxInj /\ ~stop THEN {0} \cup RecIdx(cfg) ELSE {0}
RaiseChoices == IF cfg.again = "abort"
                THEN {0} \cup RecIdx(cfg) \cup {i \in 1..NCb(cfg) : cfg.cbs[i].t = "eval"} ELSE {0}
\* the environment's choice at one dispatch: at most one of the two
EnvChoices == {<<ia, 0>> : ia \in InjChoices} \cup {<<0, ra>> : ra \in RaiseChoices}

TrainStart ==
    /\ pc = "TS"
    /\ \E x \in EnvChoices :
          /\ DispatchStep("TS", -1, -1, x[1], x[2])
          /\ IF x[2] # 0 THEN pc' = "Aborted" /\ ep' = ep
             ELSE IF cfg.startEp <= cfg.epochs
             THEN pc' = "SH" /\ ep' = cfg.startEp
             ELSE pc' = "TE" /\ ep' = ep
    /\ UNCHANGED <<cfg, b, net, pver, sched, perm, negIdx, carry>>

\* _shuffle_data: one randperm, then (paths B, C) one randint; runs BEFORE on_epoch_start
ShuffleWith(p, ni) ==
    /\ pc = "SH"
    /\ IsPerm(p, cfg.N) /\ NegOK(cfg, ni)
    /\ perm' = p /\ negIdx' = ni
    /\ hist' = Append(hist, [k |-> "SH", ep |-> ep, perm |-> p, neg |-> ni])
    /\ pc' = "ES" /\ b' = 0
    /\ UNCHANGED <<cfg, ep, net, stop, pver, sched, inj, cbs, carry>>
Shuffle == pc = "SH" /\ \E p \in PermCands(cfg), ni \in NegCands(cfg) : ShuffleWith(p, ni)

EpochStart ==
    /\ pc = "ES"
    /\ \E x \in EnvChoices : DispatchStep("ES", ep, -1, x[1], x[2]) /\ pc' = (IF x[2] # 0 THEN "Aborted" ELSE "BS")
    /\ UNCHANGED <<cfg, ep, b, net, pver, sched, perm, negIdx, carry>>

BatchStart ==
    /\ pc = "BS"
    /\ \E x \in EnvChoices : DispatchStep("BS", ep, b, x[1], x[2]) /\ pc' = (IF x[2] # 0 THEN "Aborted" ELSE "CG")
    /\ UNCHANGED <<cfg, ep, b, net, pver, sched, perm, negIdx, carry>>

\* compute_batch_gradients(k, samples_batch, neg_batch[, bases_batch])
Compute ==
    /\ pc = "CG"
    /\ hist' = Append(hist, [k |-> "CG", ep |-> ep, b |-> b,
                             pos |-> PosRows(cfg, perm, b),
                             bas |-> PosBases(cfg, perm, b),
                             neg |-> NegRows(cfg, perm, negIdx, b)])
    /\ pc' = "ZG"
    /\ UNCHANGED <<cfg, ep, b, net, stop, pver, sched, perm, negIdx, inj, cbs, carry>>

ZeroGrad ==
    /\ pc = "ZG"
    /\ hist' = Append(hist, [k |-> "ZG", ep |-> ep, b |-> b])
    /\ pc' = "AS" /\ net' = 1
    /\ UNCHANGED <<cfg, ep, b, stop, pver, sched, perm, negIdx, inj, cbs, carry>>

\* vector_to_grads(all_grads[i], rbm.parameters()) for the networks in order
Assign ==
    /\ pc = "AS"
    /\ hist' = Append(hist, [k |-> "AS", ep |-> ep, b |-> b, net |-> net])
    /\ IF net < Nets(cfg) THEN net' = net + 1 /\ pc' = "AS" ELSE net' = 0 /\ pc' = "OS"
    /\ UNCHANGED <<cfg, ep, b, stop, pver, sched, perm, negIdx, inj, cbs, carry>>

OptStep ==
    /\ pc = "OS"
    /\ pver' = pver + 1
    /\ hist' = Append(hist, [k |-> "OS", ep |-> ep, b |-> b, pv |-> pver + 1])
    /\ pc' = "BE"
    /\ UNCHANGED <<cfg, ep, b, net, stop, sched, perm, negIdx, inj, cbs, carry>>

BatchEnd ==
    /\ pc = "BE"
    /\ \E x \in EnvChoices :
          /\ DispatchStep("BE", ep, b, x[1], x[2])
          /\ IF x[2] # 0 THEN pc' = "Aborted" /\ b' = b
             ELSE IF stop' THEN pc' = SchedOrEE /\ b' = b                  \* break
             ELSE IF b + 1 < NB(cfg) THEN pc' = "BS" /\ b' = b + 1
             ELSE pc' = SchedOrEE /\ b' = b
    /\ UNCHANGED <<cfg, ep, net, pver, sched, perm, negIdx, carry>>

\* scheduler.step(): once per started epoch, after the batch loop, before on_epoch_end
SchedStep ==
    /\ pc = "SC"
    /\ sched' = sched + 1
    /\ hist' = Append(hist, [k |-> "SC", ep |-> ep, n |-> sched + 1])
    /\ pc' = "EE"
    /\ UNCHANGED <<cfg, ep, b, net, stop, pver, perm, negIdx, inj, cbs, carry>>

EpochEnd ==
    /\ pc = "EE"
    /\ \E x \in EnvChoices :
          /\ DispatchStep("EE", ep, -1, x[1], x[2])
          /\ IF x[2] # 0 THEN pc' = "Aborted" /\ ep' = ep
             ELSE IF stop' THEN pc' = "TE" /\ ep' = ep                     \* break
             ELSE IF ep + 1 <= cfg.epochs THEN pc' = "SH" /\ ep' = ep + 1
             ELSE pc' = "TE" /\ ep' = ep
    /\ UNCHANGED <<cfg, b, net, pver, sched, perm, negIdx, carry>>

TrainEnd ==
    /\ pc = "TE"
    /\ \E x \in EnvChoices : DispatchStep("TE", -1, -1, x[1], x[2]) /\ pc' = (IF x[2] # 0 THEN "Aborted" ELSE "Done")
    /\ UNCHANGED <<cfg, ep, b, net, pver, sched, perm, negIdx, carry>>

\* A second fit() with the same callback objects (cfg.again): the user may clear the
\* evaluators' history in between ("clear") or not ("keep"), and resets the stop flag unless
\* "keepStop".  Records of savers / loggers / evaluators accumulate across runs.
\* "abort": the first run may have been ended by an exception raised in a user callback (pc = "Aborted": no
\* further event of that run, in particular no train-end); the user catches it and calls fit() again on the same
\* objects without touching anything - whatever the aborted run left behind is what the next run starts from.
Restart ==
    /\ \/ pc = "Done" /\ cfg.again \in {"keep", "clear", "keepStop", "abort"}
       \/ pc = "Aborted"
    /\ carry' = [hist |-> hist, cbs |-> cbs, stop |-> stop, pver |-> pver, again |-> cfg.again]
    /\ cbs' = [i \in 1..NCb(cfg) |->
                 IF cfg.again = "clear" /\ cfg.cbs[i].t = "eval" THEN <<>>
                 ELSE IF cfg.cbs[i].t = "early" THEN <<>>       \* (the user resets the stopper's last_epoch)
                 ELSE cbs[i]]
    /\ stop' = (cfg.again \in {"keepStop", "abort"} /\ stop)
    /\ cfg' = [cfg EXCEPT !.again = "no", !.entryStop = (cfg.again \in {"keepStop", "abort"} /\ stop)]
    /\ pc' = "Entry" /\ ep' = -1 /\ b' = -1 /\ net' = 0 /\ sched' = 0
    /\ perm' = <<>> /\ negIdx' = <<>> /\ hist' = <<>> /\ inj' = 0
    /\ UNCHANGED pver

Next == \/ Pick \/ Restart \/ Entry \/ TrainStart \/ Shuffle \/ EpochStart \/ BatchStart \/ Compute
        \/ ZeroGrad \/ Assign \/ OptStep \/ BatchEnd \/ SchedStep \/ EpochEnd \/ TrainEnd

Spec == Init /\ [][Next]_vars /\ WF_vars(Next)

Terminates == <>(pc = "Done" /\ cfg.again = "no")

-----------------------------------------------------------------------------
(* Properties.  They are stated over the observable history, independently of
   the control structure above. *)

\* records carried over from a previous run on the same callback objects
Base(i) == IF carry = <<>> THEN <<>>
           ELSE IF carry.again = "clear" /\ cfg.cbs[i].t = "eval" THEN <<>>
           ELSE IF cfg.cbs[i].t = "early" THEN <<>>
           ELSE carry.cbs[i]
BasePver == IF carry = <<>> THEN 0 ELSE carry.pver

\* the logical callback events: what the first recording callback saw
First == CHOOSE i \in RecIdx(cfg) : \A j \in RecIdx(cfg) : i <= j
IsCb(e) == e.k \in {"TS", "ES", "BS", "BE", "EE", "TE"}
CbH  == SelectSeq(hist, LAMBDA e : IsCb(e) /\ e.cb = First)

\* successor relation of the documented protocol
Follows(x, y) ==
    CASE x.k = "TS" -> (y.k = "ES" /\ y.ep = cfg.startEp) \/ y.k = "TE"
      [] x.k = "ES" -> y.k = "BS" /\ y.ep = x.ep /\ y.b = 0
      [] x.k = "BS" -> y.k = "BE" /\ y.ep = x.ep /\ y.b = x.b
      [] x.k = "BE" -> \/ (y.k = "BS" /\ y.ep = x.ep /\ y.b = x.b + 1)
                       \/ (y.k = "EE" /\ y.ep = x.ep)
      [] x.k = "EE" -> (y.k = "ES" /\ y.ep = x.ep + 1) \/ y.k = "TE"
      [] x.k = "TE" -> FALSE

\* C12: event grammar (prefix-closed part)
Protocol0 ==
    LET H == CbH IN
    /\ (Len(H) >= 1 => H[1].k = "TS")
    /\ \A i \in 1..(Len(H) - 1) : Follows(H[i], H[i + 1])
    /\ \A i \in 1..Len(H) : H[i].k \in {"ES", "EE", "BS", "BE"} =>
            H[i].ep >= cfg.startEp /\ H[i].ep <= cfg.epochs
    /\ \A i \in 1..Len(H) : H[i].k \in {"BS", "BE"} => H[i].b < NB(cfg)

\* C12: parameters change only between a batch-start and its batch-end (and there exactly once)
ParamsOnlyInBatch0 ==
    LET H == CbH IN
    \A i \in 1..(Len(H) - 1) :
        IF H[i].k = "BS" THEN H[i + 1].pv = H[i].pv + 1 ELSE H[i + 1].pv = H[i].pv

\* every callback sees every event, in list order, before the next event is dispatched
ListOrder0 ==
    LET R == SelectSeq(hist, IsCb)
        n == Cardinality(RecIdx(cfg)) IN
    \A i \in 1..Len(R) : \A j \in 1..Len(R) :
        (i < j /\ (i - 1) \div n = (j - 1) \div n) =>
            /\ R[i].cb < R[j].cb
            /\ R[i].k = R[j].k /\ R[i].ep = R[j].ep /\ R[i].b = R[j].b

\* stop flag as of the END of logical event i (after every callback ran)
StopAfter(H, i) == IF i < Len(H) THEN H[i + 1].stop ELSE stop
\* a request made while the logical event i is being dispatched
(* C12: StopHonoured.  Let i be the first logical event during or before which a
   stop is in force at its end.  Then: no epoch starts after i unless i is
   train-start (then at most one); at most one batch starts after i and only if
   i is a train/epoch/batch start ... i.e. "the one following batch". *)
FirstStop(H) == IF \E i \in 1..Len(H) : StopAfter(H, i)
                THEN CHOOSE i \in 1..Len(H) : StopAfter(H, i) /\ \A j \in 1..(i - 1) : ~StopAfter(H, j)
                ELSE 0
StopHonoured0 ==
    LET H == CbH
        s == FirstStop(H)
        after(kind) == {j \in (s + 1)..Len(H) : H[j].k = kind} IN
    s > 0 =>
      /\ \A j \in s..Len(H) : StopAfter(H, j)                      \* the request persists
      /\ CASE H[s].k \in {"BE", "EE"} -> after("BS") = {} /\ after("ES") = {}
           [] H[s].k = "BS" -> after("BS") = {} /\ after("ES") = {}
           [] H[s].k = "ES" -> Cardinality(after("BS")) <= 1 /\ after("ES") = {}
           [] H[s].k = "TS" -> Cardinality(after("BS")) <= 1 /\ Cardinality(after("ES")) <= 1
           [] H[s].k = "TE" -> TRUE

\* C12: at the end of the run the history is complete
Complete0 ==
    pc = "Done" =>
      LET H == CbH IN
      IF cfg.entryStop THEN hist = <<>> /\ pver = BasePver /\ stop
      ELSE /\ Len(H) >= 2 /\ H[1].k = "TS" /\ H[Len(H)].k = "TE"
           /\ \A i \in 2..(Len(H) - 1) : H[i].k \notin {"TS", "TE"}
           \* every started epoch is ended
           /\ \A i \in 1..Len(H) : H[i].k = "ES" =>
                  \E j \in (i + 1)..Len(H) : H[j].k = "EE" /\ H[j].ep = H[i].ep
           \* without any stop request the run is the full schedule
           /\ (~stop => /\ Cardinality({i \in 1..Len(H) : H[i].k = "ES"})
                              = (IF cfg.epochs >= cfg.startEp THEN cfg.epochs - cfg.startEp + 1 ELSE 0)
                        /\ Cardinality({i \in 1..Len(H) : H[i].k = "BS"})
                              = (IF cfg.epochs >= cfg.startEp THEN (cfg.epochs - cfg.startEp + 1) * NB(cfg) ELSE 0))
           /\ (stop = (inj > 0 \/ \E i \in 1..NCb(cfg) : cfg.cbs[i].t = "early" /\ cbs[i] # <<>>))

\* C06: update protocol inside a batch and scheduler placement
Internal == SelectSeq(hist, LAMBDA e : ~IsCb(e) \/ e.cb = First)
StepProtocol0 ==
    LET H == SelectSeq(Internal, LAMBDA e : e.k \notin {"EV", "SV", "LG", "RZ"}) IN
    \A i \in 1..(Len(H) - 1) :
      LET x == H[i] y == H[i + 1] IN
      CASE x.k = "BS" -> y.k = "CG" /\ y.ep = x.ep /\ y.b = x.b
        [] x.k = "CG" -> y.k = "ZG"
        [] x.k = "ZG" -> y.k = "AS" /\ y.net = 1
        [] x.k = "AS" -> IF x.net < Nets(cfg) THEN y.k = "AS" /\ y.net = x.net + 1 ELSE y.k = "OS"
        [] x.k = "OS" -> y.k = "BE" /\ y.pv = x.pv
        [] x.k = "SC" -> y.k = "EE" /\ y.ep = x.ep
        [] x.k = "SH" -> y.k = "ES" /\ y.ep = x.ep
        [] x.k = "EE" -> y.k \in {"SH", "TE"}
        [] x.k = "BE" -> IF y.k = "EE" THEN ~cfg.sched ELSE y.k \in {"BS", "SC"}
        [] OTHER -> TRUE
SchedOncePerEpoch0 ==
    LET H == CbH IN
    \* scheduler steps = number of epochs whose end has been reached (plus the one in flight after SC)
    /\ sched <= Cardinality({i \in 1..Len(H) : H[i].k = "ES"})
    /\ (cfg.sched => sched >= Cardinality({i \in 1..Len(H) : H[i].k = "EE"}))
    /\ (~cfg.sched => sched = 0)
    /\ (pc = "Done" /\ cfg.sched => sched = Cardinality({i \in 1..Len(H) : H[i].k = "EE"}))

\* C07: batching
ShuffleEvents == SelectSeq(hist, LAMBDA e : e.k = "SH")
RECURSIVE SeqSum(_)
SeqSum(s) == IF s = <<>> THEN 0 ELSE Head(s) + SeqSum(Tail(s))
Count(s, x) == Cardinality({i \in 1..Len(s) : s[i] = x})
RECURSIVE Flatten(_)
Flatten(ss) == IF ss = <<>> THEN <<>> ELSE Head(ss) \o Flatten(Tail(ss))
EpochBatches(p) == [bi \in 1..NB(cfg) |-> PosIdx(cfg, p, bi - 1)]
EachRowOnce0 ==
    \A s \in 1..Len(ShuffleEvents) :
      LET p  == ShuffleEvents[s].perm
          fl == Flatten(EpochBatches(p)) IN
      /\ Len(fl) = cfg.N
      /\ \A r \in 1..cfg.N : Count(fl, r) = 1                       \* every row index exactly once
      /\ \A bi \in 1..NB(cfg) :
           Len(EpochBatches(p)[bi]) = (IF bi < NB(cfg) THEN cfg.posB ELSE cfg.N - (NB(cfg) - 1) * cfg.posB)
      /\ NB(cfg) * cfg.posB >= cfg.N /\ (NB(cfg) - 1) * cfg.posB < cfg.N   \* ceil
\* what was actually handed to compute_batch_gradients, against the draw of that epoch
ShuffleBefore(i) == hist[CHOOSE j \in 1..i : hist[j].k = "SH" /\ \A l \in (j + 1)..i : hist[l].k # "SH"]
Min(x, y) == IF x < y THEN x ELSE y
OwnBasis0 ==
    \A i \in 1..Len(hist) : hist[i].k = "CG" =>
      LET e  == hist[i]
          p  == ShuffleBefore(i).perm
          ni == ShuffleBefore(i).neg
          off == e.b * cfg.posB IN
      /\ Len(e.pos) = Min(cfg.posB, cfg.N - off)
      /\ \A j \in 1..Len(e.pos) : e.pos[j] = cfg.data[p[off + j]]
      /\ (HasBases(cfg) => /\ Len(e.bas) = Len(e.pos)
                           /\ \A j \in 1..Len(e.pos) : e.bas[j] = cfg.bases[p[off + j]])
      /\ (~HasBases(cfg) => e.bas = <<>>)
      \* negative rows come from the data (all-Z rows when bases are given)
      /\ \A j \in 1..Len(e.neg) :
            \E r \in 1..cfg.N : cfg.data[r] = e.neg[j] /\ (HasBases(cfg) => cfg.bases[r] = 0)
      /\ Len(e.neg) = (IF NegPath(cfg) = "A" THEN Len(e.pos) ELSE NegB(cfg))
      /\ (NegPath(cfg) = "A" => e.neg = e.pos)

\* C17: records of periodic callbacks = executed epoch ends that are multiples of the period
EEs == SelectSeq(CbH, LAMBDA e : e.k = "EE")
\* a dispatch cut short by a raise at list position r completed only the callbacks before r (a raising evaluator
\* itself leaves no record)
Reached(i, kind) == ~(pc = "Aborted" /\ hist[Len(hist)].kk = kind /\ hist[Len(hist)].cb <= i)
EEsFor(i) == IF Reached(i, "EE") THEN EEs ELSE SubSeq(EEs, 1, Len(EEs) - 1)
OnSchedule0 ==
    \A i \in 1..NCb(cfg) :
      LET d == cfg.cbs[i]
          due == SelectSeq(EEsFor(i), LAMBDA e : e.ep % d.period = 0) IN
      CASE d.t = "eval" ->
             /\ Len(cbs[i]) = Len(Base(i)) + Len(due)
             /\ SubSeq(cbs[i], 1, Len(Base(i))) = Base(i)
             /\ \A j \in 1..Len(due) :
                   cbs[i][Len(Base(i)) + j] = <<due[j].ep, Val(cfg, due[j].ep), Var(cfg, due[j].ep)>>
        [] d.t = "logger" ->
             /\ Len(cbs[i]) = Len(Base(i)) + Len(due)
             /\ SubSeq(cbs[i], 1, Len(Base(i))) = Base(i)
             /\ \A j \in 1..Len(due) : cbs[i][Len(Base(i)) + j] = due[j].ep
        [] d.t = "saver" ->
             LET ini == IF d.initial /\ Len(CbH) >= 1 /\ Reached(i, "TS") THEN 1 ELSE 0 IN
             /\ Len(cbs[i]) = Len(Base(i)) + ini + Len(due)
             /\ SubSeq(cbs[i], 1, Len(Base(i))) = Base(i)
             /\ (ini = 1 => cbs[i][Len(Base(i)) + 1] = <<-1, CbH[1].pv>>)
             /\ \A j \in 1..Len(due) : cbs[i][Len(Base(i)) + ini + j] = <<due[j].ep, due[j].pv>>
        [] OTHER -> TRUE

(* C18: the stopper fires at the first checked epoch satisfying the documented
   rule, stated directly on the scripted value sequence.  EvalsBefore(i, e):
   the evaluator's records when the stopper (list position i) runs at epoch e. *)
RECURSIVE EvalEpochs(_, _, _)
EvalEpochs(lo, hi, p) == IF lo > hi THEN <<>>
                         ELSE IF lo % p = 0 THEN <<lo>> \o EvalEpochs(lo + 1, hi, p)
                         ELSE EvalEpochs(lo + 1, hi, p)
RecsAt(i, e) ==
    LET d  == cfg.cbs[i]
        pe == cfg.cbs[d.ev].period
        hi == IF d.ev < i THEN e ELSE e - 1       \* evaluator earlier in the list has already run
        es == EvalEpochs(cfg.startEp, hi, pe) IN
    \* (an evaluator that is not cleared between two runs keeps the evaluations of the earlier run: "p
    \* evaluations earlier" counts them)
    Base(d.ev) \o [j \in 1..Len(es) |-> <<es[j], Val(cfg, es[j]), Var(cfg, es[j])>>]
RuleAt(i, e) ==
    LET d == cfg.cbs[i] r == RecsAt(i, e) IN
    /\ e % d.period = 0
    /\ Len(r) >= d.patience + 1
    /\ Below(d, r)
FirstHit0 ==
    \A i \in 1..NCb(cfg) : cfg.cbs[i].t = "early" /\ inj = 0 =>
      /\ (cbs[i] # <<>> =>
            LET e == cbs[i][1] IN
            /\ RuleAt(i, e)
            /\ \A x \in cfg.startEp..(e - 1) : ~RuleAt(i, x)
            \* never compares an evaluation with itself, never before p earlier evaluations exist
            /\ Len(RecsAt(i, e)) - cfg.cbs[i].patience >= 1
            /\ Len(RecsAt(i, e)) - cfg.cbs[i].patience # Len(RecsAt(i, e)))
      /\ (pc = "Done" /\ cbs[i] = <<>> /\ ~cfg.entryStop
            /\ Cardinality({j \in 1..NCb(cfg) : cfg.cbs[j].t = "early"}) = 1 =>
            \A x \in cfg.startEp..cfg.epochs : ~RuleAt(i, x))

TypeOK0 ==
    /\ pc \in {"Pick", "Entry", "TS", "SH", "ES", "BS", "CG", "ZG", "AS", "OS", "BE", "SC", "EE", "TE", "Done", "Aborted"}
    /\ stop \in BOOLEAN /\ pver >= 0 /\ sched >= 0 /\ inj \in 0..MaxInj
    /\ CfgOK(cfg)

Live == pc # "Pick"
Protocol == Live => Protocol0
ParamsOnlyInBatch == Live => ParamsOnlyInBatch0
ListOrder == Live => ListOrder0
StopHonoured == Live => StopHonoured0
Complete == Live => Complete0
StepProtocol == Live => StepProtocol0
SchedOncePerEpoch == Live => SchedOncePerEpoch0
EachRowOnce == Live => EachRowOnce0
OwnBasis == Live => OwnBasis0
OnSchedule == Live => OnSchedule0
FirstHit == Live => FirstHit0
TypeOK == Live => TypeOK0

=============================================================================
