---------------------------- MODULE CallbackSeq ----------------------------
(***************************************************************************)
(* The callback container and the helper callbacks that the training       *)
(* protocol of Train.tla relies on and abstracts away:                     *)
(*                                                                         *)
(*  Part A  qucumber/callbacks/callback_list.py   CallbackList as a        *)
(*          mutable sequence over a heap of list objects (a CallbackList   *)
(*          is itself a CallbackBase, so lists nest and alias), with the   *)
(*          type discipline of insert / __setitem__, the mixin methods of  *)
(*          collections.abc.MutableSequence written out the way the        *)
(*          standard library builds them on the five primitives, and the   *)
(*          dispatch of the six on_* events.                               *)
(*  Part B  qucumber/callbacks/lambda_callback.py  the construction table  *)
(*          of LambdaCallback: parameter-kind lists -> inspect.signature   *)
(*          count -> accepted / ValueError / TypeError / no-op.            *)
(*  Part C  qucumber/callbacks/timer.py  Timer as a state machine driven   *)
(*          by the event protocol of fit() (same shape as Train.tla).      *)
(*                                                                         *)
(* The three parts are three machines over disjoint variables (INIT/NEXT   *)
(* pairs AInit/ANext, BInit/BNext, CInit/CNext); the variables of the      *)
(* parts that are not running stay at their idle value.                    *)
(*                                                                         *)
(* Out of scope (stated, not modelled): a callback that mutates the list   *)
(* while it is being dispatched; cyclic containment (a list that reaches   *)
(* itself - dispatch would not terminate); access to the internal          *)
(* attribute `.callbacks`; a wall clock that runs backwards.               *)
(***************************************************************************)
EXTENDS Integers, Sequences, FiniteSets, TLC

CONSTANTS
    \* ---- Part A
    NCb,        \* number of distinct plain callback objects (atoms 1..NCb)
    NonKinds,   \* non-callback values offered as arguments, subset of 11..14
    NLists,     \* capacity of the heap of CallbackList objects
    MaxLen,     \* longest list explored
    IdxSet,     \* integer indices tried
    Bounds,     \* slice bounds tried (None included)
    Steps,      \* slice steps tried for reading (None included)
    PyLists,    \* plain python lists offered as arguments (sequences of tokens)
    \* ---- Part B
    MaxParams,  \* longest parameter list of a user callable
    BForms,     \* callable forms enumerated
    \* ---- Part C
    TShards, TCfgsOf(_), TMaxInj,
    LatchPerObject  \* TRUE = what the code does (already_notified is never reset)

VARIABLES
    lists, last,                                            \* Part A
    row,                                                    \* Part B
    tcfg, tpc, tep, tb, tstop, trun, tinj, clock,           \* Part C: the run
    tmStart, tmNotified, tmTime,                            \*         the Timer object
    tout, tev                                               \*         printed lines, events seen

avars == <<lists, last>>
tvars == <<tcfg, tpc, tep, tb, tstop, trun, tinj, clock, tmStart, tmNotified, tmTime, tout, tev>>
vars  == <<avars, row, tvars>>

None == 99                      \* python None where an integer is expected (slice bounds, pop default)

(* The six events, in the order used throughout: hook index -> number of
   arguments the library passes (shared by Part A dispatch and Part B). *)
Hooks == 1..6
HookName(h) == <<"on_train_start", "on_train_end", "on_epoch_start", "on_epoch_end",
                 "on_batch_start", "on_batch_end">>[h]
Arity(h) == <<1, 1, 2, 2, 3, 3>>[h]

RECURSIVE Rev(_)
Rev(s) == IF s = <<>> THEN <<>> ELSE Rev(Tail(s)) \o <<Head(s)>>
Count(s, x) == Cardinality({p \in 1..Len(s) : s[p] = x})

-----------------------------------------------------------------------------
(* Part A.  Tokens (what a list can hold / what a user can pass):
     1..NCb     plain callback objects (instances of CallbackBase subclasses)
     11..14     non-callbacks: 11 None, 12 a function, 13 the string "s", 14 the int 7
     20 + l     the CallbackList object number l of the heap (a CallbackBase too)
   Token equality is python's `is or ==` on these values (CallbackList defines
   no __eq__, so two lists with equal contents are different tokens).        *)
Atoms     == 1..NCb
Ref(l)    == 20 + l
IsAtom(x) == x \in 1..9
IsNon(x)  == x \in 11..14
IsRef(x)  == x > 20 /\ x < None
RefId(x)  == x - 20
IsCb(x)   == IsAtom(x) \/ IsRef(x)          \* isinstance(x, CallbackBase)
StrTok    == 13                             \* the only iterable non-callback: iterating "s" yields "s"
AllCb(s)  == \A p \in 1..Len(s) : IsCb(s[p])
NonCount(s) == Cardinality({p \in 1..Len(s) : IsNon(s[p])})

S(s, exc) == [s |-> s, exc |-> exc]         \* outcome of a primitive on one list: new contents, "" or exception

(* ---- the five primitives CallbackList implements itself (delegating to the
        python list self.callbacks; insert and __setitem__ check the type first) *)
Norm(n, i)    == IF i < 0 THEN i + n ELSE i
InRange(n, i) == Norm(n, i) >= 0 /\ Norm(n, i) < n
Clamp(n, i)   == IF Norm(n, i) < 0 THEN 0 ELSE IF Norm(n, i) > n THEN n ELSE Norm(n, i)   \* list.insert never raises
Cut(s, lo, hi) == SubSeq(s, lo + 1, hi)     \* python s[lo:hi] for 0 <= lo, hi <= len(s)

PIns(s, i, x) == IF ~IsCb(x) THEN S(s, "TypeError")
                 ELSE LET p == Clamp(Len(s), i) IN S(Cut(s, 0, p) \o <<x>> \o Cut(s, p, Len(s)), "")
PSet(s, i, x) == IF ~IsCb(x) THEN S(s, "TypeError")                    \* type first, index second
                 ELSE IF ~InRange(Len(s), i) THEN S(s, "IndexError")
                 ELSE S([s EXCEPT ![Norm(Len(s), i) + 1] = x], "")
PDel(s, i)    == IF ~InRange(Len(s), i) THEN S(s, "IndexError")
                 ELSE LET p == Norm(Len(s), i) IN S(Cut(s, 0, p) \o Cut(s, p + 1, Len(s)), "")
PGet(s, i)    == IF ~InRange(Len(s), i) THEN [v |-> 0, exc |-> "IndexError"]
                 ELSE [v |-> s[Norm(Len(s), i) + 1], exc |-> ""]

(* slices: PySlice_AdjustIndices *)
Adj(v, n, lo, hi) == LET w == IF v < 0 THEN v + n ELSE v IN IF w < 0 THEN lo ELSE IF w >= n THEN hi ELSE w
RECURSIVE Walk(_, _, _)
Walk(i, hi, step) == IF (step > 0 /\ i >= hi) \/ (step < 0 /\ i <= hi) THEN <<>>
                     ELSE <<i>> \o Walk(i + step, hi, step)
SliceIdx(n, a, b, st) ==                    \* the 0-based indices selected by slice(a, b, st), st # 0
    LET step == IF st = None THEN 1 ELSE st
        lo == IF step > 0 THEN (IF a = None THEN 0 ELSE Adj(a, n, 0, n))
                          ELSE (IF a = None THEN n - 1 ELSE Adj(a, n, -1, n - 1))
        hi == IF step > 0 THEN (IF b = None THEN n ELSE Adj(b, n, 0, n))
                          ELSE (IF b = None THEN -1 ELSE Adj(b, n, -1, n - 1))
    IN Walk(lo, hi, step)
GetSlice(s, a, b, st) == LET ix == SliceIdx(Len(s), a, b, st) IN [q \in 1..Len(ix) |-> s[ix[q] + 1]]
Splice(s, a, b, items) ==                   \* s[a:b] = items  (step None)
    LET n == Len(s)
        lo == IF a = None THEN 0 ELSE Adj(a, n, 0, n)
        h0 == IF b = None THEN n ELSE Adj(b, n, 0, n)
        hi == IF h0 < lo THEN lo ELSE h0
    IN Cut(s, 0, lo) \o items \o Cut(s, hi, n)
(* cl[a:b] = x: the isinstance check is applied to x itself, so a python list of callbacks
   is refused while a CallbackList (iterable) is spliced in element-wise, unchecked. *)
PSetSlice(ls, s, a, b, x) == IF ~IsCb(x) THEN S(s, "TypeError")
                             ELSE IF IsAtom(x) THEN S(s, "TypeError")     \* list: can only assign an iterable
                             ELSE S(Splice(s, a, b, ls[RefId(x)]), "")

(* ---- the mixin methods, as collections.abc.MutableSequence / Sequence define them *)
PAppend(s, x) == PIns(s, Len(s), x)                                   \* self.insert(len(self), value)
RECURSIVE ExtendFrom(_, _, _)
ExtendFrom(s, it, j) ==                                               \* for v in values: self.append(v)
    IF j > Len(it) THEN S(s, "")
    ELSE LET r == PAppend(s, it[j]) IN IF r.exc # "" THEN r ELSE ExtendFrom(r.s, it, j + 1)
PPop(s, i) == LET g == PGet(s, i) IN                                  \* v = self[i]; del self[i]; return v
              IF g.exc # "" THEN [s |-> s, exc |-> g.exc, v |-> 0]
              ELSE [s |-> PDel(s, i).s, exc |-> "", v |-> g.v]
IndexOf(s, x) == IF \E p \in 1..Len(s) : s[p] = x
                 THEN (CHOOSE p \in 1..Len(s) : s[p] = x /\ \A q \in 1..(p - 1) : s[q] # x) - 1
                 ELSE -1
PRemove(s, x) == IF IndexOf(s, x) < 0 THEN S(s, "ValueError") ELSE PDel(s, IndexOf(s, x))
RECURSIVE RevFrom(_, _)
RevFrom(s, i) ==                             \* self[i], self[n-i-1] = self[n-i-1], self[i]  for i < n // 2
    LET n == Len(s) IN
    IF i >= n \div 2 THEN S(s, "")
    ELSE LET r1 == PSet(s, i, s[n - i]) IN
         IF r1.exc # "" THEN r1
         ELSE LET r2 == PSet(r1.s, n - i - 1, s[i + 1]) IN
              IF r2.exc # "" THEN r2 ELSE RevFrom(r2.s, i + 1)
RECURSIVE ClearLoop(_)
ClearLoop(s) == LET r == PPop(s, -1) IN IF r.exc # "" THEN s ELSE ClearLoop(r.s)   \* pop() until IndexError

(* ---- containment graph of the heap *)
Children(ls, l) == {RefId(ls[l][p]) : p \in {q \in 1..Len(ls[l]) : IsRef(ls[l][q])}}
RECURSIVE Reach(_, _, _)
Reach(ls, F, k) == IF k = 0 THEN F ELSE Reach(ls, F \cup UNION {Children(ls, l) : l \in F}, k - 1)
Acyclic(ls) == \A l \in 1..Len(ls) : l \notin Reach(ls, Children(ls, l), Len(ls))

(* ---- dispatch: `for cb in self.callbacks: cb.on_x(args)`; a nested list dispatches to
        its own elements; a non-callback element has no such method *)
RECURSIVE Calls(_, _, _)
Calls(ls, s, j) ==
    IF j > Len(s) THEN [c |-> <<>>, exc |-> ""]
    ELSE LET x == s[j] IN
         IF IsAtom(x) THEN LET r == Calls(ls, s, j + 1) IN [c |-> <<x>> \o r.c, exc |-> r.exc]
         ELSE IF IsRef(x)
         THEN LET inner == Calls(ls, ls[RefId(x)], 1) IN
              IF inner.exc # "" THEN inner
              ELSE LET r == Calls(ls, s, j + 1) IN [c |-> inner.c \o r.c, exc |-> r.exc]
         ELSE [c |-> <<>>, exc |-> "AttributeError"]

(* ---- operations.  o = [op, tgt (list id), i, j, k (integers), x (token), vk, vs]; the iterable
        argument of construct / extend / += / + is a plain python list (vk = "pylist", vs) or
        the single value x (vk = "tok"). *)
O(op, t, i, j, k, x, vk, vs) == [op |-> op, tgt |-> t, i |-> i, j |-> j, k |-> k, x |-> x, vk |-> vk, vs |-> vs]
Iter(ls, o) == IF o.vk = "pylist" THEN [ok |-> TRUE, it |-> o.vs]
               ELSE IF IsRef(o.x) THEN [ok |-> TRUE, it |-> ls[RefId(o.x)]]    \* iter(CallbackList) = iter(callbacks)
               ELSE IF o.x = StrTok THEN [ok |-> TRUE, it |-> <<StrTok>>]
               ELSE [ok |-> FALSE, it |-> <<>>]                                \* not iterable
Res(ls, rk, ret, exc) == [lists |-> ls, rk |-> rk, ret |-> ret, exc |-> exc]
B2I(bv) == IF bv THEN 1 ELSE 0

Eval(ls, o) ==
    LET t  == o.tgt
        s  == IF t \in 1..Len(ls) THEN ls[t] ELSE <<>>
        n  == Len(s)
        it == Iter(ls, o)
        Fail(exc) == Res(ls, "none", <<>>, exc)
        Mut(r)    == Res([ls EXCEPT ![t] = r.s], "none", <<>>, r.exc)     \* python returns None or raises
    IN CASE o.op = "construct" -> IF it.ok THEN Res(Append(ls, it.it), "new", <<Ref(Len(ls) + 1)>>, "")  \* list(callbacks): no check
                                  ELSE Fail("TypeError")
         [] o.op = "len"       -> Res(ls, "int", <<n>>, "")
         [] o.op = "bool"      -> Res(ls, "int", <<B2I(n > 0)>>, "")                \* no __bool__: truth = len
         [] o.op = "iter"      -> Res(ls, "pylist", s, "")
         [] o.op = "reversed"  -> Res(ls, "pylist", Rev(s), "")
         [] o.op = "getitem"   -> LET g == PGet(s, o.i) IN
                                  IF g.exc # "" THEN Fail(g.exc) ELSE Res(ls, "tok", <<g.v>>, "")
         [] o.op = "getslice"  -> IF o.k = 0 THEN Fail("ValueError")
                                  ELSE Res(ls, "pylist", GetSlice(s, o.i, o.j, o.k), "")  \* the elements; the code returns a plain list
         [] o.op = "contains"  -> Res(ls, "int", <<B2I(IndexOf(s, o.x) >= 0)>>, "")
         [] o.op = "count"     -> Res(ls, "int", <<Count(s, o.x)>>, "")
         [] o.op = "index"     -> IF IndexOf(s, o.x) < 0 THEN Fail("ValueError") ELSE Res(ls, "int", <<IndexOf(s, o.x)>>, "")
         [] o.op = "insert"    -> Mut(PIns(s, o.i, o.x))
         [] o.op = "setitem"   -> Mut(PSet(s, o.i, o.x))
         [] o.op = "delitem"   -> Mut(PDel(s, o.i))
         [] o.op = "setslice"  -> Mut(PSetSlice(ls, s, o.i, o.j, o.x))
         [] o.op = "delslice"  -> Mut(S(Splice(s, o.i, o.j, <<>>), ""))
         [] o.op = "append"    -> Mut(PAppend(s, o.x))
         [] o.op = "extend"    -> IF ~it.ok THEN Fail("TypeError") ELSE Mut(ExtendFrom(s, it.it, 1))  \* `values is self` -> snapshot
         [] o.op = "iadd"      -> IF ~it.ok THEN Fail("TypeError")
                                  ELSE LET r == ExtendFrom(s, it.it, 1) IN
                                       IF r.exc # "" THEN Mut(r)
                                       ELSE Res([ls EXCEPT ![t] = r.s], "tok", <<Ref(t)>>, "")      \* returns self
         [] o.op = "pop"       -> LET r == PPop(s, IF o.i = None THEN -1 ELSE o.i) IN
                                  IF r.exc # "" THEN Fail(r.exc) ELSE Res([ls EXCEPT ![t] = r.s], "tok", <<r.v>>, "")
         [] o.op = "remove"    -> Mut(PRemove(s, o.x))
         [] o.op = "reverse"   -> Mut(RevFrom(s, 0))
         [] o.op = "clear"     -> Mut(S(ClearLoop(s), ""))
         [] o.op = "add"       -> IF o.vk = "tok" /\ IsRef(o.x)                      \* self.callbacks + other.callbacks
                                  THEN Res(Append(ls, s \o ls[RefId(o.x)]), "new", <<Ref(Len(ls) + 1)>>, "")
                                  ELSE Fail("AttributeError")    \* refused (the harness accepts TypeError as well)
         [] o.op = "radd"      -> Fail("TypeError")                                  \* [..] + cl : no __radd__
         [] o.op = "dispatch"  -> LET c == Calls(ls, s, 1) IN
                                  Res(ls, "calls", [q \in 1..Len(c.c) |-> 10 * o.k + c.c[q]], c.exc)

ReadOps == {"len", "bool", "iter", "reversed", "getitem", "getslice", "contains", "count", "index", "dispatch"}
Doors   == {"construct", "add", "setslice"}      \* the operations that copy elements without the type check

OpsOn(t, Tk, PL) ==
       {O(op, t, i, 0, 0, x, "", <<>>) : op \in {"insert", "setitem"}, i \in IdxSet, x \in Tk}
  \cup {O(op, t, i, 0, 0, 0, "", <<>>) : op \in {"delitem", "getitem"}, i \in IdxSet}
  \cup {O("pop", t, i, 0, 0, 0, "", <<>>) : i \in IdxSet \cup {None}}
  \cup {O("getslice", t, a, b, st, 0, "", <<>>) : a \in Bounds, b \in Bounds, st \in Steps}
  \cup {O("setslice", t, a, b, 0, x, "", <<>>) : a \in Bounds, b \in Bounds, x \in Tk}
  \cup {O("delslice", t, a, b, 0, 0, "", <<>>) : a \in Bounds, b \in Bounds}
  \cup {O(op, t, 0, 0, 0, 0, "", <<>>) : op \in {"len", "bool", "iter", "reversed", "reverse", "clear"}}
  \cup {O(op, t, 0, 0, 0, x, "", <<>>) : op \in {"contains", "count", "index", "remove", "append"}, x \in Tk}
  \cup {O(op, t, 0, 0, 0, x, "tok", <<>>) : op \in {"extend", "iadd", "add"}, x \in Tk}
  \cup {O(op, t, 0, 0, 0, 0, "pylist", v) : op \in {"extend", "iadd", "add", "radd"}, v \in PL}
  \cup {O("dispatch", t, 0, 0, h, 0, "", <<>>) : h \in Hooks}

OpsOf(ls) ==
    LET T  == 1..Len(ls)
        Tk == Atoms \cup NonKinds \cup {Ref(l) : l \in T}
        PL == {v \in PyLists : \A q \in 1..Len(v) : IsRef(v[q]) => RefId(v[q]) \in T}
    IN    {O("construct", 0, 0, 0, 0, 0, "pylist", v) : v \in PL}
     \cup {O("construct", 0, 0, 0, 0, x, "tok", <<>>) : x \in Tk}
     \cup UNION {OpsOn(t, Tk, PL) : t \in T}

IdleOp  == O("idle", 0, 0, 0, 0, 0, "", <<>>)
IdleA   == lists = <<>> /\ last = [o |-> IdleOp, before |-> <<>>, rk |-> "none", ret |-> <<>>, exc |-> ""]
IdleB   == row = [st |-> "idle"]
IdleC   == /\ tcfg = [shard |-> 0] /\ tpc = "Idle" /\ tep = -1 /\ tb = -1 /\ tstop = FALSE /\ trun = 0
           /\ tinj = 0 /\ clock = 0 /\ tmStart = -1 /\ tmNotified = FALSE /\ tmTime = -1
           /\ tout = <<>> /\ tev = <<>>

AInit == IdleA /\ IdleB /\ IdleC

(* A state is either a heap (last = idle) or the report of one operation applied to a heap
   (last = the operation, the heap before, what python returned / raised).  Report states
   only settle back, so every heap is expanded once. *)
DoOp(o) ==
    LET r == Eval(lists, o) IN
    /\ lists' = r.lists
    /\ last' = [o |-> o, before |-> lists, rk |-> r.rk, ret |-> r.ret, exc |-> r.exc]
Step ==
    /\ last.o.op = "idle"
    /\ \E o \in OpsOf(lists) :
          /\ DoOp(o)
          /\ Len(lists') <= NLists                                      \* bounds of the exploration
          /\ \A l \in 1..Len(lists') : Len(lists'[l]) <= MaxLen
          /\ Acyclic(lists')                                            \* scope
    /\ UNCHANGED <<row, tvars>>
Settle ==
    /\ last.o.op # "idle"
    /\ last' = [o |-> IdleOp, before |-> <<>>, rk |-> "none", ret |-> <<>>, exc |-> ""]
    /\ UNCHANGED <<lists, row, tvars>>
ANext == Step \/ Settle

(* ---- properties of Part A, stated on the report states *)
Rep == last.o.op # "idle"
Bef == last.before
BT  == Bef[last.o.tgt]                      \* target list before
AT  == lists[last.o.tgt]                    \* target list after
Without(s, p) == Cut(s, 0, p - 1) \o Cut(s, p, Len(s))      \* s minus position p (1-based)

ATypeOK ==
    /\ Len(lists) <= NLists /\ Acyclic(lists)
    /\ \A l \in 1..Len(lists) : \A p \in 1..Len(lists[l]) :
          LET x == lists[l][p] IN IsAtom(x) \/ IsNon(x) \/ (IsRef(x) /\ RefId(x) \in 1..Len(lists))
    /\ last.exc \in {"", "TypeError", "IndexError", "ValueError", "AttributeError"}

\* insert / __setitem__ (and append, which is insert) refuse a non-callback and change nothing
TypeDiscipline ==
    Rep /\ last.o.op \in {"insert", "setitem", "append", "setslice"} /\ ~IsCb(last.o.x)
        => last.exc = "TypeError" /\ lists = Bef
\* a non-callback can enter a list only through the constructor, __add__ or a slice assignment
\* from another CallbackList (the three places that copy elements without the check)
NoNewNonCallbacks ==
    Rep /\ last.o.op \notin Doors
        => /\ Len(lists) = Len(Bef)
           /\ \A l \in 1..Len(Bef) : NonCount(lists[l]) <= NonCount(Bef[l])
\* indices behave like list indices
LikeList ==
    Rep => LET o == last.o  n == Len(BT) IN
      /\ o.op = "insert" /\ IsCb(o.x) =>
            /\ last.exc = ""                                          \* never IndexError
            /\ LET p == IF o.i >= n THEN n ELSE IF o.i >= 0 THEN o.i ELSE IF n + o.i >= 0 THEN n + o.i ELSE 0
               IN AT = Cut(BT, 0, p) \o <<o.x>> \o Cut(BT, p, n)
      /\ o.op \in {"setitem", "delitem", "getitem", "pop"} /\ (o.op = "setitem" => IsCb(o.x)) /\ o.i # None =>
            IF o.i >= n \/ o.i < -n
            THEN last.exc = "IndexError" /\ lists = Bef
            ELSE LET p == (IF o.i >= 0 THEN o.i ELSE n + o.i) + 1 IN
                 /\ last.exc = ""
                 /\ (o.op = "setitem" => AT = [BT EXCEPT ![p] = o.x])
                 /\ (o.op = "delitem" => AT = Without(BT, p))
                 /\ (o.op = "getitem" => last.ret = <<BT[p]>>)
                 /\ (o.op = "pop"     => last.ret = <<BT[p]>> /\ AT = Without(BT, p))
      /\ o.op = "pop" /\ o.i = None =>
            IF n = 0 THEN last.exc = "IndexError" ELSE last.ret = <<BT[n]>> /\ AT = Cut(BT, 0, n - 1)
      /\ o.op = "getslice" /\ o.k = None /\ o.i \in 0..n /\ o.j \in 0..n => last.ret = Cut(BT, o.i, o.j)
      /\ o.op = "getslice" /\ o.k = -1 /\ o.i = None /\ o.j = None => last.ret = Rev(BT)
      /\ o.op = "delslice" /\ o.i = None /\ o.j = None => AT = <<>>
\* what the inherited methods amount to, given that they are built on insert / __setitem__
FirstNon(it) == IF AllCb(it) THEN 0 ELSE CHOOSE j \in 1..Len(it) : ~IsCb(it[j]) /\ AllCb(SubSeq(it, 1, j - 1))
MixinLaws ==
    Rep => LET o == last.o  it == Iter(Bef, o) IN
      /\ o.op = "append" /\ IsCb(o.x) => last.exc = "" /\ AT = Append(BT, o.x)
      /\ o.op \in {"extend", "iadd"} /\ it.ok =>
            LET j == FirstNon(it.it) IN
            IF j = 0 THEN last.exc = "" /\ AT = BT \o it.it
            ELSE last.exc = "TypeError" /\ AT = BT \o SubSeq(it.it, 1, j - 1)     \* NOT atomic: the prefix stays
      /\ o.op \in {"extend", "iadd"} /\ ~it.ok => last.exc = "TypeError" /\ lists = Bef
      /\ o.op = "iadd" /\ last.exc = "" => last.ret = <<Ref(o.tgt)>>               \* the same object
      /\ o.op = "remove" =>
            IF \E p \in 1..Len(BT) : BT[p] = o.x
            THEN \E p \in 1..Len(BT) : BT[p] = o.x /\ (\A q \in 1..(p - 1) : BT[q] # o.x) /\ AT = Without(BT, p)
            ELSE last.exc = "ValueError" /\ lists = Bef
      /\ o.op = "reverse" /\ AllCb(BT) => last.exc = "" /\ AT = Rev(BT)
      /\ o.op = "clear" => last.exc = "" /\ AT = <<>>
      /\ o.op = "len" => last.ret = <<Len(BT)>>
      /\ o.op = "bool" => last.ret = <<B2I(BT # <<>>)>>
      /\ o.op = "iter" => last.ret = BT
      /\ o.op = "reversed" => last.ret = Rev(BT)
      /\ o.op = "contains" => last.ret = <<B2I(\E p \in 1..Len(BT) : BT[p] = o.x)>>
      /\ o.op = "count" => last.ret = <<Count(BT, o.x)>>
      /\ o.op = "index" => IF Count(BT, o.x) = 0 THEN last.exc = "ValueError"
                           ELSE BT[last.ret[1] + 1] = o.x /\ \A q \in 1..last.ret[1] : BT[q] # o.x
\* __add__ builds a new list and leaves both operands alone; anything but a CallbackList is refused
AddPure ==
    Rep /\ last.o.op = "add" =>
      IF last.o.vk = "tok" /\ IsRef(last.o.x)
      THEN /\ last.exc = "" /\ Len(lists) = Len(Bef) + 1
           /\ SubSeq(lists, 1, Len(Bef)) = Bef
           /\ lists[Len(lists)] = BT \o Bef[RefId(last.o.x)]
           /\ last.ret = <<Ref(Len(lists))>>
      ELSE last.exc # "" /\ lists = Bef
\* containers do not alias each other: an operation on list t changes no other list
OthersUntouched ==
    Rep => \A l \in 1..Len(Bef) : l # last.o.tgt => lists[l] = Bef[l]
ReadOnly == Rep /\ last.o.op \in ReadOps => lists = Bef
\* a failing operation leaves the list as it was, except the three loops of the mixin
AtomicFailure ==
    Rep /\ last.exc # "" /\ last.o.op \notin {"extend", "iadd", "reverse"} => lists = Bef
\* dispatch: the same-named method of every element, in list order, exactly once per occurrence
\* (a nested list contributes its own elements in place; the same object twice is called twice)
RECURSIVE Occ(_, _, _, _)
Occ(ls, l, a, depth) ==       \* occurrences of atom a under list l, counted with multiplicity
    IF depth = 0 THEN 0 ELSE
    LET s == ls[l]
        f[p \in 0..Len(s)] == IF p = 0 THEN 0
                              ELSE f[p - 1] + (IF s[p] = a THEN 1
                                               ELSE IF IsRef(s[p]) THEN Occ(ls, RefId(s[p]), a, depth - 1) ELSE 0)
    IN f[Len(s)]
TopAtoms(s) == SelectSeq(s, IsAtom)
RECURSIVE IsSubseq(_, _)
IsSubseq(u, w) == IF u = <<>> THEN TRUE ELSE IF w = <<>> THEN FALSE
                  ELSE IF Head(u) = Head(w) THEN IsSubseq(Tail(u), Tail(w)) ELSE IsSubseq(u, Tail(w))
DispatchLaw ==
    Rep /\ last.o.op = "dispatch" =>
      LET c == [q \in 1..Len(last.ret) |-> last.ret[q] % 10] IN
      /\ \A q \in 1..Len(last.ret) : last.ret[q] \div 10 = last.o.k             \* the same-named method
      /\ (\A l \in Reach(Bef, {last.o.tgt}, Len(Bef)) : AllCb(Bef[l])) =>
            /\ last.exc = ""
            /\ \A a \in Atoms : Count(c, a) = Occ(Bef, last.o.tgt, a, Len(Bef) + 1)
            /\ (\A p \in 1..Len(BT) : IsAtom(BT[p])) => c = BT                   \* flat list: list order
            /\ IsSubseq(TopAtoms(BT), c)
      /\ last.exc # "" => last.exc = "AttributeError" /\ ~(\A l \in Reach(Bef, {last.o.tgt}, Len(Bef)) : AllCb(Bef[l]))

-----------------------------------------------------------------------------
(* Part B.  LambdaCallback(hook = value).  A user callable is described by the
   kinds of the parameters of the function that was written, and by the form
   in which it is handed over; inspect.signature reports a derived parameter
   list, and the library accepts the value iff the NUMBER of reported
   parameters equals the arity of the hook - whatever their kinds.           *)
Kinds == {"po", "pk", "pkd", "va", "ko", "kod", "vk"}
    \* positional-only, positional-or-keyword, the same with a default, *args,
    \* keyword-only (required), keyword-only with default, **kwargs
Rank(k) == CASE k = "po" -> 1 [] k = "pk" -> 2 [] k = "pkd" -> 3 [] k = "va" -> 4
             [] k \in {"ko", "kod"} -> 5 [] k = "vk" -> 6
WellFormed(ps) == \A i \in 1..(Len(ps) - 1) :
                     /\ Rank(ps[i]) <= Rank(ps[i + 1])
                     /\ (ps[i] \in {"va", "vk"} => ps[i + 1] # ps[i])
ParamLists(m) == {ps \in [1..m -> Kinds] : WellFormed(ps)}
IsPos(k)   == k \in {"po", "pk", "pkd"}
NPos(ps)   == Cardinality({i \in 1..Len(ps) : IsPos(ps[i])})
Has(ps, k) == \E i \in 1..Len(ps) : ps[i] = k

\* inspect._signature_bound_method: a bound method / instance with __call__ / class with __init__
Bound(ps) == IF ps = <<>> \/ ps[1] \in {"ko", "kod", "vk"} THEN [ok |-> FALSE, ps |-> <<>>]   \* 'invalid method signature'
             ELSE IF ps[1] = "va" THEN [ok |-> TRUE, ps |-> ps] ELSE [ok |-> TRUE, ps |-> Tail(ps)]
\* functools.partial(f, v1..va): positionally bound parameters disappear
RECURSIVE DropPos(_, _)
DropPos(ps, a) == IF a = 0 \/ ps = <<>> \/ ~IsPos(ps[1]) THEN ps ELSE DropPos(Tail(ps), a - 1)
\* functools.partial(f, name=v) for parameter number a: it gets a default; if it was
\* positional-or-keyword, it and everything positional after it become keyword-only and *args goes
KwBound(ps, a) ==
    IF ps[a] \in {"ko", "kod"} THEN [ps EXCEPT ![a] = "kod"]
    ELSE LET rest == [i \in 1..(Len(ps) - a) |-> ps[a + i]]
             tr(k) == IF k = "pk" THEN "ko" ELSE IF k = "pkd" THEN "kod" ELSE k
             kept == SelectSeq(rest, LAMBDA k : k # "va")
         IN SubSeq(ps, 1, a - 1) \o <<"kod">> \o [i \in 1..Len(kept) |-> tr(kept[i])]
Sig(form, ps, a) ==
    CASE form \in {"def", "lambda"} -> [ok |-> TRUE, ps |-> ps]
      [] form \in {"method", "callobj", "class"} -> Bound(ps)
      [] form = "partial" -> IF a <= NPos(ps) \/ Has(ps, "va") THEN [ok |-> TRUE, ps |-> DropPos(ps, a)]
                             ELSE [ok |-> FALSE, ps |-> <<>>]        \* 'partial object has incorrect arguments'
      [] form = "partialkw" -> [ok |-> TRUE, ps |-> KwBound(ps, a)]
\* can the reported signature be called with n positional arguments (what the library does)?
BindsPos(ps, n) == /\ ~Has(ps, "ko")
                   /\ Cardinality({i \in 1..Len(ps) : ps[i] \in {"po", "pk"}}) <= n
                   /\ (n <= NPos(ps) \/ Has(ps, "va"))

ArgChoices(form, ps) == CASE form = "partial" -> 1..2
                          [] form = "partialkw" -> {i \in 1..Len(ps) : ps[i] \in {"pk", "pkd", "ko", "kod"}}
                          [] OTHER -> {0}
Outcome(r) ==
    CASE r.vk = "none" -> [res |-> "noop", count |-> 0, binds |-> TRUE, sig |-> <<>>]
      [] r.vk = "noncallable" -> [res |-> "TypeError", count |-> 0, binds |-> FALSE, sig |-> <<>>]
      [] r.vk = "callable" ->
           LET sg == Sig(r.form, r.ps, r.a) IN
           IF ~sg.ok THEN [res |-> "ValueError", count |-> -1, binds |-> FALSE, sig |-> <<>>]   \* raised by inspect itself
           ELSE [res |-> IF Len(sg.ps) = Arity(r.hook) THEN "accept" ELSE "ValueError",
                 count |-> Len(sg.ps), binds |-> BindsPos(sg.ps, Arity(r.hook)), sig |-> sg.ps]

BInit == /\ row \in {[st |-> "pick", hook |-> h, form |-> f] : h \in Hooks, f \in BForms \cup {"-"}}
         /\ IdleA /\ IdleC
BPick ==
    /\ row.st = "pick"
    /\ \/ /\ row.form = "-"
          /\ \/ row' = [st |-> "row", hook |-> row.hook, vk |-> "none", form |-> "-", ps |-> <<>>, a |-> 0]
             \/ \E a \in 1..4 : row' = [st |-> "row", hook |-> row.hook, vk |-> "noncallable", form |-> "-", ps |-> <<>>, a |-> a]
       \/ /\ row.form # "-"
          /\ \E m \in 0..MaxParams : \E ps \in ParamLists(m) : \E a \in ArgChoices(row.form, ps) :
                row' = [st |-> "row", hook |-> row.hook, vk |-> "callable", form |-> row.form, ps |-> ps, a |-> a]
    /\ UNCHANGED <<avars, tvars>>
BNext == BPick

BLive == row.st = "row"
\* accepted exactly when the reported parameter count equals the hook's arity
CountRule == BLive /\ row.vk = "callable" =>
    LET oc == Outcome(row) IN
    /\ oc.res \in {"accept", "ValueError"}
    /\ (oc.res = "accept" <=> oc.count = Arity(row.hook))
\* on the documented case - a callable that reports plain positional parameters only - the
\* rule is exact: accepted iff it can be called with the library's arguments
ExactOnPlain == BLive /\ row.vk = "callable" =>
    LET oc == Outcome(row) IN
    (oc.count >= 0 /\ \A i \in 1..Len(oc.sig) : oc.sig[i] \in {"po", "pk"})
        => ((oc.res = "accept") <=> oc.binds)
\* ... and in general an accepted callable that cannot take the library's arguments has a
\* keyword-only / defaulted / variadic parameter (the count ignores the kinds)
GapsOnlyOffPlain == BLive /\ row.vk = "callable" =>
    LET oc == Outcome(row) IN
    (oc.res = "accept" /\ ~oc.binds) => \E i \in 1..Len(oc.sig) : oc.sig[i] \in {"ko", "kod", "pkd", "va", "vk"}
NoneAndJunk == BLive => /\ (row.vk = "none" => Outcome(row).res = "noop")
                        /\ (row.vk = "noncallable" => Outcome(row).res = "TypeError")

-----------------------------------------------------------------------------
(* Part C.  Timer, driven by the events of fit().  The run has the shape of
   Train.tla (train start; per epoch: epoch start, batches, epoch end; train
   end; a stop request ends the batch loop and the epoch loop).  A stop is
   requested by some other callback during one event; tcfg.place says where
   the Timer stands relative to that callback: "last" (what fit(time=True)
   builds: the Timer is appended after the user's callbacks and sees the
   request in the same dispatch) or "first" (a user-supplied Timer in front of
   the stopper sees it at the next event).                                   *)
TNB == tcfg.nb
TEvent(kind, e, bi, ia) ==
    LET seen == tstop \/ (ia /\ tcfg.place = "last")          \* nn_state.stop_training when the Timer runs
        say  == kind \in {"BE", "EE"} /\ seen /\ tcfg.verbose /\ ~tmNotified
        el   == clock - tmStart
    IN /\ tev' = Append(tev, [k |-> kind, ep |-> e, b |-> bi, seen |-> seen, inj |-> ia, run |-> trun, clk |-> clock])
       /\ tstop' = (tstop \/ ia)
       /\ tinj' = IF ia THEN tinj + 1 ELSE tinj
       /\ clock' = clock + tcfg.dt
       /\ tmStart' = IF kind = "TS" THEN clock ELSE tmStart                 \* on_train_start
       /\ tmNotified' = (tmNotified \/ say)                                 \* on_batch_end / on_epoch_end
       /\ tmTime' = IF kind = "TE" THEN el ELSE tmTime                      \* on_train_end
       /\ tout' = tout \o (IF say THEN <<[m |-> "term", ep |-> e, b |-> bi, run |-> trun, t |-> 0, at |-> Len(tev) + 1]>> ELSE <<>>)
                       \o (IF kind = "TE" /\ tcfg.verbose
                           THEN <<[m |-> "total", ep |-> -1, b |-> -1, run |-> trun, t |-> el, at |-> Len(tev) + 1]>> ELSE <<>>)
TInj == IF tinj < TMaxInj /\ ~tstop THEN BOOLEAN ELSE {FALSE}

CInit == /\ \E s \in TShards : tcfg = [shard |-> s]
         /\ tpc = "Pick" /\ tep = -1 /\ tb = -1 /\ tstop = FALSE /\ trun = 0 /\ tinj = 0 /\ clock = 0
         /\ tmStart = -1 /\ tmNotified = FALSE /\ tmTime = -1 /\ tout = <<>> /\ tev = <<>>
         /\ IdleA /\ IdleB
TPick == /\ tpc = "Pick"
         /\ \E c \in TCfgsOf(tcfg.shard) : tcfg' = c /\ tstop' = c.entryStop
         /\ tpc' = "Entry" /\ trun' = 1
         /\ UNCHANGED <<tep, tb, tinj, clock, tmStart, tmNotified, tmTime, tout, tev>>
TEntry == /\ tpc = "Entry"                                    \* fit: `if self.stop_training: return`
          /\ tpc' = IF tstop THEN "Done" ELSE "TS"
          /\ UNCHANGED <<tcfg, tep, tb, tstop, trun, tinj, clock, tmStart, tmNotified, tmTime, tout, tev>>
TTrainStart == /\ tpc = "TS"
               /\ \E ia \in TInj : TEvent("TS", -1, -1, ia)
               /\ IF tcfg.startEp <= tcfg.epochs THEN tpc' = "ES" /\ tep' = tcfg.startEp ELSE tpc' = "TE" /\ tep' = tep
               /\ UNCHANGED <<tcfg, tb, trun>>
TEpochStart == /\ tpc = "ES"
               /\ \E ia \in TInj : TEvent("ES", tep, -1, ia)
               /\ tpc' = "BS" /\ tb' = 0
               /\ UNCHANGED <<tcfg, tep, trun>>
TBatchStart == /\ tpc = "BS"
               /\ \E ia \in TInj : TEvent("BS", tep, tb, ia)
               /\ tpc' = "BE"
               /\ UNCHANGED <<tcfg, tep, tb, trun>>
TBatchEnd == /\ tpc = "BE"
             /\ \E ia \in TInj : TEvent("BE", tep, tb, ia)
             /\ IF tstop' THEN tpc' = "EE" /\ tb' = tb
                ELSE IF tb + 1 < TNB THEN tpc' = "BS" /\ tb' = tb + 1 ELSE tpc' = "EE" /\ tb' = tb
             /\ UNCHANGED <<tcfg, tep, trun>>
TEpochEnd == /\ tpc = "EE"
             /\ \E ia \in TInj : TEvent("EE", tep, -1, ia)
             /\ IF tstop' THEN tpc' = "TE" /\ tep' = tep
                ELSE IF tep + 1 <= tcfg.epochs THEN tpc' = "ES" /\ tep' = tep + 1 ELSE tpc' = "TE" /\ tep' = tep
             /\ UNCHANGED <<tcfg, tb, trun>>
TTrainEnd == /\ tpc = "TE"
             /\ \E ia \in TInj : TEvent("TE", -1, -1, ia)
             /\ tpc' = "Done"
             /\ UNCHANGED <<tcfg, tep, tb, trun>>
\* a second fit() with the SAME Timer object; the user resets stop_training in between ("reset") or not ("keep")
TRestart == /\ tpc = "Done" /\ trun < tcfg.runs
            /\ trun' = trun + 1
            /\ tstop' = (tcfg.again = "keep" /\ tstop)
            /\ tmNotified' = (IF LatchPerObject THEN tmNotified ELSE FALSE)
            /\ tinj' = 0 /\ tep' = -1 /\ tb' = -1 /\ tpc' = "Entry"
            /\ UNCHANGED <<tcfg, clock, tmStart, tmTime, tout, tev>>
CNext == /\ (TPick \/ TEntry \/ TTrainStart \/ TEpochStart \/ TBatchStart \/ TBatchEnd \/ TEpochEnd
               \/ TTrainEnd \/ TRestart)
         /\ UNCHANGED <<avars, row>>
CSpec == CInit /\ [][CNext]_vars /\ WF_vars(CNext)
TFinished == tpc = "Done" /\ trun = tcfg.runs
TTerminates == <>TFinished

CLive == tpc \notin {"Pick", "Idle"}
RunEv(r)  == SelectSeq(tev, LAMBDA e : e.run = r)
RunOut(r) == SelectSeq(tout, LAMBDA m : m.run = r)
Terms(r)  == SelectSeq(tout, LAMBDA m : m.run = r /\ m.m = "term")
FirstSeen(H) == IF \E i \in 1..Len(H) : H[i].k \in {"BE", "EE"} /\ H[i].seen
                THEN CHOOSE i \in 1..Len(H) : /\ H[i].k \in {"BE", "EE"} /\ H[i].seen
                                              /\ \A j \in 1..(i - 1) : ~(H[j].k \in {"BE", "EE"} /\ H[j].seen)
                ELSE 0
\* the generated runs have the protocol shape of Train.tla (its Follows relation)
TFollows(x, y) ==
    CASE x.k = "TS" -> (y.k = "ES" /\ y.ep = tcfg.startEp) \/ y.k = "TE"
      [] x.k = "ES" -> y.k = "BS" /\ y.ep = x.ep /\ y.b = 0
      [] x.k = "BS" -> y.k = "BE" /\ y.ep = x.ep /\ y.b = x.b
      [] x.k = "BE" -> (y.k = "BS" /\ y.ep = x.ep /\ y.b = x.b + 1) \/ (y.k = "EE" /\ y.ep = x.ep)
      [] x.k = "EE" -> (y.k = "ES" /\ y.ep = x.ep + 1) \/ y.k = "TE"
      [] x.k = "TE" -> FALSE
TShape == CLive => \A r \in 1..trun : LET H == RunEv(r) IN
    /\ (Len(H) >= 1 => H[1].k = "TS")
    /\ \A i \in 1..(Len(H) - 1) : TFollows(H[i], H[i + 1])
    /\ (r < trun \/ tpc = "Done") => (H = <<>> \/ H[Len(H)].k = "TE")
\* at most one termination message per run (and, as the code stands, per Timer object)
AtMostOne == CLive => /\ \A r \in 1..trun : Len(Terms(r)) <= 1
                      /\ (LatchPerObject => Len(SelectSeq(tout, LAMBDA m : m.m = "term")) <= 1)
\* it names the epoch (and batch) of the first batch end / epoch end at which the Timer saw
\* the stop flag set; there is none if no such event happened, if the Timer is not verbose,
\* or (LatchPerObject) if the same Timer already announced a termination in an earlier run
Announced(r, H, f) == /\ Len(Terms(r)) = 1
                      /\ Terms(r)[1].ep = H[f].ep /\ Terms(r)[1].b = H[f].b
                      /\ tev[Terms(r)[1].at] = H[f]            \* printed during that very event
NamesFirstSeen == CLive => \A r \in 1..trun :
    LET H == RunEv(r)
        f == FirstSeen(H)
        latched == LatchPerObject /\ \E i \in 1..Len(tout) : tout[i].m = "term" /\ tout[i].run < r
    IN IF f > 0 /\ tcfg.verbose /\ ~latched THEN Announced(r, H, f) ELSE Terms(r) = <<>>
\* the reading of the class docstring ("It will run at the end of an epoch or batch if the given
\* model's stop_training property is set to True"): EVERY fit that observes a stop announces it.
\* It holds for LatchPerObject = FALSE and is violated by the code's latch (LatchPerObject = TRUE)
\* as soon as a Timer object is used for a second fit.
PerFitAnnouncement == CLive => \A r \in 1..trun :
    LET H == RunEv(r)  f == FirstSeen(H) IN
    (f > 0 /\ tcfg.verbose) => Announced(r, H, f)
NoStopNoMessage == CLive => \A r \in 1..trun :
    (\A i \in 1..Len(RunEv(r)) : ~RunEv(r)[i].seen) => Terms(r) = <<>>
\* elapsed time: clock never runs backwards, training_time = clock(train end) - clock(train start) >= 0
Elapsed == CLive =>
    /\ \A i \in 1..(Len(tev) - 1) : tev[i].clk <= tev[i + 1].clk
    /\ tmTime >= -1 /\ (tmTime >= 0 => tmStart >= 0)
    /\ \A r \in 1..trun : LET H == RunEv(r) IN
          (H # <<>> /\ H[Len(H)].k = "TE") =>
             \A i \in 1..Len(tout) : (tout[i].m = "total" /\ tout[i].run = r) =>
                 tout[i].t = H[Len(H)].clk - H[1].clk /\ tout[i].t >= 0
\* the total is printed exactly once per executed run, last, iff verbose
TotalLine == CLive => \A r \in 1..trun :
    LET H == RunEv(r)  Out == RunOut(r)
        done == H # <<>> /\ H[Len(H)].k = "TE" IN
    /\ Len(SelectSeq(Out, LAMBDA m : m.m = "total")) = (IF done /\ tcfg.verbose THEN 1 ELSE 0)
    /\ (done /\ tcfg.verbose => Out[Len(Out)].m = "total")
    /\ (~tcfg.verbose => Out = <<>>)
\* a run entered with the stop flag set emits nothing
EntryStopInert == CLive => \A r \in 1..trun :
    ((r = 1 /\ tcfg.entryStop)
       \/ (r = 2 /\ tcfg.again = "keep" /\ (tcfg.entryStop \/ \E i \in 1..Len(tev) : tev[i].run = 1 /\ tev[i].inj)))
        => RunEv(r) = <<>> /\ RunOut(r) = <<>>
CTypeOK == CLive =>
    /\ tpc \in {"Entry", "TS", "ES", "BS", "BE", "EE", "TE", "Done"}
    /\ tstop \in BOOLEAN /\ tmNotified \in BOOLEAN /\ tinj \in 0..TMaxInj /\ trun \in 1..tcfg.runs
    /\ tcfg.place \in {"first", "last"} /\ tcfg.nb >= 1 /\ tcfg.dt >= 0 /\ tcfg.runs \in 1..2
    /\ tcfg.again \in {"reset", "keep"}

=============================================================================
