------------------------------ MODULE UserObs ------------------------------
(***************************************************************************)
(* The user-facing observable contract.                                    *)
(*                                                                         *)
(* A user writes a subclass of ObservableBase and implements ONE method,   *)
(* apply(nn_state, samples) -> one real number per sample.  This module    *)
(* follows such an object through everything the library offers for it:    *)
(*                                                                         *)
(*   naming      ObservableBase.name / symbol: the class name unless set;  *)
(*               composites built with - + * take the names the overloads  *)
(*               give them (observable.py:57-78, 256-314);                 *)
(*   arithmetic  the per-sample value of a composite: the linear form of   *)
(*               spec/ObsExpr.tla (instantiated, not repeated) applied to  *)
(*               the tables of the leaves;                                 *)
(*   System      `{obs.name: obs for obs in observables}` - a dictionary:  *)
(*               one entry per NAME, at the position of the first          *)
(*               observable of that name, holding the LAST one (actions    *)
(*               UPickWith: the objects; USystem: the dictionary);         *)
(*   statistics  ObservableBase.statistics / System.statistics: the chain  *)
(*               schedule is the state machine of spec/Stats.tla part B    *)
(*               (its actions Call / DrawWith / Finish run inside this     *)
(*               machine on its variables); after every draw each live     *)
(*               member is applied once, in dictionary order, to the       *)
(*               buffer the draw returned; the numbers are the streaming   *)
(*               merge of Stats.tla part A over the per-draw blocks;       *)
(*   evaluator   ObservableEvaluator: at every epoch end with              *)
(*               epoch % period = 0 one System.statistics call, recorded   *)
(*               in past_values / last, printed, and logged as a CSV row;  *)
(*               clear_history; the accessors.                             *)
(*                                                                         *)
(* A user observable is abstract here: a table from a small finite sample  *)
(* alphabet (letters 0..NL-1, i.e. basis states) to integers (the value    *)
(* times a common scale).  The environment - which letters a draw leaves   *)
(* in the chains - is a stream chosen with the case.                       *)
(*                                                                         *)
(* Everything an outside observer sees is appended to `hist`, one entry    *)
(* per observable event.  The properties are stated over `hist` and do not *)
(* repeat the text of the actions.  TraceUserObs.tla re-runs the actions   *)
(* along recorded events of real runs.                                     *)
(*                                                                         *)
(* Out of scope (stated, not modelled): an apply that writes into the      *)
(* tensor it is given (it is handed the live chain buffer - no defensive   *)
(* copy is promised; see the harness for what then happens), an apply that *)
(* returns something else than one real number per row, user-provided      *)
(* initial chains (Stats.tla / C13), non-linear composites (ObsExpr.tla /  *)
(* C16), a System without observables, observable names that collide with  *)
(* attributes of the evaluator object.                                     *)
(***************************************************************************)
EXTENDS Stats

CONSTANTS UShards,          \* shard ids
          UCasesOf(_)       \* shard id -> set of cases (see UPick)

VARIABLES ucfg,      \* the case
          reg,       \* [obs: registered observables resolved to (name, symbol, table); dict: the System]
          upc,       \* "Pick", "Sys", "Run", "Stat", "Rec", "Done"
          sp,        \* index of the current operation of the user's script
          ep,        \* epoch whose end comes next inside a running fit (UNoEp = no fit running)
          spos,      \* letters of the stream consumed so far
          cur,       \* the statistics call in progress
          drawn,     \* what each draw of that call left in the chains (sequences of letters)
          calls,     \* the apply calls of that call
          returned,  \* what the last statistics call returned
          past, lastv, csv, printed,    \* the evaluator: past_values, last, rows of the log file, verbose blocks
          hist       \* everything observable, in order

uvars == <<ucfg, reg, upc, sp, ep, spos, cur, drawn, calls, returned, past, lastv, csv, printed, hist>>
xvars == <<avars, bvars, uvars>>

UNoStr == "<none>"          \* python None where a string is expected (name / symbol not set)
UNoEp  == -1
UNoCall == [who |-> -1, via |-> "none", epoch |-> UNoEp]

-----------------------------------------------------------------------------
(* Naming and arithmetic of observables.                                    *)
(*                                                                          *)
(* case.scale : every per-sample value times scale is an integer           *)
(* case.atoms : sequence (<= 3) of leaf objects                             *)
(*     [cls (class name), nm, sy (what the user assigned to .name /         *)
(*      .symbol, or UNoStr), table, impl ("user" or the built-in class)]    *)
(* case.obs   : the list handed to System / ObservableEvaluator: sequence   *)
(*     of [e (expression tree in the syntax of ObsExpr.tla over the leaf    *)
(*     ids "a", "b", "c" and integer scalars), nm, sy (assigned to the      *)
(*     built object afterwards, or UNoStr)]                                 *)

ULeafIds == <<"a", "b", "c">>
OE == INSTANCE ObsExpr WITH Leaves <- ULeafIds, Scalars <- {}, Bads <- {}, MaxDepth <- 5, MaxStack <- 5,
                            Bound <- 100000, FirstAtoms <- {}, Variant <- "code", stack <- <<>>
ULeafPos(id) == CHOOSE i \in 1..Len(ULeafIds) : ULeafIds[i] = id

\* ObservableBase.name / .symbol (observable.py:30-50): the class name unless something was assigned
UAtomNm(c, id, w) ==
    LET a == c.atoms[ULeafPos(id)]
        v == IF w = "name" THEN a.nm ELSE a.sy
    IN  IF v = UNoStr THEN a.cls ELSE v

UNumVal(e) == OE!Eval(e)[1][1]          \* value of a scalar sub-expression (plain python arithmetic on ints)

\* repr() / str() of an operand as the constructors of SumObservable / ProdObservable use it, and the
\* explicit name / symbol given by __neg__; w = "name" follows repr (-> .name), w = "symbol" follows str
RECURSIVE UENm(_, _, _)
UENm(c, e, w) ==
    IF OE!Kind(e) = "num" THEN ToString(UNumVal(e))
    ELSE CASE e.t = "leaf" -> UAtomNm(c, e.n, w)
           [] e.t = "neg"  -> "-" \o UENm(c, e.a, w)                                          \* __neg__
           [] e.t = "add"  -> "(" \o UENm(c, e.l, w) \o " + " \o UENm(c, e.r, w) \o ")"         \* __add__ / __radd__
           [] e.t = "sub"  -> "(" \o UENm(c, e.l, w) \o " + " \o                                \* Sum(l, -r) / Sum(l, -self)
                                  (IF OE!Kind(e.r) = "num" THEN ToString(0 - UNumVal(e.r)) ELSE "-" \o UENm(c, e.r, w))
                                  \o ")"
           [] e.t = "mul"  -> IF OE!Kind(e.l) = "num"                                          \* the scalar goes to .left
                              THEN "(" \o UENm(c, e.l, w) \o " * " \o UENm(c, e.r, w) \o ")"
                              ELSE "(" \o UENm(c, e.r, w) \o " * " \o UENm(c, e.l, w) \o ")"

\* per-letter value of the built object: ObsExpr's Apply(Build(e)) is a linear form over the leaves
\* (tables hold value * c.scale, so the constant term is scaled as well).  The linear form is bound as an
\* element of a singleton set, so that TLC evaluates it once and not once per use.
UTableOf(c, lin) ==
    [a \in 1..Len(c.atoms[1].table) |->
        lin[1][1] * c.scale + SumSeq([i \in 1..Len(c.atoms) |-> lin[1 + i][1] * c.atoms[i].table[a]])]
UExprTable(c, e) == CHOOSE t \in {UTableOf(c, lin) : lin \in {OE!Apply(OE!Build(e))}} : TRUE

UResolve(c) ==
    [i \in 1..Len(c.obs) |->
        LET o == c.obs[i] IN
        [name   |-> IF o.nm = UNoStr THEN UENm(c, o.e, "name") ELSE o.nm,
         symbol |-> IF o.sy = UNoStr THEN UENm(c, o.e, "symbol") ELSE o.sy,
         table  |-> UExprTable(c, o.e)]]

\* System.__init__ (system.py:30): a python dict built by successive assignment
UKeyOf(o) == o.name
UDictPut(d, k, i) ==
    IF \E j \in 1..Len(d) : d[j].key = k
    THEN [j \in 1..Len(d) |-> IF d[j].key = k THEN [key |-> k, member |-> i] ELSE d[j]]     \* the slot stays, the value goes
    ELSE Append(d, [key |-> k, member |-> i])
UDictOf(r) ==
    LET f[i \in 0..Len(r)] == IF i = 0 THEN <<>> ELSE UDictPut(f[i - 1], UKeyOf(r[i]), i)
    IN  f[Len(r)]

UKeys    == [k \in 1..Len(reg.dict) |-> reg.dict[k].key]
UMembers == [k \in 1..Len(reg.dict) |-> reg.dict[k].member]

UFlat(ss) == LET f[i \in 0..Len(ss)] == IF i = 0 THEN <<>> ELSE f[i - 1] \o ss[i] IN f[Len(ss)]

\* ObservableEvaluator.__init__: csv_fields
UHeaderKeys == UKeys
UHeaderOf(keys) == <<"epoch">> \o UFlat([k \in 1..Len(keys) |->
                        <<keys[k] \o "_mean", keys[k] \o "_variance", keys[k] \o "_std_error">>])
UHeader == UHeaderOf(UHeaderKeys)

-----------------------------------------------------------------------------
(* Numbers.  A result is [name, mean, var, se2, n]: exact rationals of Stats.tla; se2 = variance / n
   is the square of std_error; Undef where the code has no number (nan). *)

UVals(m, letters) == [j \in 1..Len(letters) |-> reg.obs[m].table[letters[j] + 1]]
UIdx(s, Test(_)) == SelectSeq([i \in 1..Len(s) |-> i], Test)
UBlocksOf(cs, m) == LET ix == UIdx(cs, LAMBDA i : cs[i].member = m) IN [q \in 1..Len(ix) |-> cs[ix[q]].vals]
USe2(var, n) == IF var = Undef \/ n = 0 THEN Undef ELSE RDiv(var, RInt(n))
URes(nm, s)  == [name |-> nm, mean |-> s.mean, var |-> s.var, se2 |-> USe2(s.var, s.n), n |-> s.n]
\* statistics(): running = _update_statistics(running, statistics_from_samples(draw)) draw after draw
UStreamed(cs, m) == Fold(Merge, UBlocksOf(cs, m))
\* statistics_from_samples(): torch.var_mean of the applied values
UOneShot(vals) == OnePass(vals)

ULive(who)      == IF who = 0 THEN UMembers ELSE <<who>>
ULiveNames(who) == IF who = 0 THEN UKeys ELSE <<reg.obs[who].name>>

UValOf(vals, nm) == vals[CHOOSE k \in 1..Len(vals) : vals[k].name = nm]

\* the row csv.DictWriter writes: the dictionary {"epoch": e, name_stat: value ...} of `last`, laid out by the header
URow(e, vals) == [epoch |-> e,
                  cells |-> UFlat([k \in 1..Len(UHeaderKeys) |->
                                LET r == UValOf(vals, UHeaderKeys[k]) IN <<r.mean, r.var, r.se2>>])]

UTake(n) == [j \in 1..n |-> ucfg.stream[((spos + j - 1) % Len(ucfg.stream)) + 1]]

\* when the evaluator acts (observable_evaluator.py:205)
UFires(e, p) == e % p = 0

-----------------------------------------------------------------------------
(* The accessors of the evaluator, as the code computes them from past_values / last *)
ULen           == Len(past)
UEpochs        == [i \in 1..Len(past) |-> past[i].epoch]
UGetAttr(nm)   == [i \in 1..Len(past) |-> UValOf(past[i].vals, nm)]          \* evaluator.<name> / evaluator[name]
UGetValue(nm, idx) == LET j == IF idx < 0 THEN Len(past) + idx + 1 ELSE idx + 1       \* python list index
                      IN  UValOf(past[j].vals, nm)
UView == [len     |-> ULen,
          epochs  |-> UEpochs,
          names   |-> UKeys,
          series  |-> [k \in 1..Len(UKeys) |-> UGetAttr(UKeys[k])],
          last    |-> lastv,
          unknown |-> IF past = <<>> THEN "empty" ELSE "AttributeError"]   \* evaluator.<not a name>

-----------------------------------------------------------------------------
UParkedB == /\ pc' = "Parked" /\ cfg' = <<>> /\ cp' = 0 /\ nt' = 0 /\ chains' = 0 /\ content' = <<>>
            /\ draws' = <<>> /\ evals' = <<>> /\ count' = 0

UInit == /\ upc = "Pick" /\ \E s \in UShards : ucfg = [shard |-> s]
         /\ reg = <<>> /\ sp = 0 /\ ep = UNoEp /\ spos = 0 /\ cur = UNoCall
         /\ drawn = <<>> /\ calls = <<>> /\ returned = <<>>
         /\ past = <<>> /\ lastv = <<>> /\ csv = <<>> /\ printed = <<>> /\ hist = <<>>
         /\ AParked /\ Parked

\* the user builds the observables ...
UPickWith(c) ==
    /\ upc = "Pick"
    /\ ucfg' = c
    /\ reg' = [obs |-> UResolve(c), dict |-> <<>>]
    /\ upc' = "Sys"
    /\ UNCHANGED <<sp, ep, spos, cur, drawn, calls, returned, past, lastv, csv, printed, hist, avars, bvars>>
UPick == upc = "Pick" /\ \E c \in UCasesOf(ucfg.shard) : UPickWith(c)

\* ... and a System and an evaluator from them
USystem ==
    /\ upc = "Sys"
    /\ \E d \in {UDictOf(reg.obs)} :
          /\ reg' = [reg EXCEPT !.dict = d]
          /\ hist' = <<[h |-> "system", names |-> [i \in 1..Len(reg.obs) |-> reg.obs[i].name],
                        symbols |-> [i \in 1..Len(reg.obs) |-> reg.obs[i].symbol],
                        keys |-> [k \in 1..Len(d) |-> d[k].key], members |-> [k \in 1..Len(d) |-> d[k].member],
                        header |-> UHeaderOf([k \in 1..Len(d) |-> d[k].key])]>>
    /\ upc' = "Run" /\ sp' = 1
    /\ UNCHANGED <<ucfg, ep, spos, cur, drawn, calls, returned, past, lastv, csv, printed, avars, bvars>>

UAtOp == upc = "Run" /\ ep = UNoEp /\ sp <= Len(ucfg.script)
UOp   == ucfg.script[sp]

\* nn_state.fit(..., starting_epoch = s, epochs = e, callbacks = [.., evaluator, ..])
UFitStart ==
    /\ UAtOp /\ UOp.op = "fit"
    /\ IF UOp.s <= UOp.e THEN ep' = UOp.s /\ sp' = sp ELSE ep' = UNoEp /\ sp' = sp + 1
    /\ UNCHANGED <<ucfg, reg, upc, spos, cur, drawn, calls, returned, past, lastv, csv, printed, hist, avars, bvars>>

UClear ==
    /\ UAtOp /\ UOp.op = "clear"
    /\ past' = <<>> /\ lastv' = <<>>
    /\ hist' = Append(hist, [h |-> "clear"])
    /\ sp' = sp + 1
    /\ UNCHANGED <<ucfg, reg, upc, ep, spos, cur, drawn, calls, returned, csv, printed, avars, bvars>>

UViewOp ==
    /\ UAtOp /\ UOp.op = "view"
    /\ hist' = Append(hist, [h |-> "view", v |-> UView])
    /\ sp' = sp + 1
    /\ UNCHANGED <<ucfg, reg, upc, ep, spos, cur, drawn, calls, returned, past, lastv, csv, printed, avars, bvars>>

\* entering ObservableBase.statistics (who = position of the observable in the list) or System.statistics (who = 0)
UBeginStat(who, via, epoch) ==
    /\ cur' = [who |-> who, via |-> via, epoch |-> epoch]
    /\ cfg' = [kind |-> IF who = 0 THEN "sys" ELSE "obs", nobs |-> Len(ULive(who)),
               S |-> ucfg.kw.S, C |-> ucfg.kw.C, burn |-> ucfg.kw.burn, steps |-> ucfg.kw.steps,
               L |-> 0, ow |-> FALSE]
    /\ pc' = "Call" /\ cp' = 0 /\ nt' = 0 /\ chains' = 0 /\ content' = <<0>>
    /\ draws' = <<>> /\ evals' = <<>> /\ count' = 0
    /\ drawn' = <<>> /\ calls' = <<>>
    /\ upc' = "Stat"

UDirectStat ==
    /\ UAtOp /\ UOp.op \in {"sys.stats", "obs.stats"}
    /\ UBeginStat(IF UOp.op = "sys.stats" THEN 0 ELSE UOp.i, "direct", UNoEp)
    /\ hist' = Append(hist, [h |-> "stat", who |-> IF UOp.op = "sys.stats" THEN 0 ELSE UOp.i, via |-> "direct"])
    /\ UNCHANGED <<ucfg, reg, sp, ep, spos, returned, past, lastv, csv, printed, avars>>

\* one-shot operations on a batch of `content`:
\*   sys.sfs / obs.sfs   statistics_from_samples on the user's batch (buffer token 1)
\*   obs.apply           apply on the user's batch
\*   obs.sample          ObservableBase.sample: apply on what nn_state.sample returns (a fresh buffer, token 2)
UBatchOps == {"sys.sfs", "obs.sfs", "obs.apply", "obs.sample"}
UDirectBatch(batch) ==
    /\ UAtOp /\ UOp.op \in UBatchOps
    /\ LET who  == IF UOp.op = "sys.sfs" THEN 0 ELSE UOp.i
           live == ULive(who)
           tok  == IF UOp.op = "obs.sample" THEN 2 ELSE 1
       IN  \E cs \in {[k \in 1..Len(live) |-> [draw |-> 1, member |-> live[k], tensor |-> tok, content |-> batch,
                                                 vals |-> UVals(live[k], batch)]]} :       \* (bound once)
           hist' = Append(hist,
                IF UOp.op \in {"sys.sfs", "obs.sfs"}
                THEN [h |-> "sfs", who |-> who, calls |-> cs,
                      res |-> [k \in 1..Len(live) |-> URes(ULiveNames(who)[k], UOneShot(cs[k].vals))]]
                ELSE [h |-> "values", who |-> who, how |-> UOp.op, calls |-> cs, vals |-> cs[1].vals])
    /\ spos' = spos + Len(batch)
    /\ sp' = sp + 1
    /\ UNCHANGED <<ucfg, reg, upc, ep, cur, drawn, calls, returned, past, lastv, csv, printed, avars, bvars>>

UAdvance == IF ep + 1 <= UOp.e THEN ep' = ep + 1 /\ sp' = sp ELSE ep' = UNoEp /\ sp' = sp + 1

\* ObservableEvaluator.on_epoch_end(nn_state, ep)
UEpochEnd ==
    /\ upc = "Run" /\ ep # UNoEp
    /\ hist' = Append(hist, [h |-> "epoch", epoch |-> ep])
    /\ IF UFires(ep, ucfg.period)
       THEN /\ UBeginStat(0, "eval", ep)
            /\ UNCHANGED <<ucfg, reg, sp, ep, spos, returned, past, lastv, csv, printed, avars>>
       ELSE /\ UAdvance
            /\ UNCHANGED <<ucfg, reg, upc, spos, cur, drawn, calls, returned, past, lastv, csv, printed, avars, bvars>>

\* ---- inside statistics(): the schedule is Stats.tla's
UAllApplied == Len(calls) = Len(draws) * Len(ULive(cur.who))

UCall == /\ upc = "Stat" /\ pc = "Call"
         /\ Call
         /\ UNCHANGED uvars

UDrawWith(letters, to) ==
    /\ upc = "Stat" /\ pc = "Draw" /\ UAllApplied
    /\ DrawWith(to)
    /\ Len(letters) = cp
    /\ drawn' = Append(drawn, letters)
    /\ spos' = spos + cp
    /\ hist' = Append(hist, [h |-> "draw", d |-> draws'[Len(draws')], content |-> letters])
    /\ UNCHANGED <<ucfg, reg, upc, sp, ep, cur, calls, returned, past, lastv, csv, printed>>
UDraw == upc = "Stat" /\ pc = "Draw" /\ UDrawWith(UTake(cp), Len(draws) + 2)

\* obs.statistics_from_samples(nn_state, chains): apply on the buffer the draw returned
UApply ==
    /\ upc = "Stat" /\ pc = "Draw" /\ Len(draws) >= 1 /\ ~UAllApplied
    /\ LET d    == Len(draws)
           live == ULive(cur.who)
           k    == Len(calls) - (d - 1) * Len(live) + 1
       IN  \E c \in {[draw |-> d, member |-> live[k], tensor |-> draws[d].ret, content |-> drawn[d],
                      vals |-> UVals(live[k], drawn[d])]} :
           /\ calls' = Append(calls, c)
           /\ hist' = Append(hist, [h |-> "apply"] @@ c)
    /\ UNCHANGED <<ucfg, reg, upc, sp, ep, spos, cur, drawn, returned, past, lastv, csv, printed, avars, bvars>>

UFinish == /\ upc = "Stat" /\ pc = "Draw" /\ UAllApplied
           /\ Finish
           /\ UNCHANGED uvars

UReturn ==
    /\ upc = "Stat" /\ pc = "Done"
    /\ LET live == ULive(cur.who) IN
       \E res \in {[k \in 1..Len(live) |-> URes(ULiveNames(cur.who)[k], UStreamed(calls, live[k]))]} :
           /\ returned' = res
           /\ hist' = Append(hist, [h |-> "return", who |-> cur.who, via |-> cur.via, epoch |-> cur.epoch,
                                    draws |-> Len(draws), chains |-> cp, res |-> res])
    /\ UParkedB
    /\ IF cur.via = "eval" THEN upc' = "Rec" /\ sp' = sp ELSE upc' = "Run" /\ sp' = sp + 1
    /\ UNCHANGED <<ucfg, reg, ep, spos, cur, drawn, calls, past, lastv, csv, printed, avars>>

\* the rest of on_epoch_end: last, past_values, the verbose block, the CSV row
URecord ==
    /\ upc = "Rec"
    /\ lastv' = returned
    /\ past' = Append(past, [epoch |-> cur.epoch, vals |-> returned])
    /\ printed' = IF ucfg.verbose
                  THEN Append(printed, [epoch |-> cur.epoch, names |-> [k \in 1..Len(returned) |-> returned[k].name]])
                  ELSE printed
    /\ \E row \in {IF ucfg.log THEN URow(cur.epoch, returned) ELSE [epoch |-> UNoEp, cells |-> <<>>]} :
          /\ csv' = IF ucfg.log THEN Append(csv, row) ELSE csv
          /\ hist' = Append(hist, [h |-> "record", epoch |-> cur.epoch, vals |-> returned, len |-> Len(past) + 1, row |-> row])
    /\ UAdvance
    /\ upc' = "Run" /\ cur' = UNoCall
    /\ UNCHANGED <<ucfg, reg, spos, drawn, calls, returned, avars, bvars>>

UDone == /\ upc = "Run" /\ ep = UNoEp /\ sp > Len(ucfg.script)
         /\ upc' = "Done"
         /\ hist' = Append(hist, [h |-> "end"])
         /\ UNCHANGED <<ucfg, reg, sp, ep, spos, cur, drawn, calls, returned, past, lastv, csv, printed, avars, bvars>>

UNext == \/ UPick \/ USystem \/ UFitStart \/ UClear \/ UViewOp \/ UDirectStat
         \/ (UAtOp /\ UOp.op \in UBatchOps /\ UDirectBatch(UTake(UOp.b)))
         \/ UEpochEnd \/ UCall \/ UDraw \/ UApply \/ UFinish \/ UReturn \/ URecord \/ UDone

-----------------------------------------------------------------------------
(* Properties.  Stated on `hist` (and the evaluator's state) with their own definitions of
   "the dictionary", "the statistics of the applied values" and "the schedule". *)

ULiveNow == upc \notin {"Pick", "Sys"}
UFinished == upc = "Done"
\* Entry-wise properties look at the NEWEST entry of hist: every entry is the newest one in the state whose
\* step appended it, so checking the newest entry in every reachable state checks every entry (and keeps the
\* cost of a behaviour linear in its length).
UScope == {Len(hist)}
HKind(k) == UIdx(hist, LAMBDA i : hist[i].h = k)
Names == hist[1].names                                   \* names of the registered observables, in list order

\* the collection, said without a dictionary: one key per distinct name, keys in order of first
\* appearance, each key served by the LAST observable of that name
UFirstOcc(i) == \A j \in 1..(i - 1) : Names[j] # Names[i]
ULastOcc(i)  == \A j \in (i + 1)..Len(Names) : Names[j] # Names[i]
KeyPos  == UIdx(Names, UFirstOcc)
KeyList == [k \in 1..Len(KeyPos) |-> Names[KeyPos[k]]]
MemberOf(nm) == CHOOSE i \in 1..Len(Names) : Names[i] = nm /\ ULastOcc(i)
MemberList == [k \in 1..Len(KeyList) |-> MemberOf(KeyList[k])]
WhoMembers(who) == IF who = 0 THEN MemberList ELSE <<who>>
WhoNames(who)   == IF who = 0 THEN KeyList ELSE <<Names[who]>>

RECURSIVE UConcat(_)
UConcat(ss) == IF ss = <<>> THEN <<>> ELSE ss[1] \o UConcat(Tail(ss))

\* index of the "stat"-less start of the call that a "return" at position i closes: the applies and draws
\* between the last "stat" / "epoch" entry before i and i
CallStart(i) == CHOOSE j \in 1..(i - 1) : hist[j].h \in {"stat", "epoch"} /\ \A q \in (j + 1)..(i - 1) : hist[q].h \in {"draw", "apply"}
AppliesIn(j, i, m) == LET ix == SelectSeq([q \in 1..(i - j - 1) |-> j + q], LAMBDA q : hist[q].h = "apply" /\ hist[q].member = m)
                      IN  [q \in 1..Len(ix) |-> hist[ix[q]]]
UTypeOK ==
    /\ upc \in {"Pick", "Sys", "Run", "Stat", "Rec", "Done"}
    /\ ULiveNow => /\ Len(reg.obs) = Len(ucfg.obs) /\ Len(reg.dict) >= 1 /\ Len(reg.dict) <= Len(reg.obs)
                   /\ (upc = "Stat") = (pc # "Parked")
                   /\ (lastv = <<>>) = (past = <<>>)
                   /\ \A i \in 1..Len(past) : Len(past[i].vals) = Len(reg.dict)

\* (1) the numbers are the mean / unbiased variance / variance over N / N of exactly the values apply returned
\* (one pass over their concatenation), wherever those exist; one result per live member
StatsAreOfAppliedValues ==
    ULiveNow => \A i \in UScope :
        /\ hist[i].h = "return" =>
              LET j == CallStart(i)  mem == WhoMembers(hist[i].who) IN
              /\ Len(hist[i].res) = Len(mem)
              /\ \A k \in 1..Len(mem) :
                    LET as == AppliesIn(j, i, mem[k])
                        xs == UConcat([q \in 1..Len(as) |-> as[q].vals])
                        o  == OnePass(xs)
                        r  == hist[i].res[k]
                    IN  /\ r.n = Len(xs) /\ r.n = hist[i].draws * hist[i].chains
                        /\ (o.n >= 1 => r.mean = o.mean)
                        /\ (o.n >= 2 => r.var = o.var /\ r.se2 = RDiv(o.var, RInt(o.n)))
                        /\ (o.n = 1 => r.var = Undef /\ r.se2 = Undef)
        /\ hist[i].h = "sfs" =>
              \A k \in 1..Len(hist[i].res) :
                    LET o == OnePass(hist[i].calls[k].vals)  r == hist[i].res[k] IN
                    /\ r.n = o.n
                    /\ r.mean = o.mean
                    /\ (o.n >= 2 => r.var = o.var /\ r.se2 = RDiv(o.var, RInt(o.n)))

\* every value is the member's own table at the letters it was shown
ValuesAreApplyOfSeen ==
    ULiveNow => \A i \in UScope : hist[i].h = "apply" =>
        hist[i].vals = [q \in 1..Len(hist[i].content) |-> reg.obs[hist[i].member].table[hist[i].content[q] + 1]]

\* (2)+(3) per draw every live member is applied exactly once, in key order, right after the draw, to the buffer
\* the draw returned, holding what the draw left there; shadowed observables and nothing else are ever applied
SameSamplesForAllMembers ==
    ULiveNow => \A i \in UScope : hist[i].h = "return" =>
        LET j == CallStart(i)  mem == WhoMembers(hist[i].who)  nm == Len(mem) IN
        /\ i - j - 1 = hist[i].draws * (1 + nm)
        /\ \A d \in 1..hist[i].draws :
              LET at == j + (d - 1) * (1 + nm) + 1 IN
              /\ hist[at].h = "draw"
              /\ \A k \in 1..nm :
                    /\ hist[at + k].h = "apply" /\ hist[at + k].member = mem[k] /\ hist[at + k].draw = d
                    /\ hist[at + k].content = hist[at].content
                    /\ hist[at + k].tensor = hist[at].d.ret

\* results are filed under the name, one per distinct name, the last observable of a name standing for it
KeyedByName ==
    ULiveNow =>
        /\ hist[1].keys = KeyList /\ hist[1].members = MemberList
        /\ \A i \in UScope :
              /\ hist[i].h \in {"return", "sfs"} =>
                    [k \in 1..Len(hist[i].res) |-> hist[i].res[k].name] = WhoNames(hist[i].who)
              /\ hist[i].h = "sfs" => [k \in 1..Len(hist[i].calls) |-> hist[i].calls[k].member] = WhoMembers(hist[i].who)
        /\ \A i \in 1..Len(past) : [k \in 1..Len(past[i].vals) |-> past[i].vals[k].name] = KeyList

\* keys, the evaluator's names and the CSV columns stand in order of first registration
RegistrationOrder ==
    ULiveNow =>
        /\ \A k \in 1..(Len(KeyPos) - 1) : KeyPos[k] < KeyPos[k + 1]
        /\ UView.names = KeyList
        /\ hist[1].header = UHeaderOf(KeyList) /\ UHeader = hist[1].header

\* (4) the evaluator acts at the end of exactly the epochs that are multiples of the period: one
\* System.statistics call, its return value recorded as it is
Multiple(e, p) == \E q \in 0..e : e = q * p
EvaluatorRecordsWhatSystemReturned ==
    ULiveNow => \A i \in UScope :
        /\ hist[i].h = "record" =>
              /\ hist[i - 1].h = "return" /\ hist[i - 1].via = "eval" /\ hist[i - 1].who = 0
              /\ hist[i - 1].epoch = hist[i].epoch /\ hist[i].vals = hist[i - 1].res
              /\ hist[CallStart(i - 1)].h = "epoch" /\ hist[CallStart(i - 1)].epoch = hist[i].epoch
        /\ (i > 1 /\ hist[i - 1].h = "return" /\ hist[i - 1].via = "eval") => hist[i].h = "record"
        /\ (hist[i].h = "return" /\ hist[i].via = "eval") => upc = "Rec"          \* the record is still to come
OnSchedule ==
    ULiveNow => \A i \in UScope :
        /\ (i > 1 /\ hist[i - 1].h = "epoch") =>
              IF Multiple(hist[i - 1].epoch, ucfg.period) THEN hist[i].h = "draw"
              ELSE hist[i].h \notin {"draw", "apply", "return", "record"}
        /\ hist[i].h = "epoch" => (Multiple(hist[i].epoch, ucfg.period) <=> upc = "Stat")   \* a call is / is not under way
\* the epochs the user's fits went through, each once, in order
EpochsOf(o) == IF o.op = "fit" THEN [q \in 1..(IF o.e >= o.s THEN o.e - o.s + 1 ELSE 0) |-> o.s + q - 1] ELSE <<>>
AllEpochs ==
    UFinished => LET ix == HKind("epoch") IN
                 [q \in 1..Len(ix) |-> hist[ix[q]].epoch] = UConcat([q \in 1..Len(ucfg.script) |-> EpochsOf(ucfg.script[q])])

\* past_values / last are the records since the last clear_history; the accessors read them consistently
RecordsSinceClear ==
    LET cl == HKind("clear")
        from == IF cl = <<>> THEN 0 ELSE cl[Len(cl)]
        ix == SelectSeq([q \in 1..(Len(hist) - from) |-> from + q], LAMBDA q : hist[q].h = "record")
    IN  [q \in 1..Len(ix) |-> [epoch |-> hist[ix[q]].epoch, vals |-> hist[ix[q]].vals]]
AccessorsConsistent ==
    ULiveNow =>
        /\ past = RecordsSinceClear
        /\ lastv = (IF past = <<>> THEN <<>> ELSE past[Len(past)].vals)
        /\ Len(UEpochs) = ULen
        /\ \A i \in UScope : hist[i].h = "record" => hist[i].len = ULen /\ hist[i].len >= 1
        /\ \A k \in 1..Len(KeyList) :
              LET nm == KeyList[k] IN
              /\ Len(UGetAttr(nm)) = ULen
              /\ \A i \in 0..(ULen - 1) : /\ UGetValue(nm, i) = UGetAttr(nm)[i + 1]
                                          /\ UGetValue(nm, i - ULen) = UGetValue(nm, i)
                                          /\ UGetValue(nm, i).name = nm
              /\ ULen >= 1 => UGetValue(nm, -1) = UValOf(lastv, nm)

\* the log file: one row per record ever made (clear_history does not touch the file), the record's
\* numbers under the columns that carry its name
CsvMatchesRecords ==
    ULiveNow =>
        IF ~ucfg.log THEN csv = <<>>
        ELSE /\ Len(csv) = Len(HKind("record"))
             /\ \A i \in UScope : hist[i].h = "record" =>
                   LET rec == hist[i]  row == csv[Len(csv)] IN
                   /\ row = rec.row /\ row.epoch = rec.epoch
                   /\ Len(row.cells) = Len(hist[1].header) - 1
                   /\ \A k \in 1..Len(KeyList) :
                         LET r == UValOf(rec.vals, KeyList[k])
                             col(stat) == CHOOSE c \in 1..Len(hist[1].header) : hist[1].header[c] = KeyList[k] \o stat
                         IN  /\ row.cells[col("_mean") - 1] = r.mean
                             /\ row.cells[col("_variance") - 1] = r.var
                             /\ row.cells[col("_std_error") - 1] = r.se2

ClearHistoryEmpties ==
    ULiveNow /\ hist[Len(hist)].h = "clear" => past = <<>> /\ lastv = <<>> /\ ULen = 0 /\ UView.unknown = "empty"

VerboseBlocks ==
    ULiveNow => IF ~ucfg.verbose THEN printed = <<>>
                ELSE /\ Len(printed) = Len(HKind("record"))
                     /\ \A i \in UScope : hist[i].h = "record" =>
                           printed[Len(printed)] = [epoch |-> hist[i].epoch, names |-> KeyList]

\* what the harness replays: the whole behaviour at its end
UExport == [cfg |-> ucfg, reg |-> reg, header |-> UHeader, hist |-> hist, csv |-> csv, printed |-> printed, final |-> UView]
=============================================================================
