------------------------------- MODULE Metrics -------------------------------
(***************************************************************************)
(* Fidelity, KL divergence and negative log-likelihood                     *)
(* (qucumber/utils/training_statistics.py) as mathematics over an ABSTRACT *)
(* EXACT FIELD: model states and targets are Gaussian-integer vectors      *)
(* (unnormalised; the physical state is psi/sqrt(Z), Z = |psi|^2) or Gram  *)
(* matrices of <= 2 such vectors (mixed), so every statement below is an   *)
(* integer (in)equality after multiplying through the denominators.        *)
(*                                                                         *)
(* DEFINITIONS                                                             *)
(*   Fid_pure(t, psi) = |<t|psi>|^2 / (N_t Z)                               *)
(*   Born distribution of a state in basis b (Dense(b) = 2^(-r/2) D_b,     *)
(*   r = number of rotated sites, D_b = DenseKron(b)):                     *)
(*     pure :  P_b(s) = |(D_b psi)_s|^2 / (2^r Z)                           *)
(*     mixed:  P_b(s) = (D_b rho D_b^dagger)_ss / (2^r tr rho)              *)
(*   T_b = Born distribution of the target, Q_b = of the model.            *)
(*   KL   = (1/|bases|) SUM_{b in bases} SUM_s T_b(s) (ln T_b(s) - ln Q_b(s)) *)
(*          three target forms: tensor (rotated once per basis), dict of   *)
(*          pre-rotated targets (keys = bases), bases = None (reference    *)
(*          basis only).                                                    *)
(*   NLL  = -(1/M) SUM_rows ln Q_{b_row}(s_row)                             *)
(*   Fid_mixed = (tr sqrt(sqrt(tau) rho sqrt(tau)))^2 for normalised       *)
(*          states = (SUM_k sqrt(lambda_k(tau rho)))^2; closed forms:       *)
(*          tau = rho -> 1; tau = |t><t| -> <t|rho|t>/(N_t Z); rho =       *)
(*          |psi><psi| -> <psi|tau|psi>/(Z tr tau); one qubit ->           *)
(*          (tr(tau rho) + 2 sqrt(det tau det rho)) / (tr tau tr rho).     *)
(* The logarithms and square roots are never evaluated here: TLC decides   *)
(* the STRUCTURE (which coefficients, which bases, which divisor, which    *)
(* rows in which group) and the algebraic facts that make the definitions  *)
(* meaningful; the harness evaluates the exported structure on exact       *)
(* psi / rho of lattice RBMs (RBM.tla, PurifRBM.tla) with 50-digit atoms.  *)
(*                                                                         *)
(* Besides the dense DEFINITION the module states the two ALGORITHMS the   *)
(* library uses per sample (expansion over the rotated sites only) and     *)
(* checks that they compute the definition; the planted faults (constant   *)
(* Fault) show that each invariant bites.                                  *)
(***************************************************************************)
EXTENDS MetricsArith, TLC

CONSTANTS NSet,         \* numbers of sites explored
          Pool,         \* Pool[n] : sequence of non-zero Gaussian-integer vectors of length 2^n
          BasesOf(_),   \* bases explored for n sites (all of {X,Y,Z}^n for n <= 2)
          RowBases(_),  \* bases that NLL rows may carry (contains the all-Z basis)
          Lim(_),       \* [L |-> max length of a bases list, K |-> max number of dict keys, M |-> max NLL rows]
          Kinds,        \* which shard kinds to explore
          Fault         \* "" or the name of a planted fault

VARIABLES pc, cs
vars == <<pc, cs>>

NStates(n) == Pow2(n)
PoolIdx(n) == 1..Len(Pool[n])
Vec(n, i) == Pool[n][i]
\* mixed state of a case: Gram matrix of Pool vectors i and j (i = j: rank one)
GramOf(n, i, j) == IF i = j THEN Gram(<<Vec(n, i)>>) ELSE Gram(<<Vec(n, i), Vec(n, j)>>)

-----------------------------------------------------------------------------
(* Fidelity of pure states: numerator and denominator *)
FidNum(t, psi) == ZAbs2(VInner(t, psi))
FidDen(t, psi) == IF Fault = "fid-no-Z" THEN VNorm2(t) ELSE VNorm2(t) * VNorm2(psi)

-----------------------------------------------------------------------------
(* Born distributions in a basis: the definition (dense) ... *)
UE(c, x, y) == IF Fault = "transposed-unitary" THEN U1(c)[y + 1][x + 1] ELSE U1(c)[x + 1][y + 1]
\* index formula of the dense matrix: D[s][v] = PROD_j U1(b[j])[s_j][v_j]
DenseIdx(b) == LET n == Len(b) IN
    [s \in 1..Pow2(n) |-> [v \in 1..Pow2(n) |->
        ZProd([j \in 1..n |-> UE(b[j], Row(n, s - 1)[j], Row(n, v - 1)[j])])]]
BornPureNum(b, x)  == LET y == MatVec(DenseKron(b), x) IN [s \in 1..Len(x) |-> ZAbs2(y[s])]
BornPureDen(b, x)  == Pow2(NRot(b)) * VNorm2(x)
RotDiag(b, R)      == LET D == DenseKron(b) IN
    [s \in 1..Len(R) |-> ZSum([v \in 1..Len(R) |-> ZSum([w \in 1..Len(R) |->
        ZMul(ZMul(D[s][v], R[v][w]), ZConj(D[s][w]))])])]
BornMixedDen(b, R) == Pow2(NRot(b)) * Trace(R)[1]

(* ... and the algorithms used per sample: sum over the configurations that differ from s on rotated sites only *)
Sub(b, s) == LET n == Len(b) IN
    {v \in 0..(Pow2(n) - 1) : \A j \in 1..n : b[j] = "Z" => Row(n, v)[j] = Row(n, s)[j]}
Coef(b, s, v) == LET n == Len(b) IN
    ZProd([j \in 1..n |-> IF b[j] = "Z" THEN ZOne ELSE UE(b[j], Row(n, s)[j], Row(n, v)[j])])
\* rotate_psi_inner_prod: amplitude of basis state s in the rotated wavefunction
ExpandAmp(b, s, x) == LET S == Sub(b, s) IN
    ZSum([k \in 1..Len(x) |-> IF (k - 1) \in S THEN ZMul(Coef(b, s, k - 1), x[k]) ELSE ZZero])
\* rotate_rho_probs: probability numerator of basis state s for the rotated density matrix
ExpandProb(b, s, R) == LET S == Sub(b, s) IN
    ZSum([k \in 1..Len(R) |-> ZSum([l \in 1..Len(R) |->
        IF (k - 1) \in S /\ (l - 1) \in S
        THEN ZMul(ZMul(Coef(b, s, k - 1), ZConj(Coef(b, s, l - 1))),
                  IF Fault = "gather-transposed" THEN R[l][k] ELSE R[k][l])
        ELSE ZZero])])

-----------------------------------------------------------------------------
(* KL: which bases are averaged, from which source, with which divisor.
   form: "tensor" (one target, rotated per basis) | "dict" (pre-rotated targets by basis);
   given: a bases list was passed; list: that list; keys: the dict keys in insertion order *)
KLPlan(n, form, given, list, keys) ==
    LET eff == IF form = "dict" /\ ~given THEN keys ELSE list
        ref == ~given /\ form # "dict"
    IN [status |-> IF form = "dict" /\ given /\ SeqRange(list) # SeqRange(keys) THEN "mismatch" ELSE "ok",
        terms  |-> IF ref THEN << [basis |-> AllZ(n), src |-> "reference"] >>
                   ELSE [k \in 1..Len(eff) |-> [basis |-> eff[k], src |-> IF form = "dict" THEN "dict" ELSE "rotate"]],
        div    |-> IF ref THEN 1 ELSE IF Fault = "kl-div-sites" THEN n ELSE Len(eff)]
PlanBases(p) == [k \in 1..Len(p.terms) |-> p.terms[k].basis]

(* NLL: grouping of the rows by basis as numpy.unique(sample_bases, axis=0) does (sorted distinct bases), all-Z
   groups on the reference path, others through the expansion; rows: sequence of [b |-> basis, s |-> state] *)
KeyToBasis(n, key) == [j \in 1..n |-> <<"X", "Y", "Z">>[((key \div Pow3(n - j)) % 3) + 1]]
RECURSIVE SelectIdx(_, _, _)
SelectIdx(rows, b, k) == IF k > Len(rows) THEN <<>>
                         ELSE (IF rows[k].b = b THEN <<k>> ELSE <<>>) \o SelectIdx(rows, b, k + 1)
NLLPlan(n, given, rows) ==
    LET M == Len(rows)
        uniq == SortInts({BKey(rows[k].b) : k \in 1..M})
        groups == IF ~given THEN << [basis |-> AllZ(n), path |-> "reference", idx |-> [k \in 1..M |-> k]] >>
                  ELSE [g \in 1..Len(uniq) |->
                          LET b == KeyToBasis(n, uniq[g]) IN
                          [basis |-> b, path |-> IF NRot(b) = 0 THEN "reference" ELSE "expand",
                           idx |-> SelectIdx(rows, b, 1)]]
    IN [groups |-> groups, div |-> IF Fault = "nll-div-groups" THEN Len(groups) ELSE M]
PlanRows(p, rows) == Concat([g \in 1..Len(p.groups) |->
                        [k \in 1..Len(p.groups[g].idx) |->
                            [b |-> p.groups[g].basis, s |-> rows[p.groups[g].idx[k]].s]]])
\* Born numerator of one row on the path its group takes
RowNum(path, b, s, x) == IF path = "reference" THEN ZAbs2(x[s + 1]) ELSE ZAbs2(ExpandAmp(b, s, x))

(* deprecated keyword aliases (decorator deprecated_kwarg(target_psi="target", target_rho="target")):
   pos: the target is passed positionally; kw: the set of keyword names used for a target *)
CallOutcome(pos, kw) ==
    LET nsrc == (IF pos THEN 1 ELSE 0) + Cardinality(kw) IN
    [result |-> IF nsrc = 1 THEN "ok" ELSE "TypeError",
     warns  |-> kw \cap {"target_psi", "target_rho"} # {}]

-----------------------------------------------------------------------------
(* State machine: Init picks a shard, Pick the case; invariants are evaluated on complete cases *)
Forms == {"tensor", "dict"}
Families(n) == {"self", "pure", "rank1"} \cup (IF n = 1 THEN {"qubit"} ELSE {})
ShardOf(kind) ==
    CASE kind = "fid"    -> UNION {{[kind |-> "fid", n |-> n, i |-> i] : i \in PoolIdx(n)} : n \in NSet}
      [] kind = "born"   -> UNION {{[kind |-> "born", n |-> n, i |-> i] : i \in PoolIdx(n)} : n \in NSet}
      [] kind = "kl"     -> {[kind |-> "kl", n |-> n, form |-> f, given |-> g] : n \in NSet, f \in Forms, g \in BOOLEAN}
      [] kind = "nll"    -> UNION {{[kind |-> "nll", n |-> n, i |-> i, given |-> g] : i \in PoolIdx(n) \cap 1..2, g \in BOOLEAN} : n \in NSet}
      [] kind = "mixfid" -> UNION {{[kind |-> "mixfid", n |-> n, fam |-> f, i |-> i] : f \in Families(n), i \in PoolIdx(n)} : n \in NSet}
      [] kind = "call"   -> {[kind |-> "call", pos |-> p] : p \in BOOLEAN}

CasesOf(sh) ==
    CASE sh.kind = "fid" ->
           {[kind |-> "fid", n |-> sh.n, i |-> sh.i, j |-> j, k |-> k] : j \in PoolIdx(sh.n), k \in 0..3}
      [] sh.kind = "born" ->
           {[kind |-> "born", n |-> sh.n, i |-> sh.i, j |-> j, b |-> b] : j \in {q \in PoolIdx(sh.n) : q >= sh.i}, b \in BasesOf(sh.n)}
      [] sh.kind = "kl" ->
           LET B == BasesOf(sh.n)
               lists == IF sh.given THEN BoundedSeq(B, 1, IF sh.form = "dict" THEN Lim(sh.n).K ELSE Lim(sh.n).L) ELSE {<<>>}
               keyss == IF sh.form = "dict" THEN InjSeq(B, 1, Lim(sh.n).K) ELSE {<<>>}
           IN {[kind |-> "kl", n |-> sh.n, form |-> sh.form, given |-> sh.given, list |-> l, keys |-> ks] : l \in lists, ks \in keyss}
      [] sh.kind = "nll" ->
           LET opts == {[b |-> b, s |-> s] : b \in (IF sh.given THEN RowBases(sh.n) ELSE {AllZ(sh.n)}), s \in 0..(Pow2(sh.n) - 1)}
           IN {[kind |-> "nll", n |-> sh.n, i |-> sh.i, given |-> sh.given, rows |-> r] : r \in BoundedSeq(opts, 1, Lim(sh.n).M)}
      [] sh.kind = "mixfid" ->
           LET P == PoolIdx(sh.n) IN
           (CASE sh.fam = "self"  -> {[kind |-> "mixfid", n |-> sh.n, fam |-> "self", i |-> sh.i, j |-> j, a |-> sh.i, c |-> j] : j \in {q \in P : q >= sh.i}}
             [] sh.fam = "pure"  -> {[kind |-> "mixfid", n |-> sh.n, fam |-> "pure", i |-> sh.i, j |-> j, a |-> a, c |-> a] : j \in {q \in P : q >= sh.i}, a \in P}
             [] sh.fam = "rank1" -> {[kind |-> "mixfid", n |-> sh.n, fam |-> "rank1", i |-> sh.i, j |-> sh.i, a |-> a, c |-> c] : a \in P, c \in P}
             [] sh.fam = "qubit" -> {[kind |-> "mixfid", n |-> sh.n, fam |-> "qubit", i |-> sh.i, j |-> j, a |-> a, c |-> c] : j \in {q \in P : q >= sh.i}, a \in P, c \in P})
      [] sh.kind = "call" ->
           {[kind |-> "call", pos |-> sh.pos, kw |-> kw] : kw \in SUBSET {"target", "target_psi", "target_rho"}}

Init == pc = "Shard" /\ \E kind \in Kinds : cs \in ShardOf(kind)
Pick == /\ pc = "Shard"
        /\ cs' \in CasesOf(cs)
        /\ pc' = "Done"
Next == Pick

Live(kind) == pc = "Done" /\ cs.kind = kind

-----------------------------------------------------------------------------
(* FIDELITY of pure states *)
FidRange == Live("fid") =>
    LET t == Vec(cs.n, cs.j)  psi == Vec(cs.n, cs.i) IN
    FidNum(t, psi) >= 0 /\ FidNum(t, psi) <= FidDen(t, psi)                     \* Cauchy-Schwarz
FidSelf == Live("fid") /\ cs.i = cs.j =>
    LET psi == Vec(cs.n, cs.i) IN FidNum(psi, psi) = FidDen(psi, psi)
FidPhase == Live("fid") =>
    LET t == Vec(cs.n, cs.j)  psi == Vec(cs.n, cs.i)  u == VScal(ZIPow(cs.k), t) IN
    /\ VNorm2(u) = VNorm2(t)
    /\ FidNum(u, psi) = FidNum(t, psi)
    /\ FidNum(psi, u) = FidNum(t, psi)           \* |<a|b>|^2 = |<b|a>|^2 : the order of the arguments is free

(* BORN distributions.  Pure: state = vector i (cases with j = i); mixed: Gram(i, j) for every j >= i *)
KronIndex == Live("born") => DenseKron(cs.b) = DenseIdx(cs.b)
Unitary == Live("born") =>
    LET D == DenseKron(cs.b) IN
    MatMul(D, Dagger(D)) = MatScal(<<Pow2(NRot(cs.b)), 0>>, Ident(Pow2(cs.n)))
ReferenceIsIdentity == Live("born") /\ NRot(cs.b) = 0 => DenseKron(cs.b) = Ident(Pow2(cs.n))
BornPure == Live("born") /\ cs.i = cs.j =>
    LET x == Vec(cs.n, cs.i)  num == BornPureNum(cs.b, x) IN
    /\ \A s \in 1..Len(x) : num[s] >= 0
    /\ SumSeq(num) = BornPureDen(cs.b, x)
BornMixed == Live("born") =>
    LET R == GramOf(cs.n, cs.i, cs.j)  d == RotDiag(cs.b, R) IN
    /\ Hermitian(R)
    /\ \A s \in 1..Len(R) : d[s][2] = 0 /\ d[s][1] >= 0
    /\ SumSeq([s \in 1..Len(R) |-> d[s][1]]) = BornMixedDen(cs.b, R)
ExpandPure == Live("born") /\ cs.i = cs.j =>
    LET x == Vec(cs.n, cs.i)  y == MatVec(DenseKron(cs.b), x) IN
    \A s \in 0..(Len(x) - 1) : ExpandAmp(cs.b, s, x) = y[s + 1]
ExpandMixed == Live("born") =>
    LET R == GramOf(cs.n, cs.i, cs.j)  d == RotDiag(cs.b, R) IN
    \A s \in 0..(Len(R) - 1) : ExpandProb(cs.b, s, R) = d[s + 1]
\* KL against the model's own state vanishes TERMWISE: T_b (explicit target rho/Z, dense definition or, in dict
\* form, the real diagonal of the pre-rotated matrix) and Q_b (model, per-sample algorithm) are the same
\* distribution in every basis
OwnState == Live("born") =>
    LET R == GramOf(cs.n, cs.i, cs.j)
        D == DenseKron(cs.b)
        Tnum == RotDiag(cs.b, R)                          \* target tau = R / tr R given as a tensor: the definition
        TDen == BornMixedDen(cs.b, R)                     \* 2^r tr tau
        Rot  == MatMul(MatMul(D, R), Dagger(D))           \* dict form: the pre-rotated matrix
        QDen == Pow2(NRot(cs.b)) * Trace(R)[1]            \* 2^r Z
    IN \A s \in 0..(Len(R) - 1) :
          LET Qnum == ExpandProb(cs.b, s, R) IN           \* model, per-sample algorithm
          /\ Qnum[2] = 0
          /\ Tnum[s + 1][1] * QDen = Qnum[1] * TDen
          /\ Rot[s + 1][s + 1][1] * QDen = Qnum[1] * TDen
          /\ (cs.i = cs.j => ZAbs2(ExpandAmp(cs.b, s, Vec(cs.n, cs.i))) * TDen = Tnum[s + 1][1] * BornPureDen(cs.b, Vec(cs.n, cs.i)))

(* KL plans *)
ThePlan == KLPlan(cs.n, cs.form, cs.given, cs.list, cs.keys)
PlanIsMean == Live("kl") /\ ThePlan.status = "ok" =>
    ThePlan.div >= 1 /\ Len(ThePlan.terms) = ThePlan.div          \* weights 1/div sum to one
PlanRequested == Live("kl") /\ ThePlan.status = "ok" =>
    /\ cs.given => PlanBases(ThePlan) = cs.list                   \* exactly the requested bases, duplicates counted
    /\ (~cs.given /\ cs.form = "dict") => PlanBases(ThePlan) = cs.keys
    /\ (~cs.given /\ cs.form # "dict") => PlanBases(ThePlan) = <<AllZ(cs.n)>> /\ ThePlan.terms[1].src = "reference"
    /\ \A k \in 1..Len(ThePlan.terms) :
          /\ ThePlan.terms[k].src = "dict" => cs.form = "dict" /\ ThePlan.terms[k].basis \in SeqRange(cs.keys)
          /\ ThePlan.terms[k].src = "rotate" => cs.form = "tensor"
PlanMismatch == Live("kl") =>
    (ThePlan.status = "mismatch") = (cs.form = "dict" /\ cs.given /\ SeqRange(cs.list) # SeqRange(cs.keys))
PlanPermutation == Live("kl") /\ cs.given /\ ThePlan.status = "ok" =>
    \A p \in Perms(Len(cs.list)) :
        LET q == KLPlan(cs.n, cs.form, TRUE, [k \in 1..Len(cs.list) |-> cs.list[p[k]]], cs.keys) IN
        q.status = "ok" /\ q.div = ThePlan.div /\ SameBag(q.terms, ThePlan.terms)

(* NLL plans *)
TheNLL == NLLPlan(cs.n, cs.given, cs.rows)
NLLPartition == Live("nll") =>
    LET flat == Concat([g \in 1..Len(TheNLL.groups) |-> TheNLL.groups[g].idx]) IN
    /\ Len(flat) = Len(cs.rows) /\ SeqRange(flat) = 1..Len(cs.rows)                \* every row exactly once
    /\ \A g \in 1..Len(TheNLL.groups) : \A k \in 1..Len(TheNLL.groups[g].idx) :
          cs.rows[TheNLL.groups[g].idx[k]].b = TheNLL.groups[g].basis
    /\ \A g \in 1..Len(TheNLL.groups) : TheNLL.groups[g].idx # <<>>
          /\ (TheNLL.groups[g].path = "reference") = (NRot(TheNLL.groups[g].basis) = 0)
    /\ SameBag(PlanRows(TheNLL, cs.rows), cs.rows)
NLLDivisor == Live("nll") => TheNLL.div = Len(cs.rows)
\* exp(-M NLL) computed group by group = computed row by row (numerators and denominators; modulo the primes)
NLLProduct == Live("nll") =>
    LET x == Vec(cs.n, cs.i) IN
    \A pi \in 1..NP :
        LET p == Primes[pi]
            grouped == ProdSeqM([g \in 1..Len(TheNLL.groups) |->
                          ProdSeqM([k \in 1..Len(TheNLL.groups[g].idx) |->
                              RowNum(TheNLL.groups[g].path, TheNLL.groups[g].basis,
                                     cs.rows[TheNLL.groups[g].idx[k]].s, x) % p], p)], p)
            perrow  == ProdSeqM([k \in 1..Len(cs.rows) |->
                          BornPureNum(cs.rows[k].b, x)[cs.rows[k].s + 1] % p], p)
            gden    == ProdSeqM([g \in 1..Len(TheNLL.groups) |->
                          PowM(BornPureDen(TheNLL.groups[g].basis, x) % p, Len(TheNLL.groups[g].idx), p)], p)
            rden    == ProdSeqM([k \in 1..Len(cs.rows) |-> BornPureDen(cs.rows[k].b, x) % p], p)
        IN grouped = perrow /\ gden = rden
NLLPermutation == Live("nll") =>
    \A p \in Perms(Len(cs.rows)) :
        LET rr == [k \in 1..Len(cs.rows) |-> cs.rows[p[k]]]
            q  == NLLPlan(cs.n, cs.given, rr) IN
        q.div = TheNLL.div /\ SameBag(PlanRows(q, rr), PlanRows(TheNLL, cs.rows))
\* sample_bases = None means: every row in the reference basis
NLLNoBases == Live("nll") /\ ~cs.given =>
    LET q == NLLPlan(cs.n, TRUE, cs.rows) IN
    q.div = TheNLL.div /\ PlanRows(q, cs.rows) = PlanRows(TheNLL, cs.rows) /\ Len(q.groups) = 1 /\ q.groups[1].path = "reference"

(* MIXED-STATE FIDELITY: the algebra behind the closed forms.  rho = Gram(i, j), tau by family *)
MRho == GramOf(cs.n, cs.i, cs.j)
MTau == CASE cs.fam = "self" -> MRho
          [] cs.fam = "pure" -> Gram(<<Vec(cs.n, cs.a)>>)
          [] OTHER -> GramOf(cs.n, cs.a, cs.c)
GramPSD == Live("mixfid") =>
    /\ Hermitian(MRho) /\ Hermitian(MTau)
    /\ Trace(MRho)[2] = 0 /\ Trace(MRho)[1] > 0 /\ Trace(MTau)[2] = 0 /\ Trace(MTau)[1] > 0
    /\ \A q \in PoolIdx(cs.n) :
          /\ Quad(Vec(cs.n, q), MRho)[2] = 0 /\ Quad(Vec(cs.n, q), MRho)[1] >= 0
          /\ Quad(Vec(cs.n, q), MTau)[2] = 0 /\ Quad(Vec(cs.n, q), MTau)[1] >= 0
\* pure target |t><t|: M = tau rho satisfies M^2 = <t|rho|t> M and tr M = <t|rho|t>, so its only non-zero
\* eigenvalue is <t|rho|t> (real, >= 0) and  F = <t|rho|t> / (N_t tr rho)  in [0, 1]
MixPure == Live("mixfid") /\ cs.fam = "pure" =>
    LET t == Vec(cs.n, cs.a)  c == Quad(t, MRho)  M == MatMul(MTau, MRho) IN
    /\ c[2] = 0 /\ c[1] >= 0 /\ c[1] <= VNorm2(t) * Trace(MRho)[1]
    /\ MatMul(M, M) = MatScal(c, M) /\ Trace(M) = c
\* rank-one model |psi><psi|: mirrored
MixRank1 == Live("mixfid") /\ cs.fam = "rank1" =>
    LET x == Vec(cs.n, cs.i)  c == Quad(x, MTau)  M == MatMul(MTau, MRho) IN
    /\ c[2] = 0 /\ c[1] >= 0 /\ c[1] <= VNorm2(x) * Trace(MTau)[1]
    /\ MatMul(M, M) = MatScal(c, M) /\ Trace(M) = c
\* target = model: tau rho = rho^2 is Hermitian PSD with eigenvalues lambda^2, F = (tr rho)^2 / (tr rho)^2;
\* one qubit: characteristic polynomial of rho^2 from that of rho
MixSelf == Live("mixfid") /\ cs.fam = "self" =>
    LET M == MatMul(MTau, MRho) IN
    /\ Hermitian(M) /\ Trace(M)[2] = 0 /\ Trace(M)[1] <= Trace(MRho)[1] * Trace(MRho)[1]
    /\ cs.n = 1 => /\ Det2(M) = ZMul(Det2(MRho), Det2(MRho))
                   /\ Trace(M)[1] = Trace(MRho)[1] * Trace(MRho)[1] - 2 * Det2(MRho)[1]
                   /\ Det2(MRho)[2] = 0 /\ Det2(MRho)[1] >= 0
\* one qubit, general tau: eigenvalues l1, l2 of M = tau rho have l1 + l2 = tr M, l1 l2 = det tau det rho >= 0, so
\* (sqrt l1 + sqrt l2)^2 = tr M + 2 sqrt(det tau det rho); and F <= 1
MixQubit == Live("mixfid") /\ cs.fam = "qubit" =>
    LET M == MatMul(MTau, MRho)
        dt == Det2(MTau)  dr == Det2(MRho)
        tt == Trace(MTau)[1]  tr == Trace(MRho)[1]  tm == Trace(M) IN
    /\ Det2(M) = ZMul(dt, dr)
    /\ dt[2] = 0 /\ dt[1] >= 0 /\ dr[2] = 0 /\ dr[1] >= 0
    /\ tm[2] = 0 /\ tm[1] >= 0 /\ tm[1] <= tt * tr
    /\ 4 * dt[1] * dr[1] <= (tt * tr - tm[1]) * (tt * tr - tm[1])

(* deprecated keyword aliases *)
CallRule == Live("call") =>
    LET o == CallOutcome(cs.pos, cs.kw) IN
    /\ (o.result = "ok") = ((cs.pos /\ cs.kw = {}) \/ (~cs.pos /\ Cardinality(cs.kw) = 1))
    /\ o.warns = (\E a \in cs.kw : a # "target")

-----------------------------------------------------------------------------
(* Export of the structure the harness needs (one JSON record per case) *)
DenseRec(b) == [basis |-> b, r |-> NRot(b), D |-> DenseKron(b)]
ExportRec ==
    CASE cs.kind = "fid" -> [kind |-> "fid", n |-> cs.n, t |-> Vec(cs.n, cs.j), k |-> cs.k, self |-> cs.i = cs.j]
      [] cs.kind = "born" -> [kind |-> "born", n |-> cs.n, first |-> cs.i = 1 /\ cs.j = 1, U |-> DenseRec(cs.b)]
      [] cs.kind = "kl" -> [kind |-> "kl", n |-> cs.n, form |-> cs.form, given |-> cs.given, list |-> cs.list,
                            keys |-> cs.keys, plan |-> ThePlan]
      [] cs.kind = "nll" -> [kind |-> "nll", n |-> cs.n, given |-> cs.given, rows |-> cs.rows, plan |-> TheNLL]
      [] cs.kind = "mixfid" -> [kind |-> "mixfid", n |-> cs.n, fam |-> cs.fam,
                                vecs |-> IF cs.fam = "self" THEN <<>>
                                         ELSE IF cs.fam = "pure" \/ cs.a = cs.c THEN <<Vec(cs.n, cs.a)>>
                                         ELSE <<Vec(cs.n, cs.a), Vec(cs.n, cs.c)>>]
      [] cs.kind = "call" -> [kind |-> "call", pos |-> cs.pos, kw |-> cs.kw, out |-> CallOutcome(cs.pos, cs.kw)]
=============================================================================
