-------------------------------- MODULE Swap --------------------------------
(***************************************************************************)
(* C09 - the swap estimator measures the purity of the reduced state.      *)
(*                                                                         *)
(* Same abstract exact states as Observables.tla (psi a vector of small    *)
(* Gaussian integers, or rho the Gram matrix of one or two such vectors).  *)
(* For a region A of sites,                                                *)
(*    swap_A(s1, s2) exchanges the A-sites of the two replicas,            *)
(*    est_A(s1, s2) = Re[ w(s1', s1) * w(s2', s2) ],                       *)
(*         w(s', s) = numerator(s', s) / denominator(s)                    *)
(* (entanglement.py through importance_sampling_weight), and the reduced   *)
(* density matrix rho_A is the partial trace of rho over the complement    *)
(* of A (basis states decomposed into sites by Exact!Row).  THE THEOREM:   *)
(*    SUM_{s1,s2} P(s1) P(s2) est_A(s1, s2) = tr(rho_A^2) / (tr rho)^2.    *)
(* Batch pairing: row i of a batch of m rows is the first replica, row     *)
(* partner(i) = (i - 1) mod m the second (torch.roll(samples, 1, 0)).      *)
(***************************************************************************)
EXTENDS Observables

CONSTANTS MMax,         \* batch sizes 1..MMax for the pairing facts
          SwapFaults    \* seeded faults of the estimator that must be exposed on a witness

Sites(n) == 1..n
Regions(n) == SUBSET Sites(n)

\* exchange the A-sites of two configurations
SwapBits(n, b1, b2, A) == << [s \in 1..n |-> IF s \in A THEN b2[s] ELSE b1[s]],
                             [s \in 1..n |-> IF s \in A THEN b1[s] ELSE b2[s]] >>
SwapIdx(n, k1, k2, A) == LET sw == SwapBits(n, Bits(n, k1), Bits(n, k2), A)
                         IN  <<Idx(n, sw[1]), Idx(n, sw[2])>>
\* the same as a table (a constant: TLC evaluates it once)
SwapTab == [n \in TabNs |-> [A \in Regions(n) |-> [k1 \in 0..(Dim(n) - 1) |-> [k2 \in 0..(Dim(n) - 1) |->
               SwapIdx(n, k1, k2, A)]]]]

(* the state's reconstructed matrix as a table (evaluated once per state and passed down as R),     *)
(* and the importance-sampling numerator / denominator of Observables.tla read from it             *)
RhoTab(c) == [k \in 0..(Dim(c.n) - 1) |-> [l \in 0..(Dim(c.n) - 1) |-> Rho(c, k, l)]]
NumT(c, R, kp, k) == IF c.kind = "pure" THEN Vec(c, 1, kp) ELSE R[kp][k]        \* = Num(c, kp, k)
DenT(c, R, k)     == IF c.kind = "pure" THEN Vec(c, 1, k)  ELSE R[k][k]         \* = Den(c, k)
TablesAgree == Live => LET R == RhoTab(C) IN \A k \in 0..(Dim(C.n) - 1) :
                 /\ DenT(C, R, k) = Den(C, k)
                 /\ \A kp \in 0..(Dim(C.n) - 1) : NumT(C, R, kp, k) = Num(C, kp, k)

(* the estimator as the code computes it; v = model of the code *)
SNum(v, c, R, kp, k) == IF v = "rho-transposed" /\ c.kind # "pure" THEN R[k][kp] ELSE NumT(c, R, kp, k)
Est(v, c, R, k1, k2, A0) ==
    LET n == c.n
        A == IF v = "complement" THEN Sites(n) \ A0 ELSE A0
        \* "aliased-swap": the swap is done in place on the tensors that are also passed as the
        \* reference configurations, so both weights compare a configuration with itself
        s == IF v = "aliased-swap" THEN <<k1, k2>> ELSE SwapTab[n][A][k1][k2]
        N1 == SNum(v, c, R, s[1], k1)   D1 == DenT(c, R, k1)        \* weight1 = N1 / D1
        N2 == SNum(v, c, R, s[2], k2)   D2 == DenT(c, R, k2)        \* weight2 = N2 / D2
    IN  CASE v = "conj-w2"      -> ReQuot(ZMul(N1, ZConj(N2)), ZMul(D1, ZConj(D2)))
          [] v = "first-only"   -> ReQuot(N1, D1)
          [] OTHER              -> ReQuot(ZMul(N1, N2), ZMul(D1, D2))      \* Re(weight1 * weight2)

(* reduced density matrix by partial trace over the complement of A *)
AStates(n, A) == {k \in 0..(Dim(n) - 1) : \A s \in 1..n : s \notin A => Bits(n, k)[s] = 0}
BStates(n, A) == {k \in 0..(Dim(n) - 1) : \A s \in A : Bits(n, k)[s] = 0}
\* a in AStates, b in BStates occupy disjoint sites: the configuration with both is index a + b
RhoA(c, R, A) == LET n == c.n  as == AStates(n, A)  bs == BStates(n, A) IN
    [a \in as |-> [ap \in as |->
        ZSum([k \in 1..Dim(n) |-> IF (k - 1) \in bs THEN R[a + k - 1][ap + k - 1] ELSE ZZero])]]
\* tr(rho_A^2), in units of 1 (divide by (tr rho)^2 for the normalised state)
PurityNum(c, R, A) == LET RA == RhoA(c, R, A)  n == c.n  as == AStates(n, A) IN
    ZSum([k \in 1..Dim(n) |-> IF (k - 1) \notin as THEN ZZero ELSE
        ZSum([l \in 1..Dim(n) |-> IF (l - 1) \notin as THEN ZZero ELSE ZMul(RA[k - 1][l - 1], RA[l - 1][k - 1])])])

\* SUM_{s1, s2} P(s1) P(s2) est_A(s1, s2),  P(s) = rho(s, s) / tr(rho)
SwapMean(v, c, R, A) == LET n == c.n  Z == Tr(c)
    t == FSum([k1 \in 1..Dim(n) |-> FSum([k2 \in 1..Dim(n) |->
            LET e == Est(v, c, R, k1 - 1, k2 - 1, A)
            IN  FNorm(<<Re(R[k1 - 1][k1 - 1]) * Re(R[k2 - 1][k2 - 1]) * e[1], e[2]>>)])])
    IN  FNorm(<<t[1], t[2] * Z * Z>>)
SwapIsPurityFor(v, c, A) == LET R == RhoTab(c)  P == PurityNum(c, R, A)  Z == Tr(c) IN
    /\ Im(P) = 0
    /\ FEq(SwapMean(v, c, R, A), <<Re(P), Z * Z>>)

-----------------------------------------------------------------------------
\* THE THEOREM
SwapIsPurity == Live => \A A \in Regions(C.n) : SwapIsPurityFor("code", C, A)

\* the estimator does not depend on which replica is called the first, and the symmetric alternative
\* rho(s, s') for rho(s', s) conjugates both weights, which leaves the real part of the product alone
EstAlternatives == Live => LET R == RhoTab(C) IN
    \A A \in Regions(C.n) : \A k1 \in 0..(Dim(C.n) - 1) : \A k2 \in 0..(Dim(C.n) - 1) :
        LET e == Est("code", C, R, k1, k2, A) IN
        /\ Est("code", C, R, k2, k1, A) = e
        /\ Est("rho-transposed", C, R, k1, k2, A) = e

IsPure == Len(C.vs) = 1
PurityTable == LET R == RhoTab(C) IN [A \in Regions(C.n) |-> PurityNum(C, R, A)]
\* 0 < tr rho_A^2 <= (tr rho)^2, so S_2 = -ln(purity) >= 0
BoundedIn(PT) == \A A \in Regions(C.n) : Im(PT[A]) = 0 /\ Re(PT[A]) > 0 /\ Re(PT[A]) <= Tr(C) * Tr(C)
\* empty region: purity 1 (S_2 = 0) for every state
EmptyIn(PT) == PT[{}] = <<Tr(C) * Tr(C), 0>>
\* pure states (one vector): a region and its complement have the same purity; full region: purity 1
PureIn(PT) == IsPure => /\ \A A \in Regions(C.n) : PT[A] = PT[Sites(C.n) \ A]
                        /\ PT[Sites(C.n)] = <<Tr(C) * Tr(C), 0>>
PurityFacts == Live => LET PT == PurityTable IN BoundedIn(PT) /\ EmptyIn(PT) /\ PureIn(PT)
\* the same facts one by one (so that a violation names the fact; used when PurityFacts fails)
PurityBounded == Live => BoundedIn(PurityTable)
EmptyRegion   == Live => EmptyIn(PurityTable)
PureSymmetric == Live => PureIn(PurityTable)

(* batch pairing *)
Partner(m, i) == (i - 1 + m) % m              \* rows 0 .. m-1 ; torch.roll(samples, 1, 0)[i] = samples[(i-1) mod m]
PartnerAlt(m, i) == (i + 1) % m               \* roll(samples, -1, 0): the other cyclic neighbour
PartnerSelf(m, i) == i                        \* roll by 0 (seeded fault)
PairingOK(p(_, _)) == \A m \in 1..MMax :
    /\ {p(m, i) : i \in 0..(m - 1)} = 0..(m - 1)                            \* once as second replica
    /\ \A i \in 0..(m - 1) : p(m, i) \in {(i + 1) % m, (i - 1 + m) % m}     \* a cyclic neighbour
    \* (row i itself is the first replica of output i: once in that role by construction)
AtPairing == st = "pairing"
Pairing == AtPairing => PairingOK(Partner)
PairingAlt == AtPairing => PairingOK(PartnerAlt)
PairingFaultExposed == AtPairing => ~PairingOK(PartnerSelf)

(* seeded faults of the estimator (state "sfault", one per variant), as in Observables.tla *)
SwapExposedAt(v) == {<<w, A>> \in UNION {{<<w, A>> : A \in Regions(Witness[w].n)} : w \in 1..Len(Witness)} :
                        ~SwapIsPurityFor(v, Witness[w], A)}
SwapFaultsExposed == st = "sfault" =>
    LET E == SwapExposedAt(C.v) IN
    /\ PrintT(ToJson([fault |-> C.v, exposed |-> Cardinality(E)]))
    /\ IF C.v \in SwapFaults THEN E # {} ELSE E = {}

SInit == \/ Init
         \/ st = "pairing" /\ idx = 0 /\ C = <<>>
         \/ st = "sfault" /\ idx = 0 /\ \E v \in SwapFaults \cup {"code", "rho-transposed"} : C = [v |-> v]

-----------------------------------------------------------------------------
(* export for the harness: per n the regions with their swap tables and partial-trace structure *)
SetSeq(S, n) == SelectSeq([s \in 1..n |-> s], LAMBDA s : s \in S)                 \* a set of sites as a sorted sequence
IdxSeq(S, n) == SelectSeq([k \in 1..Dim(n) |-> k - 1], LAMBDA k : k \in S)
RegionList(n) == [r \in 1..Dim(n) |-> {s \in 1..n : Bits(n, r - 1)[s] = 1}]        \* all 2^n regions
SwapRecord(n) == [n |-> n, regions |-> [r \in 1..Dim(n) |->
    LET A == RegionList(n)[r] IN
    [sites |-> SetSeq(A, n),
     astates |-> IdxSeq(AStates(n, A), n), bstates |-> IdxSeq(BStates(n, A), n),
     swap |-> [k1 \in 1..Dim(n) |-> [k2 \in 1..Dim(n) |-> SwapIdx(n, k1 - 1, k2 - 1, A)]]]]]
PairingRecord == [pairing |-> [m \in 1..MMax |-> [i \in 1..m |->
                    [partner |-> Partner(m, i - 1), neighbours |-> IdxSeq({(i % m), (i - 2 + m) % m}, 5)]]]]

=============================================================================
