------------------------------ MODULE Unitaries ------------------------------
(* The unitary dictionary and the dense tensor-product unitary a basis string
   denotes (property C04) - constant operators only.

   A letter b denotes the 2x2 unitary  2^(-Fac(b)/2) * U(b)  where U(b) has
   Gaussian-integer entries.  Default dictionary: X, Y, Z; user-added letters:
   S = diag(1, i), R = Rx(pi/2) = [[1,-i],[-i,1]]/sqrt2, W = [[0,1],[1,0]].
   Everything below is stated on the integer matrices; the common factor of a
   string is 2^(-NFac/2).  Matrix entry (row a, column c), a, c in {0,1}, is
   U(b)[a+1][c+1]. *)
EXTENDS Bits, Gauss

UX == << <<GOne, GOne>>,  <<GOne, GNeg1>> >>
UY == << <<GOne, GNegI>>, <<GOne, GI>> >>
UZ == << <<GOne, GZero>>, <<GZero, GOne>> >>
US == << <<GOne, GZero>>, <<GZero, GI>> >>
UR == << <<GOne, GNegI>>, <<GNegI, GOne>> >>
UW == << <<GZero, GOne>>, <<GOne, GZero>> >>

DefaultLetters == {"X", "Y", "Z"}
UserLetters == {"S", "R", "W"}
Letters == DefaultLetters \cup UserLetters

U(b) == CASE b = "X" -> UX [] b = "Y" -> UY [] b = "Z" -> UZ
          [] b = "S" -> US [] b = "R" -> UR [] b = "W" -> UW
Fac(b) == IF b \in {"X", "Y", "R"} THEN 1 ELSE 0          \* carries 2^(-1/2)
NFac(basis) == ISumUpTo([s \in 1..Len(basis) |-> Fac(basis[s])], Len(basis))

\* ---- the Pauli operators written out, and the eigenvector claim ----
PauliX == << <<GZero, GOne>>,  <<GOne, GZero>> >>
PauliY == << <<GZero, GNegI>>, <<GI, GZero>> >>
PauliZ == << <<GOne, GZero>>,  <<GZero, GNeg1>> >>
PlusMinus == << <<GOne, GZero>>, <<GZero, GNeg1>> >>      \* diag(+1, -1)

\* (U/sqrt2^f) (U/sqrt2^f)^H = 1   <=>   U U^H = 2^f * 1
IsUnitary(b) == SameMat(MatMul(U(b), ConjT(U(b))), ScaleMat(Pow2(Fac(b)), IdentityG(2)))
\* U_P P U_P^H = diag(+1,-1): row 0 / row 1 of U_P are the bras of the +1 / -1 eigenvectors of P
Diagonalises(b, P) == SameMat(MatMul(MatMul(U(b), P), ConjT(U(b))), ScaleMat(Pow2(Fac(b)), PlusMinus))
\* the same claim said with eigenvectors: P |e_a> = (+1, -1)[a] |e_a>, |e_a> = (row a of U_P)^*
EigenRows(b, P) == \A a \in 1..2 :
    LET ket == ConjVec(U(b)[a]) IN SameVec(MatVec(P, ket), [i \in 1..2 |-> GMul(PlusMinus[a][a], ket[i])])

DictionaryFacts ==
    /\ \A b \in Letters : IsUnitary(b)
    /\ Diagonalises("X", PauliX) /\ EigenRows("X", PauliX)
    /\ Diagonalises("Y", PauliY) /\ EigenRows("Y", PauliY)
    /\ SameMat(UZ, IdentityG(2)) /\ Fac("Z") = 0
    /\ Diagonalises("Z", PauliZ)
    \* the two conventions that must NOT be confused with the dictionary's
    /\ ~Diagonalises("Y", Transpose(PauliY))
    /\ ~SameMat(MatMul(MatMul(<< UY[2], UY[1] >>, PauliY), ConjT(<< UY[2], UY[1] >>)), ScaleMat(2, PlusMinus))

\* ---- the dense unitary of a basis string: Kronecker product, site 1 leftmost ----
\* Entry (i, j) (0-based) of U(basis[s]) (x) ... (x) U(basis[n]) by the standard block definition
\* of the Kronecker product: A (x) B has the block A[a][c] * B at block position (a, c).
\* Stated entrywise (TLC evaluates function constructors lazily; nesting them recomputes).
RECURSIVE DenseEntry(_, _, _, _)
DenseEntry(basis, s, i, j) ==
    LET blk == Pow2(Len(basis) - s)
    IN  IF s = Len(basis) THEN U(basis[s])[i + 1][j + 1]
        ELSE GMul(U(basis[s])[(i \div blk) + 1][(j \div blk) + 1], DenseEntry(basis, s + 1, i % blk, j % blk))
Dense(basis) == [i \in 1..Pow2(Len(basis)) |-> [j \in 1..Pow2(Len(basis)) |-> DenseEntry(basis, 1, i - 1, j - 1)]]

\* entry (k, m) of the same matrix through Row (positions as 0-based numbers)
PosEntry(basis, k, m) == LET n == Len(basis) IN
    GProdUpTo([s \in 1..n |-> U(basis[s])[Bit(n, k, s) + 1][Bit(n, m, s) + 1]], n)

\* one convention everywhere: block definition = Row definition
OneConvention(basis) == LET N == Pow2(Len(basis)) IN
    \A k \in 0..(N - 1) : \A m \in 0..(N - 1) : DenseEntry(basis, 1, k, m) = PosEntry(basis, k, m)

DenseUnitary(basis) == LET N == Pow2(Len(basis)) IN
    \A k \in 0..(N - 1) : \A m \in 0..(N - 1) :
        GSumUpTo([c \in 1..N |-> GMul(DenseEntry(basis, 1, k, c - 1), GConj(DenseEntry(basis, 1, m, c - 1)))], N)
            = (IF k = m THEN <<Pow2(NFac(basis)), 0>> ELSE GZero)

\* column k of Dense(basis), i.e. the image of the basis state Row(n, k), through Row
PosColumn(basis, k) == [p \in 1..Pow2(Len(basis)) |-> PosEntry(basis, p - 1, k)]

Strings(alphabet, n) == [1..n -> alphabet]
=============================================================================
