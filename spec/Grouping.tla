------------------------------ MODULE Grouping ------------------------------
(* NeuralStateBase.gradient(samples, bases) as a state machine (C03): the batch is grouped
   by distinct basis rows (numpy.unique(axis=0): lexicographically sorted distinct rows and
   the inverse index), each group's rows are handed to one per-group gradient call, the
   results are accumulated and positive_phase_gradients divides by the batch size.
   Per-row gradients are abstract tokens (integers); the obligation is that, whatever the
   order and the grouping, the result is the sum (mean) of the per-row gradients, each row
   evaluated IN ITS OWN basis. *)
EXTENDS Integers, Sequences, FiniteSets, TLC

CONSTANTS NSites,    \* sites per row
          MaxRows,   \* batch sizes 1..MaxRows
          Tok(_, _)  \* abstract per-row gradient of (sample code, basis code)

VARIABLES batch,   \* sequence of [s |-> sample code, b |-> basis code (base-3 digits, Z=0 X=1 Y=2)]
          pc, uniq, gi, acc, res
vars == <<batch, pc, uniq, gi, acc, res>>

RECURSIVE P3(_)
P3(n) == IF n = 0 THEN 1 ELSE 3 * P3(n - 1)
RECURSIVE P2(_)
P2(n) == IF n = 0 THEN 1 ELSE 2 * P2(n - 1)
\* numpy.unique sorts rows lexicographically by their characters: 'X' < 'Y' < 'Z'
Letter(code, site) == (code \div P3(NSites - site)) % 3          \* 0 = Z, 1 = X, 2 = Y
Rank(code) == LET key(c) == CASE c = 1 -> 0 [] c = 2 -> 1 [] c = 0 -> 2 IN
              [site \in 1..NSites |-> key(Letter(code, site))]
RECURSIVE LexLess(_, _, _)
LexLess(a, b, i) == IF i > NSites THEN FALSE
                    ELSE IF a[i] < b[i] THEN TRUE ELSE IF a[i] > b[i] THEN FALSE ELSE LexLess(a, b, i + 1)
Distinct(bt) == {bt[i].b : i \in 1..Len(bt)}
RECURSIVE SortSet(_)
SortSet(S) == IF S = {} THEN <<>>
              ELSE LET m == CHOOSE x \in S : \A y \in S \ {x} : LexLess(Rank(x), Rank(y), 1)
                   IN <<m>> \o SortSet(S \ {m})
RECURSIVE SumSeq(_)
SumSeq(s) == IF s = <<>> THEN 0 ELSE Head(s) + SumSeq(Tail(s))

Init == /\ pc = "pick" /\ batch = <<>> /\ uniq = <<>> /\ gi = 0 /\ acc = 0 /\ res = 0
Pick == /\ pc = "pick"
        /\ \E m \in 1..MaxRows : \E bt \in [1..m -> [s : 0..(P2(NSites) - 1), b : 0..(P3(NSites) - 1)]] : batch' = bt
        /\ pc' = "unique" /\ UNCHANGED <<uniq, gi, acc, res>>
Unique == /\ pc = "unique"
          /\ uniq' = SortSet(Distinct(batch)) /\ gi' = 1 /\ acc' = 0
          /\ pc' = "group" /\ UNCHANGED <<batch, res>>
\* one group: the rows whose basis equals uniq[gi], in batch order, one gradient call for all of them
Group == /\ pc = "group" /\ gi <= Len(uniq)
         /\ LET rows == SelectSeq(batch, LAMBDA r : r.b = uniq[gi]) IN
            acc' = acc + SumSeq([i \in 1..Len(rows) |-> Tok(rows[i].s, uniq[gi])])
         /\ gi' = gi + 1
         /\ pc' = IF gi + 1 > Len(uniq) THEN "done" ELSE "group"
         /\ UNCHANGED <<batch, uniq, res>>
Done == /\ pc = "done" /\ res' = acc /\ pc' = "end" /\ UNCHANGED <<batch, uniq, gi, acc>>
Next == Pick \/ Unique \/ Group \/ Done

\* the accumulated gradient is the sum over rows of the row's gradient in the row's own basis
GroupingIsSum == pc = "end" => res = SumSeq([i \in 1..Len(batch) |-> Tok(batch[i].s, batch[i].b)])
\* every row is in exactly one group
Partition == pc \in {"group", "done", "end"} =>
    /\ \A i \in 1..Len(batch) : Cardinality({g \in 1..Len(uniq) : uniq[g] = batch[i].b}) = 1
    /\ \A g \in 1..Len(uniq) : \E i \in 1..Len(batch) : batch[i].b = uniq[g]
Sorted == pc \in {"group", "done", "end"} =>
    \A g \in 1..(Len(uniq) - 1) : LexLess(Rank(uniq[g]), Rank(uniq[g + 1]), 1)
Export == pc = "end" => PrintT(<<"B", batch, uniq>>)
=============================================================================
