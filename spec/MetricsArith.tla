---------------------------- MODULE MetricsArith ----------------------------
(***************************************************************************)
(* The abstract exact field of Metrics.tla: Gaussian integers <<re, im>>   *)
(* with TRUE integer arithmetic (bounds of Metrics.tla keep every value    *)
(* far below 2^31; TLC raises an error on overflow), vectors and matrices  *)
(* over them, the single-site basis-change matrices of QuCumber as         *)
(* Gaussian-integer NUMERATORS (common factor 2^(-1/2) per rotated site)   *)
(* and the dense n-site unitary, site 1 leftmost / most significant.       *)
(***************************************************************************)
EXTENDS Exact, FiniteSets

ZZero == <<0, 0>>
ZOne  == <<1, 0>>
ZAdd(a, b) == <<a[1] + b[1], a[2] + b[2]>>
ZSub(a, b) == <<a[1] - b[1], a[2] - b[2]>>
ZMul(a, b) == <<a[1] * b[1] - a[2] * b[2], a[1] * b[2] + a[2] * b[1]>>
ZConj(a)   == <<a[1], -a[2]>>
ZScal(k, a) == <<k * a[1], k * a[2]>>                    \* integer k
ZAbs2(a)   == a[1] * a[1] + a[2] * a[2]
ZIPow(k)   == CASE k % 4 = 0 -> <<1, 0>> [] k % 4 = 1 -> <<0, 1>>
                [] k % 4 = 2 -> <<-1, 0>> [] k % 4 = 3 -> <<0, -1>>
RECURSIVE ZSum(_)
ZSum(s) == IF s = <<>> THEN ZZero ELSE ZAdd(Head(s), ZSum(Tail(s)))
RECURSIVE ZProd(_)
ZProd(s) == IF s = <<>> THEN ZOne ELSE ZMul(Head(s), ZProd(Tail(s)))

(* vectors: sequences 1..N (entry k belongs to basis state k-1 = Row(n, k-1)); matrices: sequences of rows *)
VInner(x, y) == ZSum([k \in 1..Len(x) |-> ZMul(ZConj(x[k]), y[k])])          \* <x|y>
VNorm2(x)    == SumSeq([k \in 1..Len(x) |-> ZAbs2(x[k])])
VScal(g, x)  == [k \in 1..Len(x) |-> ZMul(g, x[k])]
MatVec(M, x) == [i \in 1..Len(M) |-> ZSum([j \in 1..Len(x) |-> ZMul(M[i][j], x[j])])]
MatMul(A, B) == [i \in 1..Len(A) |-> [j \in 1..Len(B[1]) |->
                    ZSum([k \in 1..Len(B) |-> ZMul(A[i][k], B[k][j])])]]
MatAdd(A, B) == [i \in 1..Len(A) |-> [j \in 1..Len(A[1]) |-> ZAdd(A[i][j], B[i][j])]]
MatScal(g, A) == [i \in 1..Len(A) |-> [j \in 1..Len(A[1]) |-> ZMul(g, A[i][j])]]
Dagger(A)    == [i \in 1..Len(A[1]) |-> [j \in 1..Len(A) |-> ZConj(A[j][i])]]
Transpose(A) == [i \in 1..Len(A[1]) |-> [j \in 1..Len(A) |-> A[j][i]]]
Trace(A)     == ZSum([i \in 1..Len(A) |-> A[i][i]])
Ident(N)     == [i \in 1..N |-> [j \in 1..N |-> IF i = j THEN ZOne ELSE ZZero]]
Outer(x, y)  == [i \in 1..Len(x) |-> [j \in 1..Len(y) |-> ZMul(x[i], ZConj(y[j]))]]     \* |x><y|
Hermitian(A) == Dagger(A) = A
Quad(x, A)   == VInner(x, MatVec(A, x))                                     \* <x|A|x>
Det2(A)      == ZSub(ZMul(A[1][1], A[2][2]), ZMul(A[1][2], A[2][1]))
\* Gram matrix of a non-empty sequence of vectors: SUM_k |v_k><v_k|  (Hermitian, PSD by construction)
RECURSIVE Gram(_)
Gram(vs) == IF Len(vs) = 1 THEN Outer(vs[1], vs[1])
            ELSE MatAdd(Outer(Head(vs), Head(vs)), Gram(Tail(vs)))
\* Kronecker product: out[a*C + c, b*D + d] = A[a,b] * B[c,d]   (0-based)
Kron(A, B) == LET C == Len(B)  D == Len(B[1]) IN
    [i \in 1..(Len(A) * C) |-> [j \in 1..(Len(A[1]) * D) |->
        ZMul(A[((i - 1) \div C) + 1][((j - 1) \div D) + 1], B[((i - 1) % C) + 1][((j - 1) % D) + 1])]]

(***************************************************************************)
(* Basis changes.  A basis is a sequence over {"X","Y","Z"} (site 1 first).*)
(* Numerators of unitary_dict: X = [[1,1],[1,-1]], Y = [[1,-i],[1,i]],     *)
(* Z = identity; every non-Z site carries a factor 2^(-1/2).               *)
(***************************************************************************)
U1(c) == CASE c = "X" -> << << <<1, 0>>, <<1, 0>> >>, << <<1, 0>>, <<-1, 0>> >> >>
           [] c = "Y" -> << << <<1, 0>>, <<0, -1>> >>, << <<1, 0>>, <<0, 1>> >> >>
           [] c = "Z" -> << << <<1, 0>>, <<0, 0>> >>, << <<0, 0>>, <<1, 0>> >> >>
NRot(b) == Cardinality({j \in 1..Len(b) : b[j] # "Z"})
AllZ(n) == [j \in 1..n |-> "Z"]
\* THE DEFINITION: Dense(b) = 2^(-NRot(b)/2) * DenseKron(b),  DenseKron = U1(b[1]) (x) U1(b[2]) (x) ...
RECURSIVE DenseKron(_)
DenseKron(b) == IF Len(b) = 1 THEN U1(b[1]) ELSE Kron(U1(b[1]), DenseKron(Tail(b)))

\* order of bases as numpy.unique(axis=0) sorts rows of one-character strings: "X" < "Y" < "Z", site 1 first
Ord(c) == CASE c = "X" -> 0 [] c = "Y" -> 1 [] c = "Z" -> 2
RECURSIVE Pow3(_)
Pow3(n) == IF n = 0 THEN 1 ELSE 3 * Pow3(n - 1)
BKey(b) == SumSeq([j \in 1..Len(b) |-> Ord(b[j]) * Pow3(Len(b) - j)])
RECURSIVE SortInts(_)
SortInts(S) == IF S = {} THEN <<>>
               ELSE LET m == CHOOSE x \in S : \A y \in S : x <= y IN <<m>> \o SortInts(S \ {m})
SeqRange(s) == {s[k] : k \in 1..Len(s)}
BoundedSeq(S, lo, hi) == UNION {[1..m -> S] : m \in lo..hi}
InjSeq(S, lo, hi) == {q \in BoundedSeq(S, lo, hi) : \A a, b \in 1..Len(q) : a # b => q[a] # q[b]}
RECURSIVE Concat(_)
Concat(ss) == IF ss = <<>> THEN <<>> ELSE Head(ss) \o Concat(Tail(ss))
\* number of occurrences (bags as counting functions)
Count(s, x) == Cardinality({k \in 1..Len(s) : s[k] = x})
SameBag(s, t) == Len(s) = Len(t) /\ \A x \in SeqRange(s) \cup SeqRange(t) : Count(s, x) = Count(t, x)
Perms(m) == {p \in [1..m -> 1..m] : \A a, b \in 1..m : a # b => p[a] # p[b]}
=============================================================================
