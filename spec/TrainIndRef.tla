---------------------------- MODULE TrainIndRef ----------------------------
(***************************************************************************)
(* Train.tla refines TrainInd.tla: every step of a run of Train.tla (the   *)
(* specification that is bound to the real fit() by replay and by trace    *)
(* validation) is a step of the history-free skeleton TrainInd.tla, whose  *)
(* inductive invariant Apalache proves for unbounded epochs / batches.     *)
(* The ghost counters of TrainInd are *computed from the observable        *)
(* history* of Train (they are not maintained by the actions), so the      *)
(* check also ties the ghosts to what an observer of the events sees.      *)
(* Checked by TLC on a bounded configuration space (harness/ext_apalache). *)
(***************************************************************************)
EXTENDS Train

H == CbH                                       \* the logical callback events
Cnt(kind) == Cardinality({i \in 1..Len(H) : H[i].k = kind})
SetMin(S) == CHOOSE x \in S : \A y \in S : x <= y
SetMax(S) == CHOOSE x \in S : \A y \in S : x >= y

EndStops == {i \in 1..Len(H) : H[i].k \in {"BE", "EE"} /\ StopAfter(H, i)}
LastSH   == LET S == {i \in 1..Len(hist) : hist[i].k = "SH"} IN IF S = {} THEN 0 ELSE SetMax(S)
InEpochEv(kind) == Cardinality({i \in (LastSH + 1)..Len(hist) :
                                   hist[i].k = kind /\ hist[i].cb = First})
BSs == {i \in 1..Len(H) : H[i].k = "BS"}

g_stopAtEnd == EndStops # {}
\* epoch-starts and batch-starts after the first batch-end / epoch-end that ended with a stop
\* (a shuffle never follows one either: TrainInd!Shuffle would have to count it)
g_afterStop == IF EndStops = {} THEN 0
               ELSE Cardinality({j \in (SetMin(EndStops) + 1)..Len(H) : H[j].k \in {"ES", "BS"}})
g_bsLate   == Cardinality({i \in 1..Len(H) : H[i].k = "BS" /\ H[i].stop})
g_esLate   == Cardinality({i \in 1..Len(H) : H[i].k = "ES" /\ H[i].stop})
g_pverAtBS == IF BSs = {} THEN BasePver ELSE H[SetMax(BSs)].pv

TI == INSTANCE TrainInd WITH
        nb <- NB(cfg), nets <- Nets(cfg), startEp <- cfg.startEp, epochs <- cfg.epochs,
        hasSched <- cfg.sched, entryStop <- cfg.entryStop, pver0 <- BasePver,
        everStop <- stop, stopAtEnd <- g_stopAtEnd, afterStop <- g_afterStop,
        bsLate <- g_bsLate, esLate <- g_esLate,
        started <- InEpochEv("BS"), ended <- InEpochEv("BE"), pverAtBS <- g_pverAtBS,
        nTS <- Cnt("TS"), nES <- Cnt("ES"), nEE <- Cnt("EE"), nTE <- Cnt("TE"),
        nBS <- Cnt("BS"), nBE <- Cnt("BE")

\* a run starts in an initial state of the skeleton (after Pick, and after Restart)
RefInit == pc = "Entry" => TI!InitCore /\ NB(cfg) >= 1 /\ Nets(cfg) >= 1
\* the reachable states of Train.tla lie inside the inductive invariant
RefInv  == Live => TI!IndInv
\* every step of fit() is the step of the skeleton with the same name
RefStepAct ==
    pc \notin {"Pick", "Done"} =>
        CASE pc = "Entry" -> TI!Entry
          [] pc = "TS" -> TI!TrainStart
          [] pc = "SH" -> TI!Shuffle
          [] pc = "ES" -> TI!EpochStart
          [] pc = "BS" -> TI!BatchStart
          [] pc = "CG" -> TI!Compute
          [] pc = "ZG" -> TI!ZeroGrad
          [] pc = "AS" -> TI!Assign
          [] pc = "OS" -> TI!OptStep
          [] pc = "BE" -> TI!BatchEnd
          [] pc = "SC" -> TI!SchedStep
          [] pc = "EE" -> TI!EpochEnd
          [] pc = "TE" -> TI!TrainEnd
RefStep == [][RefStepAct]_vars

\* negative control: fit() does NOT refine the skeleton whose batch loop lacks the `break`
RefStepNoBreak == [][pc = "BE" => TI!BatchEndNoBreak]_vars

=============================================================================
