----------------------------- MODULE TraceGibbs -----------------------------
(* Validate recorded sampling calls against Gibbs.tla.  A trace is [m (the lattice
   model), ev (events)]: Start (the random start state drawn by sample() when no
   initial state is given), Begin (v0, k, ow), Draw (the probability tensor handed to
   torch.bernoulli in 1e-6 fixed point and the bits it returned), End (returned rows,
   the caller's tensor afterwards, whether the returned tensor IS the caller's).
   Accepted iff every logged probability equals the specification's conditional of the
   CURRENT chain state, draws alternate H,(A),V, the drawn bits become the next state,
   exactly k rounds happen and the buffer rule holds. *)
EXTENDS Gibbs, Json, IOUtils, TLCExt

Traces == ndJsonDeserialize(IOEnv.TRACE_FILE)
VARIABLES tid, l
tvars == <<vars, tid, l>>
T == Traces[tid]
E == T.ev[l]

TInit == /\ tid \in 1..Len(Traces) /\ l = 1
         /\ M = Traces[tid].m
         /\ pc = "Idle" /\ chain = <<>> /\ hid = <<>> /\ aux = <<>>
         /\ left = 0 /\ k0 = 0 /\ ow = FALSE /\ buf = <<>> /\ ret = <<>> /\ rounds = 0
         /\ TLCSet(tid, 0)

AbsI(x) == IF x < 0 THEN -x ELSE x
Near(p, q) == /\ Len(p) = Len(q)
              /\ \A r \in 1..Len(p) : /\ Len(p[r]) = Len(q[r])
                                      /\ \A i \in 1..Len(p[r]) : AbsI(p[r][i] - q[r][i]) <= 1
Step == l' = l + 1 /\ UNCHANGED tid
Has == l <= Len(T.ev)

\* sample() without an initial state: fair coin per site, requested shape; the chain starts there
TStart == /\ Has /\ E.e = "Start" /\ pc = "Idle"
          /\ Len(E.bits) = E.n /\ IsBits(E.bits, E.n, M.nv)
          /\ \A r \in 1..Len(E.probs) : \A i \in 1..Len(E.probs[r]) : E.probs[r][i] = 500000
          /\ Len(E.probs) = E.n /\ \A r \in 1..E.n : Len(E.probs[r]) = M.nv
          /\ l + 1 <= Len(T.ev) /\ T.ev[l + 1].e = "Begin" /\ T.ev[l + 1].v0 = E.bits
          /\ UNCHANGED vars /\ Step
TBegin == /\ Has /\ E.e = "Begin" /\ BeginWith(E.v0, E.k, E.ow) /\ Step
TDraw  == /\ Has /\ E.e = "Draw"
          /\ \/ pc = "H" /\ Near(E.probs, ProbsH(M, chain)) /\ DrawHWith(E.bits)
             \/ pc = "A" /\ Near(E.probs, ProbsA(M, chain)) /\ DrawAWith(E.bits)
             \/ pc = "V" /\ Near(E.probs, ProbsV(M, hid, aux)) /\ DrawVWith(E.bits)
          /\ Step
TEnd   == /\ Has /\ E.e = "End" /\ End
          /\ chain = E.ret                         \* returned = the chain after exactly k rounds
          /\ buf = E.bufAfter                      \* the caller's tensor: untouched, or updated in place
          /\ (ow => E.same)                        \* overwrite: the returned tensor is the caller's
          /\ (~ow => ~E.same)                      \* otherwise it shares no memory with the start state (the result is
                                                   \* the caller's to advance in place; "left untouched" must survive that)
          /\ Step
TNext == TStart \/ TBegin \/ TDraw \/ TEnd

Track == TLCSet(tid, IF l - 1 > TLCGet(tid) THEN l - 1 ELSE TLCGet(tid))
Verdicts == \A i \in 1..Len(Traces) :
               PrintT(ToJson([tid |-> i, matched |-> TLCGet(i), need |-> Len(Traces[i].ev)]))
=============================================================================
