------------------------------ MODULE Dispatch ------------------------------
(***************************************************************************)
(* The two argument-dispatch decorators of qucumber/utils/__init__.py, as  *)
(* explicit state machines over one call each.                             *)
(*                                                                         *)
(*  Part U  auto_unsqueeze_args over an index list                         *)
(*          a call is (index list I as written in the decorator, the       *)
(*          positional arguments - tensors of some shape or non-tensors -, *)
(*          what the decorated function returns).  The wrapper walks the   *)
(*          effective index list (I, or (1,) when I is empty) in order:    *)
(*          Unsqueeze(a) replaces position a by a new one-row view when it *)
(*          is < 2-D, Keep(a) leaves it, Fail raises before the body       *)
(*          (position missing: IndexError; not a tensor: AttributeError);  *)
(*          Invoke runs the body on the current argument list; Squeeze     *)
(*          applies the in-place squeeze_(0) to the object the body        *)
(*          returned iff something was unsqueezed, Return hands it back    *)
(*          untouched otherwise.  Tensors are objects on a heap (shape,    *)
(*          storage root), so "the caller's tensors are untouched" and     *)
(*          "the body received the caller's own object" are statements     *)
(*          about object identity.                                         *)
(*                                                                         *)
(*  Part K  deprecated_kwarg over an alias table                            *)
(*          a call is (ordered alias table, set of keyword names given,    *)
(*          number of positional arguments).  The wrapper walks the table  *)
(*          in order: Skip (alias not given), Clash (alias and its true    *)
(*          name both present: TypeError), Rename (one warning, the value  *)
(*          moves to the true name); Invoke binds the call to the function *)
(*          (a true name that is also bound positionally: python's         *)
(*          TypeError, body not run) and runs the body.                    *)
(*                                                                         *)
(* The two parts are machines over disjoint variables (UInit/UNext,        *)
(* KInit/KNext); the variables of the part that is not running are idle.   *)
(*                                                                         *)
(* Named deviations of the code from what a user of the decorators is      *)
(* led to expect - modelled as the code behaves, each with its own         *)
(* predicate, and the user-level invariants are stated modulo them:        *)
(*   DevZeroDim       a 0-d tensor at a position listed once reaches the   *)
(*                    body 1-D (shape (1,)), not as a >= 2-D batch         *)
(*   DevAliasSqueeze  the body returned one of the caller's own tensors    *)
(*                    (an `out=` buffer, an argument that was already      *)
(*                    batched) while another position was unsqueezed: the  *)
(*                    in-place squeeze_(0) changes the caller's tensor     *)
(*   (no predicate)   squeeze_(0) is silent when the result has no leading *)
(*                    axis of size 1 (or is 0-d): Sq0 below                *)
(*   (Fail)           a listed argument given by keyword / omitted is an   *)
(*                    IndexError from the wrapper                          *)
(*   DevChain         an alias whose true name is itself an alias that     *)
(*                    comes EARLIER in the table reaches the body          *)
(* Out of scope: negative indices in the index list; the same tensor       *)
(* object passed at two positions (bound on the python side only).         *)
(***************************************************************************)
EXTENDS Integers, Sequences, FiniteSets, TLC

CONSTANTS
    \* ---- Part U
    MaxArgs,        \* most positional arguments of a call
    UListsOf(_),    \* number of positional arguments -> index lists tried (sequences of python indices)
    UKinds(_),      \* number of positional arguments -> argument kinds tried (shapes, NT)
    UFresh,         \* shapes of a freshly allocated result
    SqueezeAlways,  \* FALSE = the code; TRUE = a wrapper that squeezes every result (control)
    \* ---- Part K
    KTables,        \* alias tables tried: sequences of <<alias, true name>>
    KNames,         \* keyword names a caller may use
    KPosParams,     \* the function's positional parameter names, in order
    KMaxPos         \* most positional arguments of a call

VARIABLES
    upc, ucase, upos, heap, cur, flag, ulog, ran, seen, res, sq, uexc,      \* Part U
    kpc, kcase, kposn, kcur, kwarn, kran, kbody, kexc, kstage               \* Part K

uvars == <<upc, ucase, upos, heap, cur, flag, ulog, ran, seen, res, sq, uexc>>
kvars == <<kpc, kcase, kposn, kcur, kwarn, kran, kbody, kexc, kstage>>
vars  == <<uvars, kvars>>

-----------------------------------------------------------------------------
(* Part U.  Shapes are sequences of positive integers (<<>> is a 0-d tensor);
   NT stands for an argument that is not a tensor (None, a list, a number).  *)
NT       == <<99>>
IsT(s)   == s # NT
Sq0(s)   == IF Len(s) > 0 /\ s[1] = 1 THEN Tail(s) ELSE s       \* what squeeze_(0) does to a shape
Eff(I)   == IF I = <<>> THEN <<1>> ELSE I                       \* the default index list is (1,)

NoOut == [k |-> "-", s |-> <<>>, p |-> 0]
NoRes == [k |-> "none", id |-> 0, s0 |-> <<>>]

(* What the body returns: a fresh tensor of shape s; the object it received at
   (python) position p; something that is not a tensor; or it raises.          *)
UOutsOf(n) == {[k |-> "fresh", s |-> s, p |-> 0] : s \in UFresh}
              \cup {[k |-> "alias", s |-> <<>>, p |-> p] : p \in 0..(n - 1)}
              \cup {[k |-> "nontensor", s |-> <<>>, p |-> 0], [k |-> "raise", s |-> <<>>, p |-> 0]}

N     == Len(ucase.args)
Args  == ucase.args
EffI  == Eff(ucase.I)
Mult(a)  == Cardinality({p \in 1..Len(EffI) : EffI[p] = a})     \* how often python index a is listed
\* position j (1-based) holds a tensor that the wrapper replaces by a view
Short(j) == Mult(j - 1) > 0 /\ IsT(Args[j]) /\ Len(Args[j]) < 2
AnyShort == \E j \in 1..N : Short(j)
\* every listed position exists and holds a tensor: the body is reached
WellFormed == \A p \in 1..Len(EffI) : EffI[p] < N /\ IsT(Args[EffI[p] + 1])
Min(a, b) == IF a < b THEN a ELSE b
RECURSIVE Ones(_)
Ones(m) == IF m = 0 THEN <<>> ELSE <<1>> \o Ones(m - 1)
\* the shape the body receives at position j: one new leading axis per listing, while < 2-D
SeenShape(j) == IF Short(j) THEN Ones(Min(Mult(j - 1), 2 - Len(Args[j]))) \o Args[j] ELSE Args[j]

IdleU == /\ upc = "Idle" /\ ucase = [I |-> <<>>, n |-> 0, args |-> <<>>, out |-> NoOut]
         /\ upos = 0 /\ heap = <<>> /\ cur = <<>> /\ flag = FALSE /\ ulog = <<>>
         /\ ran = FALSE /\ seen = <<>> /\ res = NoRes /\ sq = FALSE /\ uexc = ""

UShard(i, n) == [I |-> i, n |-> n, args |-> <<>>, out |-> NoOut]
UInitWith(i, n) ==
    /\ upc = "Pick" /\ ucase = UShard(i, n)
    /\ upos = 0 /\ heap = <<>> /\ cur = <<>> /\ flag = FALSE /\ ulog = <<>>
    /\ ran = FALSE /\ seen = <<>> /\ res = NoRes /\ sq = FALSE /\ uexc = ""

(* The call begins: the caller's arguments are objects 1..n of the heap, each with
   its own storage (base 0); the wrapper's local list `args` refers to them.  *)
UPickCase(a, o) ==
    /\ upc = "Pick"
    /\ upc' = "Loop"
    /\ ucase' = [ucase EXCEPT !.args = a, !.out = o]
    /\ heap' = [j \in 1..Len(a) |-> [s |-> a[j], base |-> 0]]
    /\ cur' = [j \in 1..Len(a) |-> j]
    /\ UNCHANGED <<upos, flag, ulog, ran, seen, res, sq, uexc>>

UPick == /\ upc = "Pick"
         /\ \E a \in [1..ucase.n -> UKinds(ucase.n)], o \in UOutsOf(ucase.n) : UPickCase(a, o)

Root(id) == IF heap[id].base = 0 THEN id ELSE heap[id].base

(* for a in self.arg_indices: if args[a].dim() < 2: unsqueeze = True; args[a] = args[a].unsqueeze(0) *)
Unsqueeze(a) ==
    /\ upc = "Loop" /\ upos < Len(EffI) /\ a = EffI[upos + 1]
    /\ a < N /\ IsT(heap[cur[a + 1]].s) /\ Len(heap[cur[a + 1]].s) < 2
    /\ heap' = Append(heap, [s |-> <<1>> \o heap[cur[a + 1]].s, base |-> Root(cur[a + 1])])
    /\ cur' = [cur EXCEPT ![a + 1] = Len(heap) + 1]
    /\ flag' = TRUE
    /\ ulog' = Append(ulog, [k |-> "unsq", i |-> a])
    /\ upos' = upos + 1
    /\ UNCHANGED <<upc, ucase, ran, seen, res, sq, uexc>>

Keep(a) ==
    /\ upc = "Loop" /\ upos < Len(EffI) /\ a = EffI[upos + 1]
    /\ a < N /\ IsT(heap[cur[a + 1]].s) /\ Len(heap[cur[a + 1]].s) >= 2
    /\ ulog' = Append(ulog, [k |-> "keep", i |-> a])
    /\ upos' = upos + 1
    /\ UNCHANGED <<upc, ucase, heap, cur, flag, ran, seen, res, sq, uexc>>

UFail ==
    /\ upc = "Loop" /\ upos < Len(EffI)
    /\ LET a == EffI[upos + 1] IN
       \/ a >= N /\ uexc' = "IndexError"                                  \* args[a]: no such position
       \/ a < N /\ ~IsT(heap[cur[a + 1]].s) /\ uexc' = "AttributeError"   \* .dim() on a non-tensor
    /\ upc' = "Done"
    /\ UNCHANGED <<ucase, upos, heap, cur, flag, ulog, ran, seen, res, sq>>

UInvoke ==
    /\ upc = "Loop" /\ upos = Len(EffI)
    /\ ran' = TRUE
    /\ seen' = [j \in 1..N |-> [id |-> cur[j], s |-> heap[cur[j]].s,
                                root |-> IF IsT(heap[cur[j]].s) THEN Root(cur[j]) ELSE 0]]
    /\ LET o == ucase.out IN
       IF o.k = "raise"
       THEN /\ uexc' = "BodyError" /\ upc' = "Done" /\ UNCHANGED <<heap, res>>
       ELSE IF o.k = "nontensor"
       THEN /\ res' = [k |-> "nontensor", id |-> 0, s0 |-> <<>>] /\ upc' = "Ret" /\ UNCHANGED <<heap, uexc>>
       ELSE IF o.k = "fresh"
       THEN /\ heap' = Append(heap, [s |-> o.s, base |-> 0])
            /\ res' = [k |-> "tensor", id |-> Len(heap) + 1, s0 |-> o.s]
            /\ upc' = "Ret" /\ UNCHANGED uexc
       ELSE /\ o.k = "alias"
            /\ res' = IF IsT(heap[cur[o.p + 1]].s)
                      THEN [k |-> "tensor", id |-> cur[o.p + 1], s0 |-> heap[cur[o.p + 1]].s]
                      ELSE [k |-> "nontensor", id |-> cur[o.p + 1], s0 |-> <<>>]
            /\ upc' = "Ret" /\ UNCHANGED <<heap, uexc>>
    /\ UNCHANGED <<ucase, upos, cur, flag, ulog, sq>>

(* return f(...).squeeze_(0): in place, on the very object the body returned *)
USqueeze ==
    /\ upc = "Ret" /\ (flag \/ SqueezeAlways)
    /\ upc' = "Done"
    /\ IF res.k = "tensor"
       THEN /\ heap' = [heap EXCEPT ![res.id].s = Sq0(@)]
            /\ sq' = TRUE /\ UNCHANGED uexc
       ELSE /\ uexc' = "AttributeError" /\ UNCHANGED <<heap, sq>>     \* after the body ran
    /\ UNCHANGED <<ucase, upos, cur, flag, ulog, ran, seen, res>>

UReturn ==
    /\ upc = "Ret" /\ ~(flag \/ SqueezeAlways)
    /\ upc' = "Done"
    /\ UNCHANGED <<ucase, upos, heap, cur, flag, ulog, ran, seen, res, sq, uexc>>

UWalk == /\ upc = "Loop" /\ upos < Len(EffI)
         /\ LET a == EffI[upos + 1] IN Unsqueeze(a) \/ Keep(a)

IdleK == /\ kpc = "Idle" /\ kcase = [al |-> <<>>, kw |-> {}, npos |-> 0] /\ kposn = 0
         /\ kcur = <<>> /\ kwarn = <<>> /\ kran = FALSE /\ kbody = <<>> /\ kexc = "" /\ kstage = ""

UInit == /\ \E n \in 1..MaxArgs : \E i \in UListsOf(n) : UInitWith(i, n)
         /\ IdleK
UNext == (UPick \/ UWalk \/ UFail \/ UInvoke \/ USqueeze \/ UReturn) /\ UNCHANGED kvars

ULive == upc \notin {"Idle", "Pick"}
UDone == upc = "Done"
Unsqueezed == {ulog[p].i : p \in {q \in 1..Len(ulog) : ulog[q].k = "unsq"}}

(* ---- deviations ---- *)
\* a 0-d tensor listed once: the body gets shape (1,)
DevZeroDim(j) == Short(j) /\ Len(Args[j]) = 0 /\ Mult(j - 1) = 1
\* the body returns the caller's own object number j, something else was unsqueezed, and the
\* object has a leading axis of size 1: squeeze_(0) changes the caller's tensor
DevAliasSqueeze(j) ==
    /\ WellFormed /\ ucase.out.k = "alias" /\ ucase.out.p + 1 = j
    /\ ~Short(j) /\ AnyShort /\ IsT(Args[j]) /\ Len(Args[j]) > 0 /\ Args[j][1] = 1

(* ---- invariants ---- *)
ShapeOK(s) == s = NT \/ (Len(s) <= 4 /\ \A d \in 1..Len(s) : s[d] \in 1..9)
UTypeOK ==
    ULive =>
    /\ upc \in {"Loop", "Ret", "Done"} /\ upos \in 0..Len(EffI) /\ N = ucase.n
    /\ Len(cur) = N /\ \A j \in 1..N : cur[j] \in 1..Len(heap)
    /\ \A id \in 1..Len(heap) : ShapeOK(heap[id].s) /\ heap[id].base \in 0..N
    /\ uexc \in {"", "IndexError", "AttributeError", "BodyError"}
    /\ (upc # "Done" => uexc = "")
    /\ (ran => upc \in {"Ret", "Done"}) /\ (upc = "Ret" => ran)

\* a malformed call (listed position missing / not a tensor) is refused before the body
FailsBeforeBody == UDone => (~WellFormed <=> (~ran /\ uexc \in {"IndexError", "AttributeError"}))
\* the order of evaluation: the first offending index decides
FailKind == UDone /\ ~WellFormed =>
    LET bad == {p \in 1..Len(EffI) : ~(EffI[p] < N /\ IsT(Args[EffI[p] + 1]))}
        p0  == CHOOSE p \in bad : \A q \in bad : p <= q IN
    uexc = IF EffI[p0] >= N THEN "IndexError" ELSE "AttributeError"

\* the body receives: the caller's own object where nothing is to be done, a view of the caller's
\* tensor with new leading axes where the listed argument was < 2-D
InnerSeesRule == ran => \A j \in 1..N :
    /\ seen[j].s = SeenShape(j)
    /\ (~Short(j) => seen[j].id = j)
    /\ (Short(j) => seen[j].id > N /\ seen[j].root = j)
\* ... which is the one-row batch, except for a 0-d tensor listed once
InnerSeesBatch == ran => \A j \in 1..N :
    Mult(j - 1) > 0 => (Len(seen[j].s) >= 2 \/ DevZeroDim(j))
OneRowBatch == ran => \A j \in 1..N :
    Short(j) /\ Len(Args[j]) = 1 => seen[j].s = <<1>> \o Args[j]
\* the log: the listed positions in order, each unsqueezed iff it is < 2-D at that moment
LogRule == ULive => /\ Len(ulog) = upos
                    /\ \A p \in 1..Len(ulog) : ulog[p].i = EffI[p]
                    /\ Unsqueezed = {j - 1 : j \in {q \in 1..N : Short(q)}} \cap {EffI[p] : p \in 1..upos}
                    /\ flag = (Unsqueezed # {})

\* all listed arguments already >= 2-D: the call is passed through untouched
PassThroughWhenBatched == UDone /\ WellFormed /\ ~AnyShort =>
    /\ ~flag /\ ~sq /\ Unsqueezed = {}
    /\ \A j \in 1..N : seen[j].id = j /\ heap[j].s = Args[j]
    /\ (res.k = "tensor" => heap[res.id].s = res.s0)
    /\ uexc = (IF ucase.out.k = "raise" THEN "BodyError" ELSE "")
\* the result: the body's result with the leading axis removed once iff something was unsqueezed
BodyOut == IF ucase.out.k = "fresh" THEN ucase.out.s ELSE seen[ucase.out.p + 1].s
ResultShape == UDone /\ uexc = "" /\ res.k = "tensor" =>
    /\ res.s0 = BodyOut
    /\ heap[res.id].s = IF AnyShort THEN Sq0(res.s0) ELSE res.s0
SqueezeOnlyIfUnsqueezed ==
    /\ (sq => Unsqueezed # {})
    /\ (UDone /\ ran /\ res.k = "tensor" /\ uexc = "" => (sq <=> AnyShort))
\* a result that is not a tensor: untouched when nothing was unsqueezed, AttributeError after the body otherwise
NonTensorResult == UDone /\ ran /\ res.k = "nontensor" => (uexc = IF AnyShort THEN "AttributeError" ELSE "")
\* an exception of the body propagates
BodyRaises == UDone /\ WellFormed /\ ucase.out.k = "raise" => ran /\ uexc = "BodyError" /\ res = NoRes

\* the caller's tensors keep their shape - except DevAliasSqueeze, exactly
CallerUntouched == ULive => \A j \in 1..N :
    \/ heap[j] = [s |-> Args[j], base |-> 0]
    \/ UDone /\ DevAliasSqueeze(j) /\ heap[j] = [s |-> Tail(Args[j]), base |-> 0]
CallerTouchedExactly == UDone /\ uexc = "" => \A j \in 1..N : (heap[j].s # Args[j]) <=> DevAliasSqueeze(j)
\* what the user is promised, without the deviation: violated (control)
StrictCallerUntouched == ULive => \A j \in 1..N : heap[j].s = Args[j]
StrictInnerSeesBatch == ran => \A j \in 1..N : Mult(j - 1) > 0 => Len(seen[j].s) >= 2

UDev == [zero |-> {j \in 1..N : DevZeroDim(j)}, alias |-> {j \in 1..N : DevAliasSqueeze(j)}]

-----------------------------------------------------------------------------
(* Part K.  kcur maps every name of KNames to "" (absent from the kwargs dict) or to
   the name under which the CALLER gave the value now stored there.               *)
Alias(i) == kcase.al[i][1]
True(i)  == kcase.al[i][2]
AliasKeys == {kcase.al[i][1] : i \in 1..Len(kcase.al)}
TrueNames == {kcase.al[i][2] : i \in 1..Len(kcase.al)}
\* no true name is itself an alias of the table
ChainFree == AliasKeys \cap TrueNames = {}
PosBound == {KPosParams[i] : i \in 1..Min(kcase.npos, Len(KPosParams))}

(* alias tables over alias names A and target names T, at most m entries, aliases distinct,
   no alias of itself; targets may be other aliases (chains)                          *)
TablesOver(A, T, m) ==
    UNION {{t \in [1..k -> A \X T] :
               /\ \A i, j \in 1..k : i # j => t[i][1] # t[j][1]
               /\ \A i \in 1..k : t[i][1] # t[i][2]} : k \in 0..m}

KInitWith(t) ==
    /\ kpc = "Pick" /\ kcase = [al |-> t, kw |-> {}, npos |-> 0] /\ kposn = 0
    /\ kcur = <<>> /\ kwarn = <<>> /\ kran = FALSE /\ kbody = <<>> /\ kexc = "" /\ kstage = ""

KPickCase(kw, np) ==
    /\ kpc = "Pick"
    /\ kpc' = "Loop"
    /\ kcase' = [kcase EXCEPT !.kw = kw, !.npos = np]
    /\ kcur' = [nm \in KNames |-> IF nm \in kw THEN nm ELSE ""]
    /\ UNCHANGED <<kposn, kwarn, kran, kbody, kexc, kstage>>

KPick == /\ kpc = "Pick"
         /\ \E kw \in SUBSET KNames, np \in 0..KMaxPos : KPickCase(kw, np)

(* for alias, true_name in self.aliases.items(): if alias in kwargs: ... *)
KSkip ==
    /\ kpc = "Loop" /\ kposn < Len(kcase.al)
    /\ kcur[Alias(kposn + 1)] = ""
    /\ kposn' = kposn + 1
    /\ UNCHANGED <<kpc, kcase, kcur, kwarn, kran, kbody, kexc, kstage>>

Clash ==
    /\ kpc = "Loop" /\ kposn < Len(kcase.al)
    /\ kcur[Alias(kposn + 1)] # "" /\ kcur[True(kposn + 1)] # ""
    /\ kexc' = "TypeError" /\ kstage' = "rename" /\ kpc' = "Done"
    /\ UNCHANGED <<kcase, kposn, kcur, kwarn, kran, kbody>>

Rename(alias) ==
    /\ kpc = "Loop" /\ kposn < Len(kcase.al) /\ alias = Alias(kposn + 1)
    /\ kcur[alias] # "" /\ kcur[True(kposn + 1)] = ""
    /\ kwarn' = Append(kwarn, <<alias, True(kposn + 1)>>)                  \* exactly one warning
    /\ kcur' = [kcur EXCEPT ![True(kposn + 1)] = kcur[alias], ![alias] = ""]
    /\ kposn' = kposn + 1
    /\ UNCHANGED <<kpc, kcase, kran, kbody, kexc, kstage>>

KInvoke ==
    /\ kpc = "Loop" /\ kposn = Len(kcase.al)
    /\ kpc' = "Done"
    /\ IF \E nm \in PosBound \cap KNames : kcur[nm] # ""
       THEN /\ kexc' = "TypeError" /\ kstage' = "bind"                      \* multiple values for a parameter
            /\ UNCHANGED <<kran, kbody>>
       ELSE /\ kran' = TRUE /\ kbody' = kcur /\ UNCHANGED <<kexc, kstage>>
    /\ UNCHANGED <<kcase, kposn, kcur, kwarn>>

KInit == /\ \E t \in KTables : KInitWith(t)
         /\ IdleU
KNext == (KPick \/ KSkip \/ Clash \/ (kpc = "Loop" /\ kposn < Len(kcase.al) /\ Rename(Alias(kposn + 1))) \/ KInvoke)
         /\ UNCHANGED uvars

KLive == kpc \notin {"Idle", "Pick"}
KDone == kpc = "Done"
\* the names under which the caller's keywords would reach true name t
GivenFor(t) == {nm \in kcase.kw : nm = t \/ \E i \in 1..Len(kcase.al) : Alias(i) = nm /\ True(i) = t}
\* an alias given although it sits behind an earlier entry that renames INTO it
DevChain == \E i, j \in 1..Len(kcase.al) : j < i /\ True(i) = Alias(j)

KTypeOK == KLive =>
    /\ kpc \in {"Loop", "Done"} /\ kposn \in 0..Len(kcase.al)
    /\ DOMAIN kcur = KNames /\ \A nm \in KNames : kcur[nm] \in kcase.kw \cup {""}
    /\ kexc \in {"", "TypeError"} /\ (kexc = "TypeError" <=> kstage \in {"rename", "bind"})
    /\ (kran => KDone /\ kexc = "")
\* values are neither lost nor duplicated while the table is walked
Conservation == KLive => \A nm \in kcase.kw : Cardinality({x \in KNames : kcur[x] = nm}) = 1
\* one warning per table entry at most; for a chain-free table: exactly the aliases given, in table order, once each
WarnRule == KLive =>
    /\ \A p, q \in 1..Len(kwarn) : p # q => kwarn[p] # kwarn[q]
    /\ \A p \in 1..Len(kwarn) : \E i \in 1..kposn : kwarn[p] = kcase.al[i]
GivenAliases(upto) == SelectSeq(SubSeq(kcase.al, 1, upto), LAMBDA e : e[1] \in kcase.kw)
OneWarningPerAlias == KLive /\ ChainFree => kwarn = GivenAliases(kposn)
\* alias and true name together: TypeError before the body
ClashRaisesBeforeBody == KDone =>
    /\ ((\E i \in 1..Len(kcase.al) : Alias(i) \in kcase.kw /\ True(i) \in kcase.kw) /\ ChainFree
            => kexc = "TypeError" /\ ~kran)
    /\ (kexc = "TypeError" => ~kran)
\* chain-free tables: TypeError exactly when some true name would receive two values
ExcExact == KDone /\ ChainFree =>
    (kexc = "TypeError" <=> \E t \in KNames : Cardinality(GivenFor(t)) + (IF t \in PosBound THEN 1 ELSE 0) >= 2)
\* keywords that are no alias keys pass through under their own name
PassThrough == kran => \A nm \in kcase.kw \ AliasKeys : kbody[nm] = nm
\* the value given under an alias arrives under the true name, the alias itself does not arrive
RenamedArrives == kran /\ ChainFree => \A i \in 1..Len(kcase.al) :
    Alias(i) \in kcase.kw => kbody[True(i)] = Alias(i) /\ kbody[Alias(i)] = ""
NoAliasReachesBody == kran /\ ~DevChain => \A a \in AliasKeys : kbody[a] = ""
StrictNoAliasReachesBody == kran => \A a \in AliasKeys : kbody[a] = ""           \* violated (control)
\* nothing but renaming happens: the body's keywords are the caller's values
BodyKeywords == kran => {kbody[nm] : nm \in KNames} \ {""} = kcase.kw

-----------------------------------------------------------------------------
(* both machines in one model-checking run: a behaviour is a behaviour of one of them *)
BothInit == UInit \/ KInit
BothNext == UNext \/ KNext
=============================================================================
