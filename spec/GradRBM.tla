------------------------------ MODULE GradRBM ------------------------------
(* C03 for wavefunction states: the gradients the library computes are the derivatives of
   the negative log-likelihood.

   (1) Z basis.  The joint weight w(v,h) = exp(b.v + c.h + h.W.v) is a monomial in x = e^theta
   for every parameter theta, so d/dtheta of the DEFINITION pDef(v) = SUM_h w(v,h) is
   SUM_h act_theta(v,h) * w(v,h) with act_W[j][i] = h_j v_i, act_b[i] = v_i, act_c[j] = h_j.
   Hence  -dE/dtheta = d ln pDef / dtheta = (SUM_h act_theta w) / pDef.   The code computes
   dE/dW[j][i] = -sigmoid(m_j) v_i, dE/db[i] = -v_i, dE/dc[j] = -sigmoid(m_j).  TLC checks
   pFac(v) * (closed form) = SUM_h act_theta(v,h) w(v,h) modulo three primes (GradIsDerivative).
   With NLL = mean_data E(v_d) + ln Z and d ln Z = -SUM_v p(v)/Z dE(v) this makes
   "positive phase - exact negative phase" the NLL gradient.

   (2) Rotated bases (complex state).  psi = exp(-E_lam/2 - i E_mu/2), so
   d psi/d lam = -(1/2) dE_lam psi and d psi/d mu = -(i/2) dE_mu psi; for an outcome s in
   basis beta with Upsi = SUM_tau u_tau psi(v_tau) (module Rot):
       d(-ln |Upsi|^2) = -2 Re[dUpsi / Upsi] = Re[ SUM_tau u_tau psi(v_tau) L(v_tau) / Upsi ],
   L = dE_lam (amplitude network) or i dE_mu (phase network).  psi is irrational even on the
   lattice, so this part leaves TLC as a TEMPLATE over tables (u from Rot, psi atoms from the
   factor forms, L from the closed forms checked in (1)); the harness only interprets it.

   (3) Layout: the flat parameter vector is [W row-major (nh x nv), b, c], the order in which
   training writes gradients into the model (nn.Module.parameters()). *)
EXTENDS RBM, Rot

NPars == P.nh * P.nv + P.nv + P.nh
SlotW(j, i) == (j - 1) * P.nv + i
SlotB(i) == P.nh * P.nv + i
SlotC(j) == P.nh * P.nv + P.nv + j
\* flat index -> named slot
SlotName(q) == IF q <= P.nh * P.nv
               THEN [p |-> "weights", j |-> ((q - 1) \div P.nv) + 1, i |-> ((q - 1) % P.nv) + 1]
               ELSE IF q <= P.nh * P.nv + P.nv THEN [p |-> "visible_bias", j |-> 0, i |-> q - P.nh * P.nv]
               ELSE [p |-> "hidden_bias", j |-> q - P.nh * P.nv - P.nv, i |-> 0]
\* one statement of the layout for the whole specification: the offsets of LayoutDefs.tla, which Layout.tla derives from
\* the vector_to_grads loop and TraceLayout.tla binds to the real function
LD == INSTANCE LayoutDefs
ArchOf == <<"binary", P.nv, P.nh, 0>>
LayoutBijection ==
    IsPt => /\ \A j \in 1..P.nh : \A i \in 1..P.nv : SlotW(j, i) = LD!Slot(ArchOf, "weights", j, i)
            /\ \A i \in 1..P.nv : SlotB(i) = LD!Slot(ArchOf, "visible_bias", 1, i)
            /\ \A j \in 1..P.nh : SlotC(j) = LD!Slot(ArchOf, "hidden_bias", 1, j)
            /\ NPars = LD!NPars(ArchOf)
            /\ \A j \in 1..P.nh : \A i \in 1..P.nv : SlotName(SlotW(j, i)) = [p |-> "weights", j |-> j, i |-> i]
            /\ \A i \in 1..P.nv : SlotName(SlotB(i)) = [p |-> "visible_bias", j |-> 0, i |-> i]
            /\ \A j \in 1..P.nh : SlotName(SlotC(j)) = [p |-> "hidden_bias", j |-> j, i |-> 0]
            /\ Cardinality({SlotW(j, i) : j \in 1..P.nh, i \in 1..P.nv} \cup {SlotB(i) : i \in 1..P.nv}
                           \cup {SlotC(j) : j \in 1..P.nh}) = NPars

\* (1) closed form = derivative of the definition
GradIsDerivative ==
    IsPt => \A n \in 1..2 : \A pi \in 1..NP : \A k \in VSet :
        LET N == NetsOf[n]
            v == V(k)
            pf == PFacM(N, P.nv, P.nh, P.B, pi, v)
            sumH(f(_)) == SumSeqM([l \in 1..NStates(P.nh) |->
                              MulM(f(H(l)), WeightM(N, P.nv, P.nh, P.B, pi, v, H(l)), Primes[pi])], Primes[pi])
        IN /\ \A j \in 1..P.nh : \A i \in 1..P.nv :
                 MulM(pf, MulM(BernM(P.B, pi, Hid(N, P.nv, v, j), 1), v[i], Primes[pi]), Primes[pi])
                 = sumH(LAMBDA h : h[j] * v[i])
           /\ \A i \in 1..P.nv : MulM(pf, v[i], Primes[pi]) = sumH(LAMBDA h : v[i])
           /\ \A j \in 1..P.nh : MulM(pf, BernM(P.B, pi, Hid(N, P.nv, v, j), 1), Primes[pi]) = sumH(LAMBDA h : h[j])

\* dE/dtheta(v) per slot as a term  c * (k = 1: B^m/(1+B^m) ; k = 0: 1)
GradE(N, v) ==
    [q \in 1..NPars |->
       LET s == SlotName(q) IN
       CASE s.p = "weights" -> [c |-> -v[s.i], k |-> 1, m |-> Hid(N, P.nv, v, s.j)]
         [] s.p = "visible_bias" -> [c |-> -v[s.i], k |-> 0, m |-> 0]
         [] s.p = "hidden_bias" -> [c |-> -1, k |-> 1, m |-> Hid(N, P.nv, v, s.j)]]

\* (2) templates, interpreted by the harness over the exported tables
\*   u(tau), psi(tau) = psi at v_tau, ell(tau) = entry of dE at v_tau for the slot in question
RowGradAm == [op |-> "re", x |-> [op |-> "div",
                 a |-> [op |-> "sum_tau", x |-> [op |-> "mul", xs |-> <<[op |-> "u"], [op |-> "psi"], [op |-> "ell"]>>]],
                 b |-> [op |-> "sum_tau", x |-> [op |-> "mul", xs |-> <<[op |-> "u"], [op |-> "psi"]>>]]]]
RowGradPh == [op |-> "re", x |-> [op |-> "div",
                 a |-> [op |-> "sum_tau", x |-> [op |-> "mul", xs |-> <<[op |-> "u"], [op |-> "psi"], [op |-> "i"], [op |-> "ell"]>>]],
                 b |-> [op |-> "sum_tau", x |-> [op |-> "mul", xs |-> <<[op |-> "u"], [op |-> "psi"]>>]]]]
\* NLL gradient: mean over the data rows of the row gradient, minus (amplitude network only)
\* the model average  SUM_v p(v)/Z dE_lam(v)
NLLGradAm == [op |-> "sub", a |-> [op |-> "mean_rows", x |-> [op |-> "rowgrad"]],
                            b |-> [op |-> "sum_v", x |-> [op |-> "mul", xs |-> <<[op |-> "pnorm"], [op |-> "ellv"]>>]]]
NLLGradPh == [op |-> "mean_rows", x |-> [op |-> "rowgrad"]]

GradExportRec ==
    [nv |-> P.nv, nh |-> P.nh, B |-> P.B, am |-> P.am, ph |-> P.ph, idx |-> idx,
     pam |-> [k \in 1..NStates(P.nv) |-> FacV(P.am, V(k))],
     pph |-> [k \in 1..NStates(P.nv) |-> FacV(P.ph, V(k))],
     layout |-> [q \in 1..NPars |-> SlotName(q)],
     Lam |-> [k \in 1..NStates(P.nv) |-> GradE(P.am, V(k))],
     Lph |-> [k \in 1..NStates(P.nv) |-> GradE(P.ph, V(k))],
     tpl |-> [rowAm |-> RowGradAm, rowPh |-> RowGradPh, nllAm |-> NLLGradAm, nllPh |-> NLLGradPh]]
GradExport == IsPt => PrintT(ToJson(GradExportRec))

\* the expansions of module Rot for n sites (state independent), exported once
ExpansionTable(n) ==
    [bs \in BasisStrings(n) |-> [k \in 1..P2(n) |-> Expansion(bs, BitRow(n, k - 1))]]
=============================================================================
