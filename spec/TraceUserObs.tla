--------------------------- MODULE TraceUserObs ---------------------------
(* Validate recorded sessions of the real library (user observables, System,    *)
(* ObservableEvaluator inside fit()) against UserObs.tla.                        *)
(*                                                                               *)
(* One JVM handles an ndjson file; one line = one session                        *)
(*   [cfg   |-> the case (scale, atoms, obs, period, log, verbose, kw, script; the *)
(*              stream is not used: what a draw leaves in the chains comes from  *)
(*              the recorded events),                                            *)
(*    ev    |-> the observed events, one per entry the specification appends to  *)
(*              `hist`, in the vocabulary of `hist`; reported floats as integers *)
(*              in units of 1e-6 ].                                              *)
(*                                                                               *)
(* The specification's own actions run (UPickWith, UFitStart, ... UDone); the    *)
(* contents of a draw / of a user batch are taken from the event.  Whenever an   *)
(* action appends an entry to `hist`, the next recorded event must be that       *)
(* entry: same kind, same names / members / contents / values / epochs, numbers  *)
(* within 2 units of 1e-6 of the exact rationals (Near / NearRoot of             *)
(* TraceStats.tla, which also supplies Traces, tid, pos, Track and Verdicts).    *)
(* A session is accepted iff all its events (the last one is "end") are          *)
(* consumed.  The invariants of UserObs.tla and the schedule invariants of       *)
(* Stats.tla are evaluated on every state of every accepted prefix.              *)
EXTENDS UserObs, TraceStats

XT == Traces[tid]
XHas == pos <= Len(XT.ev)
XEv == XT.ev[pos]
XSc == XT.cfg.scale

\* a reported (mean, variance, std_error, num_samples) against an exact result
XNum(r, e) ==
    /\ e.n = r.n /\ e.name = r.name
    /\ Near(e.mean, r.mean[1], r.mean[2] * XSc)
    /\ IF r.var = Undef THEN ~e.def
       ELSE /\ e.def
            /\ Near(e.var, r.var[1], r.var[2] * XSc * XSc)
            /\ NearRoot(e.se, r.se2[1], r.se2[2] * XSc * XSc, 1)
XNums(rs, es) == Len(rs) = Len(es) /\ \A k \in 1..Len(rs) : XNum(rs[k], es[k])

XCallsMatch(cs, es) ==
    /\ Len(cs) = Len(es)
    /\ \A k \in 1..Len(cs) : /\ cs[k].member = es[k].member /\ cs[k].content = es[k].content
                             /\ cs[k].vals = es[k].vals

\* the CSV row: epoch, then per column the float that was written (units of 1e-6; def = FALSE for nan)
XCell(x, c, kind) ==
    IF x = Undef THEN ~c.def
    ELSE c.def /\ CASE kind = 0 -> Near(c.v, x[1], x[2] * XSc)
                    [] kind = 1 -> Near(c.v, x[1], x[2] * XSc * XSc)
                    [] kind = 2 -> NearRoot(c.v, x[1], x[2] * XSc * XSc, 1)
XRow(row, e) ==
    IF row.epoch = UNoEp THEN e.cells = <<>> /\ e.epoch = UNoEp
    ELSE /\ e.epoch = row.epoch /\ Len(e.cells) = Len(row.cells)
         /\ \A c \in 1..Len(row.cells) : XCell(row.cells[c], e.cells[c], (c - 1) % 3)

XMatch(h, e) ==
    /\ e.e = h.h
    /\ CASE h.h = "system" -> /\ e.names = h.names /\ e.symbols = h.symbols /\ e.keys = h.keys
                              /\ e.members = h.members /\ e.header = h.header
         [] h.h = "epoch"  -> e.epoch = h.epoch
         [] h.h = "stat"   -> e.who = h.who /\ e.via = h.via
         [] h.h = "draw"   -> SameCall(h.d, e.d) /\ e.content = h.content
         [] h.h = "apply"  -> /\ e.member = h.member /\ e.draw = h.draw /\ e.content = h.content
                              /\ e.vals = h.vals
         [] h.h = "return" -> /\ e.who = h.who /\ e.via = h.via /\ XNums(h.res, e.res)
         [] h.h = "record" -> /\ e.epoch = h.epoch /\ e.len = h.len /\ XNums(h.vals, e.vals)
                              /\ XRow(h.row, e.row)
         [] h.h = "clear"  -> TRUE
         [] h.h = "view"   -> /\ e.len = h.v.len /\ e.epochs = h.v.epochs /\ e.names = h.v.names
                              /\ e.unknown = h.v.unknown
                              /\ XNums(h.v.last, e.last)
                              /\ Len(e.series) = Len(h.v.series)
                              /\ \A k \in 1..Len(h.v.series) : XNums(h.v.series[k], e.series[k])
         [] h.h = "sfs"    -> /\ e.who = h.who /\ XCallsMatch(h.calls, e.calls) /\ XNums(h.res, e.res)
         [] h.h = "values" -> /\ e.who = h.who /\ e.how = h.how /\ XCallsMatch(h.calls, e.calls)
                              /\ e.vals = h.vals
         [] h.h = "end"    -> TRUE

XInit == /\ tid \in 1..Len(Traces)
         /\ pos = 1 /\ acc = 0
         /\ UInit
         /\ TLCSet(tid, 0)

XAct == \/ UPickWith(XT.cfg) \/ USystem
        \/ UFitStart \/ UClear \/ UViewOp \/ UDirectStat
        \/ (XHas /\ XEv.e \in {"sfs", "values"} /\ Len(XEv.calls) >= 1 /\ UDirectBatch(XEv.calls[1].content))
        \/ UEpochEnd \/ UCall
        \/ (XHas /\ XEv.e = "draw" /\ UDrawWith(XEv.content, XEv.d.to))
        \/ UApply \/ UFinish \/ UReturn \/ URecord \/ UDone

XNext == /\ XAct
         /\ IF Len(hist') > Len(hist)
            THEN XHas /\ XMatch(hist'[Len(hist')], XEv) /\ pos' = pos + 1
            ELSE pos' = pos
         /\ UNCHANGED <<tid, acc>>
=============================================================================
