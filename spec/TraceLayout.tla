----------------------------- MODULE TraceLayout -----------------------------
(* code -> spec for the parameter layout (C03), public functions only.  One ndjson line per network object:
   [arch, ev, back]:  ev[j] = [name, shape, vals] is what parameter number j (in nn.Module.parameters() order)
   holds in .grad after the real vector_to_grads(identity vector, rbm.parameters()); back is
   torch.nn.utils.parameters_to_vector(rbm.parameters()) after every parameter entry (name, r, i) was set to
   Layout!Slot(name, r, i) by NAME.  Accepted iff each recorded assignment is Layout's Assign step and the
   read-back is the identity vector; Layout's invariants are evaluated along the accepted prefix. *)
EXTENDS Layout, Json, IOUtils, TLCExt

Traces == ndJsonDeserialize(IOEnv.TRACE_FILE)
VARIABLE tid
tvars == <<vars, tid>>
T == Traces[tid]

TInit == /\ tid \in 1..Len(Traces)
         /\ arch = <<Traces[tid].arch[1], Traces[tid].arch[2], Traces[tid].arch[3], Traces[tid].arch[4]>>
         /\ pc = "loop" /\ k = 1 /\ ptr = 0 /\ grads = <<>>
         /\ TLCSet(tid, 0)
TAssign == /\ k <= Len(T.ev)
           /\ LET e == T.ev[k] IN
                /\ e.name = Names(arch)[k]
                /\ e.shape = Shape(arch, e.name)
                /\ AssignWith(e.vals)
           /\ UNCHANGED tid
TNext == TAssign
FinalOK == pc = "done" /\ Len(grads) = Len(T.ev) /\ T.back = Flat(arch)
Progress == Len(grads) + (IF FinalOK THEN 1 ELSE 0)
Track == TLCSet(tid, IF Progress > TLCGet(tid) THEN Progress ELSE TLCGet(tid))
Verdicts == \A j \in 1..Len(Traces) :
               PrintT(ToJson([tid |-> j, matched |-> TLCGet(j), need |-> Len(Traces[j].ev) + 1]))
=============================================================================
