-------------------------------- MODULE Rot --------------------------------
(* Measurement-basis expansions used by the gradient specifications (C03): for an outcome s
   measured in basis beta, the rotated amplitude is  (U psi)(s) = SUM_tau u_tau psi(v_tau)
   where tau runs over the configurations of the rotated (non-Z) sites, v_tau is s with those
   sites replaced by tau, and u_tau = PROD_{r rotated} U_{beta_r}[s_r, tau_r].  Unitaries are
   Gaussian-integer matrices with a common factor 2^(-1/2) per rotated site:
   X = [[1,1],[1,-1]], Y = [[1,-i],[1,i]] (rows: measured outcome, columns: Z-basis state). *)
EXTENDS Integers, Sequences, FiniteSets

GMulI(a, b) == <<a[1] * b[1] - a[2] * b[2], a[1] * b[2] + a[2] * b[1]>>
UMat(b) == CASE b = "X" -> << <<<<1, 0>>, <<1, 0>>>>, <<<<1, 0>>, <<-1, 0>>>> >>
             [] b = "Y" -> << <<<<1, 0>>, <<0, -1>>>>, <<<<1, 0>>, <<0, 1>>>> >>
             [] b = "Z" -> << <<<<1, 0>>, <<0, 0>>>>, <<<<0, 0>>, <<1, 0>>>> >>

RECURSIVE P2(_)
P2(n) == IF n = 0 THEN 1 ELSE 2 * P2(n - 1)
BitRow(n, k) == [s \in 1..n |-> (k \div P2(n - s)) % 2]
RECURSIVE IndexOf(_, _)
IndexOf(row, n) == IF n = 0 THEN 0 ELSE 2 * IndexOf(row, n - 1) + row[n]      \* big-endian value of row[1..n]

\* rotated sites of a basis string, in increasing order
RECURSIVE RotFrom(_, _)
RotFrom(basis, i) == IF i > Len(basis) THEN <<>>
                     ELSE IF basis[i] # "Z" THEN <<i>> \o RotFrom(basis, i + 1) ELSE RotFrom(basis, i + 1)
RotSites(basis) == RotFrom(basis, 1)
\* position of site r among the rotated sites (0 if not rotated)
PosIn(R, r) == IF \E q \in 1..Len(R) : R[q] = r THEN CHOOSE q \in 1..Len(R) : R[q] = r ELSE 0

RECURSIVE GProdI(_)
GProdI(s) == IF s = <<>> THEN <<1, 0>> ELSE GMulI(Head(s), GProdI(Tail(s)))

\* the expansion of outcome s in basis `basis`: sequence over t = 1..2^|R| of [v, u]
Expansion(basis, s) ==
    LET n == Len(basis)
        R == RotSites(basis)
    IN [t \in 1..P2(Len(R)) |->
          LET tau == BitRow(Len(R), t - 1)
              v   == [r \in 1..n |-> IF PosIn(R, r) = 0 THEN s[r] ELSE tau[PosIn(R, r)]]
          IN [v |-> IndexOf(v, n),                                        \* basis-state number of v_tau
              u |-> GProdI([q \in 1..Len(R) |-> UMat(basis[R[q]])[s[R[q]] + 1][tau[q] + 1]])]]
NRot(basis) == Len(RotSites(basis))
BasisStrings(n) == [1..n -> {"X", "Y", "Z"}]
=============================================================================
