-------------------------------- MODULE Gauss -------------------------------
(* Gaussian integers as pairs <<re, im>>, vectors as sequences of them, matrices
   as sequences of rows.  Magnitudes stay far below 2^31 for the bounds used
   (TLC raises an error on overflow, it cannot corrupt a verdict silently). *)
EXTENDS Integers, Sequences

GZero == <<0, 0>>
GOne  == <<1, 0>>
GI    == <<0, 1>>
GNeg1 == <<-1, 0>>
GNegI == <<0, -1>>

GAdd(a, b) == <<a[1] + b[1], a[2] + b[2]>>
GSub(a, b) == <<a[1] - b[1], a[2] - b[2]>>
GNeg(a)    == <<-a[1], -a[2]>>
GMul(a, b) == <<a[1] * b[1] - a[2] * b[2], a[1] * b[2] + a[2] * b[1]>>
GConj(a)   == <<a[1], -a[2]>>
GScale(c, a) == <<c * a[1], c * a[2]>>
GNorm2(a)  == a[1] * a[1] + a[2] * a[2]

RECURSIVE GSumUpTo(_, _), GProdUpTo(_, _), ISumUpTo(_, _)
GSumUpTo(f, m)  == IF m = 0 THEN GZero ELSE GAdd(GSumUpTo(f, m - 1), f[m])
GProdUpTo(f, m) == IF m = 0 THEN GOne ELSE GMul(GProdUpTo(f, m - 1), f[m])
ISumUpTo(f, m)  == IF m = 0 THEN 0 ELSE ISumUpTo(f, m - 1) + f[m]
GSum(f)  == GSumUpTo(f, Len(f))
GProd(f) == GProdUpTo(f, Len(f))
ISum(f)  == ISumUpTo(f, Len(f))

NRows(A) == Len(A)
NCols(A) == Len(A[1])

MatVec(A, x) == [i \in 1..Len(A) |-> GSumUpTo([j \in 1..Len(x) |-> GMul(A[i][j], x[j])], Len(x))]
MatMul(A, B) == [i \in 1..Len(A) |-> [j \in 1..Len(B[1]) |->
                    GSumUpTo([k \in 1..Len(B) |-> GMul(A[i][k], B[k][j])], Len(B))]]
Transpose(A) == [i \in 1..Len(A[1]) |-> [j \in 1..Len(A) |-> A[j][i]]]
ConjT(A)     == [i \in 1..Len(A[1]) |-> [j \in 1..Len(A) |-> GConj(A[j][i])]]
ConjVec(x)   == [i \in 1..Len(x) |-> GConj(x[i])]
ScaleMat(c, A) == [i \in 1..Len(A) |-> [j \in 1..Len(A[1]) |-> GScale(c, A[i][j])]]
IdentityG(N) == [i \in 1..N |-> [j \in 1..N |-> IF i = j THEN GOne ELSE GZero]]
DiagG(d)     == [i \in 1..Len(d) |-> [j \in 1..Len(d) |-> IF i = j THEN d[i] ELSE GZero]]

SameVec(a, b) == Len(a) = Len(b) /\ \A i \in 1..Len(a) : a[i] = b[i]
SameMat(A, B) == Len(A) = Len(B) /\ \A i \in 1..Len(A) : SameVec(A[i], B[i])

IsHermitian(A) == \A i \in 1..Len(A) : \A j \in 1..Len(A) : A[i][j] = GConj(A[j][i])
IsSymmetric(A) == \A i \in 1..Len(A) : \A j \in 1..Len(A) : A[i][j] = A[j][i]
TraceRe(A) == ISumUpTo([i \in 1..Len(A) |-> A[i][i][1]], Len(A))
\* ---- input families (linear-algebra bases and Gram matrices) ----
UnitVec(M, k, c) == [p \in 1..M |-> IF p = k THEN c ELSE GZero]
UnitVecs(M) == {UnitVec(M, k, c) : k \in 1..M, c \in {GOne, GI}}                 \* e_k and i*e_k
Ekk(M, k) == [i \in 1..M |-> [j \in 1..M |-> IF i = k /\ j = k THEN GOne ELSE GZero]]
Esym(M, k, m) == [i \in 1..M |-> [j \in 1..M |->
                    IF (i = k /\ j = m) \/ (i = m /\ j = k) THEN GOne ELSE GZero]]      \* E_km + E_mk
Easym(M, k, m) == [i \in 1..M |-> [j \in 1..M |->
                    IF i = k /\ j = m THEN GI ELSE IF i = m /\ j = k THEN GNegI ELSE GZero]]   \* i(E_km - E_mk)
HermBasis(M) == {Ekk(M, k) : k \in 1..M}
                \cup {Esym(M, p[1], p[2]) : p \in {q \in (1..M) \X (1..M) : q[1] < q[2]}}
                \cup {Easym(M, p[1], p[2]) : p \in {q \in (1..M) \X (1..M) : q[1] < q[2]}}
Gram(A) == MatMul(A, ConjT(A))
=============================================================================
