------------------------------- MODULE Layout -------------------------------
(* The order in which training writes a flat gradient vector into a network
   (qucumber.utils.gradients_utils.vector_to_grads over nn.Module.parameters(), C03 "in the same
   parameter order in which training writes gradients into the model"), as the loop it is: a pointer
   walks the vector, every parameter takes the next numel() entries reshaped row-major.

   The flat vector is the identity (entry q holds q), so that the array a parameter receives shows which
   flat indices landed where.  LayoutIsNamedSlots states the result the way spec/GradRBM.tla and
   spec/GradDM.tla use it (SlotName): flat index q is parameter p, row r, column i by closed-form
   offsets.  TraceLayout.tla validates what the real vector_to_grads / parameters_to_vector do. *)
EXTENDS LayoutDefs, FiniteSets, TLC

CONSTANTS Archs          \* set of <<kind, nv, nh, na>>, kind in {"binary", "purif"} (na = 0 for binary)

VARIABLES arch, pc, k, ptr, grads
vars == <<arch, pc, k, ptr, grads>>

Init == /\ arch \in Archs /\ pc = "loop" /\ k = 1 /\ ptr = 0 /\ grads = <<>>

\* param.grad = vec[pointer : pointer + num_param].view(param.size()) ; pointer += num_param
AssignWith(vals) ==
    /\ pc = "loop"
    /\ LET name == Names(arch)[k]
           sh   == Shape(arch, name)
       IN /\ vals = [i \in 1..Numel(sh) |-> ptr + i]
          /\ grads' = Append(grads, [name |-> name, shape |-> sh, vals |-> vals])
          /\ ptr' = ptr + Numel(sh)
    /\ k' = k + 1
    /\ pc' = IF k = Len(Names(arch)) THEN "done" ELSE "loop"
    /\ UNCHANGED arch
Assign == pc = "loop" /\ AssignWith([i \in 1..Numel(Shape(arch, Names(arch)[k])) |-> ptr + i])
Next == Assign
Spec == Init /\ [][Next]_vars

-----------------------------------------------------------------------------
TypeOK == /\ pc \in {"loop", "done"} /\ k \in 1..(Len(Names(arch)) + 1) /\ ptr \in 0..NPars(arch)
          /\ Len(grads) = k - 1
\* what every parameter received is exactly its named slots, row-major
LayoutIsNamedSlots ==
    \A j \in 1..Len(grads) :
      LET g == grads[j]
          rows == IF Len(g.shape) = 1 THEN 1 ELSE g.shape[1]
          cols == IF Len(g.shape) = 1 THEN g.shape[1] ELSE g.shape[2]
      IN \A r \in 1..rows : \A i \in 1..cols : g.vals[(r - 1) * cols + i] = Slot(arch, g.name, r, i)
\* the walk consumes the vector exactly: every flat index lands on exactly one entry of one parameter
Exhaustive ==
    pc = "done" =>
      /\ ptr = NPars(arch)
      /\ \A q \in 1..NPars(arch) :
           Cardinality({<<j, i>> \in (1..Len(grads)) \X (1..NPars(arch)) :
                          i <= Len(grads[j].vals) /\ grads[j].vals[i] = q}) = 1
\* the flat read-back of parameters holding, at (name, r, i), the value Slot(name, r, i): the identity vector
Flat(a) == [q \in 1..NPars(a) |-> q]
=============================================================================
