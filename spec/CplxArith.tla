----------------------------- MODULE CplxArith -----------------------------
(***************************************************************************)
(* Exact complex arithmetic for spec/Cplx.tla.                             *)
(*                                                                         *)
(*   Gaussian integers   z = <<re, im>>            (re, im \in Int)        *)
(*   Gaussian rationals  q = [n |-> <<re, im>>, d |-> den]   (den > 0)     *)
(*                                                                         *)
(* Rationals are NOT normalised (TLC integers are 32 bit; the harness      *)
(* normalises with python fractions); equality of rationals is            *)
(* cross-multiplication.                                                   *)
(***************************************************************************)
EXTENDS Integers, Sequences

CONSTANT Fault      \* "" in every real run; negative controls plant a transcription fault

GZero == <<0, 0>>
GOne  == <<1, 0>>
GI    == <<0, 1>>

GRe(a) == a[1]
GIm(a) == a[2]
GOfInt(n) == <<n, 0>>
GAdd(a, b) == <<a[1] + b[1], a[2] + b[2]>>
GSub(a, b) == <<a[1] - b[1], a[2] - b[2]>>
GNeg(a)    == <<-a[1], -a[2]>>
GConj(a)   == <<a[1], -a[2]>>
\* (a1 + i a2)(b1 + i b2) = (a1 b1 - a2 b2) + i (a1 b2 + a2 b1)
GMul(a, b) == IF Fault = "gmul-sign"
              THEN <<a[1] * b[1] - a[2] * b[2], a[1] * b[2] - a[2] * b[1]>>
              ELSE <<a[1] * b[1] - a[2] * b[2], a[1] * b[2] + a[2] * b[1]>>
GScale(n, a) == <<n * a[1], n * a[2]>>
GNormSq(a) == a[1] * a[1] + a[2] * a[2]
IsG(a) == a \in Int \X Int

RECURSIVE GSumTo(_, _)
GSumTo(s, n) == IF n = 0 THEN GZero ELSE GAdd(GSumTo(s, n - 1), s[n])
GSumSeq(s) == GSumTo(s, Len(s))          \* sum of a sequence of Gaussian integers

RECURSIVE ISumTo(_, _)
ISumTo(s, n) == IF n = 0 THEN 0 ELSE ISumTo(s, n - 1) + s[n]
ISumSeq(s) == ISumTo(s, Len(s))          \* sum of a sequence of integers

RECURSIVE Pow2(_)
Pow2(a) == IF a = 0 THEN 1 ELSE 2 * Pow2(a - 1)        \* a >= 0
\* i^b for any integer b (TLC's % is the floor modulus: (-3) % 4 = 1)
IPow(b) == CASE b % 4 = 0 -> <<1, 0>>
             [] b % 4 = 1 -> <<0, 1>>
             [] b % 4 = 2 -> <<-1, 0>>
             [] b % 4 = 3 -> <<0, -1>>

-----------------------------------------------------------------------------
(* Gaussian rationals *)

QOf(g)      == [n |-> g, d |-> 1]
QOne        == QOf(GOne)
QMul(p, q)  == [n |-> GMul(p.n, q.n), d |-> p.d * q.d]
QAdd(p, q)  == [n |-> GAdd(GScale(q.d, p.n), GScale(p.d, q.n)), d |-> p.d * q.d]
QNeg(p)     == [n |-> GNeg(p.n), d |-> p.d]
QEq(p, q)   == GScale(q.d, p.n) = GScale(p.d, q.n)
\* a / b for Gaussian integers, b # 0:   a conj(b) / |b|^2
QDivG(a, b) == [n |-> GMul(a, GConj(b)), d |-> GNormSq(b)]
QInvG(b)    == IF Fault = "inverse-no-conj" THEN [n |-> b, d |-> GNormSq(b)] ELSE QDivG(GOne, b)
\* p / q for Gaussian rationals, q # 0
QDiv(p, q)  == [n |-> GScale(q.d, GMul(p.n, GConj(q.n))), d |-> p.d * GNormSq(q.n)]
IsQ(p)      == IsG(p.n) /\ p.d \in Nat \ {0}

\* exp(a ln 2 + i b pi/2) = 2^a i^b   as a Gaussian rational
ExpLat(a, b) == IF a >= 0 THEN [n |-> GScale(Pow2(a), IPow(b)), d |-> 1]
                ELSE [n |-> IPow(b), d |-> Pow2(-a)]
\* the pole of the sigmoid: 1 + exp(z) = 0
SigmoidPole(a, b) == a = 0 /\ b % 4 = 2
\* sigmoid(z) = exp(z) / (1 + exp(z))
SigmoidLat(a, b) == LET e == ExpLat(a, b) IN QDiv(e, QAdd(QOne, e))
=============================================================================
