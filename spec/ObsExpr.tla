------------------------------- MODULE ObsExpr -------------------------------
(***************************************************************************)
(* Composite observables (qucumber/observables/observable.py).             *)
(*                                                                         *)
(* A *program* is an arithmetic expression over leaf observables, real     *)
(* scalars and (to exercise the rejection paths) non-numeric operands,     *)
(* written with Python's unary minus, +, - and *.  The state machine below *)
(* is the Python evaluator seen as a stack machine (LOAD / UNARY_NEGATIVE /*)
(* BINARY_OP work on an operand stack; the left operand of a binary        *)
(* operator is evaluated before the right one, the operator last), so the  *)
(* state graph of `Grow` enumerates every expression tree up to MaxDepth   *)
(* exactly once (a tree is the single cell of a one-cell stack).           *)
(*                                                                         *)
(* Two independent readings of a tree e are related by the invariants:     *)
(*   * Eval(e)  - ordinary arithmetic: the linear form c0 + cA*A + ... the *)
(*                expression denotes (exact rationals); NonLinear(e) - the *)
(*                expression multiplies two observables or has a           *)
(*                non-numeric operand somewhere;                           *)
(*   * Build(e) - what Python + the library construct: binary-operator     *)
(*                dispatch (obs op x -> __op__, x op obs -> __rop__,       *)
(*                num op num -> plain Python), the bodies of the overloads *)
(*                (observable.py:57-78) and the constructors' checks       *)
(*                (observable.py:256-314); Apply(v) - SumObservable.apply  *)
(*                and ProdObservable.apply (observable.py:275-287, 316-317)*)
(*                on the built object.                                     *)
(***************************************************************************)
EXTENDS Integers, Sequences, FiniteSets, TLC

CONSTANTS Leaves,      \* sequence of leaf-observable names, e.g. <<"A", "B", "C">>
          Scalars,     \* set of rationals <<num, den>> usable as scalar atoms
          Bads,        \* set of non-numeric operand kinds, e.g. {"str", "none"}
          MaxDepth,    \* depth bound on trees (an atom has depth 1)
          MaxStack,    \* bound on the operand stack
          Bound,       \* magnitude bound on numerators / denominators of coefficients
          FirstAtoms,  \* shard: atoms allowed as the first LOAD (the leftmost atom of the tree)
          Variant      \* "code" = the library as written; other values are seeded faults used as
                       \* negative controls (the invariants must then FAIL)

VARIABLES stack        \* operand stack of expression trees (syntax only)

-----------------------------------------------------------------------------
(* Exact rationals <<n, d>>, d > 0, gcd(n, d) = 1 *)

Abs(x) == IF x < 0 THEN -x ELSE x
Max(a, b) == IF a < b THEN b ELSE a
RECURSIVE GCD(_, _)
GCD(a, b) == IF b = 0 THEN a ELSE GCD(b, a % b)
Norm(n, d) == LET g == GCD(Abs(n), d) IN <<n \div g, d \div g>>
RZero == <<0, 1>>
ROne  == <<1, 1>>
RMinusOne == <<-1, 1>>
RAdd(p, q) == Norm((p[1] * q[2]) + (q[1] * p[2]), p[2] * q[2])
RNeg(p)    == <<-p[1], p[2]>>
RSub(p, q) == RAdd(p, RNeg(q))
RMul(p, q) == Norm(p[1] * q[1], p[2] * q[2])
RAbs(p)    == <<Abs(p[1]), p[2]>>
IsRat(p)   == p[2] > 0 /\ GCD(Abs(p[1]), p[2]) = 1

(* Linear forms over the leaves: index 1 is the constant term, 1 + i the coefficient of Leaves[i] *)
NL  == Len(Leaves)
Dim == NL + 1
LeafIdx(n)   == CHOOSE i \in 1..NL : Leaves[i] = n
LZero        == [i \in 1..Dim |-> RZero]
LConst(q)    == [i \in 1..Dim |-> IF i = 1 THEN q ELSE RZero]
LUnit(n)     == [i \in 1..Dim |-> IF i = 1 + LeafIdx(n) THEN ROne ELSE RZero]
LAdd(u, v)   == [i \in 1..Dim |-> RAdd(u[i], v[i])]
LScale(q, v) == [i \in 1..Dim |-> RMul(q, v[i])]
LNeg(v)      == LScale(RMinusOne, v)
LSub(u, v)   == LAdd(u, LNeg(v))
Small(v)     == \A i \in 1..Dim : Abs(v[i][1]) <= Bound /\ v[i][2] <= Bound

-----------------------------------------------------------------------------
(* Expression trees (syntax) *)

Leaf(n)       == [t |-> "leaf", n |-> n]
Num(q)        == [t |-> "num", q |-> q]
Bad(k)        == [t |-> "bad", k |-> k]
Neg(a)        == [t |-> "neg", a |-> a]
Bin(op, l, r) == [t |-> op, l |-> l, r |-> r]
Add(l, r)     == Bin("add", l, r)
Sub(l, r)     == Bin("sub", l, r)
Mul(l, r)     == Bin("mul", l, r)
Ops           == {"add", "sub", "mul"}
AtomTags      == {"leaf", "num", "bad"}
LeafAtoms     == {Leaf(Leaves[i]) : i \in 1..NL}
NumAtoms      == {Num(q) : q \in Scalars}
BadAtoms      == {Bad(k) : k \in Bads}

RECURSIVE Depth(_)
Depth(e) == CASE e.t \in AtomTags -> 1
              [] e.t = "neg"      -> 1 + Depth(e.a)
              [] OTHER            -> 1 + Max(Depth(e.l), Depth(e.r))

(* What an expression is, read as arithmetic: an observable-valued expression, a number, a bare
   non-numeric atom; "outside" marks combinations that never reach the library (num op bad ...) and
   are excluded from the programs by the guards of Grow. *)
RECURSIVE Kind(_)
Kind(e) == CASE e.t = "leaf" -> "obs"
             [] e.t = "num"  -> "num"
             [] e.t = "bad"  -> "bad"
             [] e.t = "neg"  -> IF Kind(e.a) = "bad" THEN "outside" ELSE Kind(e.a)
             [] OTHER        -> LET kl == Kind(e.l)  kr == Kind(e.r) IN
                                IF kl = "outside" \/ kr = "outside" THEN "outside"
                                ELSE IF kl = "obs" \/ kr = "obs" THEN "obs"
                                ELSE IF kl = "num" /\ kr = "num" THEN "num"
                                ELSE "outside"

(* The property's rejection clause, stated on the syntax alone: somewhere in the expression two
   observables are multiplied, or an operator has a non-numeric operand. *)
RECURSIVE NonLinear(_)
NonLinear(e) == CASE e.t \in AtomTags -> FALSE
                  [] e.t = "neg"      -> NonLinear(e.a)
                  [] OTHER            -> \/ NonLinear(e.l) \/ NonLinear(e.r)
                                         \/ e.l.t = "bad" \/ e.r.t = "bad"
                                         \/ (e.t = "mul" /\ Kind(e.l) = "obs" /\ Kind(e.r) = "obs")

(* Which documented exception: that of the first offending operator in Python's evaluation order
   (left operand, right operand, operator).  non-numeric operand -> TypeError, obs*obs -> ValueError. *)
RECURSIVE Fault(_)
Fault(e) == CASE e.t \in AtomTags -> "none"
              [] e.t = "neg"      -> Fault(e.a)
              [] OTHER            -> IF Fault(e.l) # "none" THEN Fault(e.l)
                                     ELSE IF Fault(e.r) # "none" THEN Fault(e.r)
                                     ELSE IF e.l.t = "bad" \/ e.r.t = "bad" THEN "TypeError"
                                     ELSE IF e.t = "mul" /\ Kind(e.l) = "obs" /\ Kind(e.r) = "obs" THEN "ValueError"
                                     ELSE "none"

(* Arithmetic meaning of a linear expression (only used when ~NonLinear(e) and Kind(e) is obs/num) *)
RECURSIVE Eval(_)
Eval(e) == CASE e.t = "leaf" -> LUnit(e.n)
             [] e.t = "num"  -> LConst(e.q)
             [] e.t = "neg"  -> LNeg(Eval(e.a))
             [] e.t = "add"  -> LAdd(Eval(e.l), Eval(e.r))
             [] e.t = "sub"  -> LSub(Eval(e.l), Eval(e.r))
             [] e.t = "mul"  -> IF Kind(e.l) = "num" THEN LScale(Eval(e.l)[1], Eval(e.r))
                                ELSE LScale(Eval(e.r)[1], Eval(e.l))

(* Magnitude form: the same recursion with absolute values; bounds every intermediate value of
   any evaluation order, exported so that the harness can scale its floating-point tolerance. *)
RECURSIVE Mag(_)
Mag(e) == CASE e.t = "leaf" -> LUnit(e.n)
            [] e.t = "num"  -> LConst(RAbs(e.q))
            [] e.t = "neg"  -> Mag(e.a)
            [] e.t \in {"add", "sub"} -> LAdd(Mag(e.l), Mag(e.r))
            [] e.t = "mul"  -> IF Kind(e.l) = "num" THEN LScale(RAbs(Eval(e.l)[1]), Mag(e.r))
                               ELSE LScale(RAbs(Eval(e.r)[1]), Mag(e.l))

Linear(e) == ~NonLinear(e) /\ Kind(e) \in {"obs", "num"}

-----------------------------------------------------------------------------
(* Python values the evaluation produces *)

VLeaf(n)    == [c |-> "Leaf", n |-> n]                        \* a built-in observable instance
VNum(q)     == [c |-> "Num", q |-> q]                         \* int / float (incl. subclasses)
VBad(k)     == [c |-> "Bad", k |-> k]                         \* str / None
VSum(l, r)  == [c |-> "Sum", left |-> l, right |-> r]         \* SumObservable
VProd(l, r) == [c |-> "Prod", left |-> l, right |-> r]        \* ProdObservable
VErr(x)     == [c |-> "Err", x |-> x]                         \* exception raised while evaluating
VOutside    == [c |-> "Outside"]                              \* plain Python on non-library operands

IsObsV(v) == v.c \in {"Leaf", "Sum", "Prod"}   \* isinstance(v, ObservableBase)
IsNumV(v) == v.c = "Num"                       \* isinstance(v, (float, int))
IsErr(v)  == v.c = "Err"
TypeOKV(v) == IsObsV(v) \/ IsNumV(v)           \* isinstance(v, (float, int, ObservableBase))

(* SumObservable.__init__ (observable.py:257-264) *)
SumCtor(o1, o2) ==
    IF ~TypeOKV(o1) THEN VErr("TypeError")
    ELSE IF ~TypeOKV(o2) THEN VErr("TypeError")
    ELSE VSum(o1, o2)

(* ProdObservable.__init__ (observable.py:291-305): the scalar goes to .left, the observable to .right *)
ProdCtor(o1, o2) ==
    IF ~TypeOKV(o1) THEN VErr("TypeError")
    ELSE IF ~TypeOKV(o2) THEN VErr("TypeError")
    ELSE IF IsNumV(o1) /\ IsObsV(o2) THEN VProd(o1, o2)
    ELSE IF IsNumV(o2) /\ IsObsV(o1) THEN VProd(o2, o1)
    ELSE IF Variant = "prod-accepts-two-observables" /\ IsObsV(o1) /\ IsObsV(o2) THEN VProd(o1, o2)
    ELSE VErr("ValueError")

(* ObservableBase.__neg__ (observable.py:57-60) *)
ObsNeg(self) == ProdCtor(self, VNum(IF Variant = "neg-plus-one" THEN ROne ELSE RMinusOne))

(* Python's unary minus: numbers negate, observables dispatch to __neg__, str / None raise TypeError *)
PyNeg(v) == IF IsNumV(v) THEN VNum(RNeg(v.q))
            ELSE IF IsObsV(v) THEN ObsNeg(v)
            ELSE VErr("TypeError")

(* The overloads (observable.py:62-78).  Arguments are evaluated before the constructor runs. *)
ObsAdd(self, other)  == SumCtor(self, other)
ObsSub(self, other)  == LET n == PyNeg(IF Variant = "sub-negates-self" THEN self ELSE other) IN
                        IF IsErr(n) THEN n
                        ELSE IF Variant = "sub-negates-self" THEN SumCtor(n, other)
                        ELSE SumCtor(self, n)
ObsMul(self, other)  == ProdCtor(self, other)
ObsRAdd(self, other) == SumCtor(other, self)
ObsRSub(self, other) == IF Variant = "rsub-swapped"
                        THEN (LET n == PyNeg(other) IN IF IsErr(n) THEN n ELSE SumCtor(self, n))
                        ELSE (LET n == PyNeg(self) IN IF IsErr(n) THEN n ELSE SumCtor(other, n))
ObsRMul(self, other) == ProdCtor(other, self)

NumArith(op, p, q) == CASE op = "add" -> RAdd(p, q) [] op = "sub" -> RSub(p, q) [] op = "mul" -> RMul(p, q)

(* Python's binary-operator dispatch for `l op r` on already evaluated operands.
     - l is an observable: type(l).__op__(l, r) is called and never returns NotImplemented;
     - otherwise, r is an observable: l is an int / float / str / None whose own method declines
       (NotImplemented), so the reflected method type(r).__rop__(r, l) is called
       (numpy.float64 reaches the same reflected call through its object fallback);
     - both numbers: plain Python arithmetic, the library is not involved;
     - anything else never reaches the library ("Outside").
   The "right operand's type is a subclass of the left operand's type" priority rule cannot apply:
   no built-in or composite observable class derives from another concrete one. *)
PyBin(op, l, r) ==
    IF IsObsV(l) THEN
        CASE op = "add" -> ObsAdd(l, r) [] op = "sub" -> ObsSub(l, r) [] op = "mul" -> ObsMul(l, r)
    ELSE IF IsObsV(r) THEN
        CASE op = "add" -> ObsRAdd(r, l) [] op = "sub" -> ObsRSub(r, l) [] op = "mul" -> ObsRMul(r, l)
    ELSE IF IsNumV(l) /\ IsNumV(r) THEN VNum(NumArith(op, l.q, r.q))
    ELSE VOutside

(* Evaluation of an expression: exceptions propagate, left operand first *)
RECURSIVE Build(_)
Build(e) == CASE e.t = "leaf" -> VLeaf(e.n)
              [] e.t = "num"  -> VNum(e.q)
              [] e.t = "bad"  -> VBad(e.k)
              [] e.t = "neg"  -> LET a == Build(e.a) IN IF IsErr(a) THEN a ELSE PyNeg(a)
              [] OTHER        -> LET l == Build(e.l) IN
                                 IF IsErr(l) THEN l
                                 ELSE LET r == Build(e.r) IN
                                      IF IsErr(r) THEN r ELSE PyBin(e.t, l, r)

(* apply() of a built observable as a linear form in the per-sample values of the leaves.
   SumObservable.apply (observable.py:275-287): result = 0.0; scalars are added first, then the
   applied observables.  ProdObservable.apply (observable.py:316-317): left * right.apply(). *)
RECURSIVE Apply(_)
Apply(v) ==
    CASE v.c = "Leaf" -> LUnit(v.n)
      [] v.c = "Sum"  ->
           LET s1 == IF IsNumV(v.left) THEN LConst(v.left.q) ELSE LZero
               s2 == IF IsNumV(v.right)
                     THEN (IF Variant = "sum-drops-right-scalar" THEN LZero ELSE LConst(v.right.q))
                     ELSE LZero
               a1 == IF IsObsV(v.left) THEN Apply(v.left) ELSE LZero
               a2 == IF IsObsV(v.right) THEN Apply(v.right) ELSE LZero
           IN LAdd(LAdd(LAdd(s1, s2), a1), a2)
      [] v.c = "Prod" -> LScale(v.left.q, Apply(v.right))
EvalB(v) == Apply(v)

(* Structural facts about built objects: a product holds its scalar on the left and an observable
   on the right; a sum holds numbers / observables with at least one observable. *)
RECURSIVE ShapeOK(_)
ShapeOK(v) == CASE v.c = "Leaf" -> v.n \in {Leaves[i] : i \in 1..NL}
                [] v.c = "Num"  -> IsRat(v.q)
                [] v.c = "Sum"  -> /\ TypeOKV(v.left) /\ TypeOKV(v.right)
                                   /\ (IsObsV(v.left) \/ IsObsV(v.right))
                                   /\ ShapeOK(v.left) /\ ShapeOK(v.right)
                [] v.c = "Prod" -> IsNumV(v.left) /\ IsObsV(v.right) /\ ShapeOK(v.left) /\ ShapeOK(v.right)
                [] OTHER        -> FALSE

-----------------------------------------------------------------------------
(* The program generator *)

Top == stack[Len(stack)]

(* minimal depth of the single tree the stack can still collapse into *)
RECURSIVE NeedAt(_, _)
NeedAt(s, i) == IF i = Len(s) THEN Depth(s[i]) ELSE 1 + Max(Depth(s[i]), NeedAt(s, i + 1))
Need(s) == IF Len(s) = 0 THEN 0 ELSE NeedAt(s, 1)
Fits(s) == Len(s) <= MaxStack /\ Need(s) <= MaxDepth

(* a non-numeric atom is only ever the direct operand of an operator whose other operand is an
   observable expression - every other use is plain Python and not the library's business *)
CanPair(l, r) == /\ Kind(l) # "outside" /\ Kind(r) # "outside"
                 /\ (l.t = "bad" => Kind(r) = "obs")
                 /\ (r.t = "bad" => Kind(l) = "obs")

(* coefficients stay small: no 32-bit overflow inside TLC, exact binary floating point in Python *)
SmallTree(e) == Linear(e) => Small(Eval(e)) /\ Small(Mag(e))

Init == \E a \in FirstAtoms : stack = <<a>>

Load(a) ==
    LET s == Append(stack, a) IN
    /\ Fits(s)
    /\ (a.t = "bad" => Kind(Top) = "obs")
    /\ stack' = s

Negate ==
    LET n == Len(stack)
        e == Neg(Top)
        s == [stack EXCEPT ![n] = e] IN
    /\ Top.t # "bad"
    /\ Fits(s)
    /\ stack' = s

Binary(op) ==
    /\ Len(stack) >= 2
    /\ LET n == Len(stack)
           l == stack[n - 1]
           r == stack[n]
           e == Bin(op, l, r)
           s == Append(SubSeq(stack, 1, n - 2), e) IN
       /\ CanPair(l, r)
       /\ Fits(s)
       /\ SmallTree(e)
       /\ stack' = s

Grow == \/ \E a \in LeafAtoms \cup NumAtoms \cup BadAtoms : Load(a)
        \/ Negate
        \/ \E op \in Ops : Binary(op)
Next == Grow

-----------------------------------------------------------------------------
(* Invariants.  Every cell of the stack was the top of an earlier state, so they look at Top. *)

Complete == Len(stack) = 1

TypeOK == /\ Len(stack) \in 1..MaxStack
          /\ Need(stack) <= MaxDepth
          /\ \A i \in 1..Len(stack) : Kind(stack[i]) # "outside"

InScope == Build(Top).c # "Outside" /\ (Build(Top).c = "Bad" <=> Top.t = "bad")

(* Rejected(e): evaluating the expression raises *)
Rejected(e) == IsErr(Build(e))

(* non-linear combinations, and only those, are rejected when built - with the documented exception *)
RejectedIffNonLinear ==
    LET e == Top  b == Build(e) IN
    /\ Rejected(e) <=> NonLinear(e)
    /\ NonLinear(e) <=> Fault(e) # "none"
    /\ IsErr(b) => b.x = Fault(e)

(* the object the overloads construct evaluates to the arithmetic meaning of the expression *)
OverloadsAreArithmetic ==
    LET e == Top  b == Build(e) IN
    Linear(e) =>
        /\ (Kind(e) = "obs") <=> IsObsV(b)
        /\ (Kind(e) = "num") <=> IsNumV(b)
        /\ IsObsV(b) => EvalB(b) = Eval(e)
        /\ IsNumV(b) => LConst(b.q) = Eval(e)

BuiltShape == LET b == Build(Top) IN (IsObsV(b) \/ IsNumV(b)) => ShapeOK(b)

(* linearity laws on the built objects alone (no reference to Eval) *)
ObsTree(e) == Linear(e) /\ Kind(e) = "obs"
A(e) == Apply(Build(e))
Linearity ==
    /\ ObsTree(Top) /\ Depth(Top) < MaxDepth =>
         /\ A(Neg(Top)) = LNeg(A(Top))
         /\ A(Neg(Neg(Top))) = A(Top)
         /\ \A q \in Scalars :
              /\ A(Mul(Num(q), Top)) = LScale(q, A(Top))
              /\ A(Mul(Top, Num(q))) = LScale(q, A(Top))
              /\ A(Add(Top, Num(q))) = LAdd(A(Top), LConst(q))
              /\ A(Add(Num(q), Top)) = LAdd(A(Top), LConst(q))
              /\ A(Sub(Top, Num(q))) = LSub(A(Top), LConst(q))
              /\ A(Sub(Num(q), Top)) = LSub(LConst(q), A(Top))
    /\ Len(stack) >= 2 =>
         LET l == stack[Len(stack) - 1]  r == stack[Len(stack)] IN
         ObsTree(l) /\ ObsTree(r) /\ Max(Depth(l), Depth(r)) < MaxDepth =>
           /\ A(Add(l, r)) = LAdd(A(l), A(r))
           /\ A(Sub(l, r)) = LSub(A(l), A(r))
           /\ A(Sub(l, r)) = LNeg(A(Sub(r, l)))
           /\ A(Sub(l, r)) = A(Add(l, Neg(r)))
           /\ Rejected(Mul(l, r))

(* what the harness replays: one record per complete program *)
Record(e) == [e |-> e, depth |-> Depth(e), kind |-> Kind(e),
              fault |-> Fault(e), build |-> Build(e),
              lin |-> IF Linear(e) THEN Eval(e) ELSE <<>>,
              mag |-> IF Linear(e) THEN Mag(e) ELSE <<>>]
=============================================================================
