-------------------------------- MODULE Cplx --------------------------------
(***************************************************************************)
(* The complex-tensor kernel qucumber/utils/cplx.py as mathematics.        *)
(*                                                                         *)
(* A complex tensor is [shape |-> s, val |-> v]: s a sequence of           *)
(* dimensions, v the entries in row-major order, each a Gaussian integer   *)
(* <<re, im>> (CplxArith).  Indices are 0-based sequences.  The library    *)
(* stores such a tensor as a REAL tensor with one extra leading axis of    *)
(* size 2 (index 0 = real parts, 1 = imaginary parts): Encode / Decode.    *)
(*                                                                         *)
(* For every library function there is                                     *)
(*   - an entry of Defined(op, shapes, opt): "ok" on the documented shape  *)
(*     classes, the documented exception ("ValueError", "RuntimeError"),   *)
(*     "error" (some exception, class not documented) or "unjudged";       *)
(*   - its value by the textbook index formula.                            *)
(* The state machine is trivial (Init picks a shard = function + shapes +  *)
(* operand family, Pick picks the operands); what TLC decides are the      *)
(* algebraic laws at the end of the module on every case, and it exports   *)
(* every case with its exact expected value for the replay into the code.  *)
(***************************************************************************)
EXTENDS Integers, Sequences, FiniteSets, TLC, CplxArith

CONSTANTS Seeds,    \* seeds of the generic tensors (set of naturals)
          UMax,     \* shapes with <= UMax entries get every unit tensor e_k, i e_k; larger ones 3 positions
          Big,      \* BOOLEAN: thorough tier (larger shape families)
          OnlyOps   \* {} = every function; otherwise only the shards of these (negative controls)

VARIABLES pc, cs
vars == <<pc, cs>>

-----------------------------------------------------------------------------
(* Shapes, indices, tensors *)

Max(a, b) == IF a >= b THEN a ELSE b
Range(s) == {s[i] : i \in 1..Len(s)}

RECURSIVE Prod(_)
Prod(s) == IF Len(s) = 0 THEN 1 ELSE s[1] * Prod(Tail(s))
Size(sh) == Prod(sh)
Rank(t) == Len(t.shape)

\* row-major offset (0-based) of the 0-based multi-index ix in a tensor of shape sh, and back
RECURSIVE FlatH(_, _, _)
FlatH(sh, ix, d) == IF d = 0 THEN 0 ELSE FlatH(sh, ix, d - 1) * sh[d] + ix[d]
Flat(sh, ix) == FlatH(sh, ix, Len(sh))
Stride(sh, d) == Prod(SubSeq(sh, d + 1, Len(sh)))
Unflat(sh, k) == [d \in 1..Len(sh) |-> (k \div Stride(sh, d)) % sh[d]]

At(t, ix) == t.val[Flat(t.shape, ix) + 1]
Mk(sh, F(_)) == [shape |-> sh, val |-> [k \in 1..Size(sh) |-> F(Unflat(sh, k - 1))]]
Scalar(g) == [shape |-> <<>>, val |-> <<g>>]
Reshape(t, sh) == [shape |-> sh, val |-> t.val]          \* Size(sh) = Size(t.shape)
Map(t, F(_)) == [shape |-> t.shape, val |-> [k \in 1..Len(t.val) |-> F(t.val[k])]]
Add(x, y) == [shape |-> x.shape, val |-> [k \in 1..Len(x.val) |-> GAdd(x.val[k], y.val[k])]]
WellFormed(t) == /\ \A d \in 1..Len(t.shape) : t.shape[d] \in Nat \ {0}
                 /\ Len(t.val) = Size(t.shape)

(* The library's real-pair encoding: a real tensor of shape <<2>> \o shape *)
Encode(t) == LET n == Len(t.val) IN
    [shape |-> <<2>> \o t.shape,
     val   |-> [k \in 1..(2 * n) |-> IF k <= n THEN t.val[k][1] ELSE t.val[k - n][2]]]
Decode(r) == LET n == Len(r.val) \div 2 IN
    [shape |-> Tail(r.shape), val |-> [k \in 1..n |-> <<r.val[k], r.val[n + k]>>]]
\* r[c, ...] for a real tensor r (c = 0, 1)
Slice0(r, c) == LET n == Len(r.val) \div r.shape[1] IN
    [shape |-> Tail(r.shape), val |-> [k \in 1..n |-> r.val[c * n + k]]]
FromReal(r) == [shape |-> r.shape, val |-> [k \in 1..Len(r.val) |-> <<r.val[k], 0>>]]

-----------------------------------------------------------------------------
(* make_complex / numpy / real / imag *)

\* make_complex(x, y): x + i y for real tensors of one shape; make_complex(x): imaginary part zero;
\* make_complex(numpy complex array): the same complex tensor.  numpy(x): the complex array itself.
MakeComplex(re, im) == [shape |-> re.shape, val |-> [k \in 1..Len(re.val) |-> <<re.val[k], im.val[k]>>]]
MakeComplex1(re)    == FromReal(re)
RealPart(x) == Slice0(Encode(x), 0)        \* x[0, ...] of the encoding
ImagPart(x) == Slice0(Encode(x), 1)        \* x[1, ...]

-----------------------------------------------------------------------------
(* scalar_mult / elementwise_mult: product with (numpy-style, right aligned) broadcasting; the documented
   classes are scalar * tensor, tensor * scalar and equal shapes *)

Pad(s, r) == [d \in 1..r |-> IF d <= r - Len(s) THEN 1 ELSE s[d - (r - Len(s))]]
BCompat(sx, sy) == LET r == Max(Len(sx), Len(sy)) IN
    \A d \in 1..r : Pad(sx, r)[d] = Pad(sy, r)[d] \/ Pad(sx, r)[d] = 1 \/ Pad(sy, r)[d] = 1
BShape(sx, sy) == LET r == Max(Len(sx), Len(sy)) IN [d \in 1..r |-> Max(Pad(sx, r)[d], Pad(sy, r)[d])]
BIdx(s, ix) == [d \in 1..Len(s) |-> IF s[d] = 1 THEN 0 ELSE ix[d + Len(ix) - Len(s)]]
ScalarMult(x, y) == Mk(BShape(x.shape, y.shape),
                       LAMBDA ix : GMul(At(x, BIdx(x.shape, ix)), At(y, BIdx(y.shape, ix))))
ClsSM(sx, sy) == IF sx = <<>> /\ sy = <<>> THEN "scalar*scalar"
                 ELSE IF sx = <<>> THEN "scalar*tensor"
                 ELSE IF sy = <<>> THEN "tensor*scalar"
                 ELSE IF sx = sy THEN "equal-shapes"
                 ELSE IF BCompat(sx, sy) THEN "broadcast" ELSE "incompatible"

-----------------------------------------------------------------------------
(* matmul: matrix . matrix and matrix . vector *)

MatMulDefined(sx, sy) == Len(sx) = 2 /\ Len(sy) \in {1, 2} /\ sx[2] = sy[1]
MatMul(x, y) ==
    IF Rank(y) = 2
    THEN Mk(<<x.shape[1], y.shape[2]>>,
            LAMBDA ix : GSumSeq([k \in 1..x.shape[2] |-> GMul(At(x, <<ix[1], k - 1>>), At(y, <<k - 1, ix[2]>>))]))
    ELSE Mk(<<x.shape[1]>>,
            LAMBDA ix : GSumSeq([k \in 1..x.shape[2] |-> GMul(At(x, <<ix[1], k - 1>>), At(y, <<k - 1>>))]))

-----------------------------------------------------------------------------
(* inner_prod <x|y> = sum_k conj(x_k) y_k (vectors), conj(x) y (scalars); outer_prod |x><y| *)

InnerProd(x, y) ==
    IF Fault = "inner-conj-side"
    THEN Scalar(GSumSeq([k \in 1..Len(x.val) |-> GMul(x.val[k], GConj(y.val[k]))]))
    ELSE Scalar(GSumSeq([k \in 1..Len(x.val) |-> GMul(GConj(x.val[k]), y.val[k])]))

OuterProd(x, y) ==
    IF Fault = "outer-conj-side"
    THEN Mk(<<x.shape[1], y.shape[1]>>, LAMBDA ix : GMul(GConj(x.val[ix[1] + 1]), y.val[ix[2] + 1]))
    ELSE Mk(<<x.shape[1], y.shape[1]>>, LAMBDA ix : GMul(x.val[ix[1] + 1], GConj(y.val[ix[2] + 1])))

-----------------------------------------------------------------------------
(* einsum: interpreter over index-name sequences.  ia, ib, io: the index names of the two operands and of
   the result.  Names in io are free (or batch: present in both operands), all others are summed. *)

InSeq(s, n) == \E i \in 1..Len(s) : s[i] = n
Pos(s, n) == CHOOSE i \in 1..Len(s) : s[i] = n /\ \A j \in 1..(i - 1) : s[j] # n
RECURSIVE Dedup(_)
Dedup(s) == IF Len(s) = 0 THEN <<>>
            ELSE LET r == Dedup(SubSeq(s, 1, Len(s) - 1)) IN
                 IF InSeq(r, s[Len(s)]) THEN r ELSE Append(r, s[Len(s)])
RECURSIVE Without(_, _)
Without(s, o) == IF Len(s) = 0 THEN <<>>
                 ELSE IF InSeq(o, s[1]) THEN Without(Tail(s), o) ELSE <<s[1]>> \o Without(Tail(s), o)

EinsumDefined(ia, ib, io, sa, sb) ==
    /\ Len(ia) = Len(sa) /\ Len(ib) = Len(sb)
    /\ \A i, j \in 1..Len(ia) : ia[i] = ia[j] => sa[i] = sa[j]
    /\ \A i, j \in 1..Len(ib) : ib[i] = ib[j] => sb[i] = sb[j]
    /\ \A i \in 1..Len(ia), j \in 1..Len(ib) : ia[i] = ib[j] => sa[i] = sb[j]
    /\ \A k \in 1..Len(io) : InSeq(ia \o ib, io[k])
    /\ \A k, l \in 1..Len(io) : k # l => io[k] # io[l]

Einsum(ia, ib, io, a, b) ==
    LET DimOf(n) == IF InSeq(ia, n) THEN a.shape[Pos(ia, n)] ELSE b.shape[Pos(ib, n)]
        sn     == Dedup(Without(ia \o ib, io))                 \* summed names, in order of appearance
        oshape == [k \in 1..Len(io) |-> DimOf(io[k])]
        sdims  == [k \in 1..Len(sn) |-> DimOf(sn[k])]
        Look(n, ox, sx) == IF InSeq(io, n) THEN ox[Pos(io, n)] ELSE sx[Pos(sn, n)]
        Term(ox, sx) == GMul(At(a, [i \in 1..Len(ia) |-> Look(ia[i], ox, sx)]),
                             At(b, [i \in 1..Len(ib) |-> Look(ib[i], ox, sx)]))
    IN Mk(oshape, LAMBDA ox : GSumSeq([t \in 1..Prod(sdims) |-> Term(ox, Unflat(sdims, t - 1))]))

-----------------------------------------------------------------------------
(* kronecker_prod: out[a C + c, b D + d] = x[a, b] y[c, d] for x : A x B, y : C x D *)

Kron(x, y) ==
    LET A == x.shape[1]  B == x.shape[2]  C == y.shape[1]  D == y.shape[2] IN
    IF Fault = "kron-no-interleave"       \* out[a B + b, c D + d] reshaped: the "ab,cd->abcd" mistake
    THEN Reshape(Mk(<<A, B, C, D>>, LAMBDA ix : GMul(At(x, <<ix[1], ix[2]>>), At(y, <<ix[3], ix[4]>>))),
                 <<A * C, B * D>>)
    ELSE Mk(<<A * C, B * D>>,
            LAMBDA ix : GMul(At(x, <<ix[1] \div C, ix[2] \div D>>), At(y, <<ix[1] % C, ix[2] % D>>)))

-----------------------------------------------------------------------------
(* conj: elementwise; conjugate: conjugate transpose - rank >= 2 swaps the first two axes *)

Conj(x) == Map(x, GConj)
Swap12(s) == [d \in 1..Len(s) |-> IF d = 1 THEN s[2] ELSE IF d = 2 THEN s[1] ELSE s[d]]
Conjugate(x) == IF Rank(x) < 2 \/ Fault = "conjugate-no-swap" THEN Conj(x)
                ELSE Mk(Swap12(x.shape), LAMBDA ix : GConj(At(x, Swap12(ix))))

-----------------------------------------------------------------------------
(* division-type results: tensors of Gaussian rationals *)

Inverse(z) == Map(z, QInvG)                                             \* entries # 0
ElementwiseDivision(x, y) ==
    [shape |-> x.shape, val |-> [k \in 1..Len(x.val) |-> QDivG(x.val[k], y.val[k])]]
\* scalar_divide: y a scalar (divides every entry) or of the shape of x (elementwise)
ScalarDivide(x, y) ==
    [shape |-> x.shape,
     val |-> [k \in 1..Len(x.val) |-> QDivG(x.val[k], IF y.shape = <<>> THEN y.val[1] ELSE y.val[k])]]
\* complex sigmoid on the lattice x = a ln 2, y = b pi/2 (la, lb: integer tensors of one shape)
Sigmoid(la, lb) == [shape |-> la.shape, val |-> [k \in 1..Len(la.val) |-> SigmoidLat(la.val[k], lb.val[k])]]

(* modulus-type results: the SQUARE is exported (an integer); the harness takes the root *)
AbsSq(x) == [shape |-> x.shape, val |-> [k \in 1..Len(x.val) |-> GNormSq(x.val[k])]]
NormSqr(x) == [shape |-> <<>>, val |-> <<ISumSeq([k \in 1..Len(x.val) |-> GNormSq(x.val[k])])>>]

-----------------------------------------------------------------------------
(* Defined(op, shapes, opt).  sh: sequence of operand shapes, opt: sequence of sequences of strings
   (opt[1] = operand families, then op-specific options) *)

UnaryAny == {"conj", "conjugate", "absolute_value", "real", "imag", "numpy", "make_complex1",
             "make_complex_np", "inverse"}
LawOps == {"law_inner", "law_kron"}

Defined(op, sh, opt) ==
    CASE op \in UnaryAny \cup LawOps -> "ok"
      [] op = "make_complex2" -> IF sh[1] = sh[2] THEN "ok" ELSE "RuntimeError"
      [] op = "scalar_mult" -> IF opt[2][1] \in {"x", "y"} THEN "RuntimeError"       \* out is x / out is y
                               ELSE IF BCompat(sh[1], sh[2]) THEN "ok" ELSE "unjudged"
      [] op = "elementwise_mult" -> IF sh[1] = sh[2] THEN "ok" ELSE "unjudged"
      [] op = "matmul" -> IF Len(sh[1]) = 2 /\ Len(sh[2]) \in {1, 2}
                          THEN (IF sh[1][2] = sh[2][1] THEN "ok" ELSE "error")
                          ELSE "unjudged"                \* vector first: unsupported by convention (docstring)
      [] op = "inner_prod" -> IF Len(sh[1]) = 0 /\ Len(sh[2]) = 0 THEN "ok"
                              ELSE IF Len(sh[1]) = 1 /\ Len(sh[2]) = 1
                                   THEN (IF sh[1] = sh[2] THEN "ok" ELSE "error")
                                   ELSE "ValueError"
      [] op = "outer_prod" -> IF Len(sh[1]) = 1 /\ Len(sh[2]) = 1 THEN "ok" ELSE "ValueError"
      [] op = "kronecker_prod" -> IF Len(sh[1]) = 2 /\ Len(sh[2]) = 2 THEN "ok" ELSE "ValueError"
      [] op \in {"einsum", "pair_einsum"} ->
            IF EinsumDefined(opt[2], opt[3], opt[4], sh[1], sh[2]) THEN "ok" ELSE "unjudged"
      [] op = "elementwise_division" -> IF sh[1] = sh[2] THEN "ok" ELSE "ValueError"
      [] op = "scalar_divide" -> IF sh[2] = <<>> \/ sh[1] = sh[2] THEN "ok" ELSE "unjudged"
      [] op = "sigmoid" -> IF sh[1] = sh[2] THEN "ok" ELSE "unjudged"
      [] op \in {"norm_sqr", "norm"} -> IF sh[1] = <<>> THEN "ok" ELSE "unjudged"   \* "a complex scalar"

Cls(op, sh) ==
    CASE op \in {"scalar_mult", "elementwise_mult"} -> ClsSM(sh[1], sh[2])
      [] op = "matmul" -> IF Len(sh[2]) = 2 THEN "matrix.matrix" ELSE "matrix.vector"
      [] OTHER -> "rank" \o ToString(Len(sh[1]))

\* kind of the result: "g" complex tensor of Gaussian integers, "r" real integer tensor, "q" complex tensor of
\* Gaussian rationals, "qs" the same judged relative to the modulus (sigmoid), "sqrt" real tensor whose SQUARES
\* are given, "np" numpy complex array, "none" Python None
None == [shape |-> <<>>, val |-> <<>>]
Res(kind, v) == [kind |-> kind, v |-> v]

ValueOf(c) ==
    LET a == c.args  x == c.args[1]  y == c.args[IF Len(c.args) >= 2 THEN 2 ELSE 1] IN
    CASE c.op = "make_complex1"   -> Res("g", MakeComplex1(x))
      [] c.op = "make_complex2"   -> Res("g", MakeComplex(x, y))
      [] c.op = "make_complex_np" -> Res("g", x)
      [] c.op = "numpy"           -> Res("np", x)
      [] c.op = "real"            -> Res("r", RealPart(x))
      [] c.op = "imag"            -> Res("r", ImagPart(x))
      [] c.op \in {"scalar_mult", "elementwise_mult"} -> Res("g", ScalarMult(x, y))
      [] c.op = "matmul"          -> Res("g", MatMul(x, y))
      [] c.op = "inner_prod"      -> Res("g", InnerProd(x, y))
      [] c.op = "outer_prod"      -> Res("g", OuterProd(x, y))
      [] c.op = "einsum" ->
            LET z == Einsum(c.opt[2], c.opt[3], c.opt[4], x, y)
                re == InSeq(c.opt[5], "r")  im == InSeq(c.opt[5], "i") IN
            IF re /\ im THEN Res("g", z) ELSE IF re THEN Res("r", RealPart(z))
            ELSE IF im THEN Res("r", ImagPart(z)) ELSE Res("none", None)
      [] c.op = "pair_einsum"     -> Res("g", Einsum(c.opt[2], c.opt[3], c.opt[4], x, FromReal(y)))
      [] c.op = "kronecker_prod"  -> Res("g", Kron(x, y))
      [] c.op = "conjugate"       -> Res("g", Conjugate(x))
      [] c.op = "conj"            -> Res("g", Conj(x))
      [] c.op = "elementwise_division" -> Res("q", ElementwiseDivision(x, y))
      [] c.op = "scalar_divide"   -> Res("q", ScalarDivide(x, y))
      [] c.op = "inverse"         -> Res("q", Inverse(x))
      [] c.op = "sigmoid"         -> Res("qs", Sigmoid(x, y))
      [] c.op = "absolute_value"  -> Res("sqrt", AbsSq(x))
      [] c.op = "norm_sqr"        -> Res("r", NormSqr(x))
      [] c.op = "norm"            -> Res("sqrt", NormSqr(x))
      \* composite laws, also replayed through the library: the value of the left-hand side
      [] c.op = "law_inner"       -> Res("g", InnerProd(Add(ScalarMult(a[4], a[1]), a[2]), a[3]))
      [] c.op = "law_kron"        -> Res("g", MatMul(Kron(a[1], a[2]), Kron(a[3], a[4])))

Eval(c) == LET d == Defined(c.op, c.sh, c.opt) IN
    IF d = "ok" THEN [case |-> c, def |-> d, res |-> ValueOf(c)]
    ELSE [case |-> c, def |-> d, res |-> Res("none", None)]

-----------------------------------------------------------------------------
(* Operand families *)

Dim == 1..3
ShapesOfRank(r) == IF r = 0 THEN {<<>>} ELSE [1..r -> Dim]
R1 == ShapesOfRank(1)
R2s == ShapesOfRank(2)
UpTo2 == ShapesOfRank(0) \cup R1 \cup R2s
UpTo3 == UpTo2 \cup ShapesOfRank(3)

Sg(j) == IF j % 2 = 0 THEN 1 ELSE -1
\* generic tensor: pairwise distinct entries (|re| strictly increasing), re # 0, im # 0
GenEntry(k, s) == <<Sg(k + s) * (k + 1 + (s % 3)), Sg((k + s) \div 2) * (((2 * k + s) % 7) + 1)>>
Gen(sh, s) == [shape |-> sh, val |-> [k \in 1..Size(sh) |-> GenEntry(k, s)]]
\* conjugate pairs (entry 2j is the conjugate of entry 2j-1, an odd last entry is real): every entry is non-zero and
\* complex but the imaginary parts CANCEL in any sum over the tensor - a Hermitian-looking operand
ConjPairs(sh, s) == [shape |-> sh, val |-> [k \in 1..Size(sh) |->
                        IF k % 2 = 0 THEN <<GenEntry(k - 1, s)[1], -GenEntry(k - 1, s)[2]>>
                        ELSE IF k = Size(sh) THEN <<GenEntry(k, s)[1], 0>> ELSE GenEntry(k, s)]]
RealGen(sh, s) == [shape |-> sh, val |-> [k \in 1..Size(sh) |-> Sg(k + s) * (k + (s % 4))]]
UnitT(sh, p, c) == [shape |-> sh, val |-> [k \in 1..Size(sh) |-> IF k = p THEN c ELSE GZero]]
UnitPos(sh) == IF Size(sh) <= UMax THEN 1..Size(sh) ELSE {1, (Size(sh) \div 2) + 1, Size(sh)}
Units(sh) == {UnitT(sh, p, c) : p \in UnitPos(sh), c \in {GOne, GI}}
Scalars == {Scalar(<<a, b>>) : a \in -2..2, b \in -2..2}
\* lattice coordinates of sigmoid arguments: x = a ln 2, y = b pi/2; tensors a in -3..3, b in -3..4,
\* scalars exhaustive over that box (thorough tier: a in -6..6 - the 32-bit limit of the unnormalised rationals -, b in -5..8)
LatB(k, s) == ((3 * k + s) % 8) - 3
LatA(k, s) == LET a0 == ((k + 2 * s) % 7) - 3 IN IF SigmoidPole(a0, LatB(k, s)) THEN 1 ELSE a0

ScalarsFew == {Scalar(<<0, 0>>), Scalar(<<1, 0>>), Scalar(<<0, 1>>), Scalar(<<-2, 1>>), Scalar(<<1, -2>>)}
MinSeed == CHOOSE s \in Seeds : \A t \in Seeds : s <= t

\* family m of operand number pos with shape sh; few: a scalar next to a non-scalar operand in the quick tier
Operands(pos, sh, m, few) ==
    CASE m = "I" -> {Scalar(GI)}                                  \* the library constant cplx.I (float32)
      [] m = "x" -> IF sh = <<>> THEN {Scalar(<<2, -1>>)} ELSE {Gen(sh, MinSeed + 5 * pos)}   \* rejections
      [] m = "f" -> IF sh = <<>> THEN ScalarsFew ELSE {Gen(sh, s + 5 * pos) : s \in Seeds}
      [] m \in {"g", "u"} /\ sh = <<>> -> IF few THEN ScalarsFew ELSE Scalars     \* scalars: exhaustive
      [] m = "n" /\ sh = <<>> -> (IF few THEN ScalarsFew ELSE Scalars) \ {Scalar(GZero)}   \* denominators
      [] m = "g" /\ sh # <<>> -> {Gen(sh, s + 5 * pos) : s \in Seeds}
      [] m = "n" /\ sh # <<>> -> {Gen(sh, s + 5 * pos) : s \in Seeds} \cup {ConjPairs(sh, MinSeed + 5 * pos)}
      [] m = "u" /\ sh # <<>> -> Units(sh)
      [] m = "r" -> IF sh = <<>> THEN {[shape |-> <<>>, val |-> <<v>>] : v \in -2..2}
                    ELSE {RealGen(sh, s + 3 * pos) : s \in Seeds}
      [] m = "la" -> IF sh = <<>> THEN {[shape |-> <<>>, val |-> <<v>>] : v \in (IF Big THEN -6..6 ELSE -3..3)}
                     ELSE {[shape |-> sh, val |-> [k \in 1..Size(sh) |-> LatA(k, s)]] : s \in Seeds}
      [] m = "lb" -> IF sh = <<>> THEN {[shape |-> <<>>, val |-> <<v>>] : v \in (IF Big THEN -5..8 ELSE -3..4)}
                     ELSE {[shape |-> sh, val |-> [k \in 1..Size(sh) |-> LatB(k, s)]] : s \in Seeds}

Admissible(c) ==
    c.op = "sigmoid" => \A k \in 1..Len(c.args[1].val) : ~SigmoidPole(c.args[1].val[k], c.args[2].val[k])

CasesOf(s) ==
    LET n == Len(s.sh)
        few == ~Big /\ \E j \in 1..n : s.sh[j] # <<>>
        O(i) == Operands(i, s.sh[i], s.opt[1][i], few)
        C(a) == [op |-> s.op, sh |-> s.sh, opt |-> s.opt, args |-> a]
        all == CASE n = 1 -> {C(<<x>>) : x \in O(1)}
                 [] n = 2 -> {C(<<x, y>>) : x \in O(1), y \in O(2)}
                 [] n = 4 -> {C(<<x, y, z, w>>) : x \in O(1), y \in O(2), z \in O(3), w \in O(4)}
    IN {c \in all : Admissible(c)}

-----------------------------------------------------------------------------
(* Shards: function x operand shapes x operand families x options *)

S(op, sh, opt) == [op |-> op, sh |-> sh, opt |-> opt]
\* (for a scalar the families "g" and "u" coincide: exhaustive; the "u" shard is dropped)
Unary(op, shapes, fams) ==
    UNION {{S(op, <<sh>>, <<<<m>>>>) : m \in {f \in fams : ~(f = "u" /\ sh = <<>>)}} : sh \in shapes}
Binary(op, pairs, fams, extra) ==
    UNION {{S(op, p, <<m>> \o extra) : m \in {f \in fams : \A i \in 1..2 : ~(f[i] = "u" /\ p[i] = <<>>)}} : p \in pairs}

GU == {"g", "u"}
M3 == {<<"g", "g">>, <<"u", "g">>, <<"g", "u">>}      \* (unit, unit) pairs add nothing to a bilinear map
MG == {<<"g", "g">>}
MD == {<<"g", "n">>, <<"u", "n">>}                   \* denominators without zero entries
MX == {<<"x", "x">>}                                 \* one operand pair per shape pair (rejections)
Same(shapes) == {<<s, s>> : s \in shapes}
Small(shapes) == IF Big THEN shapes ELSE {s \in shapes : Size(s) <= 9}
\* shape pairs for rejections
RejShapes == UpTo2 \cup {<<2, 1, 3>>}
RejPairs == RejShapes \X RejShapes
RankPairs(rx, ry) == ShapesOfRank(rx) \X ShapesOfRank(ry)

SMPairs == {p \in UpTo3 \X UpTo3 :
               /\ BCompat(p[1], p[2])
               /\ (p[1] = <<>> \/ p[2] = <<>> \/ p[1] = p[2] \/ Big \/ (Len(p[1]) <= 2 /\ Len(p[2]) <= 2))}

\* the equations the library uses (complex_wavefunction.rotated_gradient, density_matrix.rotated_gradient,
\* kronecker_prod) and generic ones: free, summed, batch and repeated indices, transposed output
Eqs == { <<<<"a", "b">>, <<"c", "d">>, <<"a", "c", "b", "d">>>>,
         <<<<"i", "b">>, <<"i", "b", "g">>, <<"b", "g">>>>,
         <<<<"b">>, <<"b", "g">>, <<"g">>>>,
         <<<<"i", "j", "b">>, <<"i", "j", "b", "g">>, <<"b", "g">>>>,
         <<<<"i", "j">>, <<"j", "k">>, <<"i", "k">>>>,
         <<<<"i">>, <<"i">>, <<>>>>,
         <<<<"i", "j">>, <<"i", "j">>, <<"i", "j">>>>,
         <<<<"b", "i", "j">>, <<"b", "j", "k">>, <<"b", "i", "k">>>>,
         <<<<"i", "j">>, <<"k", "j">>, <<"k", "i">>>>,
         <<<<"i">>, <<"j">>, <<"j", "i">>>>,
         <<<<"i", "i">>, <<"i", "j">>, <<"j">>>>,
         <<<<"i", "j">>, <<>>, <<"j", "i">>>> }
EqDims(e) == IF Big \/ Cardinality(Range(e[1] \o e[2])) <= 3 THEN Dim ELSE 1..2
EinsumShards(e) ==
    LET names == Range(e[1] \o e[2]) IN
    UNION {{S("einsum", <<[i \in 1..Len(e[1]) |-> D[e[1][i]]], [i \in 1..Len(e[2]) |-> D[e[2][i]]]>>,
              <<m, e[1], e[2], e[3], fl>>) :
              m \in (IF fl = <<"r", "i">> THEN M3 ELSE MG)} :
           D \in [names -> EqDims(e)], fl \in {<<"r", "i">>, <<"r">>, <<"i">>, <<>>}}
\* density_matrix.pi_grad: torch.einsum("c...j,...k->c...jk", sig, temp) - a REAL einsum in which the pair
\* axis c of the complex operand rides along: (complex sig)[.., j] * (real temp)[.., k]
BNames(r) == SubSeq(<<"p", "q">>, 1, r)
PairEinsumShards ==
    {S("pair_einsum", <<B \o <<j>>, B \o <<k>>>>,
       <<m, BNames(Len(B)) \o <<"j">>, BNames(Len(B)) \o <<"k">>, BNames(Len(B)) \o <<"j", "k">>>>) :
       B \in ShapesOfRank(0) \cup ShapesOfRank(1) \cup ShapesOfRank(2), j \in Dim, k \in Dim,
       m \in {<<"g", "r">>, <<"u", "r">>}}

MMPairs == {<<<<m, k>>, <<k2, n>>>> : m \in Dim, k \in Dim, k2 \in Dim, n \in Dim}
           \cup {<<<<m, k>>, <<k2>>>> : m \in Dim, k \in Dim, k2 \in Dim}
KDim == IF Big THEN Dim ELSE 1..2
KronLawShapes == {<<<<m, k>>, <<p, q>>, <<k, n>>, <<q, r>>>> :
                     m \in KDim, k \in KDim, p \in KDim, q \in KDim, n \in KDim, r \in KDim}

AllShards ==
    \* construction and conversion
         Unary("make_complex1", UpTo3, {"r"})
    \cup Binary("make_complex2", Same(UpTo3), {<<"r", "r">>}, <<>>)
    \cup Binary("make_complex2", {p \in RejPairs : p[1] # p[2]}, {<<"r", "r">>}, <<>>)
    \cup Unary("make_complex_np", UpTo3, GU) \cup Unary("numpy", UpTo3, GU)
    \cup Unary("real", UpTo3, GU) \cup Unary("imag", UpTo3, GU)
    \* products
    \cup Binary("scalar_mult", {p \in SMPairs : ClsSM(p[1], p[2]) # "broadcast"}, M3, <<<<"none">>>>)
    \cup Binary("scalar_mult", {p \in SMPairs : ClsSM(p[1], p[2]) = "broadcast"}, MG, <<<<"none">>>>)
    \cup Binary("scalar_mult", {p \in SMPairs : Big /\ ClsSM(p[1], p[2]) = "broadcast" /\ Len(p[1]) <= 2 /\ Len(p[2]) <= 2},
                M3, <<<<"none">>>>)
    \cup Binary("scalar_mult", SMPairs, {<<"f", "f">>}, <<<<"fresh">>>>)
    \cup Binary("scalar_mult", {p \in SMPairs : Len(p[1]) <= 2 /\ Len(p[2]) <= 2}, MX, <<<<"x">>>>)
    \cup Binary("scalar_mult", {p \in SMPairs : Len(p[1]) <= 2 /\ Len(p[2]) <= 2}, MX, <<<<"y">>>>)
    \cup Binary("scalar_mult", {<<s, <<>>>> : s \in UpTo3}, {<<"g", "I">>, <<"u", "I">>}, <<<<"none">>>>)
    \cup Binary("scalar_mult", {<<<<>>, s>> : s \in UpTo3}, {<<"I", "g">>, <<"I", "u">>}, <<<<"none">>>>)
    \cup Binary("elementwise_mult", Same(UpTo3), M3, <<>>)
    \cup Binary("elementwise_mult", {<<<<>>, <<>>>>}, {<<"g", "I">>, <<"I", "g">>}, <<>>)   \* the alias, with the constant on either side
    \cup Binary("matmul", {p \in MMPairs : p[1][2] = p[2][1]}, M3, <<>>)
    \cup Binary("matmul", {p \in MMPairs : p[1][2] # p[2][1]}, MX, <<>>)
    \cup Binary("inner_prod", Same(R1) \cup Same({<<>>}), M3, <<>>)
    \cup Binary("inner_prod", {<<<<>>, <<>>>>}, {<<"g", "I">>, <<"I", "g">>}, <<>>)
    \cup Binary("inner_prod", {p \in RejPairs : ~(Len(p[1]) = Len(p[2]) /\ Len(p[1]) <= 1 /\ p[1] = p[2])}, MX, <<>>)
    \cup Binary("outer_prod", RankPairs(1, 1), M3, <<>>)
    \cup Binary("outer_prod", {p \in RejPairs : ~(Len(p[1]) = 1 /\ Len(p[2]) = 1)}, MX, <<>>)
    \cup Binary("kronecker_prod", RankPairs(2, 2), M3, <<>>)
    \cup Binary("kronecker_prod", {p \in RejPairs : ~(Len(p[1]) = 2 /\ Len(p[2]) = 2)}, MX, <<>>)
    \cup UNION {EinsumShards(e) : e \in Eqs}
    \cup PairEinsumShards
    \* conjugation
    \cup Unary("conj", UpTo3, GU) \cup Unary("conjugate", UpTo3, GU)
    \* division, inverse
    \cup Binary("elementwise_division", Same(UpTo3), MD, <<>>)
    \cup Binary("elementwise_division", {<<<<>>, <<>>>>}, {<<"g", "I">>}, <<>>)
    \cup Binary("elementwise_division", {p \in RejPairs : p[1] # p[2]}, MX, <<>>)
    \cup Binary("scalar_divide", Same(UpTo3) \cup {<<s, <<>>>> : s \in UpTo3}, MD, <<>>)
    \cup Binary("scalar_divide", {<<s, <<>>>> : s \in UpTo2}, {<<"g", "I">>}, <<>>)
    \cup Unary("inverse", UpTo3, {"n"})
    \* modulus, norms
    \cup Unary("absolute_value", UpTo3, GU)
    \cup Unary("norm_sqr", {<<>>}, {"g"}) \cup Unary("norm", {<<>>}, {"g"})
    \* sigmoid on the lattice
    \cup Binary("sigmoid", Same(Small(UpTo3)), {<<"la", "lb">>}, <<>>)
    \* composite laws
    \cup {S("law_inner", <<sh, sh, sh, <<>>>>, <<m>>) : sh \in R1,
            m \in {<<"g", "g", "g", "g">>, <<"u", "g", "g", "g">>, <<"g", "g", "u", "g">>}}
    \cup {S("law_inner", <<sh, sh, sh, <<>>>>, <<m>>) : sh \in {<<>>}, m \in {<<"f", "f", "f", "f">>}}
    \cup {S("law_kron", p, <<<<"g", "x", "x", "x">>>>) : p \in KronLawShapes}

Shards == IF OnlyOps = {} THEN AllShards ELSE {s \in AllShards : s.op \in OnlyOps}

-----------------------------------------------------------------------------
(* State machine: Init picks the shard, Pick the operands (TLC handles initial states on one thread) *)

Init == pc = "Pick" /\ \E s \in Shards : cs = [shard |-> s]
Pick == /\ pc = "Pick"
        /\ \E c \in CasesOf(cs.shard) : cs' = Eval(c)
        /\ pc' = "Done"
Next == Pick
Spec == Init /\ [][Next]_vars

Live == pc = "Done"
Ok == Live /\ cs.def = "ok"
IsOp(o) == Ok /\ cs.case.op = o
X == cs.case.args[1]
Y == cs.case.args[2]
V == cs.res.v

-----------------------------------------------------------------------------
(* Invariants: well-formedness, and the algebraic laws that check the transcription *)

TypeOK ==
    Live =>
    /\ cs.def \in {"ok", "ValueError", "RuntimeError", "error"}        \* never "unjudged": no over-demand
    /\ cs.def = "ok" /\ cs.res.kind # "none" => WellFormed(V)
    /\ cs.def = "ok" /\ cs.res.kind \in {"g", "np"} => \A k \in 1..Len(V.val) : IsG(V.val[k])
    /\ cs.def = "ok" /\ cs.res.kind \in {"q", "qs"} => \A k \in 1..Len(V.val) : IsQ(V.val[k])
    /\ cs.def = "ok" /\ cs.res.kind \in {"r", "sqrt"} => \A k \in 1..Len(V.val) : V.val[k] \in Int
    /\ \A i \in 1..Len(cs.case.args) : WellFormed(cs.case.args[i]) /\ cs.case.args[i].shape = cs.case.sh[i]

\* the pair encoding is a bijection, real / imag are its two slices
EncodeLaw ==
    Ok /\ cs.res.kind = "g" =>
       /\ Decode(Encode(V)) = V
       /\ Encode(V).shape = <<2>> \o V.shape
       /\ MakeComplex(RealPart(V), ImagPart(V)) = V
       /\ \A k \in 1..Len(V.val) : RealPart(V).val[k] = GRe(V.val[k]) /\ ImagPart(V).val[k] = GIm(V.val[k])

\* <x|y> is conjugate-linear in x, linear in y, conjugate-symmetric
InnerConjLinear ==
    IsOp("law_inner") =>
      LET a == cs.case.args  x == a[1]  x2 == a[2]  y == a[3]  c == a[4]  cv == c.val[1]
          ip(u, v) == InnerProd(u, v).val[1]
          comb == Add(ScalarMult(c, x), x2) IN
      /\ ip(comb, y) = GAdd(GMul(GConj(cv), ip(x, y)), ip(x2, y))
      /\ ip(y, comb) = GAdd(GMul(cv, ip(y, x)), ip(y, x2))
      /\ ip(x, y) = GConj(ip(y, x))
      /\ V = InnerProd(comb, y)

\* <x|x> = norm_sqr(x) >= 0, zero only for x = 0; Cauchy-Schwarz
InnerNormSqr ==
    (IsOp("inner_prod") \/ IsOp("law_inner")) =>
      LET y  == cs.case.args[IF cs.case.op = "inner_prod" THEN 2 ELSE 3]
          xx == InnerProd(X, X).val[1]  xy == InnerProd(X, y).val[1]  yy == InnerProd(y, y).val[1] IN
      /\ xx = <<NormSqr(X).val[1], 0>>
      /\ xx[1] >= 0
      /\ (xx[1] = 0 <=> \A k \in 1..Len(X.val) : X.val[k] = GZero)
      /\ GNormSq(xy) <= xx[1] * yy[1]

NormLaw == (IsOp("norm_sqr") \/ IsOp("norm")) => V.val[1] = GNormSq(X.val[1]) /\ V = AbsSq(X)

\* (A (x) B)(C (x) D) = (AC) (x) (BD), non-square operands
KronMixedProduct ==
    IsOp("law_kron") =>
      LET a == cs.case.args IN
      MatMul(Kron(a[1], a[2]), Kron(a[3], a[4])) = Kron(MatMul(a[1], a[3]), MatMul(a[2], a[4]))

\* einsum("ab,cd->acbd") reshaped is the Kronecker product; a 1x1 factor is a scalar multiple
EinsumKron ==
    IsOp("kronecker_prod") =>
      /\ Reshape(Einsum(<<"a", "b">>, <<"c", "d">>, <<"a", "c", "b", "d">>, X, Y), V.shape) = V
      /\ V.shape = <<X.shape[1] * Y.shape[1], X.shape[2] * Y.shape[2]>>
      /\ X.shape = <<1, 1>> => V = ScalarMult(Scalar(X.val[1]), Y)
      /\ Y.shape = <<1, 1>> => V = ScalarMult(X, Scalar(Y.val[1]))

\* (AB)^H = B^H A^H ; matmul is the einsum "ij,jk->ik" / "ij,j->i"
ConjugateAntiHom ==
    IsOp("matmul") /\ Rank(Y) = 2 =>
      /\ MatMulDefined(Conjugate(Y).shape, Conjugate(X).shape)
      /\ Conjugate(V) = MatMul(Conjugate(Y), Conjugate(X))
MatMulEinsum ==
    IsOp("matmul") =>
      V = IF Rank(Y) = 2 THEN Einsum(<<"i", "j">>, <<"j", "k">>, <<"i", "k">>, X, Y)
          ELSE Einsum(<<"i", "j">>, <<"j">>, <<"i">>, X, Y)

\* |x><y| [k, l] = x_k conj(y_l) = (x as a column) . (y as a column)^H ; trace |x><y| = <y|x>
OuterAsMatmul ==
    IsOp("outer_prod") =>
      LET m == X.shape[1]  n == Y.shape[1] IN
      /\ \A k \in 0..(m - 1), l \in 0..(n - 1) : At(V, <<k, l>>) = GMul(X.val[k + 1], GConj(Y.val[l + 1]))
      /\ V = MatMul(Reshape(X, <<m, 1>>), Conjugate(Reshape(Y, <<n, 1>>)))
      /\ m = n => GSumSeq([k \in 1..m |-> At(V, <<k - 1, k - 1>>)]) = InnerProd(Y, X).val[1]

\* z inverse(z) = 1 ; (x / y) y = x ; scalar_divide(x, y) = scalar_mult(x, inverse(y))
InverseLaw ==
    IsOp("inverse") => \A k \in 1..Len(X.val) : QEq(QMul(QOf(X.val[k]), V.val[k]), QOne)
DivisionLaw ==
    (IsOp("elementwise_division") \/ IsOp("scalar_divide")) =>
      \A k \in 1..Len(X.val) :
         LET yk == IF Y.shape = <<>> THEN Y.val[1] ELSE Y.val[k] IN
         /\ QEq(QMul(V.val[k], QOf(yk)), QOf(X.val[k]))
         /\ QEq(V.val[k], QMul(QOf(X.val[k]), QInvG(yk)))

\* conj and conjugate are involutions; conj is a ring homomorphism; |xy|^2 = |x|^2 |y|^2 ; product commutes
ConjLaws ==
    /\ (IsOp("conj") \/ IsOp("conjugate")) =>
          /\ Conj(Conj(X)) = X
          /\ Conjugate(Conjugate(X)) = X
          /\ Rank(X) < 2 => Conjugate(X) = Conj(X)
          /\ Rank(X) >= 2 => Conjugate(X).shape = Swap12(X.shape)
          /\ Rank(X) = 2 => \A i \in 0..(X.shape[1] - 1), j \in 0..(X.shape[2] - 1) :
                               At(Conjugate(X), <<j, i>>) = GConj(At(X, <<i, j>>))
    /\ (IsOp("scalar_mult") \/ IsOp("elementwise_mult")) =>
          /\ Conj(V) = ScalarMult(Conj(X), Conj(Y))
          /\ V = ScalarMult(Y, X)
          /\ AbsSq(V) = [shape |-> V.shape, val |-> [k \in 1..Len(V.val) |->
                            AbsSq(X).val[Flat(X.shape, BIdx(X.shape, Unflat(V.shape, k - 1))) + 1]
                          * AbsSq(Y).val[Flat(Y.shape, BIdx(Y.shape, Unflat(V.shape, k - 1))) + 1]]]
    /\ IsOp("absolute_value") =>
          \A k \in 1..Len(X.val) : <<V.val[k], 0>> = GMul(X.val[k], GConj(X.val[k])) /\ V.val[k] >= 0

\* einsum does not depend on the order of the operands; flags select parts of one complex result
EinsumLaws ==
    IsOp("einsum") =>
      LET o == cs.case.opt  z == Einsum(o[2], o[3], o[4], X, Y) IN
      /\ z = Einsum(o[3], o[2], o[4], Y, X)
      /\ cs.res.kind = "g" => V = z
      /\ cs.res.kind = "r" => V = (IF InSeq(o[5], "r") THEN RealPart(z) ELSE ImagPart(z))
      /\ cs.res.kind = "none" <=> o[5] = <<>>

\* sigmoid(z) + sigmoid(-z) = 1 ; sigmoid(z) (1 + e^z) = e^z
SigmoidLaw ==
    IsOp("sigmoid") =>
      \A k \in 1..Len(X.val) :
         LET a == X.val[k]  b == Y.val[k] IN
         /\ QEq(QAdd(V.val[k], SigmoidLat(-a, -b)), QOne)
         /\ QEq(QMul(V.val[k], QAdd(QOne, ExpLat(a, b))), ExpLat(a, b))

Laws == <<TypeOK, EncodeLaw, InnerConjLinear, InnerNormSqr, NormLaw, KronMixedProduct, EinsumKron,
          ConjugateAntiHom, MatMulEinsum, OuterAsMatmul, InverseLaw, DivisionLaw, ConjLaws, EinsumLaws,
          SigmoidLaw>>

-----------------------------------------------------------------------------
(* Export: operands and expected value in the library's encoding *)

ArgKind(op, i) ==
    CASE op \in {"make_complex1", "make_complex2", "sigmoid"} -> "r"
      [] op = "pair_einsum" /\ i = 2 -> "r"
      [] OTHER -> "c"
EncQ(t) == LET n == Len(t.val) IN
    [shape |-> <<2>> \o t.shape,
     num |-> [k \in 1..(2 * n) |-> IF k <= n THEN t.val[k].n[1] ELSE t.val[k - n].n[2]],
     den |-> [k \in 1..(2 * n) |-> IF k <= n THEN t.val[k].d ELSE t.val[k - n].d]]
EncRes(r) == CASE r.kind \in {"g", "np"} -> Encode(r.v)
               [] r.kind \in {"q", "qs"} -> EncQ(r.v)
               [] OTHER -> r.v
ExportRec ==
    [op |-> cs.case.op, sh |-> cs.case.sh, opt |-> cs.case.opt, cls |-> Cls(cs.case.op, cs.case.sh),
     args |-> [i \in 1..Len(cs.case.args) |->
                 IF ArgKind(cs.case.op, i) = "c" THEN Encode(cs.case.args[i]) ELSE cs.case.args[i]],
     def |-> cs.def, kind |-> cs.res.kind, exp |-> EncRes(cs.res)]
=============================================================================
