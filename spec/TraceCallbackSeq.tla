-------------------------- MODULE TraceCallbackSeq --------------------------
(* Validate recorded operation sequences on real CallbackList objects against
   Part A of CallbackSeq.tla.  One JVM handles a file of traces; each ndjson
   line is [ev |-> sequence of [o (the operation, shaped like CallbackSeq!O),
   after (the whole heap afterwards), rk, ret, exc]].  The specification's heap
   evolves by its own DoOp; a step is accepted iff what the real objects did
   (heap, returned value, exception) is what the specification says.  The
   invariants of Part A are evaluated on every state of every accepted prefix. *)
EXTENDS CallbackSeq, Json, IOUtils, TLCExt

Traces == ndJsonDeserialize(IOEnv.TRACE_FILE)

VARIABLES tid, pos
trvars == <<vars, tid, pos>>

TrInit == /\ tid \in 1..Len(Traces)
          /\ pos = 0
          /\ AInit
          /\ TLCSet(tid, 0)

TrNext == /\ pos < Len(Traces[tid].ev)
          /\ LET e == Traces[tid].ev[pos + 1] IN
             /\ DoOp(e.o)
             /\ Acyclic(lists')
             /\ lists' = e.after
             /\ last'.rk = e.rk /\ last'.ret = e.ret /\ last'.exc = e.exc
          /\ pos' = pos + 1
          /\ UNCHANGED <<tid, row, tvars>>

TrTrack == TLCSet(tid, IF pos > TLCGet(tid) THEN pos ELSE TLCGet(tid))

TrVerdicts ==
    \A i \in 1..Len(Traces) :
        PrintT(ToJson([tid |-> i, matched |-> TLCGet(i), need |-> Len(Traces[i].ev)]))
=============================================================================
