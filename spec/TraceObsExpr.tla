---------------------------- MODULE TraceObsExpr ----------------------------
(* code -> spec for composite observables (C16): programs of the stack machine of ObsExpr.tla executed with
   REAL Python operators on real observables, deeper than TLC enumerates.  One ndjson line per program:
   ev[j] = [op |-> "load" | "neg" | "bin", atom (load) | o (bin), top] where top is the projection of the Python
   value on top of the operand stack after the operation (class tree of SumObservable / ProdObservable / leaf /
   number, or the exception class when the operation raised - the program ends there).
   Accepted iff every operation is the machine's Load / Negate / Binary step and Build(top of the stack) is the
   recorded projection, up to the order of the two operands of a sum (a symmetric alternative). *)
EXTENDS ObsExpr, Json, IOUtils, TLCExt

Traces == ndJsonDeserialize(IOEnv.TRACE_FILE)
VARIABLES tid, i, ok
tvars == <<stack, tid, i, ok>>
T == Traces[tid]
TopOf(s) == s[Len(s)]

RECURSIVE Same(_, _)
Same(v, w) ==
    IF v.c # w.c THEN FALSE
    ELSE CASE v.c = "Sum"  -> \/ Same(v.left, w.left) /\ Same(v.right, w.right)
                              \/ Same(v.left, w.right) /\ Same(v.right, w.left)
           [] v.c = "Prod" -> Same(v.left, w.left) /\ Same(v.right, w.right)
           [] v.c = "Leaf" -> v.n = w.n
           [] v.c = "Num"  -> v.q = w.q
           [] v.c = "Bad"  -> v.k = w.k
           [] v.c = "Err"  -> v.x = w.x
           [] OTHER        -> TRUE

TInit == /\ tid \in 1..Len(Traces)
         /\ i = 1
         /\ stack = <<Traces[tid].ev[1].atom>>
         /\ ok = (Traces[tid].ev[1].op = "load" /\ Same(Build(Traces[tid].ev[1].atom), Traces[tid].ev[1].top))
         /\ TLCSet(tid, 0)
TStep == /\ ok /\ i < Len(T.ev)
         /\ LET e == T.ev[i + 1] IN
              /\ CASE e.op = "load" -> Load(e.atom)
                   [] e.op = "neg"  -> Negate
                   [] e.op = "bin"  -> Binary(e.o)
              /\ ok' = Same(Build(TopOf(stack')), e.top)
         /\ i' = i + 1 /\ UNCHANGED tid
TNext == TStep
Progress == IF ok THEN i ELSE i - 1
Track == TLCSet(tid, IF Progress > TLCGet(tid) THEN Progress ELSE TLCGet(tid))
\* the machine's own invariants along the accepted prefix
TRejectedIffNonLinear == ok => RejectedIffNonLinear
TOverloadsAreArithmetic == ok => OverloadsAreArithmetic
TBuiltShape == ok => BuiltShape
Verdicts == \A j \in 1..Len(Traces) :
               PrintT(ToJson([tid |-> j, matched |-> TLCGet(j), need |-> Len(Traces[j].ev)]))
=============================================================================
