------------------------------- MODULE Exact -------------------------------
(***************************************************************************)
(* Exact arithmetic for the lattice specifications.                        *)
(*                                                                         *)
(* TLC integers are 32-bit and true rationals overflow already on tiny     *)
(* lattices, so every IDENTITY lhs = rhs between (Gaussian-)rational       *)
(* expressions is checked in the prime fields F_p and their quadratic      *)
(* extensions F_p[i], for three primes p == 3 (mod 4) (x^2+1 irreducible)  *)
(* with p^2 < 2^31 (products never overflow).  A true identity holds       *)
(* modulo every prime; a false one passes all three only if the integer    *)
(* difference of the cross-multiplied sides is divisible by p1*p2*p3       *)
(* ~ 9.9e13.  Numbers leave TLC in factor form (small integers only) and   *)
(* are evaluated by the harness with unbounded integers.                   *)
(***************************************************************************)
EXTENDS Integers, Sequences

Primes == <<46327, 46307, 46279>>
NP == 3

AddM(a, b, p) == (a + b) % p
SubM(a, b, p) == (((a - b) % p) + p) % p
MulM(a, b, p) == (a * b) % p
NegM(a, p)    == (p - (a % p)) % p

RECURSIVE PowM(_, _, _)
PowM(a, e, p) == IF e = 0 THEN 1
                 ELSE IF e % 2 = 0 THEN LET h == PowM(a, e \div 2, p) IN (h * h) % p
                 ELSE (a * PowM(a, e - 1, p)) % p
InvM(a, p) == PowM(a % p, p - 2, p)          \* Fermat; a # 0 (mod p) is ASSUMEd where used
\* B^t for any integer t
BPowM(B, t, p) == IF t >= 0 THEN PowM(B % p, t, p) ELSE InvM(PowM(B % p, -t, p), p)

RECURSIVE SumSeqM(_, _)
SumSeqM(s, p) == IF s = <<>> THEN 0 ELSE (Head(s) + SumSeqM(Tail(s), p)) % p
RECURSIVE ProdSeqM(_, _)
ProdSeqM(s, p) == IF s = <<>> THEN 1 ELSE (Head(s) * ProdSeqM(Tail(s), p)) % p
RECURSIVE SumSeq(_)
SumSeq(s) == IF s = <<>> THEN 0 ELSE Head(s) + SumSeq(Tail(s))

(* F_p[i]: pairs <<x, y>> = x + i y *)
GAdd(a, b, p) == <<(a[1] + b[1]) % p, (a[2] + b[2]) % p>>
GSub(a, b, p) == <<SubM(a[1], b[1], p), SubM(a[2], b[2], p)>>
GMul(a, b, p) == <<SubM(MulM(a[1], b[1], p), MulM(a[2], b[2], p), p),
                   AddM(MulM(a[1], b[2], p), MulM(a[2], b[1], p), p)>>
GConj(a, p)   == <<a[1] % p, NegM(a[2], p)>>
GScal(k, a, p) == <<MulM(k % p, a[1], p), MulM(k % p, a[2], p)>>
GOne == <<1, 0>>
GZero == <<0, 0>>
GOfInt(k, p) == <<(((k % p)) + p) % p, 0>>
\* i^k for any integer k
IPow(k, p) == CASE k % 4 = 0 -> <<1, 0>> [] k % 4 = 1 -> <<0, 1>>
                [] k % 4 = 2 -> <<p - 1, 0>> [] k % 4 = 3 -> <<0, p - 1>>
GNorm(a, p) == AddM(MulM(a[1], a[1], p), MulM(a[2], a[2], p), p)     \* |a|^2, non-zero unless a = 0
GInv(a, p) == GScal(InvM(GNorm(a, p), p), GConj(a, p), p)
RECURSIVE GSumSeq(_, _)
GSumSeq(s, p) == IF s = <<>> THEN GZero ELSE GAdd(Head(s), GSumSeq(Tail(s), p), p)
RECURSIVE GProdSeq(_, _)
GProdSeq(s, p) == IF s = <<>> THEN GOne ELSE GMul(Head(s), GProdSeq(Tail(s), p), p)

(* basis states: row k of the n-site Hilbert space, site 1 most significant *)
RECURSIVE Pow2(_)
Pow2(n) == IF n = 0 THEN 1 ELSE 2 * Pow2(n - 1)
Row(n, k) == [s \in 1..n |-> (k \div Pow2(n - s)) % 2]
Dot(x, y, n) == SumSeq([i \in 1..n |-> x[i] * y[i]])

=============================================================================
