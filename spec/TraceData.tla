------------------------------ MODULE TraceData -------------------------------
(* code -> spec for the data loaders: larger seeded files than TLC enumerates.
   One ndjson line per load:  [bases, samples] = the rows as written into the
   files (the harness' independent str.split parse of the text), [lsamples,
   lbases] = what load_data returned, [ref] = what extract_refbasis_samples
   returned on the loaded arrays.  A line is accepted iff the DataFile state it
   describes satisfies the module's statements: loaded rows = written rows and
   ref = ExtractRef.  (IsRefExtraction quantifies over index maps and is used on
   the small enumerated files only; on long files ExtractRef itself is compared,
   TLC having checked that the two agree.) *)
EXTENDS DataFile, IOUtils, TLCExt

Traces == ndJsonDeserialize(IOEnv.TRACE_FILE)

VARIABLE tid
tvars == <<vars, tid>>

TInit == /\ tid \in 1..Len(Traces)
         /\ pc = "done" /\ kind = "ref"
         /\ nrows = Len(Traces[tid].samples)
         /\ nsites = Len(Traces[tid].samples[1])
         /\ bases = Traces[tid].bases /\ samples = Traces[tid].samples
         /\ loaded = [samples |-> Traces[tid].lsamples, bases |-> Traces[tid].lbases, ref |-> Traces[tid].ref]
         /\ TLCSet(tid, 0)
TNext == FALSE /\ UNCHANGED tvars

Accepted == /\ loaded.samples = samples
            /\ loaded.bases = bases
            /\ loaded.ref = ExtractRef(samples, bases)
            /\ Len(loaded.ref) = Cardinality(RefIdx(bases))
Track == TLCSet(tid, IF Accepted THEN 1 ELSE 0)

Verdicts == \A j \in 1..Len(Traces) : PrintT(ToJson([tid |-> j, matched |-> TLCGet(j), need |-> 1]))
=============================================================================
