------------------------------ MODULE IndexWalk ------------------------------
(* A walker that makes TLC evaluate the constant-level facts of Bits.tla and
   Unitaries.tla state by state (so that they are counted, sharded over workers
   and exported):

     rows mode  (InitRows / NextRows):  every (n, k), n <= NMaxRows, in chunks,
         plus the sampled pairs Samples (n up to MaxSize);
     basis mode (InitBasis / NextBasis): every basis string in BasisSet.
*)
EXTENDS Unitaries, TLC, Json

CONSTANTS NFull,      \* pairwise lexicographic order, tensor position, surjectivity for n <= NFull
          NMaxRows,   \* rows are walked (and exported) for n <= NMaxRows
          Chunk,      \* rows per initial state
          Samples,    \* set of <<n, k>> walked in addition
          BasisSet    \* set of basis strings (sequences of letters)

VARIABLES n, k, lim, basis
vars == <<n, k, lim, basis>>

Min(a, b) == IF a < b THEN a ELSE b

InitRows ==
    /\ basis = <<>>
    /\ \/ /\ n \in 1..NMaxRows
          /\ k \in {c * Chunk : c \in 0..((Pow2(n) - 1) \div Chunk)}
          /\ lim = Min(k + Chunk, Pow2(n))
       \/ \E p \in Samples : n = p[1] /\ k = p[2] /\ lim = p[2] + 1

NextRows == /\ k + 1 < lim
            /\ k' = k + 1
            /\ UNCHANGED <<n, lim, basis>>

InitBasis == /\ basis \in BasisSet
             /\ n = Len(basis) /\ k = 0 /\ lim = Pow2(Len(basis))
\* in basis mode k walks over the columns (used for the exports only)
NextBasis == /\ k + 1 < lim
             /\ k' = k + 1
             /\ UNCHANGED <<n, lim, basis>>

\* ---- rows mode invariants ----
RowsOK ==
    /\ k < Pow2(n)
    /\ IndexOfRow(n, k)
    /\ LexNext(n, k)
    /\ n <= NFull => LexAfter(n, k) /\ KetPosition(n, k)
    /\ (n <= NFull /\ k = 0) => RowOfIndex(n)
SizeLimit == /\ MaxSize = 20
             /\ \A m \in 1..24 : Accepts(m) <=> m <= 20

ExportRow == PrintT(ToJson([n |-> n, k |-> k, row |-> Row(n, k), index |-> Index(Row(n, k)),
                            accepted |-> Accepts(n)]))

\* ---- basis mode invariants ----
BasisOK == k = 0 => /\ OneConvention(basis)
                    /\ DenseUnitary(basis)
DictOK == DictionaryFacts

\* the structure of the dense unitary: every entry with its Gaussian-integer coefficient
ExportDense == k = 0 => PrintT(ToJson([basis |-> basis, nfac |-> NFac(basis), dense |-> Dense(basis),
                                       rows |-> [p \in 1..Pow2(n) |-> Row(n, p - 1)]]))
\* column k through Row: the image of basis state Row(n, k) (position semantics of arrays)
ExportColumn == PrintT(ToJson([basis |-> basis, nfac |-> NFac(basis), k |-> k, row |-> Row(n, k),
                               col |-> PosColumn(basis, k)]))
ExportDict == (k = 0 /\ Len(basis) = 1) =>
                 PrintT(ToJson([letter |-> basis[1], fac |-> Fac(basis[1]), u |-> U(basis[1])]))
=============================================================================
