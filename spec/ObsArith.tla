------------------------------ MODULE ObsArith ------------------------------
(***************************************************************************)
(* True (not modular) exact arithmetic for the estimator theorems of       *)
(* Observables.tla and Swap.tla: Gaussian integers <<re, im>> and          *)
(* fractions <<num, den>> of integers (den > 0, kept in lowest terms).     *)
(* All values are tiny (amplitudes of modulus <= 2 on <= 8 basis states),  *)
(* so 32 bits suffice; TLC raises an error on overflow, it never wraps.    *)
(***************************************************************************)
EXTENDS Integers, Sequences

Abs(x) == IF x < 0 THEN -x ELSE x
RECURSIVE Gcd(_, _)
Gcd(a, b) == IF b = 0 THEN Abs(a) ELSE Gcd(b, a % b)
Lcm(a, b) == (a \div Gcd(a, b)) * b

RECURSIVE ISum(_)
ISum(s) == IF s = <<>> THEN 0 ELSE Head(s) + ISum(Tail(s))

(* Gaussian integers *)
ZZero == <<0, 0>>
ZOne  == <<1, 0>>
ZI    == <<0, 1>>
ZAdd(a, b)  == <<a[1] + b[1], a[2] + b[2]>>
ZSub(a, b)  == <<a[1] - b[1], a[2] - b[2]>>
ZNeg(a)     == <<-a[1], -a[2]>>
ZMul(a, b)  == <<a[1] * b[1] - a[2] * b[2], a[1] * b[2] + a[2] * b[1]>>
ZConj(a)    == <<a[1], -a[2]>>
ZScal(k, a) == <<k * a[1], k * a[2]>>
ZNorm(a)    == a[1] * a[1] + a[2] * a[2]            \* |a|^2
Re(a) == a[1]
Im(a) == a[2]
RECURSIVE ZSum(_)
ZSum(s) == IF s = <<>> THEN ZZero ELSE ZAdd(Head(s), ZSum(Tail(s)))

(* fractions: <<num, den>>, den > 0, lowest terms *)
FNorm(f) == LET s == IF f[2] < 0 THEN -1 ELSE 1
                g == Gcd(f[1], f[2])
            IN  <<(s * f[1]) \div g, (s * f[2]) \div g>>
FOfInt(k)  == <<k, 1>>
FAdd(a, b) == LET l == Lcm(a[2], b[2]) IN FNorm(<<a[1] * (l \div a[2]) + b[1] * (l \div b[2]), l>>)
FMul(a, b) == LET x == FNorm(<<a[1], b[2]>>)      \* cross-cancel first: keeps the products small
                  y == FNorm(<<b[1], a[2]>>)
              IN  FNorm(<<x[1] * y[1], x[2] * y[2]>>)
FEq(a, b)  == FNorm(a) = FNorm(b)
FLe(a, b)  == a[1] * b[2] <= b[1] * a[2]           \* both denominators positive
RECURSIVE FSum(_)
FSum(s) == IF s = <<>> THEN <<0, 1>> ELSE FAdd(Head(s), FSum(Tail(s)))

\* Re(N / D) for Gaussian integers N, D (D # 0): Re(N conj(D)) / |D|^2
ReQuot(N, D) == FNorm(<<Re(ZMul(N, ZConj(D))), ZNorm(D)>>)
ImQuot(N, D) == FNorm(<<Im(ZMul(N, ZConj(D))), ZNorm(D)>>)

=============================================================================
