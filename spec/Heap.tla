-------------------------------- MODULE Heap --------------------------------
(***************************************************************************)
(* C20 - construction and reset contracts on an abstract heap.             *)
(*                                                                         *)
(* Objects: storages (a shape and a value token each), network objects     *)
(* (BinaryRBM / PurificationRBM: sizes and one storage per named           *)
(* parameter), one neural state S (type, amplitude network, phase network  *)
(* or none) and one module M held by the user.  Value tokens say only      *)
(* where a value came from:  zero / a random draw / a user mutation / a    *)
(* training run.  Writing through one network object changes exactly the   *)
(* storages that object points to - whoever else points to them sees it.   *)
(*                                                                         *)
(* Actions = the documented behaviour of                                   *)
(*   PositiveWaveFunction / ComplexWaveFunction / DensityMatrix __init__   *)
(*       (sizes branch and module branch),                                 *)
(*   BinaryRBM / PurificationRBM initialize_parameters,                    *)
(*   NeuralStateBase.reinitialize_parameters,                              *)
(*   fit (guard requiring input_bases; zero auxiliary-bias gradient of the *)
(*   phase network),                                                       *)
(* plus the user's own in-place writes to a network's parameters.          *)
(* TLC explores every sequence of actions of a bounded length and checks   *)
(* the contracts of the property as invariants; every behaviour exported   *)
(* (hist) is replayed on the real objects by harness/check_c20.py.         *)
(***************************************************************************)
EXTENDS Integers, Sequences, FiniteSets, TLC

CONSTANTS Types,       \* subset of {"positive", "complex", "density"}
          NVs,         \* num_visible values
          NHs, NAs,    \* num_hidden / num_aux arguments; 0 = not given (default = num_visible)
          ModSizes,    \* <<nv, nh, na>> of modules the user may build
          MutIdx,      \* parameter positions the user may write to
          Optimizers,  \* names of optimizers passed to fit
          MaxLen,
          Export,      \* TRUE: keep the history of actions and views
          AliasBug,    \* control: the module branch uses M itself as the phase network
          ReinitBug,   \* control: reinitialisation only touches the amplitude network
          GuardLate    \* control: the missing-bases guard fires after on_train_start

VARIABLES heap,        \* sequence of storages [shape, val]
          nets,        \* sequence of network objects [kind, nv, nh, na, p]
          S,           \* [type, am, ph, z]; type = "none" before the first construction
          M,           \* network id of the user's module, 0 = none
          fresh,       \* source of new value tokens
          rng,         \* abstract position of torch's generator
          events,      \* callback events emitted so far
          err,         \* "" or the exception raised by the last action
          last, prev, n, hist

vars == <<heap, nets, S, M, fresh, rng, events, err, last, prev, n, hist>>

-----------------------------------------------------------------------------
Zero       == <<"zero", 0>>
Rand(i)    == <<"rand", i>>
Mut(i)     == <<"mut", i>>
Trained(i) == <<"trained", i>>

KindOf(ty) == IF ty = "density" THEN "purif" ELSE "binary"
Names(kind) == IF kind = "binary" THEN <<"weights", "visible_bias", "hidden_bias">>
               ELSE <<"weights_W", "weights_U", "visible_bias", "hidden_bias", "aux_bias">>
IsWeight(name) == name \in {"weights", "weights_W", "weights_U"}
Shape(name, nv, nh, na) ==
    CASE name \in {"weights", "weights_W"} -> <<nh, nv>>
      [] name = "weights_U" -> <<na, nv>>
      [] name = "visible_bias" -> <<nv>>
      [] name = "hidden_bias" -> <<nh>>
      [] name = "aux_bias" -> <<na>>
AuxIdx == 5            \* position of aux_bias in Names("purif")
NWeights(kind) == IF kind = "binary" THEN 1 ELSE 2

\* a new network object whose i-th parameter holds vals[i], each in a storage of its own
Alloc(h, kind, nv, nh, na, vals) ==
    LET nm == Names(kind)
        k  == Len(nm)
    IN [heap |-> h \o [i \in 1..k |-> [shape |-> Shape(nm[i], nv, nh, na), val |-> vals[i]]],
        net  |-> [kind |-> kind, nv |-> nv, nh |-> nh, na |-> na, p |-> [i \in 1..k |-> Len(h) + i]]]

\* initialize_parameters: weights ~ randn / sqrt(nv), every bias zero
InitVals(kind, f) == [i \in 1..Len(Names(kind)) |->
                         IF IsWeight(Names(kind)[i]) THEN Rand(f + i) ELSE Zero]

Act(a, ty, nv, nh, na, tgt, idx, bases, opt) ==
    [a |-> a, ty |-> ty, nv |-> nv, nh |-> nh, na |-> na, tgt |-> tgt, idx |-> idx, bases |-> bases, opt |-> opt]
NoAct == Act("None", "", 0, 0, 0, "", 0, FALSE, "")

Snapshot == [heap |-> heap, nets |-> nets, S |-> S, M |-> M, rng |-> rng, events |-> events]

NetOf(tgt) == CASE tgt = "am" -> S.am [] tgt = "ph" -> S.ph [] tgt = "M" -> M
StateNets(s) == IF s.type = "none" THEN {} ELSE IF s.ph = 0 THEN {s.am} ELSE {s.am, s.ph}
Storages(ns, id) == {ns[id].p[i] : i \in 1..Len(ns[id].p)}

\* what an observer sees of one network object
NetView(id) == IF id = 0 THEN <<>>
               ELSE [i \in 1..Len(nets'[id].p) |->
                        [st |-> nets'[id].p[i], shape |-> heap'[nets'[id].p[i]].shape, val |-> heap'[nets'[id].p[i]].val]]
Sizes(id) == IF id = 0 THEN <<>> ELSE <<nets'[id].nv, nets'[id].nh, nets'[id].na>>

Step(act) ==
    /\ last' = act /\ prev' = Snapshot /\ n' = n + 1
    /\ hist' = IF Export
               THEN Append(hist, [act |-> act, err |-> err', type |-> S'.type,
                                  am |-> NetView(S'.am), ph |-> NetView(S'.ph), M |-> NetView(M'),
                                  amSizes |-> Sizes(S'.am), mIsAm |-> (M' # 0 /\ M' = S'.am),
                                  dRng |-> rng' - rng, dEv |-> events' - events])
               ELSE hist

-----------------------------------------------------------------------------
(* Actions *)

ConstructSizes(ty, nv, nhA, naA) ==
    LET kind == KindOf(ty)
        nh == IF nhA = 0 THEN nv ELSE nhA
        na == IF kind = "binary" THEN 0 ELSE IF naA = 0 THEN nv ELSE naA
        k  == Len(Names(kind))
        a1 == Alloc(heap, kind, nv, nh, na, InitVals(kind, fresh))
        a2 == Alloc(a1.heap, kind, nv, nh, na, InitVals(kind, fresh + k))
        two == ty # "positive"
    IN /\ (kind = "binary" => naA = 0)
       /\ heap' = IF two THEN a2.heap ELSE a1.heap
       /\ nets' = IF two THEN nets \o <<a1.net, a2.net>> ELSE Append(nets, a1.net)
       /\ S' = [type |-> ty, am |-> Len(nets) + 1, ph |-> IF two THEN Len(nets) + 2 ELSE 0, z |-> TRUE]
       /\ fresh' = fresh + 2 * k
       /\ rng' = rng + (IF two THEN 2 ELSE 1) * NWeights(kind)
       /\ err' = ""
       /\ UNCHANGED <<M, events>>
       /\ Step(Act("ConstructSizes", ty, nv, nhA, naA, "", 0, FALSE, ""))

\* the user builds BinaryRBM(nv, nh) / PurificationRBM(nv, nh, na), optionally with zero_weights=True
\* (every parameter zero, nothing drawn).  The flag is a property of that one construction: a later
\* reinitialisation of a state that uses the module draws random weights like any other (Reinit below).
NewModule(kind, sz, zw) ==
    LET vals == IF zw THEN [i \in 1..Len(Names(kind)) |-> Zero] ELSE InitVals(kind, fresh)
        a1 == Alloc(heap, kind, sz[1], sz[2], IF kind = "binary" THEN 0 ELSE sz[3], vals)
    IN /\ heap' = a1.heap /\ nets' = Append(nets, a1.net) /\ M' = Len(nets) + 1
       /\ fresh' = fresh + Len(Names(kind)) /\ rng' = rng + (IF zw THEN 0 ELSE NWeights(kind)) /\ err' = ""
       /\ UNCHANGED <<S, events>>
       /\ Step(Act("NewModule", kind, sz[1], sz[2], IF kind = "binary" THEN 0 ELSE sz[3], "", 0, FALSE,
                   IF zw THEN "zero_weights" ELSE ""))

\* Type(nvArg, module=M): M is the amplitude network; the phase network is an independent copy
ConstructModule(ty, nvArg) ==
    /\ M # 0 /\ nets[M].kind = KindOf(ty)
    /\ LET m  == nets[M]
           cp == Alloc(heap, m.kind, m.nv, m.nh, m.na, [i \in 1..Len(m.p) |-> heap[m.p[i]].val])
           two == ty # "positive"
           copy == two /\ ~AliasBug
       IN /\ heap' = IF copy THEN cp.heap ELSE heap
          /\ nets' = IF copy THEN Append(nets, cp.net) ELSE nets
          /\ S' = [type |-> ty, am |-> M,
                   ph |-> IF ~two THEN 0 ELSE IF AliasBug THEN M ELSE Len(nets) + 1,
                   z |-> (m.kind = "purif" /\ heap[m.p[AuxIdx]].val = Zero)]
    /\ err' = ""
    /\ UNCHANGED <<M, fresh, rng, events>>
    /\ Step(Act("ConstructModule", ty, nvArg, 0, 0, "", 0, FALSE, ""))

\* the user writes in place to one parameter of one network object
\* (assumption: never to an auxiliary bias - see check_c20.py)
Mutate(tgt, idx) ==
    /\ (tgt \in {"am", "ph"} => S.type # "none")
    /\ NetOf(tgt) # 0
    /\ idx \in 1..Len(nets[NetOf(tgt)].p)
    /\ Names(nets[NetOf(tgt)].kind)[idx] # "aux_bias"
    /\ heap' = [heap EXCEPT ![nets[NetOf(tgt)].p[idx]].val = Mut(fresh + 1)]
    /\ fresh' = fresh + 1 /\ err' = ""
    /\ UNCHANGED <<nets, S, M, rng, events>>
    /\ Step(Act("Mutate", "", 0, 0, 0, tgt, idx, FALSE, ""))

\* reinitialize_parameters: every network of the state draws new weights, biases back to zero
Reinit ==
    /\ S.type # "none"
    /\ LET ids == IF S.ph = 0 \/ ReinitBug \/ S.ph = S.am THEN <<S.am>> ELSE <<S.am, S.ph>>
           k   == Len(nets[S.am].p)
           m1  == nets[ids[1]]
           a1  == Alloc(heap, m1.kind, m1.nv, m1.nh, m1.na, InitVals(m1.kind, fresh))
           m2  == nets[ids[Len(ids)]]
           a2  == Alloc(a1.heap, m2.kind, m2.nv, m2.nh, m2.na, InitVals(m2.kind, fresh + k))
       IN /\ heap' = IF Len(ids) = 2 THEN a2.heap ELSE a1.heap
          /\ nets' = [i \in 1..Len(nets) |->
                         IF i = ids[1] THEN [nets[i] EXCEPT !.p = a1.net.p]
                         ELSE IF Len(ids) = 2 /\ i = ids[2] THEN [nets[i] EXCEPT !.p = a2.net.p]
                         ELSE nets[i]]
          /\ fresh' = fresh + 2 * k
          /\ rng' = rng + Len(ids) * NWeights(m1.kind)
    /\ err' = ""
    /\ UNCHANGED <<S, M, events>>
    /\ Step(Act("Reinit", "", 0, 0, 0, "", 0, FALSE, ""))

\* fit(data [, input_bases], optimizer=opt)
Fit(bases, opt) ==
    /\ S.type # "none"
    /\ IF S.type # "positive" /\ ~bases
       THEN \* refused before anything changes
            /\ err' = "ValueError"
            /\ events' = IF GuardLate THEN events + 1 ELSE events
            /\ UNCHANGED <<heap, nets, S, M, fresh, rng>>
       ELSE LET ids == StateNets(S)
                touched == {nets[id].p[i] : id \in ids, i \in 1..Len(nets[S.am].p)}
                keep == IF S.ph = 0 THEN {} ELSE IF nets[S.ph].kind = "purif" THEN {nets[S.ph].p[AuxIdx]} ELSE {}
            IN /\ heap' = [s \in 1..Len(heap) |->
                              IF s \in touched \ keep THEN [heap[s] EXCEPT !.val = Trained(fresh + s)] ELSE heap[s]]
               /\ fresh' = fresh + Len(heap)
               /\ rng' = rng + 1 /\ events' = events + 1 /\ err' = ""
               /\ UNCHANGED <<nets, S, M>>
    /\ Step(Act("Fit", "", 0, 0, 0, "", 0, bases, opt))

Init == /\ heap = <<>> /\ nets = <<>> /\ S = [type |-> "none", am |-> 0, ph |-> 0, z |-> FALSE] /\ M = 0
        /\ fresh = 0 /\ rng = 0 /\ events = 0 /\ err = ""
        /\ last = NoAct /\ n = 0 /\ hist = <<>>
        /\ prev = [heap |-> <<>>, nets |-> <<>>, S |-> [type |-> "none", am |-> 0, ph |-> 0, z |-> FALSE],
                   M |-> 0, rng |-> 0, events |-> 0]

Next == /\ n < MaxLen
        /\ \/ \E ty \in Types, nv \in NVs, nh \in NHs, na \in NAs : ConstructSizes(ty, nv, nh, na)
           \/ \E kind \in {KindOf(ty) : ty \in Types}, sz \in ModSizes, zw \in BOOLEAN : NewModule(kind, sz, zw)
           \/ \E ty \in Types, nv \in NVs : ConstructModule(ty, nv)
           \/ \E tgt \in {"am", "ph", "M"}, idx \in MutIdx : Mutate(tgt, idx)
           \/ Reinit
           \/ \E b \in BOOLEAN, o \in Optimizers : Fit(b, o)

Spec == Init /\ [][Next]_vars

-----------------------------------------------------------------------------
(* Contracts *)

Val(h, ns, id, i) == h[ns[id].p[i]].val
OldVals == {prev.heap[s].val : s \in 1..Len(prev.heap)}
Built == S.type # "none"

TypeOK == /\ n \in 0..MaxLen
          /\ \A id \in 1..Len(nets) : \A i \in 1..Len(nets[id].p) : nets[id].p[i] \in 1..Len(heap)
          /\ S.am \in 0..Len(nets) /\ S.ph \in 0..Len(nets) /\ M \in 0..Len(nets)
          /\ (Built => S.am # 0 /\ (S.type = "positive" <=> S.ph = 0))

\* the amplitude and the phase network never share a storage; within one network object every
\* parameter has a storage of its own
NoAlias ==
    /\ (Built /\ S.ph # 0) => Storages(nets, S.am) \cap Storages(nets, S.ph) = {}
    /\ \A id \in 1..Len(nets) : Cardinality(Storages(nets, id)) = Len(nets[id].p)

\* built from a module: the amplitude network IS the module (its storages, its sizes); the phase
\* network, where there is one, has equal values, equal shapes and storages nobody else has
ModuleContract ==
    (last.a = "ConstructModule") =>
        /\ err = "" /\ S.am = M
        /\ S.ph # 0 =>
              /\ S.ph # M
              /\ nets[S.ph].kind = nets[M].kind
              /\ <<nets[S.ph].nv, nets[S.ph].nh, nets[S.ph].na>> = <<nets[M].nv, nets[M].nh, nets[M].na>>
              /\ \A i \in 1..Len(nets[M].p) :
                    /\ Val(heap, nets, S.ph, i) = Val(heap, nets, M, i)
                    /\ heap[nets[S.ph].p[i]].shape = heap[nets[M].p[i]].shape
                    /\ nets[S.ph].p[i] > Len(prev.heap)

\* writing to one network object changes no value of any other network object
Isolation ==
    (last.a = "Mutate") =>
        \A id \in 1..Len(nets) : id # NetOf(last.tgt) =>
            \A i \in 1..Len(nets[id].p) : Val(heap, nets, id, i) = Val(prev.heap, prev.nets, id, i)

\* built from sizes: requested shapes (defaults num_hidden = num_aux = num_visible), zero biases,
\* freshly drawn weights, independent networks
SizesContract ==
    (last.a = "ConstructSizes") =>
        LET nh == IF last.nh = 0 THEN last.nv ELSE last.nh
            na == IF S.type # "density" THEN 0 ELSE IF last.na = 0 THEN last.nv ELSE last.na
        IN /\ err = "" /\ S.type = last.ty
           /\ \A id \in StateNets(S) :
                 /\ <<nets[id].nv, nets[id].nh, nets[id].na>> = <<last.nv, nh, na>>
                 /\ \A i \in 1..Len(nets[id].p) :
                       LET nm == Names(nets[id].kind)[i] IN
                       /\ heap[nets[id].p[i]].shape = Shape(nm, last.nv, nh, na)
                       /\ nets[id].p[i] > Len(prev.heap)
                       /\ IF IsWeight(nm) THEN /\ Val(heap, nets, id, i)[1] = "rand"
                                               /\ Val(heap, nets, id, i) \notin OldVals
                          ELSE Val(heap, nets, id, i) = Zero
           /\ \A a, b \in StateNets(S) : \A i, j \in 1..Len(nets[a].p) :
                 (IsWeight(Names(nets[a].kind)[i]) /\ <<a, i>> # <<b, j>>) => Val(heap, nets, a, i) # Val(heap, nets, b, j)

\* reinitialisation: every network of the state has new weights, zero biases, the old shapes
ReinitContract ==
    (last.a = "Reinit") =>
        /\ err = ""
        /\ \A id \in StateNets(S) : \A i \in 1..Len(nets[id].p) :
              LET nm == Names(nets[id].kind)[i] IN
              /\ heap[nets[id].p[i]].shape = prev.heap[prev.nets[id].p[i]].shape
              /\ IF IsWeight(nm) THEN /\ Val(heap, nets, id, i)[1] = "rand"
                                      /\ Val(heap, nets, id, i) \notin OldVals
                 ELSE Val(heap, nets, id, i) = Zero

\* complex / mixed states refuse to train without bases, before anything changes
GuardContract ==
    (last.a = "Fit") =>
        IF S.type # "positive" /\ ~last.bases
        THEN err = "ValueError" /\ heap = prev.heap /\ nets = prev.nets /\ rng = prev.rng /\ events = prev.events
        ELSE err = ""

\* training never moves the phase network's auxiliary bias; it is zero whenever it was zero when
\* the state was built
PhaseAuxFrozen ==
    (last.a = "Fit" /\ S.type = "density") => Val(heap, nets, S.ph, AuxIdx) = Val(prev.heap, prev.nets, S.ph, AuxIdx)
PhaseAuxZero ==
    (Built /\ S.type = "density" /\ S.z) => Val(heap, nets, S.ph, AuxIdx) = Zero
=============================================================================
