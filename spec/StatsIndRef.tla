---------------------------- MODULE StatsIndRef ----------------------------
(* Stats.tla (part B, the schedule that is bound to the real statistics() by replay and by trace validation) refines
   the history-free skeleton StatsInd.tla, whose inductive invariant Apalache proves for unbounded num_samples,
   num_chains and buffer sizes: the skeleton's counters are COMPUTED from the list of draws of Stats.tla, every state
   of Stats.tla lies inside IndInv and every step is the skeleton's step of the same name.  Checked by TLC on the
   bounded configuration space of the C13 check (harness/ext_apalache_stats.py). *)
EXTENDS Stats

Picked == pc # "Pick"
g_lastK == IF Len(draws) = 0 THEN -1 ELSE draws[Len(draws)].k
g_burns == IF Len(draws) = 0 THEN 0 ELSE 1          \* draw 1 is the burn-in draw (BurnOnceFirst says so of its k)

SI == INSTANCE StatsInd WITH
        pc <- pc, S <- (IF Picked THEN cfg.S ELSE 1), C <- (IF Picked THEN cfg.C ELSE 0), L <- (IF Picked THEN cfg.L ELSE 0),
        burn <- (IF Picked THEN cfg.burn ELSE 0), steps <- (IF Picked THEN cfg.steps ELSE 0),
        cp <- cp, nt <- nt, i <- Len(draws), count <- count, lastK <- g_lastK, burns <- g_burns

RefInit == pc = "Call" => SI!Init
RefInv  == Picked => SI!IndInv /\ SI!Goal
RefStepAct == CASE pc = "Call" -> SI!Call
                [] pc = "Draw" /\ Len(draws) < nt -> SI!Draw
                [] pc = "Draw" /\ Len(draws) = nt -> SI!Finish
                [] OTHER -> TRUE
RefStep == [][RefStepAct]_bvars
\* negative control: Stats.tla does not refine the skeleton that applies the burn-in to every draw
RefStepBurnAlways == [][pc = "Draw" /\ Len(draws) < nt => SI!DrawBurnAlways]_bvars
=============================================================================
