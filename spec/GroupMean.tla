------------------------------ MODULE GroupMean ------------------------------
(* "The mean over a batch of per-row terms, each row in its own basis, however the batch is ordered or
   grouped by basis" - the shape shared by the positive-phase gradient (C03), the negative log-likelihood
   and (with one group per requested basis) the basis-averaged KL divergence (C10).

   A batch is a sequence of rows [b |-> basis code, t |-> the row's own term (an integer: fixed point)].
   An evaluation takes the groups of equal basis in SOME order (Grouping.tla fixes numpy.unique's sorted
   order for the library's gradient(); here the order is the environment's), adds the terms of a group in
   one step, and reports the accumulated sum.  GroupedIsSum: the result is the sum over the rows of each
   row's own term - independent of the order of the rows and of the groups.  TraceGroupMean.tla binds the
   terms, the group values and the total to public calls of the implementation. *)
EXTENDS Integers, Sequences, FiniteSets, TLC

CONSTANTS MaxRows, NBases, Terms      \* rows per batch, basis codes 1..NBases, possible per-row terms

VARIABLES rows, pc, taken, acc
vars == <<rows, pc, taken, acc>>

RECURSIVE SumSeq(_)
SumSeq(s) == IF s = <<>> THEN 0 ELSE Head(s) + SumSeq(Tail(s))
BasesOf(rs) == {rs[i].b : i \in 1..Len(rs)}
TermsOf(rs, b) == LET sel == SelectSeq(rs, LAMBDA r : r.b = b) IN [i \in 1..Len(sel) |-> sel[i].t]
CountOf(rs, b) == Len(SelectSeq(rs, LAMBDA r : r.b = b))

Init == /\ pc = "pick" /\ rows = <<>> /\ taken = {} /\ acc = 0
Pick == /\ pc = "pick"
        /\ \E m \in 1..MaxRows : \E rs \in [1..m -> [b : 1..NBases, t : Terms]] : rows' = rs
        /\ pc' = "group" /\ UNCHANGED <<taken, acc>>
\* one group: all rows of basis b, whichever basis comes next
GroupOf(b) == /\ pc = "group" /\ b \in BasesOf(rows) \ taken
              /\ acc' = acc + SumSeq(TermsOf(rows, b))
              /\ taken' = taken \cup {b}
              /\ pc' = IF taken' = BasesOf(rows) THEN "end" ELSE "group"
              /\ UNCHANGED rows
Group == \E b \in 1..NBases : GroupOf(b)
Next == Pick \/ Group
Spec == Init /\ [][Next]_vars

GroupedIsSum == pc = "end" => acc = SumSeq([i \in 1..Len(rows) |-> rows[i].t])
EveryRowOnce == pc = "end" => SumSeq([i \in 1..Cardinality(taken) |->
                                        CountOf(rows, CHOOSE b \in taken : Cardinality({c \in taken : c < b}) = i - 1)])
                                 = Len(rows)
=============================================================================
