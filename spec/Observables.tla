---------------------------- MODULE Observables ----------------------------
(***************************************************************************)
(* C08 - the built-in observables are unbiased estimators of the operator  *)
(* they name.                                                              *)
(*                                                                         *)
(* THE THEOREM, over an abstract exact state (no RBM anywhere): the state  *)
(* is a vector psi of small Gaussian integers on the 2^n basis states      *)
(* ("pure") or the Gram matrix rho = SUM_j v_j v_j^dagger of one or two    *)
(* such vectors ("mixed": Hermitian, PSD, positive diagonal).  For every   *)
(* built-in observable O                                                   *)
(*        SUM_sigma P(sigma) * L_O(sigma)  =  tr(rho_hat O)                *)
(* with P(sigma) = rho(sigma,sigma)/tr(rho), rho_hat = rho/tr(rho), where  *)
(*   - O is defined FROM ITS NAME: Pauli matrices written out, placed at a *)
(*     site by the tensor-product convention of the Hilbert space (site 1  *)
(*     most significant, Exact!Row); Z-type observables use the library's  *)
(*     documented spin convention s = 2 sigma - 1 (bit 0 -> -1, 1 -> +1);  *)
(*   - L_O is the per-sample value AS THE CODE COMPUTES IT (sum over       *)
(*     single-site flips of coefficient * numerator / denominator, real    *)
(*     part, divided by n; spin products for the Z-type ones).             *)
(* Arithmetic is true integer / rational arithmetic (ObsArith).            *)
(*                                                                         *)
(* The same module exports, per n, each operator's row structure           *)
(* sigma -> {(sigma', O(sigma,sigma'))} and dense matrix; the harness      *)
(* evaluates them on exactly evaluated RBM states and compares with the    *)
(* real classes.  `v` below selects the model of the code: "code" is the   *)
(* implementation as it stands, the other values are seeded faults that    *)
(* the theorem must expose (anti-vacuity), "per-minus" is a symmetric      *)
(* alternative that must NOT be exposed.                                   *)
(***************************************************************************)
EXTENDS Exact, ObsArith, FiniteSets, TLC, Json

CONSTANTS Amps,       \* set of Gaussian integers the amplitudes range over (no zero)
          NExh,       \* n = 1..NExh enumerated exhaustively
          Second,     \* sequence of n = 2 vectors: the second Gram vector of the n = 2 mixed cases
          Supplied,   \* sequence of supplied cases (seeded, n = 3)
          Lanes,      \* parallel lanes reading Supplied
          OpsNs,      \* the n whose operator tables are checked and exported
          TabNs,      \* the n for which the operator tables are built (superset of all n in use)
          Witness,    \* sequence of cases on which every seeded fault must be exposed
          Faults      \* set of seeded-fault names

VARIABLES st,   \* "pre" -> "case" | "lane" -> "case" -> "case" ... | "ops" | "faults"
          C,    \* the case [kind |-> "pure" | "mixed", n, vs |-> <<v1>> or <<v1, v2>>]
          idx
vars == <<st, C, idx>>

-----------------------------------------------------------------------------
(* 2 x 2 matrices, written out in the (|0>, |1>) order; entry (a, b) is M[a+1][b+1] *)
PauliX == << <<ZZero, ZOne>>,
             <<ZOne, ZZero>> >>
PauliY == << <<ZZero, <<0, -1>> >>,
             << <<0, 1>>, ZZero>> >>
SpinZ  == << << <<-1, 0>>, ZZero>>,            \* s = 2 sigma - 1: diag(-1, +1)
             <<ZZero, ZOne>> >>
Id2    == << <<ZOne, ZZero>>,
             <<ZZero, ZOne>> >>
M2Mul(A, B) == [a \in 1..2 |-> [b \in 1..2 |-> ZAdd(ZMul(A[a][1], B[1][b]), ZMul(A[a][2], B[2][b]))]]

RECURSIVE ZProd(_)
ZProd(s) == IF s = <<>> THEN ZOne ELSE ZMul(Head(s), ZProd(Tail(s)))

Dim(n) == Pow2(n)
Bits(n, k) == Row(n, k)                                        \* basis state k = 0 .. 2^n - 1
Idx(n, b) == ISum([s \in 1..n |-> b[s] * Pow2(n - s)])

\* tensor product F[1] (x) F[2] (x) ... (x) F[n]: site 1 is the most significant bit of the index
Kron(n, F) == [k \in 1..Dim(n) |-> [l \in 1..Dim(n) |->
                  ZProd([s \in 1..n |-> F[s][Bits(n, k - 1)[s] + 1][Bits(n, l - 1)[s] + 1]])]]
Place(n, A, i) == Kron(n, [s \in 1..n |-> IF s = i THEN A ELSE Id2])            \* A_i
Place2(n, A, i, B, j) ==                                                         \* A_i B_j
    Kron(n, [s \in 1..n |-> IF s = i /\ s = j THEN M2Mul(A, B)
                            ELSE IF s = i THEN A ELSE IF s = j THEN B ELSE Id2])
MatZero(n) == [k \in 1..Dim(n) |-> [l \in 1..Dim(n) |-> ZZero]]
MatAdd(n, X, Y) == [k \in 1..Dim(n) |-> [l \in 1..Dim(n) |-> ZAdd(X[k][l], Y[k][l])]]
RECURSIVE MatSum(_, _, _)
MatSum(n, F, m) == IF m = 0 THEN MatZero(n) ELSE MatAdd(n, F[m], MatSum(n, F, m - 1))   \* F[1] + ... + F[m]
MatMul(n, X, Y) == [k \in 1..Dim(n) |-> [l \in 1..Dim(n) |->
                       ZSum([m \in 1..Dim(n) |-> ZMul(X[k][m], Y[m][l])])]]

(* the observables, by name.  NOp(n, op) is n * O (a Gaussian-integer matrix) *)
Single(kind) == [k |-> kind, c |-> 0, per |-> FALSE]
ZZ(c, per) == [k |-> "ZZ", c |-> c, per |-> per]
OpList(n) == <<Single("X"), Single("Y"), Single("Z")>>
             \o [c \in 1..n |-> ZZ(c, FALSE)] \o [c \in 1..n |-> ZZ(c, TRUE)]
PerNbr(n, i, c) == ((i - 1 + c) % n) + 1            \* site (i + c) mod n, sites numbered 1..n
PerNbrMinus(n, i, c) == ((i - 1 - c + n) % n) + 1   \* site (i - c) mod n   (c <= n)
NOp(n, op) ==
    CASE op.k = "X" -> MatSum(n, [i \in 1..n |-> Place(n, PauliX, i)], n)
      [] op.k = "Y" -> MatSum(n, [i \in 1..n |-> Place(n, PauliY, i)], n)
      [] op.k = "Z" -> MatSum(n, [i \in 1..n |-> Place(n, SpinZ, i)], n)
      [] op.k = "ZZ" /\ ~op.per ->
            MatSum(n, [i \in 1..(n - op.c) |-> Place2(n, SpinZ, i, SpinZ, i + op.c)], n - op.c)
      [] op.k = "ZZ" /\ op.per ->
            MatSum(n, [i \in 1..n |-> Place2(n, SpinZ, i, SpinZ, PerNbr(n, i, op.c))], n)
OpTab == [n \in TabNs |-> [j \in 1..Len(OpList(n)) |-> NOp(n, OpList(n)[j])]]
NOps(n) == Len(OpList(n))

-----------------------------------------------------------------------------
(* the abstract exact state *)
Vec(c, j, k) == c.vs[j][k + 1]
\* reconstructed (unnormalised) density matrix: |psi><psi| or the Gram matrix of the vectors
Rho(c, k, l) == ZSum([j \in 1..Len(c.vs) |-> ZMul(Vec(c, j, k), ZConj(Vec(c, j, l)))])
\* importance-sampling numerator / denominator of the two kinds of state (neural_state.py docstrings)
Num(c, kp, k) == IF c.kind = "pure" THEN Vec(c, 1, kp) ELSE Rho(c, kp, k)     \* psi(s')   | rho(s', s)
Den(c, k)     == IF c.kind = "pure" THEN Vec(c, 1, k)  ELSE Rho(c, k, k)      \* psi(s)    | rho(s, s)
Wt(c, k) == Re(Rho(c, k, k))                                                   \* P(s) * tr(rho)
Tr(c) == ISum([k \in 1..Dim(c.n) |-> Wt(c, k - 1)])

(* the per-sample value as the code computes it; v = model of the code *)
Pm1(x) == 2 * x - 1                                 \* to_pm1
FlipB(b, i) == [b EXCEPT ![i] = 1 - @]              \* flip_spin(i, .)
RECURSIVE FlipUpTo(_, _)
FlipUpTo(b, i) == IF i = 0 THEN b ELSE FlipB(FlipUpTo(b, i - 1), i)
CodeCoef(v, op, b, i) ==
    IF op.k = "X" THEN ZOne
    ELSE LET bit == IF v = "pm1-of-flipped" THEN 1 - b[i] ELSE b[i]
             sg  == IF v = "y-sign" THEN -1 ELSE 1
         IN  <<0, sg * Pm1(bit)>>                   \* i * (2 sigma_i - 1)
CodeNum(v, c, b, i) ==
    LET n == c.n  k == Idx(n, b)  kp == Idx(n, FlipB(b, i))
        ka == Idx(n, FlipUpTo(b, i))                \* "aliased-flip": flips accumulate in the caller's tensor
    IN  CASE v = "num-args-swapped" -> Num(c, k, kp)
          [] v = "aliased-flip"     -> Num(c, ka, ka)
          [] OTHER                  -> Num(c, kp, k)
CodeFlipSum(v, c, op, k) ==
    LET b == Bits(c.n, k) IN ZSum([i \in 1..c.n |-> ZMul(CodeCoef(v, op, b, i), CodeNum(v, c, b, i))])
SpinSum(b, m, nb(_)) == ISum([i \in 1..m |-> Pm1(b[i]) * Pm1(b[nb(i)])])
CodeL(v, c, op, k) ==
    LET n == c.n  b == Bits(n, k) IN
    CASE op.k \in {"X", "Y"} -> FMul(ReQuot(CodeFlipSum(v, c, op, k), Den(c, k)), <<1, n>>)
      [] op.k = "Z" -> FNorm(<<(IF v = "z-sign" THEN -1 ELSE 1) * (2 * ISum(b) - n), n>>)   \* to_pm1(mean)
      [] op.k = "ZZ" /\ ~op.per ->
            LET last == IF v = "open-off-by-one" THEN n - op.c - 1 ELSE n - op.c
                d    == IF v = "div-n-minus-c" /\ n - op.c > 0 THEN n - op.c ELSE n
                nb(i) == i + op.c
            IN  FNorm(<<IF last > 0 THEN SpinSum(b, last, nb) ELSE 0, d>>)
      [] op.k = "ZZ" /\ op.per ->
            LET nb(i) == IF v = "per-minus" THEN PerNbrMinus(n, i, op.c) ELSE PerNbr(n, i, op.c)
            IN  FNorm(<<SpinSum(b, n, nb), n>>)

(* the same quantities from the operator *)
\* SUM_s' nO(s, s') * numerator(s', s)
OpRowSum(c, j, k) == ZSum([l \in 1..Dim(c.n) |-> ZMul(OpTab[c.n][j][k + 1][l], Num(c, l - 1, k))])
\* tr(rho * nO) = SUM_{s, s'} nO(s, s') rho(s', s)
TraceRhoOp(c, j) == ZSum([k \in 1..Dim(c.n) |->
                       ZSum([l \in 1..Dim(c.n) |-> ZMul(OpTab[c.n][j][k][l], Rho(c, l - 1, k - 1))])])

UnbiasedFor(v, c, j) ==
    LET n == c.n  T == TraceRhoOp(c, j)  Z == Tr(c) IN
    /\ Im(T) = 0
    /\ FEq(FSum([k \in 1..Dim(n) |-> FMul(<<Wt(c, k - 1), Z>>, CodeL(v, c, OpList(n)[j], k - 1))]),
           <<Re(T), n * Z>>)

-----------------------------------------------------------------------------
(* enumeration of cases *)
VecsOf(n) == [1..Dim(n) -> Amps]
SecondSet(n) == IF n = 1 THEN VecsOf(1) ELSE {Second[j] : j \in 1..Len(Second)}

Init == \/ /\ st = "pre" /\ idx = 0
           /\ \E kind \in {"pure", "mixed"}, n \in 1..NExh, nvec \in 1..2, a \in Amps :
                 /\ kind = "pure" => nvec = 1
                 /\ C = [kind |-> kind, n |-> n, nvec |-> nvec, a |-> a]
        \/ /\ st = "lane" /\ \E k \in 1..Lanes : idx = k
           /\ idx <= Len(Supplied) /\ C = <<>>
        \/ /\ st = "ops" /\ idx = 0 /\ \E n \in OpsNs : C = [n |-> n]
        \/ /\ st = "faults" /\ idx = 0 /\ \E v \in Faults \cup {"code", "per-minus"} : C = [v |-> v]
Pick == /\ st = "pre"
        /\ \E rest \in [1..(Dim(C.n) - 1) -> Amps] :
              LET v1 == [k \in 1..Dim(C.n) |-> IF k = 1 THEN C.a ELSE rest[k - 1]] IN
              IF C.nvec = 1 THEN C' = [kind |-> C.kind, n |-> C.n, vs |-> <<v1>>]
              ELSE \E v2 \in SecondSet(C.n) : C' = [kind |-> C.kind, n |-> C.n, vs |-> <<v1, v2>>]
        /\ st' = "case" /\ UNCHANGED idx
Load == /\ st = "lane" /\ C' = Supplied[idx] /\ st' = "case" /\ UNCHANGED idx
Advance == /\ st = "case" /\ idx > 0 /\ idx + Lanes <= Len(Supplied)
           /\ idx' = idx + Lanes /\ C' = Supplied[idx + Lanes] /\ UNCHANGED st
Next == Pick \/ Load \/ Advance

-----------------------------------------------------------------------------
Live == st = "case"

TypeOK == Live => /\ C.kind \in {"pure", "mixed"} /\ C.n \in TabNs
                  /\ Len(C.vs) \in 1..2 /\ (C.kind = "pure" => Len(C.vs) = 1)
                  /\ \A j \in 1..Len(C.vs) : Len(C.vs[j]) = Dim(C.n)
                  /\ \A k \in 0..(Dim(C.n) - 1) : Wt(C, k) > 0 /\ Im(Rho(C, k, k)) = 0

\* THE THEOREM
Unbiased == Live => \A j \in 1..NOps(C.n) : UnbiasedFor("code", C, j)

\* sample by sample: what the code computes is the real part of the operator's row applied to the
\* importance-sampling ratios (the formula in ObservableBase.apply's contract)
LocalIsRow == Live => \A j \in 1..NOps(C.n) : \A k \in 0..(Dim(C.n) - 1) :
    FEq(CodeL("code", C, OpList(C.n)[j], k), FMul(ReQuot(OpRowSum(C, j, k), Den(C, k)), <<1, C.n>>))

\* Z-type observables: the local value is real as it stands
ZTypeReal == Live => \A j \in 1..NOps(C.n) : OpList(C.n)[j].k \in {"Z", "ZZ"} =>
    \A k \in 0..(Dim(C.n) - 1) : ImQuot(OpRowSum(C, j, k), Den(C, k))[1] = 0
\* X, Y: the imaginary part that `real` drops averages to zero, so nothing is lost
ImaginaryAveragesOut == Live => \A j \in 1..NOps(C.n) :
    FSum([k \in 1..Dim(C.n) |-> FMul(<<Wt(C, k - 1), 1>>, ImQuot(OpRowSum(C, j, k - 1), Den(C, k - 1)))])[1] = 0

\* the symmetric alternative (i - c) for the periodic neighbour gives the same values
PeriodicEitherWay == Live => \A j \in 1..NOps(C.n) : \A k \in 0..(Dim(C.n) - 1) :
    CodeL("per-minus", C, OpList(C.n)[j], k) = CodeL("code", C, OpList(C.n)[j], k)

(* facts about the operator tables (state "ops", one per n) *)
AtOps == st = "ops"
OpsHermitian == AtOps => \A j \in 1..NOps(C.n) : \A k \in 1..Dim(C.n) : \A l \in 1..Dim(C.n) :
    OpTab[C.n][j][k][l] = ZConj(OpTab[C.n][j][l][k])
\* (i - c) and (i + c) name the same periodic operator
OpsPeriodicSymmetric == AtOps => \A c \in 1..C.n :
    NOp(C.n, ZZ(c, TRUE)) = MatSum(C.n, [i \in 1..C.n |-> Place2(C.n, SpinZ, i, SpinZ, PerNbrMinus(C.n, i, c))], C.n)
\* the two-site tensor factor list is the matrix product of the two one-site operators (n <= 3)
OpsPlacement == AtOps /\ C.n <= 3 => \A i \in 1..C.n : \A j \in 1..C.n :
    MatMul(C.n, Place(C.n, SpinZ, i), Place(C.n, SpinZ, j)) = Place2(C.n, SpinZ, i, SpinZ, j)
\* Pauli algebra of the written-out matrices: XY = iZ_Pauli, with Z_Pauli = -SpinZ (documented sign)
OpsPauli == AtOps =>
    /\ M2Mul(PauliX, PauliX) = Id2 /\ M2Mul(PauliY, PauliY) = Id2 /\ M2Mul(SpinZ, SpinZ) = Id2
    /\ M2Mul(PauliX, PauliY) = [a \in 1..2 |-> [b \in 1..2 |-> ZMul(ZI, ZNeg(SpinZ[a][b]))]]

(* seeded faults in the model of the code (state "faults", one per variant): each must be exposed  *)
(* on some witness; the implementation as it stands and the symmetric alternative on none.  The    *)
(* verdict is also printed for the harness (one JSON line per variant).                            *)
MaxOps == 13
ExposedAt(v) == {<<w, j>> \in (1..Len(Witness)) \X (1..MaxOps) :
                    j <= NOps(Witness[w].n) /\ ~UnbiasedFor(v, Witness[w], j)}
FaultsExposed == st = "faults" =>
    LET E == ExposedAt(C.v) IN
    /\ PrintT(ToJson([fault |-> C.v, exposed |-> Cardinality(E)]))
    /\ IF C.v \in Faults THEN E # {} ELSE E = {}

-----------------------------------------------------------------------------
(* export of the operator structure *)
Coef(g, n) == [re |-> FNorm(<<g[1], n>>), im |-> FNorm(<<g[2], n>>)]
RowOf(n, j, k) == LET all == [l \in 1..Dim(n) |-> [to |-> l - 1, coef |-> Coef(OpTab[n][j][k][l], n),
                                                   nz |-> OpTab[n][j][k][l] # ZZero]]
                  IN  SelectSeq(all, LAMBDA r : r.nz)
OpsRecord(n) == [n |-> n, ops |-> [j \in 1..NOps(n) |->
                    [op |-> OpList(n)[j], den |-> n, dense |-> OpTab[n][j],
                     rows |-> [k \in 1..Dim(n) |-> RowOf(n, j, k)]]]]

=============================================================================
