------------------------------ MODULE StatsInd ------------------------------
(* History-free skeleton of the draw schedule of ObservableBase.statistics / System.statistics
   (spec/Stats.tla part B: same labels, same guards, same arithmetic; counters instead of the list of draws), for
   an UNBOUNDED argument: every num_samples >= 1, num_chains >= 0, number of rows of a given initial_state >= 0,
   burn_in and steps >= 0.  IndInv is shown inductive by Apalache (harness/ext_apalache_stats.py); it implies CountOK
   (count = chains x draws, at least the request and less than one draw too many), ChainsAsDocumented and
   BurnOnceFirst of Stats.tla.  TLC checks the same module on small bounds (MCInit). *)
EXTENDS Integers

VARIABLES
    \* @type: Str;
    pc,
    \* @type: Int;
    S,
    \* @type: Int;
    C,
    \* @type: Int;
    L,
    \* @type: Int;
    burn,
    \* @type: Int;
    steps,
    \* @type: Int;
    cp,
    \* @type: Int;
    nt,
    \* @type: Int;
    i,
    \* @type: Int;
    count,
    \* @type: Int;
    lastK,
    \* @type: Int;
    burns

vars == <<pc, S, C, L, burn, steps, cp, nt, i, count, lastK, burns>>

Min(a, b) == IF a < b THEN a ELSE b
Ceil(a, d) == (a + d - 1) \div d
NumChains    == IF L > 0 THEN L ELSE IF C # 0 THEN Min(C, S) ELSE S
NumChainsDoc == IF L > 0 THEN L ELSE IF C = 0 \/ C > S THEN S ELSE C

Params == S >= 1 /\ C >= 0 /\ L >= 0 /\ burn >= 0 /\ steps >= 0

Init == /\ pc = "Call"
        /\ S \in Int /\ C \in Int /\ L \in Int /\ burn \in Int /\ steps \in Int /\ Params
        /\ cp = 0 /\ nt = 0 /\ i = 0 /\ count = 0 /\ lastK = -1 /\ burns = 0

Call == /\ pc = "Call"
        /\ cp' = NumChains
        /\ nt' = Ceil(S, NumChains)
        /\ pc' = "Draw"
        /\ UNCHANGED <<S, C, L, burn, steps, i, count, lastK, burns>>

Draw == /\ pc = "Draw" /\ i < nt
        /\ lastK' = IF i = 0 THEN burn ELSE steps
        /\ burns' = IF i = 0 THEN burns + 1 ELSE burns
        /\ i' = i + 1
        /\ count' = count + cp
        /\ UNCHANGED <<pc, S, C, L, burn, steps, cp, nt>>

Finish == /\ pc = "Draw" /\ i = nt
          /\ pc' = "Done"
          /\ UNCHANGED <<S, C, L, burn, steps, cp, nt, i, count, lastK, burns>>

Next == Call \/ Draw \/ Finish

\* broken skeletons (negative controls)
CallFloor == /\ pc = "Call"
             /\ cp' = NumChains
             /\ nt' = IF S \div NumChains = 0 THEN 1 ELSE S \div NumChains
             /\ pc' = "Draw"
             /\ UNCHANGED <<S, C, L, burn, steps, i, count, lastK, burns>>
NextFloor == CallFloor \/ Draw \/ Finish
CallNoCap == /\ pc = "Call"
             /\ cp' = (IF L > 0 THEN L ELSE IF C # 0 THEN C ELSE S)
             /\ nt' = Ceil(S, IF L > 0 THEN L ELSE IF C # 0 THEN C ELSE S)
             /\ pc' = "Draw"
             /\ UNCHANGED <<S, C, L, burn, steps, i, count, lastK, burns>>
NextNoCap == CallNoCap \/ Draw \/ Finish
DrawBurnAlways == /\ pc = "Draw" /\ i < nt
                  /\ lastK' = burn
                  /\ burns' = burns + 1
                  /\ i' = i + 1
                  /\ count' = count + cp
                  /\ UNCHANGED <<pc, S, C, L, burn, steps, cp, nt>>
NextBurnAlways == Call \/ DrawBurnAlways \/ Finish

Live == pc \in {"Draw", "Done"}

TypeOK == /\ pc \in {"Call", "Draw", "Done"}
          /\ S \in Int /\ C \in Int /\ L \in Int /\ burn \in Int /\ steps \in Int
          /\ cp \in Int /\ nt \in Int /\ i \in Int /\ count \in Int /\ lastK \in Int /\ burns \in Int
          /\ Params
          /\ (pc = "Call" => cp = 0 /\ nt = 0 /\ i = 0 /\ count = 0 /\ burns = 0)

Sched == Live => /\ cp >= 1 /\ cp = NumChainsDoc
                 /\ nt >= 1 /\ nt * cp >= S /\ (nt - 1) * cp < S
                 /\ 0 <= i /\ i <= nt
                 /\ count = i * cp
                 /\ (pc = "Done" => i = nt)
Burn == Live => /\ burns = (IF i = 0 THEN 0 ELSE 1)
                /\ (i = 1 => lastK = burn)
                /\ (i > 1 => lastK = steps)

IndInv == TypeOK /\ Sched /\ Burn

\* what Stats.tla states on its histories
CountOK == pc = "Done" => count >= S /\ count - S < cp /\ count = nt * cp
Goal == CountOK /\ (Live => cp = NumChainsDoc) /\ (pc = "Done" => burns = 1)

\* TLC cross-check on small bounds
MCInit == /\ pc = "Call"
          /\ S \in 1..7 /\ C \in 0..8 /\ L \in 0..3 /\ burn \in 0..2 /\ steps \in 0..2
          /\ cp = 0 /\ nt = 0 /\ i = 0 /\ count = 0 /\ lastK = -1 /\ burns = 0
=============================================================================
