----------------------------- MODULE LayoutDefs -----------------------------
(* Constant-level description of the parameter layout of a network, shared by Layout.tla (the
   vector_to_grads loop), GradRBM.tla and GradDM.tla (the gradient specifications, which must put every
   derivative into the slot training reads it from).  An architecture is <<kind, nv, nh, na>>,
   kind in {"binary", "purif"} (na = 0 for binary). *)
EXTENDS Integers, Sequences

Kind(a) == a[1]
NV(a) == a[2]
NH(a) == a[3]
NA(a) == a[4]

\* nn.Module.parameters(): registration order
Names(a) == IF Kind(a) = "binary" THEN <<"weights", "visible_bias", "hidden_bias">>
            ELSE <<"weights_W", "weights_U", "visible_bias", "hidden_bias", "aux_bias">>
Shape(a, name) == CASE name \in {"weights", "weights_W"} -> <<NH(a), NV(a)>>
                    [] name = "weights_U"    -> <<NA(a), NV(a)>>
                    [] name = "visible_bias" -> <<NV(a)>>
                    [] name = "hidden_bias"  -> <<NH(a)>>
                    [] name = "aux_bias"     -> <<NA(a)>>
Numel(sh) == IF Len(sh) = 1 THEN sh[1] ELSE sh[1] * sh[2]
RECURSIVE SumNumel(_, _)
SumNumel(a, n) == IF n = 0 THEN 0 ELSE SumNumel(a, n - 1) + Numel(Shape(a, Names(a)[n]))
NPars(a) == SumNumel(a, Len(Names(a)))

(* closed-form offsets: the slot map of GradRBM.tla / GradDM.tla *)
OffOf(a, name) ==
    IF Kind(a) = "binary"
    THEN CASE name = "weights" -> 0 [] name = "visible_bias" -> NH(a) * NV(a) [] name = "hidden_bias" -> NH(a) * NV(a) + NV(a)
    ELSE CASE name = "weights_W" -> 0
           [] name = "weights_U" -> NH(a) * NV(a)
           [] name = "visible_bias" -> NH(a) * NV(a) + NA(a) * NV(a)
           [] name = "hidden_bias" -> NH(a) * NV(a) + NA(a) * NV(a) + NV(a)
           [] name = "aux_bias" -> NH(a) * NV(a) + NA(a) * NV(a) + NV(a) + NH(a)
\* flat index of (parameter, row r, column i); vectors have r = 1
Slot(a, name, r, i) == OffOf(a, name) + (IF Len(Shape(a, name)) = 1 THEN i ELSE (r - 1) * NV(a) + i)

=============================================================================
