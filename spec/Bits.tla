-------------------------------- MODULE Bits --------------------------------
(* Basis-state indexing (property C19) - constant operators only, shared by
   Unitaries / KronSweep / Expand / IndexWalk.

   Sites are numbered 1..n in the specification; specification site s is the
   library's site s-1, so "site 0 is the most significant bit and the leftmost
   factor of every tensor product" reads "site 1 ..." here.  Array positions
   are 0-based numbers k in 0..2^n-1; a TLA+ sequence holding an array stores
   position k at index k+1. *)
EXTENDS Naturals, Sequences

MaxSize == 20                      \* NeuralStateBase.max_size
Accepts(n) == n <= MaxSize         \* generate_hilbert_space(n) is refused iff ~Accepts(n)

RECURSIVE Pow2(_)
Pow2(e) == IF e = 0 THEN 1 ELSE 2 * Pow2(e - 1)

\* the n-bit big-endian binary expansion of k
Bit(n, k, s) == (k \div Pow2(n - s)) % 2
Row(n, k) == [s \in 1..n |-> Bit(n, k, s)]

\* the index denoted by a bit row: sum_s row[s] * 2^(n-s)
RECURSIVE IndexUpTo(_, _)
IndexUpTo(row, s) == IF s = 0 THEN 0 ELSE row[s] * Pow2(Len(row) - s) + IndexUpTo(row, s - 1)
Index(row) == IndexUpTo(row, Len(row))

BitRows(n) == [1..n -> {0, 1}]

\* lexicographic order on rows of equal length
LexLess(a, b) == \E j \in 1..Len(a) : /\ \A i \in 1..(j - 1) : a[i] = b[i]
                                      /\ a[j] < b[j]

\* ---- tensor products: the leftmost factor is the most significant ----
\* Kronecker product x_s (x) ... (x) x_n of integer 2-vectors, entry p (0-based), by the standard
\* block definition: the leading factor selects the block of size 2^(n-s), the rest is the entry
\* of the remaining product inside the block (no reference to Row).  Stated entrywise because TLC
\* evaluates nested function constructors lazily and would recompute sub-products per access.
RECURSIVE KronEntryInt(_, _, _)
KronEntryInt(xs, s, p) ==
    LET blk == Pow2(Len(xs) - s)
    IN  IF s = Len(xs) THEN xs[s][p + 1]
        ELSE xs[s][(p \div blk) + 1] * KronEntryInt(xs, s + 1, p % blk)
KronAllInt(xs) == [p \in 1..Pow2(Len(xs)) |-> KronEntryInt(xs, 1, p - 1)]

\* position semantics through Row: entry k of x_1 (x) ... (x) x_n is prod_s x_s[Row(n,k)[s]]
RECURSIVE ProdUpTo(_, _)
ProdUpTo(f, m) == IF m = 0 THEN 1 ELSE f[m] * ProdUpTo(f, m - 1)
PosInt(xs, k) == ProdUpTo([s \in 1..Len(xs) |-> xs[s][Bit(Len(xs), k, s) + 1]], Len(xs))

Ket(b) == IF b = 0 THEN <<1, 0>> ELSE <<0, 1>>          \* |0>, |1>
UnitInt(N, k) == [p \in 1..N |-> IF p = k + 1 THEN 1 ELSE 0]

\* ---- the facts TLC checks per (n, k) (see IndexWalk.tla) ----
IndexOfRow(n, k) == Index(Row(n, k)) = k
RowOfIndex(n) == \A b \in BitRows(n) : /\ Index(b) \in 0..(Pow2(n) - 1)
                                       /\ \A s \in 1..n : Row(n, Index(b))[s] = b[s]
LexAfter(n, k) == \A k2 \in (k + 1)..(Pow2(n) - 1) : LexLess(Row(n, k), Row(n, k2))
LexNext(n, k) == k + 1 < Pow2(n) => LexLess(Row(n, k), Row(n, k + 1))
\* |b_1> (x) ... (x) |b_n> is the unit vector at position Index(b); entrywise the Row formula
KetPosition(n, k) ==
    LET xs == [s \in 1..n |-> Ket(Bit(n, k, s))]
    IN  \A p \in 0..(Pow2(n) - 1) : /\ KronEntryInt(xs, 1, p) = (IF p = k THEN 1 ELSE 0)
                                    /\ KronEntryInt(xs, 1, p) = PosInt(xs, p)
=============================================================================
