------------------------------- MODULE GradDM -------------------------------
(* C03 for mixed states.  rho(s,s') = exp(Gamma+_lam(s,s') + Pi(s,s') + i Gamma-_mu(s,s')):
   d rho / d lam = rho * (dGamma+ + dPi)   and   d rho / d mu = rho * (i dGamma- + dPi).
   For an outcome s in basis beta,  p_beta(s) = SUM_{tau,tau'} u_tau conj(u_tau') rho(v_tau, v_tau')
   (module Rot) and  d(-ln p_beta(s)) = -Re[ SUM u conj(u') rho g ] / p_beta(s)  with the tables
   g = dGamma+ + dPi (amplitude network) and g = i dGamma- + dPi (phase network); the library
   regularises the denominator with 1e-8.  NLL = -mean ln(p_beta/Z) adds, for the amplitude
   network, the model average -SUM_s p(s)/Z dE_eff(s).

   TLC checks, modulo three primes, that each closed form in the tables is the derivative of
   the corresponding DEFINITION, taken term by term (every term of the defining sums is a
   monomial in e^theta, so d/dtheta multiplies it by its exponent):
     EffGradIsDerivative   p(s) * closed = SUM_{h,a} act_theta(s,h,a) w(s,h,a)
     PiGradIsDerivative    dG/dd_k = SUM_a a_k term_a = G * sig(z_k), and the U / U_mu entries
                           carry the factors (s+s')_i/2 and i (s-s')_i/2
   (G = SUM_a g_a(s) conj g_a(s') is the partial trace of PurifRBM.tla).  rho itself is
   irrational, so the row gradient leaves TLC as a template over exported tables. *)
EXTENDS PurifRBM, Rot

NPars == P.nh * P.nv + P.na * P.nv + P.nv + P.nh + P.na
OffU == P.nh * P.nv
OffB == OffU + P.na * P.nv
OffC == OffB + P.nv
OffD == OffC + P.nh
SlotName(q) ==
    IF q <= OffU THEN [p |-> "weights_W", r |-> ((q - 1) \div P.nv) + 1, i |-> ((q - 1) % P.nv) + 1]
    ELSE IF q <= OffB THEN [p |-> "weights_U", r |-> ((q - OffU - 1) \div P.nv) + 1, i |-> ((q - OffU - 1) % P.nv) + 1]
    ELSE IF q <= OffC THEN [p |-> "visible_bias", r |-> 0, i |-> q - OffB]
    ELSE IF q <= OffD THEN [p |-> "hidden_bias", r |-> q - OffC, i |-> 0]
    ELSE [p |-> "aux_bias", r |-> q - OffD, i |-> 0]
\* (see GradRBM.tla: the offsets are those of LayoutDefs.tla)
LD == INSTANCE LayoutDefs
ArchOf == <<"purif", P.nv, P.nh, P.na>>
LayoutBijection ==
    IsPt => /\ \A j \in 1..P.nh : \A i \in 1..P.nv : (j - 1) * P.nv + i = LD!Slot(ArchOf, "weights_W", j, i)
            /\ \A k \in 1..P.na : \A i \in 1..P.nv : OffU + (k - 1) * P.nv + i = LD!Slot(ArchOf, "weights_U", k, i)
            /\ \A i \in 1..P.nv : OffB + i = LD!Slot(ArchOf, "visible_bias", 1, i)
            /\ \A j \in 1..P.nh : OffC + j = LD!Slot(ArchOf, "hidden_bias", 1, j)
            /\ \A k \in 1..P.na : OffD + k = LD!Slot(ArchOf, "aux_bias", 1, k)
            /\ NPars = LD!NPars(ArchOf)
            /\ \A j \in 1..P.nh : \A i \in 1..P.nv : SlotName((j - 1) * P.nv + i) = [p |-> "weights_W", r |-> j, i |-> i]
            /\ \A k \in 1..P.na : \A i \in 1..P.nv : SlotName(OffU + (k - 1) * P.nv + i) = [p |-> "weights_U", r |-> k, i |-> i]
            /\ \A i \in 1..P.nv : SlotName(OffB + i) = [p |-> "visible_bias", r |-> 0, i |-> i]
            /\ \A j \in 1..P.nh : SlotName(OffC + j) = [p |-> "hidden_bias", r |-> j, i |-> 0]
            /\ \A k \in 1..P.na : SlotName(OffD + k) = [p |-> "aux_bias", r |-> k, i |-> 0]
            /\ OffD + P.na = NPars

\* --- effective energy (auxiliary units traced out): -dE_eff/dtheta = d ln p / dtheta
EffGradIsDerivative ==
    IsPt => \A pi \in 1..NP : \A kv \in VSet :
        LET v == V(kv)
            pf == PFacM(pi, v)
            sumHA(f(_, _)) == SumSeqM([kh \in 1..NS(P.nh) |-> SumSeqM([ka \in 1..NS(P.na) |->
                                  MulM(f(H(kh), A(ka)), WeightM(pi, v, H(kh), A(ka)), Primes[pi])], Primes[pi])], Primes[pi])
        IN /\ \A j \in 1..P.nh : \A i \in 1..P.nv :
                 MulM(pf, MulM(BernM(pi, MH(P, v, j), 1), v[i], Primes[pi]), Primes[pi]) = sumHA(LAMBDA h, a : h[j] * v[i])
           /\ \A k \in 1..P.na : \A i \in 1..P.nv :
                 MulM(pf, MulM(BernM(pi, EA(P, v, k), 1), v[i], Primes[pi]), Primes[pi]) = sumHA(LAMBDA h, a : a[k] * v[i])
           /\ \A j \in 1..P.nh : MulM(pf, BernM(pi, MH(P, v, j), 1), Primes[pi]) = sumHA(LAMBDA h, a : h[j])
           /\ \A k \in 1..P.na : MulM(pf, BernM(pi, EA(P, v, k), 1), Primes[pi]) = sumHA(LAMBDA h, a : a[k])

NN(x, p) == ((x % p) + p) % p
\* --- the Pi part.  z_k = B^EK i^FK ; sig(z) = z / (1 + z)
ZK(pi, s, sp, k) == GScal(Pw(P.B, pi, EK(s, sp, k)), IPow(FK(s, sp, k), Primes[pi]), Primes[pi])
NoCancel(s, sp) == \A k \in 1..P.na : ~(EK(s, sp, k) = 0 /\ FK(s, sp, k) % 4 = 2)      \* 1 + z_k # 0
SigK(pi, s, sp, k) == GMul(ZK(pi, s, sp, k), GInv(GAdd(GOne, ZK(pi, s, sp, k), Primes[pi]), Primes[pi]), Primes[pi])
TermA(pi, a, s, sp) == GMul(GA(pi, a, s), GConj(GA(pi, a, sp), Primes[pi]), Primes[pi])
\* d/dd_k of the definition: each term is proportional to exp(d_k a_k)
DGdd(pi, s, sp, k) == GSumSeq([ka \in 1..NS(P.na) |-> GScal(A(ka)[k], TermA(pi, A(ka), s, sp), Primes[pi])], Primes[pi])
PiGradIsDerivative ==
    IsPt => \A pi \in 1..NP : \A k1 \in VSet : \A k2 \in VSet : NoCancel(V(k1), V(k2)) =>
        \A k \in 1..P.na :
          LET s == V(k1) sp == V(k2)
              closed == GMul(GFac(pi, s, sp), SigK(pi, s, sp, k), Primes[pi])
              half == InvM(2, Primes[pi]) IN
          /\ DGdd(pi, s, sp, k) = closed
          \* term_a depends on U_ki through exp(U_ki a_k (s_i + s'_i)/2) and on U_mu,ki through exp(i U_mu,ki a_k (s_i - s'_i)/2)
          /\ \A i \in 1..P.nv :
               /\ GScal(MulM(half, (s[i] + sp[i]) % Primes[pi], Primes[pi]), DGdd(pi, s, sp, k), Primes[pi])
                  = GScal(MulM(half, (s[i] + sp[i]) % Primes[pi], Primes[pi]), closed, Primes[pi])
               /\ GMul(<<0, MulM(half, NN(s[i] - sp[i], Primes[pi]), Primes[pi])>>, DGdd(pi, s, sp, k), Primes[pi])
                  = GMul(<<0, MulM(half, NN(s[i] - sp[i], Primes[pi]), Primes[pi])>>, closed, Primes[pi])

\* --- tables (closed forms, as the code computes them), Gaussian terms  (cn[1] + i cn[2])/cd * kind
T0(re, im, d) == [cn |-> <<re, im>>, cd |-> d, k |-> 0, e |-> 0, f |-> 0]                  \* constant
T1(re, im, d, m) == [cn |-> <<re, im>>, cd |-> d, k |-> 1, e |-> m, f |-> 0]               \* real sigmoid B^m/(1+B^m)
T2(re, im, d, e, f) == [cn |-> <<re, im>>, cd |-> d, k |-> 2, e |-> e, f |-> f]            \* complex sigmoid
GAm(s, sp) ==
    [q \in 1..NPars |-> LET n == SlotName(q) IN
       CASE n.p = "weights_W" -> <<T1(s[n.i], 0, 2, MH(P, s, n.r)), T1(sp[n.i], 0, 2, MH(P, sp, n.r))>>
         [] n.p = "weights_U" -> <<T2(s[n.i] + sp[n.i], 0, 2, EK(s, sp, n.r), FK(s, sp, n.r))>>
         [] n.p = "visible_bias" -> <<T0(s[n.i] + sp[n.i], 0, 2)>>
         [] n.p = "hidden_bias" -> <<T1(1, 0, 2, MH(P, s, n.r)), T1(1, 0, 2, MH(P, sp, n.r))>>
         [] n.p = "aux_bias" -> <<T2(1, 0, 1, EK(s, sp, n.r), FK(s, sp, n.r))>>]
GPh(s, sp) ==
    [q \in 1..NPars |-> LET n == SlotName(q) IN
       CASE n.p = "weights_W" -> <<T1(0, s[n.i], 2, MHm(P, s, n.r)), T1(0, -sp[n.i], 2, MHm(P, sp, n.r))>>
         [] n.p = "weights_U" -> <<T2(0, s[n.i] - sp[n.i], 2, EK(s, sp, n.r), FK(s, sp, n.r))>>
         [] n.p = "visible_bias" -> <<T0(0, s[n.i] - sp[n.i], 2)>>
         [] n.p = "hidden_bias" -> <<T1(0, 1, 2, MHm(P, s, n.r)), T1(0, -1, 2, MHm(P, sp, n.r))>>
         [] n.p = "aux_bias" -> <<>>]                       \* the phase network's auxiliary bias never moves
\* dE_eff/dtheta(s) (real terms, same format)
LEff(s) ==
    [q \in 1..NPars |-> LET n == SlotName(q) IN
       CASE n.p = "weights_W" -> <<T1(-s[n.i], 0, 1, MH(P, s, n.r))>>
         [] n.p = "weights_U" -> <<T1(-s[n.i], 0, 1, EA(P, s, n.r))>>
         [] n.p = "visible_bias" -> <<T0(-s[n.i], 0, 1)>>
         [] n.p = "hidden_bias" -> <<T1(-1, 0, 1, MH(P, s, n.r))>>
         [] n.p = "aux_bias" -> <<T1(-1, 0, 1, EA(P, s, n.r))>>]

RowGrad == [op |-> "neg", x |-> [op |-> "div",
              a |-> [op |-> "re", x |-> [op |-> "sum_tt", x |-> [op |-> "mul", xs |-> <<[op |-> "uu"], [op |-> "rho"], [op |-> "g"]>>]]],
              b |-> [op |-> "add", a |-> [op |-> "re", x |-> [op |-> "sum_tt", x |-> [op |-> "mul", xs |-> <<[op |-> "uu"], [op |-> "rho"]>>]]],
                                   b |-> [op |-> "const", num |-> 1, den |-> 100000000]]]]
NLLGradAm == [op |-> "sub", a |-> [op |-> "mean_rows", x |-> [op |-> "rowgrad"]],
                            b |-> [op |-> "sum_v", x |-> [op |-> "mul", xs |-> <<[op |-> "pnorm"], [op |-> "ellv"]>>]]]
NLLGradPh == [op |-> "mean_rows", x |-> [op |-> "rowgrad"]]

GradExportRec ==
    ExportRec @@
    [layout |-> [q \in 1..NPars |-> SlotName(q)],
     gAm |-> [k1 \in 1..NS(P.nv) |-> [k2 \in 1..NS(P.nv) |-> GAm(V(k1), V(k2))]],
     gPh |-> [k1 \in 1..NS(P.nv) |-> [k2 \in 1..NS(P.nv) |-> GPh(V(k1), V(k2))]],
     lEff |-> [k1 \in 1..NS(P.nv) |-> LEff(V(k1))],
     cancel |-> \E k1 \in VSet : \E k2 \in VSet : ~NoCancel(V(k1), V(k2)),
     \* rows measured entirely in the reference basis use dE_eff directly (no regulariser), phase part 0
     tpl |-> [row |-> RowGrad, rowZAm |-> [op |-> "ellv"], rowZPh |-> [op |-> "const", num |-> 0, den |-> 1],
              nllAm |-> NLLGradAm, nllPh |-> NLLGradPh]]
GradExport == IsPt => PrintT(ToJson(GradExportRec))
=============================================================================
