------------------------------ MODULE TraceOps ------------------------------
(* Validate token streams recorded from the implementation against Lifecycle.tla.

   One ndjson line per session: [type, ev], ev a sequence of events
       [op |-> <operation record>, a |-> obs, b |-> obs, c |-> obs]
   obs = [pv |-> <<token per network>>, rng |-> token, out |-> token, stop |-> BOOLEAN]
   recorded after the operation in the three runs of the product construction
   (a: reference, b: other random sources perturbed and generator scrambled before the
   first Seed, c: every seed replaced).  Tokens are hashes interned to integers; the
   validator only ever compares them for equality.

   A session is accepted iff, stepping Lifecycle!StepRun along the recorded operations,
     (1) term -> token is a FUNCTION over all three runs: whenever the specification says
         two values are the same term (parameters across a read-only operation, the
         generator across a non-drawing operation, the generator after Seed(s), the
         parameters after Load, anything at all between runs a and b) the recorded
         tokens are equal;
     (2) where the specification says run c must differ from run a (generator state,
         freshly drawn parameters, large samples) the recorded tokens differ;
     (3) the recorded stop flags are the specification's.
   Writers are never required to change anything. *)
EXTENDS Lifecycle, Json, IOUtils, TLCExt

Traces == ndJsonDeserialize(IOEnv.TRACE_FILE)

VARIABLES tid, i, m, mo
tvars == <<vars, tid, i, m, mo>>

T == Traces[tid]

TInit == /\ tid \in 1..Len(Traces)
         /\ type = Traces[tid].type
         /\ tb = <<UnkD(1), UnkD(2), UnkD(3)>>
         /\ ra = InitRun(1) /\ rb = InitRun(2) /\ rc = InitRun(3)
         /\ prev = <<InitRun(1), InitRun(2), InitRun(3)>>
         /\ last = NoOp /\ n = 0 /\ hist = <<>>
         /\ i = 0 /\ m = {} /\ mo = {}
         /\ TLCSet(tid, 0)

\* adding `new` to the map `old` keeps it a function
Functional(old, new) ==
    \A p \in new : \A q \in old \cup new : p[1] = q[1] => p[2] = q[2]

TermPairs(r, o) == {<<r.pv[j], o.pv[j]>> : j \in 1..Len(r.pv)} \cup {<<r.rng, o.rng>>}

ObsShape(r, o) == Len(o.pv) = Len(r.pv) /\ o.stop = r.stop

TStep ==
    /\ i < Len(T.ev)
    /\ LET e  == T.ev[i + 1]
           op == e.op
       IN /\ OpOK(op)
          /\ IF op.o = "Perturb"
             THEN /\ n > 0
                  /\ rb' = [rb EXCEPT !.np = 1 - @]
                  /\ UNCHANGED <<tb, ra, rc>>
             ELSE /\ Enabled(ra, op)
                  /\ LET a == StepRun(tb, type, ra, op)
                         b == StepRun(a.tb, type, rb, op)
                         c == StepRun(b.tb, type, rc, OtherSeed(op))
                     IN tb' = c.tb /\ ra' = a.r /\ rb' = b.r /\ rc' = c.r
          /\ ObsShape(ra', e.a) /\ ObsShape(rb', e.b) /\ ObsShape(rc', e.c)
          \* (1) term -> token is a function
          /\ LET new == TermPairs(ra', e.a) \cup TermPairs(rb', e.b) \cup TermPairs(rc', e.c)
                 newo == IF op.o = "Perturb" THEN {}
                         ELSE {<<ra'.out, e.a.out>>, <<rb'.out, e.b.out>>, <<rc'.out, e.c.out>>}
             IN /\ Functional(m, new) /\ m' = m \cup new
                /\ Functional(mo, newo) /\ mo' = mo \cup newo
          \* (2) a different seed gives a different stream
          /\ ra'.seeded => e.a.rng # e.c.rng
          /\ (ra'.seeded /\ op.o \in {"Construct", "Reinit"}) =>
                 \A j \in 1..Len(e.a.pv) : e.a.pv[j] # e.c.pv[j]
          /\ (ra'.seeded /\ BigDraw(op)) => e.a.out # e.c.out
          /\ prev' = <<ra, rb, rc>> /\ last' = op /\ n' = n + 1
    /\ i' = i + 1
    /\ UNCHANGED <<type, hist, tid>>

\* progress register: number of matched events
Track == TLCSet(tid, IF i > TLCGet(tid) THEN i ELSE TLCGet(tid))

\* the invariants of Lifecycle hold along every accepted prefix (MaxLen is not a bound here)
TReadOnlyKeepsParams == ReadOnlyKeepsParams
TRNGDiscipline == RNGDiscipline
TTwoRunsAgree == TwoRunsAgree

Verdicts ==
    \A t \in 1..Len(Traces) :
        PrintT(ToJson([tid |-> t, matched |-> TLCGet(t), need |-> Len(Traces[t].ev)]))
=============================================================================
