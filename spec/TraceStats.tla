---------------------------- MODULE TraceStats ----------------------------
(* Validate recorded calls of the real ObservableBase.statistics /          *)
(* System.statistics against Stats.tla (part B actions) and recompute the   *)
(* reported numbers exactly.                                                *)
(*                                                                          *)
(* One JVM handles a whole ndjson file; one line =                          *)
(*   [n  |-> scale (num_visible: every per-sample observable value times n  *)
(*           is an integer),                                                *)
(*    ev |-> << [e |-> "Call", kind, nobs, S, C, burn, steps, L, ow],       *)
(*              [e |-> "Draw", k, ns, init, ow, ret, from, to,              *)
(*                    vals |-> <<per observable: the ns integers n*O(s)>>], *)
(*              ...,                                                        *)
(*              [e |-> "Result", ucont, res |-> <<per observable:           *)
(*                    [mean, var, se (1e-6 fixed point), count]>>] >>]      *)
(*                                                                          *)
(* A trace is accepted iff Call, DrawWith, Finish of Stats.tla produce      *)
(* exactly the recorded sample() calls and the reported numbers are within  *)
(* 2 units of 1e-6 of the exact one-pass statistics of all recorded values. *)
(* Why 2: the reported float64 numbers carry a relative error of ~1e-13     *)
(* (values are O(1..10)), converting to fixed point rounds by at most 0.5   *)
(* unit and may tip by one more; every mutant of interest moves a number by *)
(* var/N or more, i.e. hundreds of units for the sizes used.                *)
EXTENDS Stats, Json, IOUtils, TLCExt

Traces == ndJsonDeserialize(IOEnv.TRACE_FILE)

VARIABLES tid, pos, acc     \* trace number, index of the next event, per-observable running sums
tvars == <<avars, bvars, tid, pos, acc>>

T == Traces[tid]

CfgOf(e) == [kind |-> e.kind, nobs |-> e.nobs, S |-> e.S, C |-> e.C, burn |-> e.burn,
             steps |-> e.steps, L |-> e.L, ow |-> e.ow, conv |-> ("conv" \in DOMAIN e /\ e.conv)]

-----------------------------------------------------------------------------
(* Non-negative big integers: little-endian sequences of limbs base 10^4    *)
(* (TLC integers are 32-bit; 1e12 * N * sum(y^2) is not).                   *)
B == 10000
RECURSIVE BigOf(_)
BigOf(n) == IF n < B THEN <<n>> ELSE <<n % B>> \o BigOf(n \div B)          \* n >= 0
RECURSIVE BigTrim(_)
BigTrim(a) == IF Len(a) > 1 /\ a[Len(a)] = 0 THEN BigTrim(SubSeq(a, 1, Len(a) - 1)) ELSE a
MaxOf(S) == CHOOSE x \in S : \A y \in S : y <= x
BigMul(a, b) ==
    LET la == Len(a)  lb == Len(b)  n == la + lb - 1
        raw == [k \in 1..n |-> SumSeq([j \in 1..(Min(la, k) - MaxOf({1, k + 1 - lb}) + 1) |->
                                          LET i == MaxOf({1, k + 1 - lb}) + j - 1 IN a[i] * b[k + 1 - i]])]
        c[k \in 0..n] == IF k = 0 THEN 0 ELSE (raw[k] + c[k - 1]) \div B
        d == [k \in 1..n |-> (raw[k] + c[k - 1]) % B]
    IN  BigTrim(d \o (IF c[n] = 0 THEN <<>> ELSE BigOf(c[n])))
BigLe(a, b) ==
    LET x == BigTrim(a)  y == BigTrim(b) IN
    IF Len(x) # Len(y) THEN Len(x) < Len(y)
    ELSE LET diff == {i \in 1..Len(x) : x[i] # y[i]} IN
         diff = {} \/ x[MaxOf(diff)] < y[MaxOf(diff)]
Mul3(a, b, c) == BigMul(BigMul(BigOf(a), BigOf(b)), BigOf(c))
Million == 1000000

\* |M - 10^6 * num/den| <= 2   (den > 0, num >= 0)
NearNN(M, num, den) ==
    /\ M + 2 >= 0
    /\ BigLe(Mul3(Million, num, 1), Mul3(M + 2, den, 1))
    /\ (M - 2 <= 0 \/ BigLe(Mul3(M - 2, den, 1), Mul3(Million, num, 1)))
Near(M, num, den) == IF num >= 0 THEN NearNN(M, num, den) ELSE NearNN(-M, -num, den)
\* |E - 10^6 * sqrt(num/(den*n))| <= 2   (num >= 0, den, n > 0)
NearRoot(E, num, den, n) ==
    LET rhs == BigMul(Mul3(Million, Million, 1), BigOf(num))      \* 10^12 * num
        lhs(x) == BigMul(Mul3(x, x, 1), Mul3(den, n, 1))            \* x^2 * den * n
    IN  /\ E >= 0
        /\ BigLe(rhs, lhs(E + 2))
        /\ (E - 2 <= 0 \/ BigLe(lhs(E - 2), rhs))

-----------------------------------------------------------------------------
TInit == /\ tid \in 1..Len(Traces)
         /\ pos = 1
         /\ InitWith(CfgOf(Traces[tid].ev[1]))
         /\ acc = [o \in 1..Traces[tid].ev[1].nobs |-> [s |-> 0, q |-> 0, n |-> 0]]
         /\ TLCSet(tid, 0)

TCall == /\ pos = 1 /\ Call
         /\ pos' = 2 /\ UNCHANGED <<tid, acc>>

\* the sample() call made by the code is exactly the one the specification makes now
SameCall(d, e) == /\ d.k = e.k /\ d.ns = e.ns /\ d.init = e.init /\ d.ow = e.ow
                  /\ d.ret = e.ret /\ d.from = e.from /\ d.to = e.to

TDraw == /\ pos > 1 /\ pos <= Len(T.ev)
         /\ LET e == T.ev[pos] IN
            /\ e.e = "Draw"
            /\ DrawWith(e.to)
            /\ SameCall(draws'[Len(draws')], e)
            /\ Len(e.vals) = cfg.nobs
            /\ \A o \in 1..cfg.nobs : Len(e.vals[o]) = cp            \* one value per chain
            /\ acc' = [o \in 1..cfg.nobs |-> [s |-> acc[o].s + SumSeq(e.vals[o]),
                                              q |-> acc[o].q + SumSq(e.vals[o]),
                                              n |-> acc[o].n + Len(e.vals[o])]]
         /\ pos' = pos + 1 /\ UNCHANGED tid

\* reported numbers against one pass over the concatenation of every drawn sample:
\* mean = s/(N n), variance = (N q - s^2)/(N (N-1) n^2), std_error = sqrt(variance/N), count = N
ResultOK(e) ==
    /\ Len(e.res) = cfg.nobs
    /\ (cfg.L > 0 => e.ucont = content[1])
    /\ \A o \in 1..cfg.nobs :
          LET N == acc[o].n  s == acc[o].s  q == acc[o].q  r == e.res[o]
              A == N * q - s * s
              D == N * (N - 1) * T.n * T.n
          IN  /\ N = count /\ r.count = count
              /\ Near(r.mean, s, N * T.n)
              /\ (N >= 2 => Near(r.var, A, D) /\ NearRoot(r.se, A, D, N))

TFinish == /\ pos > 1 /\ pos <= Len(T.ev)
           /\ LET e == T.ev[pos] IN e.e = "Result" /\ Finish /\ ResultOK(e)
           /\ pos' = pos + 1 /\ UNCHANGED <<tid, acc>>

TNext == TCall \/ TDraw \/ TFinish

\* progress register: number of accepted events
Track == TLCSet(tid, IF pos - 1 > TLCGet(tid) THEN pos - 1 ELSE TLCGet(tid))

Verdicts ==
    \A i \in 1..Len(Traces) :
        PrintT(ToJson([tid |-> i, matched |-> TLCGet(i), need |-> Len(Traces[i].ev)]))
=============================================================================
