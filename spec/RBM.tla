-------------------------------- MODULE RBM --------------------------------
(***************************************************************************)
(* The restricted Boltzmann machine behind PositiveWaveFunction and        *)
(* ComplexWaveFunction, on the exact lattice: every parameter is t*ln(B)   *)
(* with integer t, so e^theta = B^t and all Boltzmann weights, marginals   *)
(* and conditionals are exact rationals (checked modulo three primes).     *)
(*                                                                         *)
(* DEFINITIONS (what the quantities mean):                                 *)
(*   w(v,h)  = B^(b.v + c.h + h.W.v)          joint Boltzmann weight       *)
(*   pDef(v) = SUM_h w(v,h)                    hidden-unit marginal        *)
(*   qDef(h) = SUM_v w(v,h)                                                *)
(*   Z       = SUM_v SUM_h w(v,h)                                          *)
(* CLOSED FORMS (what the code computes: softplus / sigmoid):              *)
(*   pFac(v) = B^(b.v) * PROD_j (1 + B^(c_j + W_j.v))   exp(-eff. energy)   *)
(*   P(h_j=1|v) = B^m/(1+B^m), m = c_j + W_j.v          prob_h_given_v     *)
(*   P(v_i=1|h) = B^n/(1+B^n), n = b_i + h.W_i          prob_v_given_h     *)
(* C01 needs pDef = pFac; C05 needs the two factorisations of the joint,   *)
(* p(v)P(h|v) = w(v,h) = q(h)P(v|h), which give detailed balance of the    *)
(* one-step visible kernel with the REPORTED distribution pFac.            *)
(***************************************************************************)
EXTENDS Exact, FiniteSets, TLC, Json, IOUtils

CONSTANTS Archs,    \* set of <<nv, nh, B>> enumerated exhaustively
          Vals,     \* lattice values for the exhaustive part (non-zero integers)
          TMax,     \* |exponent| bound of the power tables
          Lanes     \* number of parallel lanes reading supplied points

\* points supplied by the harness (seeded, any magnitude): one JSON record per line
Points == ndJsonDeserialize(IOEnv.POINTS_FILE)

VARIABLES st,   \* "arch" -> "W" -> "pt"   |  "lane" -> "pt" -> "pt" ...
          P,    \* the lattice point [nv, nh, B, am |-> [W, b, c], ph |-> [W, b, c]]
          idx   \* index into Points (0 for enumerated points)
vars == <<st, P, idx>>

-----------------------------------------------------------------------------
(* power tables: BT[B][pi][t] = B^t mod Primes[pi] *)
BT == [B \in {2, 3} |-> [pi \in 1..NP |-> [t \in (-TMax)..TMax |-> BPowM(B, t, Primes[pi])]]]
Pw(B, pi, t) == BT[B][pi][t]
OnePlus(B, pi, t) == (1 + Pw(B, pi, t)) % Primes[pi]

(* affine forms of a network N = [W, b, c] (W[j][i]: hidden j, visible i) *)
Hid(N, nv, v, j) == N.c[j] + SumSeq([i \in 1..nv |-> N.W[j][i] * v[i]])      \* m_j(v)
Vis(N, nh, h, i) == N.b[i] + SumSeq([j \in 1..nh |-> h[j] * N.W[j][i]])      \* n_i(h)
Act(N, nv, nh, v, h) == Dot(N.b, v, nv) + SumSeq([j \in 1..nh |-> h[j] * Hid(N, nv, v, j)])

NStates(n) == Pow2(n)
VRow(nv, k) == Row(nv, k - 1)          \* k in 1..2^nv  (row k-1 of the Hilbert space)

(* definitions *)
WeightM(N, nv, nh, B, pi, v, h) == Pw(B, pi, Act(N, nv, nh, v, h))
PDefM(N, nv, nh, B, pi, v) ==
    SumSeqM([k \in 1..NStates(nh) |-> WeightM(N, nv, nh, B, pi, v, Row(nh, k - 1))], Primes[pi])
QDefM(N, nv, nh, B, pi, h) ==
    SumSeqM([k \in 1..NStates(nv) |-> WeightM(N, nv, nh, B, pi, Row(nv, k - 1), h)], Primes[pi])
(* closed forms *)
PFacM(N, nv, nh, B, pi, v) ==
    MulM(Pw(B, pi, Dot(N.b, v, nv)),
         ProdSeqM([j \in 1..nh |-> OnePlus(B, pi, Hid(N, nv, v, j))], Primes[pi]), Primes[pi])
QFacM(N, nv, nh, B, pi, h) ==
    MulM(Pw(B, pi, Dot(N.c, h, nh)),
         ProdSeqM([i \in 1..nv |-> OnePlus(B, pi, Vis(N, nh, h, i))], Primes[pi]), Primes[pi])
\* Bernoulli factor: P(x=1) = B^m/(1+B^m), P(x=0) = 1/(1+B^m)
BernM(B, pi, m, x) ==
    MulM(IF x = 1 THEN Pw(B, pi, m) ELSE 1, InvM(OnePlus(B, pi, m), Primes[pi]), Primes[pi])
CondHM(N, nv, nh, B, pi, v, h) ==
    ProdSeqM([j \in 1..nh |-> BernM(B, pi, Hid(N, nv, v, j), h[j])], Primes[pi])
CondVM(N, nv, nh, B, pi, h, v) ==
    ProdSeqM([i \in 1..nv |-> BernM(B, pi, Vis(N, nh, h, i), v[i])], Primes[pi])
\* one block-Gibbs step on the visible layer: K(v -> v') = SUM_h P(h|v) P(v'|h)
KernM(N, nv, nh, B, pi, v, vp) ==
    SumSeqM([k \in 1..NStates(nh) |->
               MulM(CondHM(N, nv, nh, B, pi, v, Row(nh, k - 1)),
                    CondVM(N, nv, nh, B, pi, Row(nh, k - 1), vp), Primes[pi])], Primes[pi])

-----------------------------------------------------------------------------
(* enumeration of lattice points *)

\* the phase network of an enumerated point: derived from the amplitude network so that it
\* is different from it, non-zero everywhere, and the point stays one choice
Derived(N, nv, nh) ==
    [W |-> [j \in 1..nh |-> [i \in 1..nv |-> -N.W[nh + 1 - j][i] + (IF (i + j) % 2 = 0 THEN 3 ELSE 0)]],
     b |-> [i \in 1..nv |-> N.b[nv + 1 - i] + 1 + i],
     c |-> [j \in 1..nh |-> -N.c[j] - j]]

Init == \/ /\ st = "arch" /\ \E a \in Archs : P = [nv |-> a[1], nh |-> a[2], B |-> a[3]]
           /\ idx = 0
        \/ /\ st = "lane" /\ \E k \in 1..Lanes : idx = k
           /\ P = <<>>
           /\ idx <= Len(Points)

PickW == /\ st = "arch"
         /\ \E W \in [1..P.nh -> [1..P.nv -> Vals]] : P' = [P EXCEPT !.nv = P.nv] @@ [W0 |-> W]
         /\ st' = "W" /\ UNCHANGED idx
PickBC == /\ st = "W"
          /\ \E bb \in [1..P.nv -> Vals], cc \in [1..P.nh -> Vals] :
                LET am == [W |-> P.W0, b |-> bb, c |-> cc] IN
                P' = [nv |-> P.nv, nh |-> P.nh, B |-> P.B, am |-> am, ph |-> Derived(am, P.nv, P.nh)]
          /\ st' = "pt" /\ UNCHANGED idx
\* supplied points: lane k handles indices k, k+Lanes, k+2*Lanes, ...
Load == /\ st = "lane"
        /\ P' = Points[idx] /\ st' = "pt" /\ UNCHANGED idx
Advance == /\ st = "pt" /\ idx > 0 /\ idx + Lanes <= Len(Points)
           /\ idx' = idx + Lanes /\ P' = Points[idx + Lanes] /\ UNCHANGED st
Next == PickW \/ PickBC \/ Load \/ Advance

-----------------------------------------------------------------------------
(* invariants, evaluated on complete points *)
IsPt == st = "pt"
VSet == 1..NStates(P.nv)
HSet == 1..NStates(P.nh)
V(k) == Row(P.nv, k - 1)
H(k) == Row(P.nh, k - 1)
NetsOf == <<P.am, P.ph>>

\* every exponent is inside the tables and no denominator vanishes modulo a prime
\* (a violation of this is a bound problem of the machinery, not of QuCumber)
WellDefined ==
    IsPt => \A n \in 1..2 : \A k \in VSet : \A l \in HSet :
        /\ Act(NetsOf[n], P.nv, P.nh, V(k), H(l)) \in (-TMax)..TMax
        /\ \A j \in 1..P.nh : Hid(NetsOf[n], P.nv, V(k), j) \in (-TMax)..TMax
        /\ \A i \in 1..P.nv : Vis(NetsOf[n], P.nh, H(l), i) \in (-TMax)..TMax
        /\ \A pi \in 1..NP :
              /\ \A j \in 1..P.nh : OnePlus(P.B, pi, Hid(NetsOf[n], P.nv, V(k), j)) # 0
              /\ \A i \in 1..P.nv : OnePlus(P.B, pi, Vis(NetsOf[n], P.nh, H(l), i)) # 0

\* C01: the reported probability is the hidden-unit marginal of the Boltzmann weight
Marginal ==
    IsPt => \A n \in 1..2 : \A pi \in 1..NP : \A k \in VSet :
        PDefM(NetsOf[n], P.nv, P.nh, P.B, pi, V(k)) = PFacM(NetsOf[n], P.nv, P.nh, P.B, pi, V(k))
HiddenMarginal ==
    IsPt => \A pi \in 1..NP : \A l \in HSet :
        QDefM(P.am, P.nv, P.nh, P.B, pi, H(l)) = QFacM(P.am, P.nv, P.nh, P.B, pi, H(l))
\* C01: the normalisation is the sum of the reported probabilities = the full partition sum
ZDefM(pi) == SumSeqM([k \in 1..NStates(P.nv) |->
                 PDefM(P.am, P.nv, P.nh, P.B, pi, V(k))], Primes[pi])
ZFacM(pi) == SumSeqM([k \in 1..NStates(P.nv) |->
                 PFacM(P.am, P.nv, P.nh, P.B, pi, V(k))], Primes[pi])
Partition == IsPt => \A pi \in 1..NP : ZDefM(pi) = ZFacM(pi)

\* C05: conditional = joint / marginal, both ways
JointBothWays ==
    IsPt => \A pi \in 1..NP : \A k \in VSet : \A l \in HSet :
        LET w == WeightM(P.am, P.nv, P.nh, P.B, pi, V(k), H(l)) IN
        /\ MulM(PFacM(P.am, P.nv, P.nh, P.B, pi, V(k)),
                CondHM(P.am, P.nv, P.nh, P.B, pi, V(k), H(l)), Primes[pi]) = w
        /\ MulM(QFacM(P.am, P.nv, P.nh, P.B, pi, H(l)),
                CondVM(P.am, P.nv, P.nh, P.B, pi, H(l), V(k)), Primes[pi]) = w
CondNormalised ==
    IsPt => \A pi \in 1..NP :
        /\ \A k \in VSet : SumSeqM([l \in 1..NStates(P.nh) |->
                 CondHM(P.am, P.nv, P.nh, P.B, pi, V(k), H(l))], Primes[pi]) = 1
        /\ \A l \in HSet : SumSeqM([k \in 1..NStates(P.nv) |->
                 CondVM(P.am, P.nv, P.nh, P.B, pi, H(l), V(k))], Primes[pi]) = 1
\* C05: detailed balance of the visible kernel with the reported distribution, and invariance
Reversible ==
    IsPt => \A pi \in 1..NP : \A k \in VSet : \A k2 \in VSet :
        MulM(PFacM(P.am, P.nv, P.nh, P.B, pi, V(k)), KernM(P.am, P.nv, P.nh, P.B, pi, V(k), V(k2)), Primes[pi])
      = MulM(PFacM(P.am, P.nv, P.nh, P.B, pi, V(k2)), KernM(P.am, P.nv, P.nh, P.B, pi, V(k2), V(k)), Primes[pi])
Stationary ==
    IsPt => \A pi \in 1..NP : \A k2 \in VSet :
        SumSeqM([k \in 1..NStates(P.nv) |->
            MulM(PFacM(P.am, P.nv, P.nh, P.B, pi, V(k)),
                 KernM(P.am, P.nv, P.nh, P.B, pi, V(k), V(k2)), Primes[pi])], Primes[pi])
        = PFacM(P.am, P.nv, P.nh, P.B, pi, V(k2))

-----------------------------------------------------------------------------
\* export in factor form: the value B^k times the product over j of 1 + B^ms[j]
FacV(N, v) == [k |-> Dot(N.b, v, P.nv), ms |-> [j \in 1..P.nh |-> Hid(N, P.nv, v, j)]]
FacH(N, h) == [k |-> Dot(N.c, h, P.nh), ms |-> [i \in 1..P.nv |-> Vis(N, P.nh, h, i)]]
ExportRec ==
    [nv |-> P.nv, nh |-> P.nh, B |-> P.B, am |-> P.am, ph |-> P.ph, idx |-> idx,
     pam |-> [k \in 1..NStates(P.nv) |-> FacV(P.am, V(k))],
     pph |-> [k \in 1..NStates(P.nv) |-> FacV(P.ph, V(k))],
     qam |-> [l \in 1..NStates(P.nh) |-> FacH(P.am, H(l))]]
Export == IsPt => PrintT(ToJson(ExportRec))

=============================================================================
