------------------------------ MODULE PurifRBM ------------------------------
(***************************************************************************)
(* The purification RBM (visible, hidden and auxiliary layer) and the      *)
(* density matrix it defines (DensityMatrix, PurificationRBM), on the      *)
(* exact lattice.                                                          *)
(*                                                                         *)
(* Lattice.  Amplitude network: W, b, c in ln(B)*Z; U = 2u*ln B and        *)
(* d = 2dd*ln B (even, so that the purified amplitude's half-exponents     *)
(* stay integral).  Phase network: Wm, cm in ln(B)*Z; Um = pi*um and       *)
(* bm = pi*bmm (so that half-phases are multiples of pi/2, e^(i phi) in    *)
(* {1, i, -1, -i}); its auxiliary bias is 0 as documented.                 *)
(*                                                                         *)
(* DEFINITION (purification).  With p_lam(s,a) = SUM_h exp(-E_lam(s,h,a))  *)
(* and phi_mu(s,a) = ln SUM_h exp(-E_mu(s,h,a)),                           *)
(*     Psi(s,a) = sqrt(p_lam(s,a)) * exp(i*phi_mu(s,a)/2)                  *)
(*     rho(s,s') = SUM_a Psi(s,a) * conj(Psi(s',a)).                       *)
(* On the lattice Psi(s,a) = sqrt(A(s)) * cis(ln(Hm(s))/2) * i^(bmm.s)     *)
(*                           * g_a(s),  g_a(s) = B^(a.(u s + dd)) * i^(a.(um s)) *)
(* so  rho(s,s') = sqrt(A(s)A(s')) * cis(ln(Hm(s)/Hm(s'))/2) * i^(bmm.(s-s')) *)
(*                 * G(s,s'),   G(s,s') = SUM_a g_a(s) conj(g_a(s')),      *)
(* an exact Gaussian rational.  CLOSED FORM (what the code computes in     *)
(* `pi` with log / atan2):  GFac(s,s') = PROD_k (1 + B^(u_k.(s+s') + 2dd_k) *)
(*                                              * i^(um_k.(s-s'))).        *)
(* rho is a Gram matrix by definition, hence Hermitian and PSD; TLC checks *)
(* G = GFac entrywise (PartialTrace), Hermiticity of the closed form, the  *)
(* diagonal (= the probability the model reports and samples from) and the *)
(* trace (= the reported normalisation).                                   *)
(***************************************************************************)
EXTENDS Exact, FiniteSets, TLC, Json, IOUtils

CONSTANTS Archs,    \* set of <<nv, nh, na, B>> enumerated exhaustively
          Vals,     \* lattice values for the exhaustive part
          TMax, Lanes

Points == ndJsonDeserialize(IOEnv.POINTS_FILE)

VARIABLES st, P, idx
vars == <<st, P, idx>>
\* P = [nv, nh, na, B, W, b, c, u, dd,  Wm, cm, um, bmm]

BT == [B \in {2, 3} |-> [pi \in 1..NP |-> [t \in (-TMax)..TMax |-> BPowM(B, t, Primes[pi])]]]
Pw(B, pi, t) == BT[B][pi][t]
OnePlus(B, pi, t) == (1 + Pw(B, pi, t)) % Primes[pi]

\* pre-activations of the amplitude network (lattice units)
MH(p, v, j) == p.c[j] + SumSeq([i \in 1..p.nv |-> p.W[j][i] * v[i]])
EA(p, v, k) == 2 * (p.dd[k] + SumSeq([i \in 1..p.nv |-> p.u[k][i] * v[i]]))          \* d_k + U_k.v
NV(p, h, a, i) == p.b[i] + SumSeq([j \in 1..p.nh |-> h[j] * p.W[j][i]])
                         + SumSeq([k \in 1..p.na |-> a[k] * 2 * p.u[k][i]])
ActL(p, v, h, a) == Dot(p.b, v, p.nv) + SumSeq([j \in 1..p.nh |-> h[j] * MH(p, v, j)])
                                       + SumSeq([k \in 1..p.na |-> a[k] * EA(p, v, k)])
\* phase network hidden pre-activations
MHm(p, v, j) == p.cm[j] + SumSeq([i \in 1..p.nv |-> p.Wm[j][i] * v[i]])

NS(n) == Pow2(n)
V(k) == Row(P.nv, k - 1)
H(k) == Row(P.nh, k - 1)
A(k) == Row(P.na, k - 1)

(* --- the Boltzmann model of the amplitude network: definitions and closed forms --- *)
WeightM(pi, v, h, a) == Pw(P.B, pi, ActL(P, v, h, a))
PDefM(pi, v) == SumSeqM([kh \in 1..NS(P.nh) |->
                   SumSeqM([ka \in 1..NS(P.na) |-> WeightM(pi, v, H(kh), A(ka))], Primes[pi])], Primes[pi])
AM(pi, v) == MulM(Pw(P.B, pi, Dot(P.b, v, P.nv)),
                  ProdSeqM([j \in 1..P.nh |-> OnePlus(P.B, pi, MH(P, v, j))], Primes[pi]), Primes[pi])
PFacM(pi, v) == MulM(AM(pi, v), ProdSeqM([k \in 1..P.na |-> OnePlus(P.B, pi, EA(P, v, k))], Primes[pi]), Primes[pi])
QFacM(pi, h, a) == MulM(Pw(P.B, pi, Dot(P.c, h, P.nh) + 2 * Dot(P.dd, a, P.na)),
                        ProdSeqM([i \in 1..P.nv |-> OnePlus(P.B, pi, NV(P, h, a, i))], Primes[pi]), Primes[pi])
BernM(pi, m, x) == MulM(IF x = 1 THEN Pw(P.B, pi, m) ELSE 1, InvM(OnePlus(P.B, pi, m), Primes[pi]), Primes[pi])
CondHM(pi, v, h) == ProdSeqM([j \in 1..P.nh |-> BernM(pi, MH(P, v, j), h[j])], Primes[pi])
CondAM(pi, v, a) == ProdSeqM([k \in 1..P.na |-> BernM(pi, EA(P, v, k), a[k])], Primes[pi])
CondVM(pi, h, a, v) == ProdSeqM([i \in 1..P.nv |-> BernM(pi, NV(P, h, a, i), v[i])], Primes[pi])
KernM(pi, v, vp) ==
    SumSeqM([kh \in 1..NS(P.nh) |-> SumSeqM([ka \in 1..NS(P.na) |->
        MulM(MulM(CondHM(pi, v, H(kh)), CondAM(pi, v, A(ka)), Primes[pi]),
             CondVM(pi, H(kh), A(ka), vp), Primes[pi])], Primes[pi])], Primes[pi])

(* --- the density matrix --- *)
\* g_a(s) = B^(a.(u s + dd)) * i^(a.(um s))
GA(pi, a, s) ==
    LET e == SumSeq([k \in 1..P.na |-> a[k] * (P.dd[k] + SumSeq([i \in 1..P.nv |-> P.u[k][i] * s[i]]))])
        f == SumSeq([k \in 1..P.na |-> a[k] * SumSeq([i \in 1..P.nv |-> P.um[k][i] * s[i]])])
    IN GScal(Pw(P.B, pi, e), IPow(f, Primes[pi]), Primes[pi])
GDef(pi, s, sp) == GSumSeq([ka \in 1..NS(P.na) |->
                       GMul(GA(pi, A(ka), s), GConj(GA(pi, A(ka), sp), Primes[pi]), Primes[pi])], Primes[pi])
\* exponents of the closed form: e_k = u_k.(s+s') + 2 dd_k ,  f_k = um_k.(s-s')
EK(s, sp, k) == SumSeq([i \in 1..P.nv |-> P.u[k][i] * (s[i] + sp[i])]) + 2 * P.dd[k]
FK(s, sp, k) == SumSeq([i \in 1..P.nv |-> P.um[k][i] * (s[i] - sp[i])])
GFac(pi, s, sp) == GProdSeq([k \in 1..P.na |->
                       GAdd(GOne, GScal(Pw(P.B, pi, EK(s, sp, k)), IPow(FK(s, sp, k), Primes[pi]), Primes[pi]),
                            Primes[pi])], Primes[pi])

-----------------------------------------------------------------------------
(* enumeration *)
Init == \/ /\ st = "arch" /\ \E a \in Archs : P = [nv |-> a[1], nh |-> a[2], na |-> a[3], B |-> a[4]]
           /\ idx = 0
        \/ /\ st = "lane" /\ \E k \in 1..Lanes : idx = k
           /\ P = <<>> /\ idx <= Len(Points)
\* weights first, biases second (two levels so that the work spreads over TLC's workers)
PickW == /\ st = "arch"
         /\ \E W \in [1..P.nh -> [1..P.nv -> Vals]], u \in [1..P.na -> [1..P.nv -> Vals]] :
               P' = P @@ [W |-> W, u |-> u]
         /\ st' = "W" /\ UNCHANGED idx
PickB == /\ st = "W"
         /\ \E bb \in [1..P.nv -> Vals], cc \in [1..P.nh -> Vals], dv \in [1..P.na -> Vals] :
               P' = P @@ [b |-> bb, c |-> cc, dd |-> dv,
                          \* phase network derived from the amplitude one: different, non-zero everywhere
                          Wm |-> [j \in 1..P.nh |-> [i \in 1..P.nv |-> -P.W[P.nh + 1 - j][i] + (IF (i + j) % 2 = 0 THEN 3 ELSE 0)]],
                          cm |-> [j \in 1..P.nh |-> -cc[j] - j],
                          um |-> [k \in 1..P.na |-> [i \in 1..P.nv |-> P.u[k][P.nv + 1 - i] + (IF (i + k) % 2 = 0 THEN 1 ELSE 2)]],
                          bmm |-> [i \in 1..P.nv |-> bb[i] + i]]
         /\ st' = "pt" /\ UNCHANGED idx
Load == /\ st = "lane" /\ P' = Points[idx] /\ st' = "pt" /\ UNCHANGED idx
Advance == /\ st = "pt" /\ idx > 0 /\ idx + Lanes <= Len(Points)
           /\ idx' = idx + Lanes /\ P' = Points[idx + Lanes] /\ UNCHANGED st
Next == PickW \/ PickB \/ Load \/ Advance

-----------------------------------------------------------------------------
IsPt == st = "pt"
VSet == 1..NS(P.nv)

WellDefined ==
    IsPt => \A kv \in VSet : \A kh \in 1..NS(P.nh) : \A ka \in 1..NS(P.na) :
        /\ ActL(P, V(kv), H(kh), A(ka)) \in (-TMax)..TMax
        /\ \A pi \in 1..NP :
              /\ \A j \in 1..P.nh : OnePlus(P.B, pi, MH(P, V(kv), j)) # 0
              /\ \A k \in 1..P.na : OnePlus(P.B, pi, EA(P, V(kv), k)) # 0
              /\ \A i \in 1..P.nv : OnePlus(P.B, pi, NV(P, H(kh), A(ka), i)) # 0

\* the reported probability is the (hidden, auxiliary) marginal of the Boltzmann weight
Marginal == IsPt => \A pi \in 1..NP : \A kv \in VSet : PDefM(pi, V(kv)) = PFacM(pi, V(kv))

\* C05 for the purification RBM
JointBothWays ==
    IsPt => \A pi \in 1..NP : \A kv \in VSet : \A kh \in 1..NS(P.nh) : \A ka \in 1..NS(P.na) :
        LET w == WeightM(pi, V(kv), H(kh), A(ka)) IN
        /\ MulM(PFacM(pi, V(kv)), MulM(CondHM(pi, V(kv), H(kh)), CondAM(pi, V(kv), A(ka)), Primes[pi]), Primes[pi]) = w
        /\ MulM(QFacM(pi, H(kh), A(ka)), CondVM(pi, H(kh), A(ka), V(kv)), Primes[pi]) = w
Reversible ==
    IsPt => \A pi \in 1..NP : \A k1 \in VSet : \A k2 \in VSet :
        MulM(PFacM(pi, V(k1)), KernM(pi, V(k1), V(k2)), Primes[pi])
      = MulM(PFacM(pi, V(k2)), KernM(pi, V(k2), V(k1)), Primes[pi])
Stationary ==
    IsPt => \A pi \in 1..NP : \A k2 \in VSet :
        SumSeqM([k1 \in 1..NS(P.nv) |-> MulM(PFacM(pi, V(k1)), KernM(pi, V(k1), V(k2)), Primes[pi])], Primes[pi])
        = PFacM(pi, V(k2))

\* C02
PartialTrace == IsPt => \A pi \in 1..NP : \A k1 \in VSet : \A k2 \in VSet :
                    GDef(pi, V(k1), V(k2)) = GFac(pi, V(k1), V(k2))
Hermitian    == IsPt => \A pi \in 1..NP : \A k1 \in VSet : \A k2 \in VSet :
                    GFac(pi, V(k2), V(k1)) = GConj(GFac(pi, V(k1), V(k2)), Primes[pi])
\* rho(s,s) = A(s) * G(s,s) is the probability the model reports and samples from
Diagonal     == IsPt => \A pi \in 1..NP : \A kv \in VSet :
                    /\ GFac(pi, V(kv), V(kv))[2] = 0
                    /\ MulM(AM(pi, V(kv)), GFac(pi, V(kv), V(kv))[1], Primes[pi]) = PFacM(pi, V(kv))
                    /\ MulM(AM(pi, V(kv)), GDef(pi, V(kv), V(kv))[1], Primes[pi]) = PDefM(pi, V(kv))
TraceIsZ     == IsPt => \A pi \in 1..NP :
                    SumSeqM([kv \in 1..NS(P.nv) |-> MulM(AM(pi, V(kv)), GFac(pi, V(kv), V(kv))[1], Primes[pi])], Primes[pi])
                    = SumSeqM([kv \in 1..NS(P.nv) |-> PDefM(pi, V(kv))], Primes[pi])

-----------------------------------------------------------------------------
(* export: everything the harness needs to evaluate rho exactly, as small integers *)
ExportRec ==
    [pt |-> P, idx |-> idx,
     \* A(s) = B^k * PROD (1 + B^ms[j])      (visible + hidden part of the amplitude network)
     A  |-> [kv \in 1..NS(P.nv) |-> [k |-> Dot(P.b, V(kv), P.nv), ms |-> [j \in 1..P.nh |-> MH(P, V(kv), j)]]],
     \* traced-out auxiliary factor of the diagonal: PROD_k (1 + B^ea[k])
     EAx |-> [kv \in 1..NS(P.nv) |-> [k \in 1..P.na |-> EA(P, V(kv), k)]],
     \* Hm(s) = PROD_j (1 + B^ms[j])         (hidden part of the phase network)
     Hm |-> [kv \in 1..NS(P.nv) |-> [j \in 1..P.nh |-> MHm(P, V(kv), j)]],
     \* i^(bmm.s)
     tb |-> [kv \in 1..NS(P.nv) |-> Dot(P.bmm, V(kv), P.nv)],
     \* G(s,s') = PROD_k (1 + B^e[k] * i^f[k])
     G  |-> [k1 \in 1..NS(P.nv) |-> [k2 \in 1..NS(P.nv) |->
               [e |-> [k \in 1..P.na |-> EK(V(k1), V(k2), k)], f |-> [k \in 1..P.na |-> FK(V(k1), V(k2), k)]]]],
     \* conditionals of the amplitude network: pre-activations
     nvha |-> [kh \in 1..NS(P.nh) |-> [ka \in 1..NS(P.na) |-> [i \in 1..P.nv |-> NV(P, H(kh), A(ka), i)]]]]
Export == IsPt => PrintT(ToJson(ExportRec))
=============================================================================
