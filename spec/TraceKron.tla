------------------------------ MODULE TraceKron ------------------------------
(* Validate recorded runs of the real rotate_psi / rotate_rho against KronSweep.tla.
   The recorder wraps qucumber.utils.cplx.matmul while _kron_mult runs and
   reconstructs, per site, the array y after that site (from the view bases of the
   slices handed to matmul), the stride r and the site number; values are
   Gaussian integers after scaling by 2^(f/2) (f = processed factor-carrying sites).

   One ndjson line per trace: [basis, kind, fam, x, ev, fin] with
   ev[j] = [e |-> "site", s (library site), r, b (letter), calls, y]  or  [e |-> "conj", y].
   A trace is accepted iff KronSweep's own actions reproduce every recorded
   intermediate and the returned array; KronSweep's invariants are evaluated on
   every state of the accepted prefix. *)
EXTENDS KronSweep, IOUtils, TLCExt

Traces == ndJsonDeserialize(IOEnv.TRACE_FILE)
NoInputs(m) == {}
Never(b, kd, f) == FALSE

VARIABLES tid, i
tvars == <<vars, tid, i>>

T == Traces[tid]

TInit == /\ tid \in 1..Len(Traces)
         /\ i = 0
         /\ basis = Traces[tid].basis
         /\ kind = Traces[tid].kind /\ fam = Traces[tid].fam
         /\ x = Traces[tid].x /\ y = Traces[tid].x
         /\ dx = IF Traces[tid].kind = "psi" THEN MatVec(Dense(Traces[tid].basis), Traces[tid].x)
                                            ELSE MatMul(Dense(Traces[tid].basis), Traces[tid].x)
         /\ s = Len(Traces[tid].basis) /\ l = Pow2(Len(Traces[tid].basis)) /\ r = 1 /\ ph = 1
         /\ pc = "sweep"
         /\ TLCSet(tid, 0)

TSite == /\ i < Len(T.ev)
         /\ LET e == T.ev[i + 1] IN
              /\ e.e = "site"
              /\ e.s + 1 = s              \* library sites are 0-based
              /\ e.r = r                  \* the stride of the slices handed to matmul
              /\ e.b = basis[s]          \* the 2x2 matrix handed to matmul is this site's letter
              /\ e.calls = (l \div 2) * r \* one matmul per slice
              /\ SweepSite
              /\ y' = e.y

TConj == /\ i < Len(T.ev)
         /\ LET e == T.ev[i + 1] IN
              /\ e.e = "conj"
              /\ ConjStep
              /\ y' = e.y

TNext == /\ TSite \/ TConj
         /\ i' = i + 1
         /\ UNCHANGED tid

FinalOK == pc = "done" /\ i = Len(T.ev) /\ y = T.fin

Progress == i + (IF FinalOK THEN 1 ELSE 0)
Track == TLCSet(tid, IF Progress > TLCGet(tid) THEN Progress ELSE TLCGet(tid))

Verdicts ==
    \A j \in 1..Len(Traces) :
        PrintT(ToJson([tid |-> j, matched |-> TLCGet(j), need |-> Len(Traces[j].ev) + 1]))
=============================================================================
