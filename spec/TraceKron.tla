------------------------------ MODULE TraceKron ------------------------------
(* Validate results of the real rotate_psi / rotate_rho against KronSweep.tla, through the public
   interface only (harness/rot_record.py).

   KronSweep processes the tensor factors from the last site to the first; after the sites s..n the
   array is Dense(Z..Z b_s..b_n) x, which is itself a public result: rotate_psi for the basis whose
   first s-1 letters are replaced by Z.  One ndjson line per trace: [basis, kind, fam, mode, x, ev, fin].
     mode = "sites"  (psi): ev[j] = [e |-> "site", s (library site, 0-based), b (letter), y (that public
                     result, Gaussian integers after scaling by 2^(f/2))]; the trace is accepted iff each
                     recorded array is KronSweep's SweepSite applied to the one before;
     mode = "result" (rho): the intermediates of rotate_rho are not public results, so the sweep, the
                     conjugate step and the second sweep run silently and must end in the recorded
                     result.
   KronSweep's invariants (strides, slices, refinement of the dense product) are evaluated on every
   state of the accepted prefix.  How the implementation organises its matrix products is NOT part of
   a trace: only what it returns. *)
EXTENDS KronSweep, IOUtils, TLCExt

Traces == ndJsonDeserialize(IOEnv.TRACE_FILE)
NoInputs(m) == {}
Never(b, kd, f) == FALSE

VARIABLES tid, i
tvars == <<vars, tid, i>>

T == Traces[tid]

TInit == /\ tid \in 1..Len(Traces)
         /\ i = 0
         /\ basis = Traces[tid].basis
         /\ kind = Traces[tid].kind /\ fam = Traces[tid].fam
         /\ x = Traces[tid].x /\ y = Traces[tid].x
         /\ dx = IF Traces[tid].kind = "psi" THEN MatVec(Dense(Traces[tid].basis), Traces[tid].x)
                                            ELSE MatMul(Dense(Traces[tid].basis), Traces[tid].x)
         /\ s = Len(Traces[tid].basis) /\ l = Pow2(Len(Traces[tid].basis)) /\ r = 1 /\ ph = 1
         /\ pc = "sweep"
         /\ TLCSet(tid, 0)

TSite == /\ T.mode = "sites" /\ i < Len(T.ev)
         /\ LET e == T.ev[i + 1] IN
              /\ e.e = "site"
              /\ e.s + 1 = s              \* library sites are 0-based
              /\ e.b = basis[s]
              /\ SweepSite
              /\ y' = e.y                 \* the public result for the basis Z..Z b_s..b_n
         /\ i' = i + 1

\* result-only traces: the specification's steps are not observable one by one
TSilent == /\ T.mode = "result"
           /\ SweepSite \/ ConjStep
           /\ i' = i

TNext == /\ TSite \/ TSilent
         /\ UNCHANGED tid

FinalOK == pc = "done" /\ i = Len(T.ev) /\ y = T.fin

Progress == i + (IF FinalOK THEN 1 ELSE 0)
Track == TLCSet(tid, IF Progress > TLCGet(tid) THEN Progress ELSE TLCGet(tid))

Verdicts ==
    \A j \in 1..Len(Traces) :
        PrintT(ToJson([tid |-> j, matched |-> TLCGet(j), need |-> Len(Traces[j].ev) + 1]))
=============================================================================
