------------------------- MODULE TraceAuxCallbacks -------------------------
(* Validate recorded sessions of the real fit() (one or two fits on the same
   model and callback objects) against AuxCallbacks.tla.  One JVM handles a file
   of traces; each ndjson line is [cfg, ev, fin]: the configuration (shaped like
   the cfg records of AuxCallbacks), one record per callback hook invocation
   (shaped like AuxCallbacks!Hk: arguments, stop flag seen, clock reading taken,
   lines printed, curve drawn, ...) and the final projection of the objects.
   A trace is accepted iff some behaviour of AuxCallbacks with that cfg produces
   exactly the recorded hook invocations and the recorded final projection; the
   invariants of AuxCallbacks are evaluated on every state of every accepted
   prefix. *)
EXTENDS AuxCallbacks, Json, IOUtils, TLCExt

Traces == ndJsonDeserialize(IOEnv.TRACE_FILE)
NoCfgs(s) == {}

VARIABLE tid
trvars == <<vars, tid>>

T == Traces[tid]

TrInit == /\ tid \in 1..Len(Traces)
          /\ InitWith(Traces[tid].cfg)
          /\ TLCSet(tid, 0)

\* the hook invocations appended by this step are exactly the next recorded ones
Matches == /\ Len(ev') <= Len(T.ev)
           /\ \A i \in (Len(ev) + 1)..Len(ev') : ev'[i] = T.ev[i]

TrNext == /\ \/ Entry \/ TrainStart \/ EpochStart \/ BatchStart \/ BatchEnd \/ EpochEnd \/ TrainEnd \/ Restart
          /\ Matches
          /\ UNCHANGED tid

FinalOK == /\ stop = T.fin.stop /\ err = T.fin.err
           /\ tmU = T.fin.tmU /\ tmF = T.fin.tmF
           /\ lp = T.fin.lp /\ bar = T.fin.bar
           /\ Len(evh) = Len(T.fin.evh)
           /\ \A j \in 1..Len(evh) : evh[j] = T.fin.evh[j]

\* progress register: matched hook invocations, +1 when the session is over and the final state agrees
Progress == Len(ev) + (IF Finished /\ Len(ev) = Len(T.ev) /\ FinalOK THEN 1 ELSE 0)
TrTrack == TLCSet(tid, IF Progress > TLCGet(tid) THEN Progress ELSE TLCGet(tid))

TrVerdicts ==
    \A i \in 1..Len(Traces) :
        PrintT(ToJson([tid |-> i, matched |-> TLCGet(i), need |-> Len(Traces[i].ev) + 1]))
=============================================================================
