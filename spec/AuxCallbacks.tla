---------------------------- MODULE AuxCallbacks ----------------------------
(***************************************************************************)
(* The auxiliary callbacks that Train.tla abstracts away, driven by the    *)
(* event protocol of NeuralStateBase.fit (same shape as Train.tla: train   *)
(* start; per epoch: epoch start, batches, epoch end; train end; a stop    *)
(* request ends the batch loop and the epoch loop; a fit entered with the  *)
(* stop flag set returns before anything happens):                         *)
(*                                                                         *)
(*   Timer         qucumber/callbacks/timer.py, also the one appended by   *)
(*                 fit(time=True) AFTER the user's callbacks               *)
(*   LivePlotting  qucumber/callbacks/liveplotting.py on the records of a  *)
(*                 MetricEvaluator / ObservableEvaluator                   *)
(*   Logger        qucumber/callbacks/logger.py: what is handed to         *)
(*                 logger_fn                                               *)
(*   progbar       the argument of fit (False / True / "notebook"): which  *)
(*                 iterator wraps the epoch range                          *)
(*                                                                         *)
(* One action = one CallbackList dispatch (the callbacks of the list in    *)
(* order; an exception raised by a callback ends the dispatch and the      *)
(* fit).  `ev` holds one record per HOOK INVOCATION with everything an     *)
(* outside observer can record about it: the arguments, the stop flag it   *)
(* saw, the clock reading it took, the lines it printed / passed to        *)
(* logger_fn, the figure it created, the curve it drew.  All properties    *)
(* are stated on `ev` and the final object states; TraceAuxCallbacks.tla   *)
(* reuses the actions to validate recorded runs.                           *)
(*                                                                         *)
(* Modelled as the code stands - named deviations, each can be switched    *)
(* to the documented / natural reading, and the harness shows that the     *)
(* real classes refute that reading:                                       *)
(*   LatchPerObject         Timer.already_notified is never reset          *)
(*   DevObsRecordsRaise     LivePlotting raises on every redraw of         *)
(*                          ObservableEvaluator records                    *)
(*   DevEmptyHistoryRaises  ... and when the evaluator has no record yet   *)
(*   DevClearForgetsXlim    ax.clear() undoes the x-limits of total_epochs *)
(*   NbWidgets = FALSE      progbar="notebook" without a widget toolkit    *)
(*                          raises ImportError AFTER on_train_start        *)
(***************************************************************************)
EXTENDS Integers, Sequences, FiniteSets, TLC

CONSTANTS Shards,           \* the configuration space is split into shards (see Train.tla)
          CfgsOf(_),
          MaxInj,           \* stop requests the environment may inject per fit
          NbWidgets,        \* TRUE: tqdm.notebook finds a widget toolkit (ipywidgets)
          LatchPerObject    \* TRUE = what the code does: already_notified is never reset

VARIABLES cfg,      \* configuration of the session (up to two fits on the same objects)
          pc,       \* control point
          ep, b,    \* current epoch / batch index
          stop,     \* nn_state.stop_training
          run,      \* number of the current fit (1, 2)
          inj,      \* stop requests injected in this fit
          nev,      \* number of dispatches so far (drives the scripted clock)
          ev,       \* hook invocations, in order
          tmU,      \* the user's Timer object (persists across fits)
          tmF,      \* the Timer created by fit(time=True) (a fresh one per fit)
          evh,      \* the evaluator's past_values: <<epoch, value, error>>
          lp,       \* the LivePlotting object: last_epoch, figures opened, x-limits fixed, canvas draws
          bar,      \* the iterator around the epoch range
          err       \* "" or the exception that ended the fit

vars == <<cfg, pc, ep, b, stop, run, inj, nev, ev, tmU, tmF, evh, lp, bar, err>>

-----------------------------------------------------------------------------
(* Configuration.  A callback descriptor is [t, p, v, x, n]:
     rec     a user callback that may request a stop          p = 0
     timer   a user-supplied Timer(verbose = v)               x = "U"
     eval    an evaluator with period p, x = "metric" | "obs"
     plot    LivePlotting(period p, error band iff v, total_epochs = n (0 = None))
     logger  Logger(period p, logger_fn = print | custom (v), msg_gen x = "default" | "custom" | "junk",
                    n keyword arguments)
   fit(time = TRUE) appends Timer() - verbose - AFTER them.                    *)
D(t, p, v, x, n) == [t |-> t, p |-> p, v |-> v, x |-> x, n |-> n]
FlagTimer == D("timer", 0, TRUE, "F", 0)
Cbs(c) == IF c.time THEN Append(c.cbs, FlagTimer) ELSE c.cbs
NCb(c) == Len(Cbs(c))
Pos(c, t) == IF \E i \in 1..Len(c.cbs) : c.cbs[i].t = t
             THEN CHOOSE i \in 1..Len(c.cbs) : c.cbs[i].t = t ELSE 0
EvKind(c) == IF Pos(c, "eval") = 0 THEN "none" ELSE c.cbs[Pos(c, "eval")].x
RecIdx(c) == {i \in 1..Len(c.cbs) : c.cbs[i].t = "rec"}

CfgOK(c) ==
    /\ c.startEp >= 0 /\ c.epochs >= 0 /\ c.nb >= 1
    /\ NCb(c) >= 1
    /\ \A t \in {"timer", "eval", "plot", "logger"} :
          Cardinality({i \in 1..Len(c.cbs) : c.cbs[i].t = t}) <= 1
    /\ \A i \in 1..Len(c.cbs) : c.cbs[i].t \in {"eval", "plot", "logger"} => c.cbs[i].p >= 1
    /\ \A i \in 1..Len(c.cbs) :
          LET d == c.cbs[i] IN
          CASE d.t = "rec"    -> TRUE
            [] d.t = "timer"  -> d.x = "U"
            [] d.t = "eval"   -> d.x \in {"metric", "obs"}
            [] d.t = "plot"   -> d.n >= 0
            [] d.t = "logger" -> d.x \in {"default", "custom", "junk"} /\ d.n \in 0..2
            [] OTHER          -> FALSE
    /\ (Pos(c, "plot") > 0 => Pos(c, "eval") > 0)
    /\ c.runs \in 1..2 /\ c.again \in {"reset", "keep"}
    /\ c.progbar \in {"off", "on", "nb"}
    /\ c.t0 >= 0 /\ c.dt >= 0 /\ c.dj >= 0
    /\ Len(c.vals) > c.epochs /\ Len(c.errs) > c.epochs

\* the scripted wall clock (in ticks) while dispatch number n runs: monotone
Clk(c, n) == c.t0 + c.dt * n + c.dj * (n \div 2)
\* the scripted metric and its error at epoch e
Val(c, e) == c.vals[e + 1]
Err(c, e) == c.errs[e + 1]

-----------------------------------------------------------------------------
(* Hook invocations *)
Line(m, e, bi, t) == [m |-> m, ep |-> e, b |-> bi, t |-> t]
Hk(n, r, kind, e, bi, i, d, seen) ==
    [n |-> n, run |-> r, k |-> kind, ep |-> e, b |-> bi, cb |-> i, t |-> d.t,
     o |-> IF d.t = "timer" THEN d.x ELSE "",
     seen |-> seen,         \* nn_state.stop_training when the hook is entered
     inj |-> FALSE,         \* this hook requested the stop
     clk |-> -1,            \* the clock reading it took (-1: none)
     say |-> <<>>,          \* lines printed / passed to logger_fn
     draw |-> <<>>,         \* <<>> or <<the curve now on the axes>>
     err |-> "",            \* "raise": the hook raised
     fig |-> 0,             \* figures it opened
     xfix |-> FALSE,        \* (plot) x-limits are (0, total_epochs) afterwards
     last |-> -1,           \* (plot) last_epoch afterwards
     cd |-> 0]              \* canvas draws it made

FreshTimer(v) == [verbose |-> v, start |-> -1, end |-> -1, time |-> -1, notified |-> FALSE]

(* Timer: start time at train start; at a batch end / epoch end a notice iff the stop flag is
   set, the Timer is verbose and it has not given one yet; at train end the end time, the
   elapsed time and (verbose) the total line. *)
TimerHook(T, h, c) ==
    LET now == Clk(c, h.n)
        say == h.k \in {"BE", "EE"} /\ h.seen /\ T.verbose /\ ~T.notified
    IN CASE h.k = "TS" -> [T |-> [T EXCEPT !.start = now], h |-> [h EXCEPT !.clk = now]]
         [] h.k = "TE" -> [T |-> [T EXCEPT !.end = now, !.time = now - T.start],
                           h |-> [h EXCEPT !.clk = now,
                                           !.say = IF T.verbose THEN <<Line("total", -1, -1, now - T.start)>>
                                                   ELSE <<>>]]
         [] say        -> [T |-> [T EXCEPT !.notified = TRUE],
                           h |-> [h EXCEPT !.say = <<Line("term", h.ep, h.b, 0)>>]]
         [] OTHER      -> [T |-> T, h |-> h]

(* LivePlotting.  A redraw at `e` happens iff e % period = 0: last_epoch := e; the axes are
   cleared (which also forgets the x-limits); the curve is the evaluator's epochs against the
   values of quantity_name, the band value -+ error.  No record, or records of an
   ObservableEvaluator (dictionaries of statistics, not numbers): the hook raises. *)
Snapshot(d, H, e) ==
    [ep |-> e,
     xs |-> [j \in 1..Len(H) |-> H[j][1]],
     ys |-> [j \in 1..Len(H) |-> H[j][2]],
     lo |-> IF d.v THEN [j \in 1..Len(H) |-> H[j][2] - H[j][3]] ELSE <<>>,
     hi |-> IF d.v THEN [j \in 1..Len(H) |-> H[j][2] + H[j][3]] ELSE <<>>]
\* Named deviations (TRUE = what the code does; see the harness report):
DevObsRecordsRaise    == TRUE   \* the class documents ObservableEvaluator as supported, but its records hold a
                                \* dictionary of statistics per observable and Axes.plot raises on them
DevEmptyHistoryRaises == TRUE   \* a redraw while the evaluator has no record raises (maximum of an empty array)
DevClearForgetsXlim   == TRUE   \* ax.clear() resets the x-limits that total_epochs had set
Raises(c, H) == (H = <<>> /\ DevEmptyHistoryRaises) \/ (EvKind(c) = "obs" /\ DevObsRecordsRaise)
Redraw(L, h, c, d, H, e) ==
    IF e % d.p # 0 THEN [L |-> L, h |-> [h EXCEPT !.xfix = L.xfix, !.last = L.last]]
    ELSE LET L1 == [L EXCEPT !.last = e, !.xfix = (IF DevClearForgetsXlim THEN FALSE ELSE @)] IN
         IF Raises(c, H)
         THEN [L |-> L1, h |-> [h EXCEPT !.err = "raise", !.last = e, !.xfix = L1.xfix]]
         ELSE [L |-> [L1 EXCEPT !.drawn = @ + 1],
               h |-> [h EXCEPT !.draw = <<Snapshot(d, H, e)>>, !.last = e, !.cd = 1, !.xfix = L1.xfix]]
PlotHook(L, h, c, d, H) ==
    CASE h.k = "TS" -> [L |-> [L EXCEPT !.figs = @ + 1, !.xfix = (d.n > 0), !.drawn = @ + 1],
                        h |-> [h EXCEPT !.fig = 1, !.xfix = (d.n > 0), !.last = L.last, !.cd = 1]]
      [] h.k = "EE" -> Redraw(L, h, c, d, H, h.ep)
      [] h.k = "TE" -> Redraw(L, h, c, d, H, L.last)
      [] OTHER      -> [L |-> L, h |-> [h EXCEPT !.xfix = L.xfix, !.last = L.last]]

(* One CallbackList dispatch: list order; a stop requested by one callback is visible to the
   next; an exception ends it. *)
RECURSIVE Disp(_, _, _, _, _, _, _, _)
Disp(c, kind, e, bi, n, i, injAt, S) ==
    IF i > NCb(c) \/ S.err # "" THEN S
    ELSE LET d == Cbs(c)[i]
             h == Hk(n, S.run, kind, e, bi, i, d, S.stop) IN
      CASE d.t = "rec" ->
             Disp(c, kind, e, bi, n, i + 1, injAt,
                  [S EXCEPT !.stop = (@ \/ injAt = i), !.ev = Append(@, [h EXCEPT !.inj = (injAt = i)])])
        [] d.t = "timer" ->
             LET r == TimerHook(IF d.x = "U" THEN S.tmU ELSE S.tmF, h, c) IN
             Disp(c, kind, e, bi, n, i + 1, injAt,
                  [S EXCEPT !.tmU = IF d.x = "U" THEN r.T ELSE @,
                            !.tmF = IF d.x = "F" THEN r.T ELSE @,
                            !.ev = Append(@, r.h)])
        [] d.t = "eval" ->
             Disp(c, kind, e, bi, n, i + 1, injAt,
                  [S EXCEPT !.evh = IF kind = "EE" /\ e % d.p = 0
                                    THEN Append(@, <<e, Val(c, e), Err(c, e)>>) ELSE @,
                            !.ev = Append(@, h)])
        [] d.t = "logger" ->
             Disp(c, kind, e, bi, n, i + 1, injAt,
                  [S EXCEPT !.ev = Append(@, IF kind = "EE" /\ e % d.p = 0
                                             THEN [h EXCEPT !.say = <<Line("log", e, -1, 0)>>] ELSE h)])
        [] d.t = "plot" ->
             LET r == PlotHook(S.lp, h, c, d, S.evh) IN
             Disp(c, kind, e, bi, n, i + 1, injAt,
                  [S EXCEPT !.lp = r.L, !.ev = Append(@, r.h),
                            !.err = IF r.h.err # "" THEN "callback" ELSE @])

-----------------------------------------------------------------------------
(* Actions *)
IdleBar == [kind |-> "none", disable |-> FALSE, pulled |-> 0]
InitWith(c) ==
    /\ cfg = c /\ pc = "Entry" /\ ep = -1 /\ b = -1 /\ stop = c.entryStop /\ run = 1 /\ inj = 0
    /\ nev = 0 /\ ev = <<>>
    /\ tmU = FreshTimer(IF Pos(c, "timer") > 0 THEN c.cbs[Pos(c, "timer")].v ELSE FALSE)
    /\ tmF = FreshTimer(TRUE)
    /\ evh = <<>> /\ lp = [last |-> 0, figs |-> 0, xfix |-> FALSE, drawn |-> 0]
    /\ bar = IdleBar /\ err = ""

Init == /\ \E s \in Shards : cfg = [shard |-> s]
        /\ pc = "Pick" /\ ep = -1 /\ b = -1 /\ stop = FALSE /\ run = 0 /\ inj = 0 /\ nev = 0 /\ ev = <<>>
        /\ tmU = FreshTimer(FALSE) /\ tmF = FreshTimer(TRUE) /\ evh = <<>>
        /\ lp = [last |-> 0, figs |-> 0, xfix |-> FALSE, drawn |-> 0] /\ bar = IdleBar /\ err = ""

Pick == /\ pc = "Pick"
        /\ \E c \in CfgsOf(cfg.shard) :
              /\ cfg' = c /\ stop' = c.entryStop
              /\ tmU' = FreshTimer(IF Pos(c, "timer") > 0 THEN c.cbs[Pos(c, "timer")].v ELSE FALSE)
        /\ pc' = "Entry" /\ run' = 1
        /\ UNCHANGED <<ep, b, inj, nev, ev, tmF, evh, lp, bar, err>>

\* `if self.stop_training: return`; otherwise the list is built: a fresh Timer() is appended
Entry == /\ pc = "Entry"
         /\ pc' = IF stop THEN "Done" ELSE "TS"
         /\ tmF' = IF stop THEN tmF ELSE FreshTimer(TRUE)
         /\ bar' = IF stop THEN bar ELSE IdleBar
         /\ UNCHANGED <<cfg, ep, b, stop, run, inj, nev, ev, tmU, evh, lp, err>>

InjChoices == IF inj < MaxInj /\ ~stop THEN {0} \cup RecIdx(cfg) ELSE {0}

\* `post`: an exception raised by fit itself right after the dispatch ("" = none)
DispatchStep(kind, e, bi, ia, post) ==
    LET r == Disp(cfg, kind, e, bi, nev + 1, 1, ia,
                  [stop |-> stop, run |-> run, ev |-> ev, tmU |-> tmU, tmF |-> tmF, evh |-> evh, lp |-> lp,
                   err |-> ""]) IN
    /\ nev' = nev + 1
    /\ ev' = r.ev /\ stop' = r.stop /\ tmU' = r.tmU /\ tmF' = r.tmF /\ evh' = r.evh /\ lp' = r.lp
    /\ err' = IF r.err # "" THEN r.err ELSE post
    /\ inj' = IF ia = 0 THEN inj ELSE inj + 1

\* on_train_start, then `progress_bar(range(starting_epoch, epochs + 1), desc=.., disable=..)`;
\* tqdm.notebook without a widget toolkit: the constructor raises and the fit is over
TrainStart ==
    /\ pc = "TS"
    /\ \E ia \in InjChoices :
          DispatchStep("TS", -1, -1, ia, IF cfg.progbar = "nb" /\ ~NbWidgets THEN "ImportError" ELSE "")
    /\ IF err' = "callback" THEN bar' = bar
       ELSE bar' = [kind |-> IF cfg.progbar = "nb" THEN "notebook" ELSE "tqdm",
                    disable |-> cfg.progbar = "off", pulled |-> 0]
    /\ IF err' # "" THEN pc' = "Done" /\ ep' = ep
       ELSE IF cfg.startEp <= cfg.epochs THEN pc' = "ES" /\ ep' = cfg.startEp
       ELSE pc' = "TE" /\ ep' = ep
    /\ UNCHANGED <<cfg, b, run>>

EpochStart ==
    /\ pc = "ES"
    /\ \E ia \in InjChoices : DispatchStep("ES", ep, -1, ia, "")
    /\ bar' = [bar EXCEPT !.pulled = @ + 1]
    /\ IF err' # "" THEN pc' = "Done" /\ b' = b ELSE pc' = "BS" /\ b' = 0
    /\ UNCHANGED <<cfg, ep, run>>
BatchStart ==
    /\ pc = "BS"
    /\ \E ia \in InjChoices : DispatchStep("BS", ep, b, ia, "")
    /\ pc' = IF err' # "" THEN "Done" ELSE "BE"
    /\ UNCHANGED <<cfg, ep, b, run, bar>>
BatchEnd ==
    /\ pc = "BE"
    /\ \E ia \in InjChoices : DispatchStep("BE", ep, b, ia, "")
    /\ IF err' # "" THEN pc' = "Done" /\ b' = b
       ELSE IF stop' THEN pc' = "EE" /\ b' = b
       ELSE IF b + 1 < cfg.nb THEN pc' = "BS" /\ b' = b + 1 ELSE pc' = "EE" /\ b' = b
    /\ UNCHANGED <<cfg, ep, run, bar>>
EpochEnd ==
    /\ pc = "EE"
    /\ \E ia \in InjChoices : DispatchStep("EE", ep, -1, ia, "")
    /\ IF err' # "" THEN pc' = "Done" /\ ep' = ep
       ELSE IF stop' THEN pc' = "TE" /\ ep' = ep
       ELSE IF ep + 1 <= cfg.epochs THEN pc' = "ES" /\ ep' = ep + 1 ELSE pc' = "TE" /\ ep' = ep
    /\ UNCHANGED <<cfg, b, run, bar>>
TrainEnd ==
    /\ pc = "TE"
    /\ \E ia \in InjChoices : DispatchStep("TE", -1, -1, ia, "")
    /\ pc' = "Done"
    /\ UNCHANGED <<cfg, ep, b, run, bar>>
\* a second fit() with the same model and the same callback objects; the user resets the stop flag or not
Restart ==
    /\ pc = "Done" /\ run < cfg.runs /\ err = ""
    /\ run' = run + 1 /\ stop' = (cfg.again = "keep" /\ stop)
    /\ tmU' = IF LatchPerObject THEN tmU ELSE [tmU EXCEPT !.notified = FALSE]
    /\ inj' = 0 /\ ep' = -1 /\ b' = -1 /\ pc' = "Entry"
    /\ UNCHANGED <<cfg, nev, ev, tmF, evh, lp, bar, err>>

Next == Pick \/ Entry \/ TrainStart \/ EpochStart \/ BatchStart \/ BatchEnd \/ EpochEnd
        \/ TrainEnd \/ Restart
Spec == Init /\ [][Next]_vars /\ WF_vars(Next)
Finished == pc = "Done" /\ (run = cfg.runs \/ err # "")
Terminates == <>Finished

-----------------------------------------------------------------------------
(* Properties, stated on the hook history *)
Live == pc # "Pick"
Idx == 1..Len(ev)
HasLine(h, m) == \E q \in 1..Len(h.say) : h.say[q].m = m
RunIdx(r) == {i \in Idx : ev[i].run = r}
\* the hooks of one Timer object: the user's over all fits, fit's own per fit
OfTimer(o, r) == {i \in Idx : ev[i].t = "timer" /\ ev[i].o = o /\ (o = "U" \/ ev[i].run = r)}
Verbose(o) == IF o = "U" THEN tmU.verbose ELSE TRUE
Min(S) == CHOOSE x \in S : \A y \in S : x <= y
Max(S) == CHOOSE x \in S : \A y \in S : x >= y
\* the logical events of fit number r: what the first callback of the list saw
Logical(r) == SelectSeq(ev, LAMBDA h : h.run = r /\ h.cb = 1)
Entered(r) == \E i \in Idx : ev[i].run = r
Completed(r) == \E i \in Idx : ev[i].run = r /\ ev[i].k = "TE" /\ ev[i].cb = NCb(cfg) /\ ev[i].err = ""

TypeOK == Live =>
    /\ CfgOK(cfg)
    /\ pc \in {"Entry", "TS", "ES", "BS", "BE", "EE", "TE", "Done"}
    /\ stop \in BOOLEAN /\ run \in 1..cfg.runs /\ inj \in 0..MaxInj /\ err \in {"", "callback", "ImportError"}
    /\ \A i \in Idx : /\ ev[i].cb \in 1..NCb(cfg) /\ ev[i].t = Cbs(cfg)[ev[i].cb].t
                      /\ ev[i].n \in 1..nev /\ Len(ev[i].say) <= 1 /\ Len(ev[i].draw) <= 1

\* every dispatch reaches the callbacks in list order, each exactly once, up to one that raises
ListOrder == Live =>
    \A i \in Idx :
       /\ (ev[i].cb > 1 => i > 1 /\ ev[i - 1].n = ev[i].n /\ ev[i - 1].cb = ev[i].cb - 1 /\ ev[i - 1].err = "")
       /\ (ev[i].cb = 1 /\ i > 1 => ev[i - 1].n = ev[i].n - 1)
       /\ (i < Len(ev) /\ ev[i].cb < NCb(cfg) /\ ev[i].err = "" => ev[i + 1].n = ev[i].n)
       /\ (i > 1 /\ ev[i - 1].n = ev[i].n =>
              ev[i].k = ev[i - 1].k /\ ev[i].ep = ev[i - 1].ep /\ ev[i].b = ev[i - 1].b /\ ev[i].run = ev[i - 1].run)
       /\ (i > 1 /\ ev[i - 1].n = ev[i].n => ev[i].seen = (ev[i - 1].seen \/ ev[i - 1].inj))
       /\ (ev[i].cb = 1 => ev[i].seen = \E j \in 1..(i - 1) : ev[j].run = ev[i].run /\ ev[j].inj)
       /\ (ev[i].inj => ev[i].t = "rec" /\ ~ev[i].seen)

\* fit(time = TRUE): its Timer stands after every callback of the user, so it sees a stop
\* requested during the same dispatch
TimerLast == Live =>
    \A i \in Idx : ev[i].o = "F" =>
       /\ cfg.time /\ ev[i].cb = Len(cfg.cbs) + 1
       /\ (i < Len(ev) => ev[i + 1].n # ev[i].n)
       /\ ev[i].seen = \E j \in 1..(i - 1) : ev[j].run = ev[i].run /\ ev[j].inj
FlagTimerPresent == Live /\ cfg.time =>
    \A i \in Idx : (ev[i].cb = Len(cfg.cbs) /\ ev[i].err = "" /\ i < Len(ev)) => ev[i + 1].o = "F"

\* Timer notices
NoticeAtMostOnce == Live =>
    \A o \in {"U", "F"} : \A r \in 1..run :
       /\ Cardinality({i \in OfTimer(o, r) : ev[i].run = r /\ HasLine(ev[i], "term")}) <= 1
       /\ (LatchPerObject => Cardinality({i \in OfTimer(o, r) : HasLine(ev[i], "term")}) <= 1)
NoticeOnlyAfterStop == Live =>
    \A i \in Idx : HasLine(ev[i], "term") =>
       /\ ev[i].t = "timer" /\ ev[i].k \in {"BE", "EE"} /\ ev[i].seen /\ Verbose(ev[i].o)
       /\ ev[i].say = <<Line("term", ev[i].ep, ev[i].b, 0)>>         \* names the epoch (and the batch)
       /\ (ev[i].k = "EE" => ev[i].b = -1) /\ (ev[i].k = "BE" => ev[i].b >= 0)
       /\ \E j \in 1..i : ev[j].run = ev[i].run /\ ev[j].inj          \* never without a stop request
NoticeAtFirstOpportunity == Live =>
    \A o \in {"U", "F"} : \A r \in 1..run :
       LET H == {i \in OfTimer(o, r) : ev[i].run = r}
           opp == {i \in H : ev[i].k \in {"BE", "EE"} /\ ev[i].seen}
           latched == o = "U" /\ LatchPerObject
                      /\ \E j \in OfTimer(o, r) : ev[j].run < r /\ HasLine(ev[j], "term")
       IN IF opp # {} /\ Verbose(o) /\ ~latched
          THEN \A i \in H : HasLine(ev[i], "term") <=> i = Min(opp)
          ELSE \A i \in H : ~HasLine(ev[i], "term")
\* the reading of the class docstring ("It will run at the end of an epoch or batch if the given
\* model's stop_training property is set to True"): every fit that observes a stop announces it.
\* Violated by the code's latch as soon as one Timer object serves two stopped fits.
PerFitNotice == Live =>
    \A r \in 1..run :
       LET H == {i \in OfTimer("U", r) : ev[i].run = r}
           opp == {i \in H : ev[i].k \in {"BE", "EE"} /\ ev[i].seen}
       IN (opp # {} /\ tmU.verbose) => HasLine(ev[Min(opp)], "term")

\* the clock is read exactly at train start and train end; elapsed = end - start
ElapsedIsEndMinusStart == Live =>
    /\ \A i \in Idx : (ev[i].clk # -1) <=> (ev[i].t = "timer" /\ ev[i].k \in {"TS", "TE"})
    /\ \A i \in Idx : ev[i].clk # -1 => ev[i].clk = Clk(cfg, ev[i].n)
    /\ \A i \in Idx : ev[i].t = "timer" /\ ev[i].k = "TE" =>
          LET s == Max({j \in 1..i : ev[j].t = "timer" /\ ev[j].o = ev[i].o /\ ev[j].k = "TS"}) IN
          /\ ev[s].run = ev[i].run
          /\ ev[i].clk >= ev[s].clk
          /\ (Verbose(ev[i].o) => ev[i].say = <<Line("total", -1, -1, ev[i].clk - ev[s].clk)>>)
          /\ (~Verbose(ev[i].o) => ev[i].say = <<>>)
    /\ \A i \in Idx : HasLine(ev[i], "total") => ev[i].t = "timer" /\ ev[i].k = "TE"
\* the attributes the objects are left with (the user's Timer over all fits, fit's own Timer of
\* the last fit that got past the entry test): start_time / end_time / training_time
LastEntered == IF Idx = {} THEN 0 ELSE ev[Len(ev)].run
TimerAttributes == Live /\ Finished =>
    \A o \in {"U", "F"} :
       LET T  == IF o = "U" THEN tmU ELSE tmF
           H  == {i \in Idx : ev[i].t = "timer" /\ ev[i].o = o /\ (o = "U" \/ ev[i].run = LastEntered)}
           ts == {i \in H : ev[i].k = "TS"}
           te == {i \in H : ev[i].k = "TE"} IN
       /\ T.start = (IF ts = {} THEN -1 ELSE ev[Max(ts)].clk)
       /\ T.end = (IF te = {} THEN -1 ELSE ev[Max(te)].clk)
       /\ T.time = (IF te = {} THEN -1 ELSE ev[Max(te)].clk - ev[Max({j \in ts : j < Max(te)})].clk)
       /\ T.notified = \E i \in H : HasLine(ev[i], "term")
\* a fit entered with the stop flag set: no event at all, nothing printed, no clock reading
EntryStopInert == Live =>
    /\ (cfg.entryStop => RunIdx(1) = {})
    /\ (run = 2 /\ cfg.again = "keep" /\ (\E i \in RunIdx(1) : ev[i].inj) => RunIdx(2) = {})

\* LivePlotting: one figure per fit at train start; a redraw at an epoch end iff the epoch is a
\* multiple of the period; one more at train end; last_epoch = the latest such epoch
PlotIdx == {i \in Idx : ev[i].t = "plot"}
Tried(h) == h.draw # <<>> \/ h.err # ""
PP == cfg.cbs[Pos(cfg, "plot")]
RedrawSchedule == Live =>
    \A i \in PlotIdx :
       LET due == {j \in PlotIdx : j <= i /\ ev[j].k = "EE" /\ ev[j].ep % PP.p = 0} IN
       /\ Tried(ev[i]) <=> ((ev[i].k = "EE" /\ ev[i].ep % PP.p = 0) \/ ev[i].k = "TE")
       /\ (ev[i].fig = 1) <=> (ev[i].k = "TS")
       /\ ev[i].last = (IF due = {} THEN 0 ELSE ev[Max(due)].ep)
       /\ (ev[i].draw # <<>> => ev[i].draw[1].ep = ev[i].last /\ ev[i].cd = 1)
       /\ (i = Max(PlotIdx) => lp.last = ev[i].last)
       /\ ev[i].xfix = (PP.n > 0 /\ ~(DevClearForgetsXlim
                                       /\ \E j \in PlotIdx : j <= i /\ ev[j].run = ev[i].run /\ Tried(ev[j])))
\* the curve is exactly the evaluator's history at that moment: the epochs at which the evaluator
\* has been run so far (those before this hook, over all fits) and the scripted values there
EvalAt(i) == SelectSeq(SubSeq(ev, 1, i - 1),
                       LAMBDA h : h.t = "eval" /\ h.k = "EE" /\ h.ep % cfg.cbs[Pos(cfg, "eval")].p = 0)
SeriesAreEvaluatorHistory == Live =>
    \A i \in PlotIdx : Tried(ev[i]) =>
       LET H == EvalAt(i) IN
       IF Raises(cfg, H) THEN ev[i].err = "raise" /\ ev[i].draw = <<>>
       ELSE /\ ev[i].err = ""
            /\ LET s == ev[i].draw[1] IN
               /\ Len(s.xs) = Len(H) /\ Len(s.ys) = Len(H)
               /\ \A j \in 1..Len(H) : s.xs[j] = H[j].ep /\ s.ys[j] = Val(cfg, H[j].ep)
               /\ IF PP.v THEN /\ Len(s.lo) = Len(H) /\ Len(s.hi) = Len(H)
                               /\ \A j \in 1..Len(H) : /\ s.lo[j] = Val(cfg, H[j].ep) - Err(cfg, H[j].ep)
                                                       /\ s.hi[j] = Val(cfg, H[j].ep) + Err(cfg, H[j].ep)
                  ELSE s.lo = <<>> /\ s.hi = <<>>
\* the figure left behind by a completed fit shows the complete history
FinalRedraw == Live /\ Pos(cfg, "plot") > 0 =>
    \A r \in 1..run : Completed(r) =>
       LET P == {i \in PlotIdx : ev[i].run = r} IN
       /\ ev[Max(P)].k = "TE" /\ ev[Max(P)].draw # <<>>
       /\ (r = run => Len(ev[Max(P)].draw[1].xs) = Len(evh))
\* an exception raised by a callback ends the fit on the spot
CrashEndsFit == Live =>
    /\ \A i \in Idx : ev[i].err # "" => (i = Len(ev) \/ ev[i + 1].run # ev[i].run) /\ ev[i].t = "plot"
    /\ (err = "callback" <=> (ev # <<>> /\ ev[Len(ev)].err # "" /\ ev[Len(ev)].run = run))
    /\ (err # "" => pc = "Done")

\* Logger: one message per executed epoch end that is a multiple of the period, naming it
LoggerLines == Live =>
    \A i \in Idx : HasLine(ev[i], "log") <=>
        (ev[i].t = "logger" /\ ev[i].k = "EE" /\ ev[i].ep % Cbs(cfg)[ev[i].cb].p = 0
         /\ ev[i].say = <<Line("log", ev[i].ep, -1, 0)>>)

(* progbar is a pure presentation choice: the logical events of a fit are a function of the
   schedule, of the logical event during which the stop was requested and of the one that
   raised - RefFrom does not mention progbar (except that the notebook bar cannot be built
   without a widget toolkit: then the fit dies right after train start). *)
RECURSIVE RefFrom(_, _, _, _, _, _, _)
RefFrom(c, k, e, bi, idx, s, cr) ==
    LET stopped == s # 0 /\ idx >= s
        me == <<k, e, bi>> IN
    IF cr # 0 /\ idx = cr THEN <<me>>
    ELSE CASE k = "TS" -> <<me>> \o (IF c.startEp <= c.epochs THEN RefFrom(c, "ES", c.startEp, -1, idx + 1, s, cr)
                                     ELSE RefFrom(c, "TE", -1, -1, idx + 1, s, cr))
           [] k = "ES" -> <<me>> \o RefFrom(c, "BS", e, 0, idx + 1, s, cr)
           [] k = "BS" -> <<me>> \o RefFrom(c, "BE", e, bi, idx + 1, s, cr)
           [] k = "BE" -> <<me>> \o (IF stopped \/ bi + 1 >= c.nb THEN RefFrom(c, "EE", e, -1, idx + 1, s, cr)
                                     ELSE RefFrom(c, "BS", e, bi + 1, idx + 1, s, cr))
           [] k = "EE" -> <<me>> \o (IF stopped \/ e + 1 > c.epochs THEN RefFrom(c, "TE", -1, -1, idx + 1, s, cr)
                                     ELSE RefFrom(c, "ES", e + 1, -1, idx + 1, s, cr))
           [] k = "TE" -> <<me>>
ProgbarIrrelevant == Live =>
    \A r \in 1..run : (r < run \/ pc = "Done") /\ Entered(r) =>
       LET L  == Logical(r)
           n0 == L[1].n
           st == {i \in RunIdx(r) : ev[i].inj}
           cr == {i \in RunIdx(r) : ev[i].err # ""}
           s  == IF st = {} THEN 0 ELSE ev[Min(st)].n - n0 + 1
           c  == IF cr # {} THEN ev[Min(cr)].n - n0 + 1
                 ELSE IF r = run /\ err = "ImportError" THEN 1 ELSE 0
       IN [q \in 1..Len(L) |-> <<L[q].k, L[q].ep, L[q].b>>] = RefFrom(cfg, "TS", -1, -1, 1, s, c)
BarCountsEpochs == Live /\ pc \notin {"Entry", "TS"} /\ Entered(run) =>
    /\ bar.kind = (IF cfg.progbar = "nb" THEN "notebook" ELSE "tqdm")
    /\ bar.disable = (cfg.progbar = "off")
    /\ bar.pulled = Cardinality({i \in RunIdx(run) : ev[i].k = "ES" /\ ev[i].cb = 1})
NotebookNeedsWidgets == Live =>
    /\ (err = "ImportError" => /\ cfg.progbar = "nb" /\ ~NbWidgets /\ pc = "Done"
                               /\ Len(Logical(run)) = 1 /\ ev[Len(ev)].k = "TS" /\ ev[Len(ev)].run = run)
    /\ (cfg.progbar = "nb" /\ ~NbWidgets /\ pc \notin {"Entry", "TS"} /\ Entered(run) /\ LastEntered = run
            => err # "")

=============================================================================
