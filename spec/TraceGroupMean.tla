--------------------------- MODULE TraceGroupMean ---------------------------
(* code -> spec for "mean of per-row terms, each row in its own basis" (C03 positive-phase gradient
   components, C10 NLL, C10 basis-averaged KL), public calls only.  One ndjson line per quantity:
     rows   = [[b, t]]  the row's basis code and the row's OWN term, from the public call on that single row
              (1e-6 fixed point; for KL a "row" is one requested basis and t its divergence);
     groups = [[b, cnt, m]] the public call on the rows of basis b alone: their number and their MEAN (fixed point);
     total  = the public call on the whole batch (the mean over all rows), n its number of rows;
     slack  = fixed-point units allowed per row (rounding of the recorded means, float accumulation).
   Accepted iff GroupMean's Group steps, taken in the recorded order, reproduce every recorded group value and the
   recorded total; GroupedIsSum / EveryRowOnce are evaluated along the way. *)
EXTENDS GroupMean, Json, IOUtils, TLCExt

Traces == ndJsonDeserialize(IOEnv.TRACE_FILE)
VARIABLES tid, i
tvars == <<vars, tid, i>>
T == Traces[tid]
AbsI(x) == IF x < 0 THEN -x ELSE x

TInit == /\ tid \in 1..Len(Traces) /\ i = 0
         /\ rows = [j \in 1..Len(Traces[tid].rows) |-> [b |-> Traces[tid].rows[j][1], t |-> Traces[tid].rows[j][2]]]
         /\ pc = "group" /\ taken = {} /\ acc = 0
         /\ TLCSet(tid, 0)
TGroup == /\ i < Len(T.groups)
          /\ LET g == T.groups[i + 1] IN
               /\ GroupOf(g[1])
               /\ g[2] = CountOf(rows, g[1])                                  \* the group is exactly the rows of that basis
               /\ AbsI(g[2] * g[3] - (acc' - acc)) <= T.slack * g[2]          \* its mean is the mean of their own terms
          /\ i' = i + 1 /\ UNCHANGED tid
TNext == TGroup
FinalOK == /\ pc = "end" /\ i = Len(T.groups)
           /\ T.n = Len(rows)
           /\ AbsI(T.n * T.total - acc) <= T.slack * T.n
Progress == i + (IF FinalOK THEN 1 ELSE 0)
Track == TLCSet(tid, IF Progress > TLCGet(tid) THEN Progress ELSE TLCGet(tid))
Verdicts == \A j \in 1..Len(Traces) :
               PrintT(ToJson([tid |-> j, matched |-> TLCGet(j), need |-> Len(Traces[j].groups) + 1]))
=============================================================================
