------------------------------- MODULE Stats -------------------------------
(***************************************************************************)
(* Streaming statistics of observables (property C13).                     *)
(*                                                                         *)
(* Part A - merge algebra.  `_update_statistics` (qucumber/observables/    *)
(*   utils.py) merges two summaries (mean, unbiased variance, length).     *)
(*   `Merge` below is that routine, line by line, over exact rationals;    *)
(*   `OnePass` is the textbook mean / unbiased variance / n of a dataset.  *)
(*   TLC enumerates every dataset over Vals of length <= MaxLen, every     *)
(*   prefix/suffix split (empty sides included) and every chunking         *)
(*   (composition of the length), and checks MergeIsOnePass.               *)
(*                                                                         *)
(* Part B - schedule.  `ObservableBase.statistics` / `System.statistics`   *)
(*   as a state machine Call -> Draw^T -> Finish.  One Draw is one call of *)
(*   nn_state.sample(k, num_samples, initial_state, overwrite).  Buffers   *)
(*   are abstract objects (tokens) that hold abstract contents (ids), so   *)
(*   chain continuity and the fate of the user's buffer can be stated.     *)
(*                                                                         *)
(* The two parts have their own Init/Next (InitA/NextA, InitB/NextB); the  *)
(* variables of the other part are parked.  TraceStats.tla reuses the      *)
(* actions of part B and the arithmetic of part A.                         *)
(***************************************************************************)
EXTENDS Integers, Sequences, FiniteSets, TLC

CONSTANTS Vals,     \* part A: sample alphabet (a set of small integers, e.g. -2..2)
          MaxLen,   \* part A: longest dataset
          MaxS,     \* part B: num_samples ranges over 1..MaxS
          MaxC,     \* part B: num_chains ranges over 0..MaxC
          MaxL,     \* part B: a user buffer has 1..MaxL rows
          Ks,       \* part B: values of burn_in and of steps (naturals)
          MaxObs    \* part B: a System holds 1..MaxObs observables

VARIABLES apc, alg,                                   \* part A
          pc, cfg, cp, nt, chains, content, draws, evals, count   \* part B

avars == <<apc, alg>>
bvars == <<pc, cfg, cp, nt, chains, content, draws, evals, count>>

-----------------------------------------------------------------------------
(* Exact rationals: <<num, den>> with den > 0 and gcd(num, den) = 1.        *)
(* Undef = <<0, 0>> stands for "not a number" (the unbiased variance of a   *)
(* single sample, the mean of no sample); no arithmetic is ever done on it. *)

Abs(x) == IF x < 0 THEN -x ELSE x
Min(a, b) == IF a < b THEN a ELSE b
RECURSIVE Gcd(_, _)
Gcd(a, b) == IF b = 0 THEN a ELSE Gcd(b, a % b)            \* a, b >= 0

Norm(n, d) ==                                               \* d # 0
    LET s == IF d < 0 THEN -1 ELSE 1
        g == Gcd(Abs(n), Abs(d))
    IN  <<(s * n) \div g, (s * d) \div g>>

Undef == <<0, 0>>
Zero  == <<0, 1>>
RInt(k)    == <<k, 1>>
IsRat(p)   == p[2] > 0 /\ Gcd(Abs(p[1]), p[2]) = 1
RAdd(p, q) == Norm(p[1] * q[2] + q[1] * p[2], p[2] * q[2])
RSub(p, q) == Norm(p[1] * q[2] - q[1] * p[2], p[2] * q[2])
RMul(p, q) == Norm(p[1] * q[1], p[2] * q[2])
RDiv(p, q) == Norm(p[1] * q[2], p[2] * q[1])                \* q # 0

-----------------------------------------------------------------------------
(* Part A: summaries and their merge *)

\* the summary of no data as the code writes it (initial running values, and
\* what the routine returns for len_a = len_b = 0)
Zero3 == [mean |-> Zero, var |-> Zero, n |-> 0]

RECURSIVE SumSeq(_), SumSq(_)
SumSeq(xs) == IF xs = <<>> THEN 0 ELSE xs[1] + SumSeq(Tail(xs))
SumSq(xs)  == IF xs = <<>> THEN 0 ELSE xs[1] * xs[1] + SumSq(Tail(xs))

\* one pass over a dataset: mean = sum/n (n >= 1), unbiased variance =
\* (n*sum(x^2) - sum(x)^2) / (n*(n-1)) (n >= 2); undefined otherwise
OnePass(xs) ==
    LET n == Len(xs)  s == SumSeq(xs)  q == SumSq(xs)
    IN  [mean |-> IF n >= 1 THEN Norm(s, n) ELSE Undef,
         var  |-> IF n >= 2 THEN Norm(n * q - s * s, n * (n - 1)) ELSE Undef,
         n    |-> n]

\* what a caller hands to the merge for one block of samples
\* (statistics_from_samples: torch.var_mean; an empty block is the code's Zero3)
Block(xs) == IF xs = <<>> THEN Zero3 ELSE OnePass(xs)

\* (len - 1) * var.  A ONE-SAMPLE BLOCK CONTRIBUTES 0 HERE WHATEVER ITS (undefined)
\* VARIANCE IS: its sum of squared deviations from its own mean is 0.  For len = 0
\* the code multiplies its own 0.0 by -1, which is 0 as well.
Scaled(var, len) == IF len = 1 THEN Zero ELSE RMul(var, RInt(len - 1))

\* (delta ** 2) * len_a * len_b / float(new_len)
Cross(d2, lenA, lenB) == RDiv(RMul(d2, RInt(lenA * lenB)), RInt(lenA + lenB))
\* the final division: new_var /= float(new_len - 1)
Bessel(newLen) == newLen - 1

\* _update_statistics(avg_a, var_a, len_a, avg_b, var_b, len_b), line by line
Merge(a, b) ==
    IF a.n = 0 /\ b.n = 0 THEN Zero3                         \* if len_a == len_b == 0: return 0.0, 0.0, 0
    ELSE
    LET newLen  == a.n + b.n
        newMean == RDiv(RAdd(RMul(a.mean, RInt(a.n)), RMul(b.mean, RInt(b.n))), RInt(newLen))
        delta   == RSub(b.mean, a.mean)
        scaledA == Scaled(a.var, a.n)
        scaledB == Scaled(b.var, b.n)
        newVar0 == RAdd(RAdd(scaledA, scaledB), Cross(RMul(delta, delta), a.n, b.n))
        \* the unbiased variance of a single sample does not exist: Undef, the mean and
        \* the length are still those of the union
        newVar  == IF Bessel(newLen) = 0 THEN Undef ELSE RDiv(newVar0, RInt(Bessel(newLen)))
    IN  [mean |-> newMean, var |-> newVar, n |-> newLen]

\* m is a correct summary of a dataset whose one-pass summary is o, wherever o is defined
Agrees(m, o) == /\ m.n = o.n
                /\ (o.n >= 1 => m.mean = o.mean)
                /\ (o.n >= 2 => m.var = o.var)

\* cut a dataset into consecutive blocks of the given lengths
RECURSIVE Cut(_, _)
Cut(xs, parts) == IF parts = <<>> THEN <<>>
                  ELSE <<SubSeq(xs, 1, parts[1])>> \o Cut(SubSeq(xs, parts[1] + 1, Len(xs)), Tail(parts))

\* running = Zero3; for each block: running = M(running, Block(block))   (what statistics() does)
Fold(M(_, _), blocks) ==
    LET f[i \in 0..Len(blocks)] == IF i = 0 THEN Zero3 ELSE M(f[i - 1], Block(blocks[i]))
    IN  f[Len(blocks)]

\* every prefix of the blocks, merged one after the other, agrees with one pass over that prefix
OnePassHolds(M(_, _), xs, parts) ==
    LET bs == Cut(xs, parts)
        f[i \in 0..Len(bs)] == IF i = 0 THEN Zero3 ELSE M(f[i - 1], Block(bs[i]))       \* = Fold(M, first i blocks)
        upto[i \in 0..Len(bs)] == IF i = 0 THEN 0 ELSE upto[i - 1] + parts[i]
    IN  /\ \A j \in 0..Len(bs) : Agrees(f[j], OnePass(SubSeq(xs, 1, upto[j])))
        \* a two-block case is also merged directly (not through the empty running summary)
        /\ Len(bs) = 2 => Agrees(M(Block(bs[1]), Block(bs[2])), OnePass(xs))

\* compositions of n (sequences of positive lengths with sum n)
RECURSIVE Comps(_)
Comps(n) == IF n = 0 THEN {<<>>}
            ELSE UNION {{<<k>> \o c : c \in Comps(n - k)} : k \in 1..n}
\* prefix/suffix splits, empty sides included (exercises len_a = 0, len_b = 0 and both)
Splits(n) == {<<c, n - c>> : c \in 0..n}
Parts(n)  == Comps(n) \cup Splits(n)

\* shards: <<length, first value>> (<<0, 0>> for the empty dataset)
AShards == {<<0, 0>>} \cup {<<n, v>> : n \in 1..MaxLen, v \in Vals}
ACases(sh) ==
    IF sh[1] = 0 THEN {[xs |-> <<>>, parts |-> p] : p \in Parts(0)}
    ELSE {[xs |-> <<sh[2]>> \o t, parts |-> p] : t \in [1..(sh[1] - 1) -> Vals], p \in Parts(sh[1])}

Parked == /\ pc = "Parked" /\ cfg = <<>> /\ cp = 0 /\ nt = 0 /\ chains = 0 /\ content = <<>>
          /\ draws = <<>> /\ evals = <<>> /\ count = 0

InitA == /\ apc = "Pick" /\ \E sh \in AShards : alg = [shard |-> sh]
         /\ Parked
PickA == /\ apc = "Pick"
         /\ \E c \in ACases(alg.shard) : alg' = c
         /\ apc' = "Case"
         /\ UNCHANGED bvars
NextA == PickA

ALive == apc = "Case"
\* THE invariant of part A
MergeIsOnePass == ALive => OnePassHolds(Merge, alg.xs, alg.parts)
\* the empty merge is the code's (0.0, 0.0, 0); merging with it changes nothing
EmptyMerge ==
    ALive => /\ Merge(Zero3, Zero3) = Zero3
             /\ (Len(alg.xs) >= 2 => /\ Merge(Block(alg.xs), Zero3) = OnePass(alg.xs)
                                     /\ Merge(Zero3, Block(alg.xs)) = OnePass(alg.xs))
\* all results are normalised rationals (or Undef exactly where one pass is)
RatOK ==
    ALive => LET r == Fold(Merge, Cut(alg.xs, alg.parts)) IN
             /\ (r.n >= 1 => IsRat(r.mean))
             /\ (r.n >= 2 => IsRat(r.var) /\ r.var[1] >= 0)
             /\ (r.n = 1 => r.var = Undef)

-----------------------------------------------------------------------------
(* Part B: the schedule of statistics()                                     *)
(*                                                                          *)
(* cfg = [kind ("obs": ObservableBase.statistics, "sys": System.statistics),*)
(*        nobs, S (num_samples), C (num_chains), burn, steps,               *)
(*        L (rows of the user's initial_state, 0 = None), ow (overwrite)]   *)
(* Tokens: 0 = None, 1 = the user's buffer, 2.. = buffers created later.    *)
(* content[t] = id of what buffer t holds (1 = what the user handed in).    *)

Ceil(a, d) == (a + d - 1) \div d
\* num_chains as the code computes it ...
NumChains(c) == IF c.L > 0 THEN c.L                       \* num_chains = len(initial_state)
                ELSE IF c.C # 0 THEN Min(c.C, c.S) ELSE c.S
\* ... and as the documentation words it
NumChainsDoc(c) == IF c.L > 0 THEN c.L ELSE IF c.C = 0 \/ c.C > c.S THEN c.S ELSE c.C
NumSteps(S, chainsN) == Ceil(S, chainsN)                  \* int(np.ceil(num_samples / num_chains))
GibbsK(i, c) == IF i = 0 THEN c.burn ELSE c.steps         \* burn_in if i == 0 else steps

\* conv: the user's initial_state is not a float64 tensor on the model's device (float32, int64, ...): the
\* first sample() call converts it, i.e. works on a fresh buffer and leaves its argument alone even with
\* overwrite=True (named deviation DevConvert: what the code does; the documentation is silent)
BCfgs ==
    {[kind |-> kd, nobs |-> no, S |-> s, C |-> c, burn |-> bu, steps |-> st, L |-> l, ow |-> o, conv |-> cv] :
        kd \in {"obs", "sys"}, no \in 1..MaxObs, s \in 1..MaxS, c \in 0..MaxC, bu \in Ks, st \in Ks,
        l \in 0..MaxL, o \in BOOLEAN, cv \in BOOLEAN}
Conv(c) == "conv" \in DOMAIN c /\ c.conv
BCfgOK(c) == /\ (c.kind = "obs" => c.nobs = 1)
             /\ (c.L = 0 => ~Conv(c))
             /\ (c.L > 0 => c.C \in {0, 1, MaxC})   \* num_chains is ignored when a buffer is given: three values suffice
BShards == {<<kd, s>> : kd \in {"obs", "sys"}, s \in 1..MaxS}

AParked == apc = "Parked" /\ alg = <<>>

InitWith(c) == /\ cfg = c /\ pc = "Call"
               /\ cp = 0 /\ nt = 0 /\ chains = 0
               /\ content = <<IF c.L > 0 THEN 1 ELSE 0>>
               /\ draws = <<>> /\ evals = <<>> /\ count = 0
               /\ AParked

InitB == /\ pc = "Pick" /\ \E sh \in BShards : cfg = [shard |-> sh]
         /\ cp = 0 /\ nt = 0 /\ chains = 0 /\ content = <<>> /\ draws = <<>> /\ evals = <<>> /\ count = 0
         /\ AParked

PickB == /\ pc = "Pick"
         /\ \E c \in {x \in BCfgs : BCfgOK(x) /\ x.kind = cfg.shard[1] /\ x.S = cfg.shard[2]} :
               /\ cfg' = c
               /\ content' = <<IF c.L > 0 THEN 1 ELSE 0>>
         /\ pc' = "Call"
         /\ UNCHANGED <<cp, nt, chains, draws, evals, count, avars>>

\* the code before the loop
Call ==
    /\ pc = "Call"
    /\ cp' = NumChains(cfg)
    /\ nt' = NumSteps(cfg.S, NumChains(cfg))
    /\ IF cfg.L = 0 THEN chains' = 0 /\ content' = content                    \* chains = None
       ELSE IF cfg.ow THEN chains' = 1 /\ content' = content                  \* chains = initial_state
       ELSE chains' = 2 /\ content' = Append(content, content[1])             \* chains = initial_state.clone()
    /\ pc' = "Draw"
    /\ UNCHANGED <<cfg, draws, evals, count, avars>>

\* one loop iteration: chains = nn_state.sample(num_samples=num_chains, k=..., initial_state=chains,
\* overwrite=True); every observable is evaluated on the returned buffer; the running length grows.
\* `to` is the id of the chain states after the Gibbs steps (chosen by the environment).
\* nn_state.sample: initial_state None -> a fresh buffer; overwrite -> works in place and returns
\* its argument.
DrawWith(to) ==
    /\ pc = "Draw" /\ Len(draws) < nt
    /\ LET i    == Len(draws)
           init == chains
           new  == init = 0 \/ (Conv(cfg) /\ i = 0)          \* a fresh result buffer
           ret  == IF new THEN Len(content) + 1 ELSE init
           from == IF init = 0 THEN 0 ELSE content[init]
       IN  /\ draws' = Append(draws, [k |-> GibbsK(i, cfg), ns |-> cp, init |-> init, ow |-> TRUE,
                                      ret |-> ret, from |-> from, to |-> to])
           /\ content' = IF new THEN Append(content, to) ELSE [content EXCEPT ![init] = to]
           /\ chains' = ret
           /\ evals' = evals \o [o \in 1..cfg.nobs |-> [draw |-> i + 1, obs |-> o, seen |-> to]]
           /\ count' = count + cp
    /\ UNCHANGED <<pc, cfg, cp, nt, avars>>

\* fresh content id for model checking: larger than every id in use
Draw == DrawWith(Len(draws) + 2)

Finish == /\ pc = "Draw" /\ Len(draws) = nt
          /\ pc' = "Done"
          /\ UNCHANGED <<cfg, cp, nt, chains, content, draws, evals, count, avars>>

NextB == PickB \/ Call \/ Draw \/ Finish

BLive == pc \in {"Draw", "Done"}
BDone == pc = "Done"

TypeOKB == BLive => /\ cp >= 1 /\ nt >= 1 /\ chains \in 0..Len(content)
                    /\ Len(draws) <= nt /\ count = cp * Len(draws)

\* count = chains x draws, never less than requested, and less than one draw too many
CountOK == BDone => /\ count = cp * Len(draws)
                    /\ count >= cfg.S
                    /\ count - cfg.S < cp
ChainsAsDocumented == BLive => cp = NumChainsDoc(cfg)
EveryDrawAllChains == BLive => \A i \in 1..Len(draws) : draws[i].ns = cp
\* burn-in exactly once and first, `steps` between later draws
BurnOnceFirst == BLive => \A i \in 1..Len(draws) : draws[i].k = IF i = 1 THEN cfg.burn ELSE cfg.steps
\* the same chains continue: each draw starts from the object returned by the previous one and from
\* what that one left in it; the first from None / the user's buffer / a clone holding its content
Continuity ==
    BLive => /\ \A i \in 2..Len(draws) : /\ draws[i].init = draws[i - 1].ret /\ draws[i].init # 0
                                         /\ draws[i].from = draws[i - 1].to
                                         /\ draws[i].ow
             /\ Len(draws) >= 1 =>
                   /\ (cfg.L = 0 <=> draws[1].init = 0)
                   /\ (cfg.L > 0 => draws[1].from = 1 /\ (draws[1].init = 1 <=> cfg.ow) /\ draws[1].ow)
\* the user's buffer holds the final chain states iff overwrite, else what the user put in
UserBuffer ==
    BLive /\ cfg.L > 0 =>
        /\ (~cfg.ow \/ Conv(cfg) => content[1] = 1)
        /\ (cfg.ow /\ ~Conv(cfg) /\ Len(draws) >= 1 => content[1] = draws[Len(draws)].to)
\* System: one chain advance per draw, shared by all observables
SharedAdvance ==
    BLive => /\ Len(evals) = cfg.nobs * Len(draws)
             /\ \A j \in 1..Len(evals) : evals[j].seen = draws[evals[j].draw].to
             /\ \A d \in 1..Len(draws), o \in 1..cfg.nobs : \E j \in 1..Len(evals) : evals[j].draw = d /\ evals[j].obs = o
=============================================================================
