import sys, time
sys.path.insert(0, "/verif/harness")
import ext_userobs as x
for tier in ("quick",):
    sh = x.shards(tier)
    t0 = time.time()
    r = x.run_mc(sh)
    print(tier, len(sh), "shards", r.summary(), len(r.exports), round(time.time() - t0, 1), flush=True)
