import subprocess, sys, concurrent.futures as cf
M = [
 ("own-draw-per-member", "qucumber/observables/system.py",
  "                obs_stats = obs.statistics_from_samples(nn_state, chains)",
  "                chains = nn_state.sample(num_samples=num_chains, k=num_gibbs_steps, initial_state=chains, overwrite=True)\n                obs_stats = obs.statistics_from_samples(nn_state, chains)"),
 ("keyed-by-symbol", "qucumber/observables/system.py", "{obs.name: obs for obs in observables}", "{obs.symbol: obs for obs in observables}"),
 ("sfs-biased-variance", "qucumber/observables/observable.py", "variance, mean = torch.var_mean(obs_samples)", "variance, mean = torch.var_mean(obs_samples, unbiased=False)"),
 ("last-by-reference", "qucumber/callbacks/observable_evaluator.py",
  "            self.last = obs_vals.copy()\n            self.past_values.append((epoch, obs_vals))",
  "            self.last.update(obs_vals)\n            self.past_values.append((epoch, self.last))"),
 ("period-off-by-one", "qucumber/callbacks/observable_evaluator.py", "if epoch % self.period == 0:", "if (epoch + 1) % self.period == 0:"),
 ("csv-header-sorted", "qucumber/callbacks/observable_evaluator.py", "for obs_name in self.system.observables.keys():", "for obs_name in sorted(self.system.observables.keys()):"),
 ("name-default-lower", "qucumber/observables/observable.py", "            self._name = self.__class__.__name__", "            self._name = self.__class__.__name__.lower()"),
 ("symbol-default-is-name", "qucumber/observables/observable.py", "            self._symbol = self.__class__.__name__", "            self._symbol = \"O\""),
 ("first-duplicate-wins", "qucumber/observables/system.py", "        self.observables = {obs.name: obs for obs in observables}",
  "        self.observables = {}\n        for obs in observables:\n            self.observables.setdefault(obs.name, obs)"),
 ("EQUIVALENT-apply-on-clone", "qucumber/observables/system.py", "obs.statistics_from_samples(nn_state, chains)", "obs.statistics_from_samples(nn_state, chains.clone())"),
 ("get_value-default-first", "qucumber/callbacks/observable_evaluator.py", "index = index if index is not None else -1", "index = index if index is not None else 0"),
 ("clear-keeps-last", "qucumber/callbacks/observable_evaluator.py", "        self.past_values = []\n        self.last = {}\n", "        self.past_values = []\n"),
 ("verbose-5-decimals", "qucumber/callbacks/observable_evaluator.py", "{sv:.6f}", "{sv:.5f}"),
 ("neg-name-from-symbol", "qucumber/observables/observable.py", "self, -1, name=(\"-\" + self.name)", "self, -1, name=(\"-\" + self.symbol)"),
 ("csv-std-error-column-holds-variance", "qucumber/callbacks/observable_evaluator.py", "                        row[obs_name + \"_\" + stat_name] = stat",
  "                        row[obs_name + \"_\" + stat_name] = obs_stats[\"variance\"] if stat_name == \"std_error\" else stat"),
 ("obs-statistics-std-error-of-last-block", "qucumber/observables/observable.py", "        std_error = np.sqrt(running_variance / running_length)", "        std_error = np.sqrt(running_variance / num_chains)"),
 ("system-std-error-no-sqrt", "qucumber/observables/system.py", "\"std_error\": np.sqrt(variances[obs_name] / total_samples),", "\"std_error\": variances[obs_name] / total_samples,"),
 ("sample-ignores-k", "qucumber/observables/observable.py", "                k=k,\n                num_samples=num_samples,", "                k=1 + k,\n                num_samples=num_samples,"),
 ("sum-drops-right-scalar", "qucumber/observables/observable.py", "        if isinstance(self.right, (float, int)):\n            result += self.right\n", ""),
 ("evaluator-system-reversed", "qucumber/callbacks/observable_evaluator.py", "self.system = System(*observables)", "self.system = System(*reversed(observables))"),
 ("getattr-statistics-skips-first", "qucumber/callbacks/observable_evaluator.py", "                [values[observable] for _, values in self.past_values]", "                [values[observable] for _, values in self.past_values[1:]]"),
 ("epochs-accessor-sorted-desc", "qucumber/callbacks/observable_evaluator.py", "return np.array([epoch for epoch, _ in self.past_values])", "return np.array([epoch for epoch, _ in self.past_values][::-1])"),
]
sel = sys.argv[1:]
def one(m):
    name, f, old, new = m
    r = subprocess.run(["/venv/bin/python", "/verif/tools/mutate.py", "--file", f, "--old", old, "--new", new, "XUSEROBS"],
                       stdout=subprocess.PIPE, stderr=subprocess.STDOUT, text=True)
    keys = [l.strip() for l in r.stdout.splitlines() if l.startswith("  key=")]
    res = [l for l in r.stdout.splitlines() if l.startswith("RESULT") or "pattern occurs" in l or "MACHINERY" in l]
    return name, res, keys[:4]
with cf.ThreadPoolExecutor(3) as ex:
    for name, res, keys in ex.map(one, [m for m in M if not sel or m[0] in sel]):
        print(name, res, keys, flush=True)
