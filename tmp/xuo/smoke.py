import sys, time, json
sys.path.insert(0, "/verif/harness")
import tlc
NO = "<none>"
def leaf(x): return dict(t="leaf", n=x)
def num(k): return dict(t="num", q=[k, 1])
def bin_(op, l, r): return dict(t=op, l=l, r=r)
atoms = [dict(cls="Energy", nm=NO, sy=NO, table=[1, -2, 0], impl="user"),
         dict(cls="Energy", nm="E2", sy="e", table=[0, 1, 2], impl="user"),
         dict(cls="SigmaZ", nm="SigmaZ", sy="Z", table=[-2, 0, 0], impl="SigmaZ")]
obs = [dict(e=leaf("a"), nm=NO, sy=NO), dict(e=bin_("add", bin_("sub", bin_("mul", num(2), leaf("a")), leaf("c")), num(1)), nm=NO, sy=NO),
       dict(e=leaf("b"), nm="Energy", sy=NO)]
case = dict(atoms=atoms, obs=obs, period=2, log=True, verbose=True, kw=dict(S=3, C=2, burn=1, steps=1),
            stream=[0, 1, 2, 1], script=[dict(op="sys.sfs", b=3), dict(op="fit", s=1, e=4), dict(op="view"), dict(op="clear"), dict(op="obs.stats", i=2), dict(op="obs.sample", i=2, b=2)])
INV = ["UTypeOK", "StatsAreOfAppliedValues", "ValuesAreApplyOfSeen", "SameSamplesForAllMembers", "KeyedByName", "RegistrationOrder",
       "EvaluatorRecordsWhatSystemReturned", "OnSchedule", "AllEpochs", "AccessorsConsistent", "CsvMatchesRecords", "ClearHistoryEmpties", "VerboseBlocks"] + \
      ["TypeOKB", "CountOK", "ChainsAsDocumented", "EveryDrawAllChains", "BurnOnceFirst", "Continuity", "UserBuffer", "SharedAdvance"]
t0 = time.time()
res = tlc.run("UserObs", constants=dict(MaxLen=1, MaxS=1, MaxC=1, MaxL=1, MaxObs=1),
              defs={"Vals": "{0}", "Ks": "{0}", "UShards": "{1}", "UCasesOf(s)": "{" + tlc.tla_value(case) + "}"},
              init="UInit", next="UNext", invariants=INV + ["MC_Export"], extends_extra=["Json"],
              extra_text="MC_Export == UFinished => PrintT(ToJson(UExport))", workers=2, heap="2g", timeout=120)
print(res.summary(), time.time() - t0)
if res.violation: print(res.raw[-6000:])
for e in res.exports:
    print(json.dumps(e)[:6000])
