import sys, time
sys.path.insert(0, "/verif/harness")
import ext_userobs as x, stats_run as sr
sh = x.shards("quick")
for label, kw in (("no inv, no export", dict(export=False, invariants=[])),
                  ("U inv only", dict(export=False, invariants=x.U_INV)),
                  ("sched inv only", dict(export=False, invariants=sr.SCHED_INV)),
                  ("export only", dict(export=True, invariants=[]))):
    t0 = time.time()
    r = x.run_mc(sh, **kw)
    print(label, r.summary(), round(time.time() - t0, 1), flush=True)
for i, t in enumerate(sh):
    t0 = time.time()
    r = x.run_mc([t], export=False, invariants=[])
    print("shard", i, r.summary(), round(time.time() - t0, 1), flush=True)
