import sys, time
sys.path.insert(0, "/verif/harness")
import ext_userobs as x, stats_run as sr
sh = x.shards("quick")
t = sh[3]
for k in (1, 3, 9):
    parts = ["{c \\in (%s) : (c.stream[1] * 3 + c.stream[2]) %% %d = %d}" % (t, k, j) for j in range(k)]
    t0 = time.time()
    r = x.run_mc(parts, export=False, invariants=[])
    print("split", k, r.summary(), round(time.time() - t0, 1), flush=True)
