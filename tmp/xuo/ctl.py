import sys, random, tempfile, shutil
sys.path.insert(0, "/verif/harness")
import ext_userobs as x
rng = random.Random(5)
wd = tempfile.mkdtemp()
lines, metas, bad = x.record_sessions(rng, 60, 123, wd)
shutil.rmtree(wd)
print("bad", bad[:2])
good = [l for l in lines if x.trace_malformed(l) is None]
tb = x.corrupted_traces(good)
res, acc, matched = x.validate_traces(good + [l for _, l in tb])
print(sum(acc[:len(good)]), "of", len(good), "accepted")
for j, (what, ln) in enumerate(tb):
    m = matched[len(good) + j]
    print(acc[len(good) + j], m, "/", len(ln["ev"]), ln["ev"][m]["e"] if m < len(ln["ev"]) else None, "|", what)
