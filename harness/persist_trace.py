"""Code -> spec binding of C11: record histories of public calls made on real QuCumber states,
real metadata dicts and real files (persist_replay.World), and let TLC decide whether each history
is a behaviour of spec/Persist.tla (spec/TracePersist.tla).

One trace = one history on one world: the setup (types, shapes, metadata key sets, saver kind), the
projection of the freshly built world, then one event per call: its label (op, m, f, k), what the real
call reported, and the FULL projection of the world after it (persist_replay.World.observe).

Tokens.  Persist.tla names fresh content with Fresh(S) = the smallest natural number not referenced in
the state BEFORE the call.  The recorder canonicalises content hashes with exactly that rule (Canon):
per token space (p parameters, u unitary dictionary, v metadata content) it keeps hash -> token of the
hashes currently referenced by some model / present file / metadata object (plus the reserved ones of
Persist!Init) and gives a hash that is not currently referenced the smallest unused number.  `notfresh`
records that such a new hash equals one seen earlier in the history (Persist's fresh content never
equals old content).  No QuCumber semantics and no expected values live here: the driver only asks the
observed projection which calls Persist's enabling conditions allow, TLC does the judging.
"""
import concurrent.futures as cf
import copy
import json
import os
import random
import shutil
import tempfile

import common
import tlc
import persist_model as pm
import persist_replay as pr

KEYS = ["plain", "rbm_am", "rbm_ph", "unitary_dict"]
RESERVED_KEYS = KEYS[1:]
META_IDS = ["m0", "m1", "m2"]
SAVER_KINDS = META_IDS + ["fn", "none"]
TYPE_OF_CLASS = {cls.__name__: t for t, cls in pr.CLASSES.items()}
SIZES = {"quick": 40, "thorough": 600}
# (NM, NF) of a batch = of one TLC run; the exhaustive runs of Persist.tla have NM <= 3, NF = 2
GROUPS = [((3, 3), 0.45), ((4, 3), 0.35), ((2, 2), 0.20)]


class TraceWorld(pr.World):
    """persist_replay.World with NF file paths instead of two."""

    def __init__(self, setup, tmpdir, seed, nf, fit_train=True):
        pr.World.__init__(self, setup, tmpdir, seed, fit_train=fit_train)
        self.paths = [os.path.join(tmpdir, "f%d.pt" % (i + 1)) for i in range(nf)]
        for p in self.paths:
            if os.path.exists(p):
                os.remove(p)


# ---------------------------------------------------------------- canonical tokens
class Canon:
    """hash -> token with the naming rule of Persist!Fresh."""

    def __init__(self, reserved):
        self.reserved = {s: {h: t for t, h in r.items()} for s, r in reserved.items()}
        self.cur = {s: dict(r) for s, r in self.reserved.items()}
        self.seen = {s: set(r) for s, r in self.reserved.items()}

    def step(self, space, hashes):
        """hashes: content hashes of every location of the new state (in a fixed location order).
        Returns ([token per hash], notfresh)."""
        pre = self.cur[space]
        used = set(pre.values())
        new, notfresh = {}, False
        for h in hashes:
            if h in pre or h in new:
                continue
            n = 0
            while n in used:          # Fresh(used); a second unknown hash of one step gets the next unused number
                n += 1
            used.add(n)
            new[h] = n
            if h in self.seen[space]:
                notfresh = True
        toks = [pre[h] if h in pre else new[h] for h in hashes]
        self.cur[space] = dict(self.reserved[space])
        self.cur[space].update(zip(hashes, toks))
        self.seen[space].update(hashes)
        return toks, notfresh


def _shape(s):
    ok = isinstance(s, list) and s and all(isinstance(x, int) and not isinstance(x, bool) for x in s)
    return list(s) if ok else [0]          # [0] is no architecture of the specification


def project(obs, canon):
    """World.observe() -> the specification's state variables (python form of one trace item)."""
    models, files, metas = [], [], {}
    P, U, V = [], [], []                   # (record, field, hash) in location order
    for om in obs["models"]:
        t = TYPE_OF_CLASS.get(om["cls"], "?" + str(om["cls"]))
        r = dict(type=t, shape=_shape(om["shape"]), pver=-1, udict=0)
        P.append((r, "pver", om["p"]))
        if om["u"] is not None:
            U.append((r, "udict", om["u"]))
        elif pr.HAS_U.get(t, False):
            r["udict"] = -1
        models.append(r)
    for of in obs["files"]:
        if of is None:
            files.append(dict(present=False))
            continue
        if "unreadable" in of:
            files.append(dict(present=True, type="?unreadable", shape=[0], pver=-1, udict=-1, mkeys=[], mver=-1))
            continue
        t = of["type"]
        r = dict(present=True, type=t, shape=_shape(of["shape"]), pver=-1, udict=0,
                 mkeys=[str(k) for k in of["mkeys"]], mver=-1)
        P.append((r, "pver", of["p"]))
        if pr.HAS_U[t]:
            if of["u"] is None:
                r["udict"] = -1            # a file of a state with a unitary dictionary that stores none
            else:
                U.append((r, "udict", of["u"]))
        V.append((r, "mver", of["v"]))
        files.append(r)
    for k in META_IDS:
        om = obs["metas"][k]
        r = dict(keys=[str(x) for x in om["keys"]], ver=-1)
        V.append((r, "ver", om["v"]))
        metas[k] = r
    notfresh = False
    for space, locs in (("p", P), ("u", U), ("v", V)):
        toks, nf = canon.step(space, [h for _, _, h in locs])
        notfresh = notfresh or nf
        for (r, field, _), tok in zip(locs, toks):
            r[field] = tok
    return dict(models=models, files=files, metas=metas, notfresh=notfresh)


# ---------------------------------------------------------------- which calls Persist allows
def lbl(op, m=0, f=0, k=""):
    return dict(op=op, m=m, f=f, k=k)


def enabled(st):
    """Labels whose enabling condition in Persist.tla holds in the projected state `st`, per operation."""
    nm, nf = len(st["models"]), len(st["files"])
    ms, fs = range(1, nm + 1), range(1, nf + 1)
    mod, fil = st["models"], st["files"]
    out = {"Randomise": [lbl("Randomise", m) for m in ms],
           "TrainStep": [lbl("TrainStep", m) for m in ms],
           "AddUnitary": [lbl("AddUnitary", m) for m in ms if mod[m - 1]["type"] != "positive"],
           "TouchMeta": [lbl("TouchMeta", k=k) for k in META_IDS if "plain" in st["metas"][k]["keys"]],
           "Save": [lbl("Save", m, f, k) for m in ms for f in fs for k in META_IDS],
           "SaverTick": [lbl("SaverTick", m, f) for m in ms for f in fs],
           "Load": [lbl("Load", m, f) for m in ms for f in fs
                    if fil[f - 1]["present"] and fil[f - 1]["type"] == mod[m - 1]["type"]
                    and fil[f - 1]["shape"] == mod[m - 1]["shape"]],
           "Autoload": [lbl("Autoload", m, f) for m in ms for f in fs
                        if fil[f - 1]["present"] and fil[f - 1]["type"] == mod[m - 1]["type"]]}
    return {op: v for op, v in out.items() if v}


WEIGHTS = {"Randomise": 6, "TrainStep": 16, "AddUnitary": 8, "TouchMeta": 7, "Save": 27, "Load": 16, "Autoload": 9,
           "SaverTick": 11}


def pick(rng, st):
    en = enabled(st)
    ops = sorted(en)
    op = rng.choices(ops, weights=[WEIGHTS[o] for o in ops])[0]
    cand = en[op]
    if op in ("Load", "Autoload") and rng.random() < 0.75:
        # prefer a load that changes something: the file holds other parameters / dictionary / architecture
        eff = [a for a in cand
               if any(st["files"][a["f"] - 1][x] != st["models"][a["m"] - 1][x] for x in ("pver", "udict", "shape"))]
        cand = eff or cand
    if op == "Save":
        k = rng.choices(META_IDS, weights=[2, 5, 3])[0]
        cand = [a for a in cand if a["k"] == k]
    return rng.choice(cand)


def random_setup(rng, nm):
    types, shapes = [], []
    for i in range(nm):
        if i and rng.random() < 0.35:           # a slot of the same type (and often architecture) as an earlier one:
            j = rng.randrange(i)                # loads across models
            t = types[j]
            if rng.random() < 0.6:
                types.append(t)
                shapes.append(list(shapes[j]))
                continue
        else:
            t = rng.choice(["positive", "complex", "density"])
        nv = rng.choice([1, 2, 2, 3, 3, 4])
        s = [nv, rng.choice([x for x in (1, 2, 3, 4) if x != nv])]
        if t == "density":
            s.append(rng.choice([x for x in (1, 2, 3, 4) if x != nv]))
        types.append(t)
        shapes.append(s)
    m2 = set(rng.sample(RESERVED_KEYS, rng.choice([1, 1, 2])))
    if rng.random() < 0.5:
        m2.add("plain")
    return dict(types=types, shapes=shapes, keys=dict(m0=[], m1=["plain"], m2=sorted(m2)), saver=rng.choice(SAVER_KINDS))


# ---------------------------------------------------------------- recording
def record(setup, nf, seed, tmpdir, calls=None, length=None, fit_train=True):
    """One history on a new world.  calls: a scripted list of labels, or None for `length` random legal calls."""
    rng = random.Random(seed)
    world = TraceWorld(setup, tmpdir, seed, nf, fit_train=fit_train)
    canon = Canon(pr.reserved_tokens(world))
    st = project(world.observe(), canon)
    line = dict(nm=len(setup["types"]), nf=nf, seed=seed, fit_train=fit_train, setup=copy.deepcopy(setup), init=st, ev=[])
    n = len(calls) if calls is not None else length
    for i in range(n):
        a = dict(calls[i]) if calls is not None else pick(rng, st)
        try:
            out = world.call(dict(a))
        except common.MachineryError:
            raise
        except Exception as ex:                # not a reported refusal: recorded as it is, the specification has no such outcome
            out = type(ex).__name__
            a["error"] = repr(ex)[:300]
        try:
            st = project(world.observe(), canon)
        except common.MachineryError:
            raise
        except Exception as ex:                # e.g. a file whose "rbm_am" entry is no state dict: no state of the specification
            a["error"] = (a.get("error", "") + " the world could not be projected after this call: %r" % (ex,))[:400]
            out += "+unobservable"
            st = copy.deepcopy(st)
        line["ev"].append(dict(a, out=out, **st))
        if "error" in a:
            break
    return line


def well_shaped(line):
    """TracePersist is total only on well-shaped lines (TLC raises on e.g. string = integer)."""
    def i(x):
        return isinstance(x, int) and not isinstance(x, bool)

    def state(e):
        ok = isinstance(e["notfresh"], bool) and isinstance(e["models"], list) and isinstance(e["files"], list)
        for r in e["models"]:
            ok = ok and set(r) == {"type", "shape", "pver", "udict"} and isinstance(r["type"], str) and \
                all(i(x) for x in r["shape"]) and i(r["pver"]) and i(r["udict"])
        for r in e["files"]:
            if r.get("present") is False:
                ok = ok and set(r) == {"present"}
            else:
                ok = ok and set(r) == {"present", "type", "shape", "pver", "udict", "mkeys", "mver"} and r["present"] is True \
                    and isinstance(r["type"], str) and all(i(x) for x in r["shape"]) and i(r["pver"]) and i(r["udict"]) \
                    and i(r["mver"]) and all(isinstance(k, str) for k in r["mkeys"])
        ok = ok and sorted(e["metas"]) == META_IDS
        for r in e["metas"].values():
            ok = ok and set(r) == {"keys", "ver"} and i(r["ver"]) and all(isinstance(k, str) for k in r["keys"])
        return ok
    ok = state(line["init"])
    for e in line["ev"]:
        ok = ok and isinstance(e["op"], str) and i(e["m"]) and i(e["f"]) and isinstance(e["k"], str) and \
            isinstance(e["out"], str) and state(e)
    return ok


# ---------------------------------------------------------------- validation by TLC
def _validate_group(nm, nf, lines, timeout):
    d = tempfile.mkdtemp(prefix="verif-ptrace-")
    try:
        path = os.path.join(d, "traces.ndjson")
        with open(path, "w") as fh:
            for ln in lines:
                slim = dict(setup=ln["setup"], init=ln["init"],
                            ev=[{k: v for k, v in e.items() if k != "error"} for e in ln["ev"]])
                fh.write(json.dumps(slim) + "\n")
        res = tlc.run("TracePersist", constants={"NM": nm, "NF": nf, "Variant": "contract", "MaxLevel": 99},
                      defs={"Setups": "TraceSetups"}, init="TInit", next="TNext", constraints=["Track"],
                      postcondition="Verdicts", invariants=pm.INVARIANTS, properties=pm.PROPERTIES,
                      workers=1, heap="4g", timeout=timeout, env={"TRACE_FILE": path})
    finally:
        shutil.rmtree(d, ignore_errors=True)
    if res.violation:
        # an invariant / action property of Persist.tla failed on an accepted prefix: TLC stops there and the
        # progress registers are not meaningful - the caller reports the run, not the traces
        return res, None
    verdict, expected = {}, {}
    for e in res.exports:
        if isinstance(e, dict) and "matched" in e:
            verdict[e["tid"]] = e
        elif isinstance(e, dict) and "expected" in e:
            expected[e["tid"]] = e
    out = []
    for i in range(1, len(lines) + 1):
        v = verdict.get(i)
        if v is None:
            raise common.MachineryError("no verdict for trace %d of the (NM=%d, NF=%d) batch\n%s" % (i, nm, nf, res.raw[-3000:]))
        x = expected.get(i)
        out.append(dict(accepted=v["matched"] == v["need"], matched=v["matched"], need=v["need"],
                        expected=_as_logged(x["expected"]) if x and x["at"] == v["matched"] else None))
    return res, out


def _as_logged(x):
    """the specification's successor state (printed by TracePersist!Expected) in the layout of a trace item"""
    files = [dict(present=True, type=f["type"], shape=f["shape"], pver=f["pver"], udict=f["udict"],
                  mkeys=sorted(f["meta"]["keys"]), mver=f["meta"]["ver"]) if f["present"] else dict(present=False)
             for f in x["files"]]
    return dict(out=x["out"], models=x["models"], files=files,
                metas={k: dict(keys=sorted(v["keys"]), ver=v["ver"]) for k, v in x["metas"].items()})


def validate(lines, timeout=1500):
    """lines: recorded traces (any mixture of (nm, nf)).  One TLC run per (nm, nf), side by side.
    Returns ([verdict dict per line: accepted, matched, need, expected - or None when the TLC run of its batch
    ended in a violated invariant / property of the specification], [(tlc result, label)])."""
    for ln in lines:
        if not well_shaped(ln):
            raise common.MachineryError("recorder produced an ill-shaped trace: %s" % json.dumps(ln)[:600])
    groups = {}
    for i, ln in enumerate(lines):
        groups.setdefault((ln["nm"], ln["nf"]), []).append(i)
    verdicts, runs = [None] * len(lines), []
    with cf.ThreadPoolExecutor(max_workers=max(1, len(groups))) as ex:
        futs = {g: ex.submit(_validate_group, g[0], g[1], [lines[i] for i in idx], timeout) for g, idx in groups.items()}
        for g in sorted(groups):
            res, out = futs[g].result()
            for i, v in zip(groups[g], out or [None] * len(groups[g])):
                verdicts[i] = v
            real = [i for i in groups[g] if not lines[i].get("control")]
            runs.append((res, "TracePersist.tla NM=%d NF=%d (%d recorded histories, %d calls; %d corrupted copies as controls)"
                         % (g[0], g[1], len(real), sum(len(lines[i]["ev"]) for i in real), len(groups[g]) - len(real))))
    return verdicts, runs


# ---------------------------------------------------------------- the scripted history and the negative controls
SCRIPT_SETUP = dict(types=["complex", "density", "positive", "complex"], shapes=[[2, 3], [2, 3, 1], [3, 2], [2, 3]],
                    keys=dict(m0=[], m1=["plain"], m2=["plain", "rbm_am"]), saver="m1")
SCRIPT = [lbl("Save", 1, 1, "m1"), lbl("TrainStep", 1), lbl("Save", 1, 2, "m2"), lbl("AddUnitary", 1),
          lbl("Save", 1, 3, "m1"), lbl("Load", 1, 1), lbl("Save", 2, 2, "m0"), lbl("TrainStep", 2), lbl("Autoload", 2, 2),
          lbl("SaverTick", 3, 1), lbl("Randomise", 3), lbl("TouchMeta", k="m1"), lbl("Load", 3, 1), lbl("Load", 4, 3),
          lbl("TrainStep", 4), lbl("Save", 4, 1, "m1"), lbl("SaverTick", 2, 3), lbl("Autoload", 4, 1)]


def _prev(line, n):
    return line["ev"][n - 1] if n else line["init"]


def _find(line, pred):
    for n, e in enumerate(line["ev"]):
        if pred(n, e, _prev(line, n)):
            return n
    raise common.MachineryError("the scripted history has no event for a negative control")


def controls(line):
    """[(what, corrupted copy of `line`, 1-based index of the corrupted event)]: each must be rejected AT that event."""
    out = []

    def add(what, n, edit):
        c = copy.deepcopy(line)
        c["control"] = what
        edit(c["ev"][n], _prev(c, n))
        out.append((what, c, n + 1))

    # 1. the stale-file / save-by-reference fault: a file follows the model it was saved from through later training
    def stale(n, e, p):
        return e["op"] == "TrainStep" and any(f["present"] and f["pver"] == p["models"][e["m"] - 1]["pver"] for f in p["files"])

    def e1(e, p):
        for f in e["files"]:
            if f["present"] and f["pver"] == p["models"][e["m"] - 1]["pver"]:
                f["pver"] = e["models"][e["m"] - 1]["pver"]
    add("trace in which a file changes with the later training of the model it was saved from was accepted",
        _find(line, stale), e1)

    # 2. a refused save that nevertheless writes the file
    def e2(e, p):
        m = p["models"][e["m"] - 1]
        k = p["metas"][e["k"]]
        e["files"][e["f"] - 1] = dict(present=True, type=m["type"], shape=m["shape"], pver=m["pver"], udict=m["udict"],
                                      mkeys=k["keys"], mver=k["ver"])
    add("trace in which a refused save changes a file was accepted",
        _find(line, lambda n, e, p: e["op"] == "Save" and e["out"] == "ValueError" and not p["files"][e["f"] - 1]["present"]), e2)

    # 3. the caller's dict gains the key "unitary_dict" by an accepted save
    def e3(e, p):
        e["metas"][e["k"]]["keys"] = sorted(e["metas"][e["k"]]["keys"] + ["unitary_dict"])
    add("trace in which a save adds 'unitary_dict' to the caller's metadata dict was accepted",
        _find(line, lambda n, e, p: e["op"] == "Save" and e["out"] == "ok" and p["models"][e["m"] - 1]["type"] != "positive"), e3)

    # 4. a load after which the model does not hold the file's parameters
    def eff_load(n, e, p):
        return e["op"] == "Load" and p["models"][e["m"] - 1]["pver"] != p["files"][e["f"] - 1]["pver"]

    def e4(e, p):
        e["models"][e["m"] - 1]["pver"] = p["models"][e["m"] - 1]["pver"]
    add("trace in which a load leaves the model's parameters different from the file's was accepted",
        _find(line, eff_load), e4)

    # 5. a load / autoload that does not restore the unitary dictionary
    def e5(e, p):
        e["models"][e["m"] - 1]["udict"] = p["models"][e["m"] - 1]["udict"]
    add("trace in which a load does not restore the file's unitary dictionary was accepted",
        _find(line, lambda n, e, p: e["op"] in ("Load", "Autoload") and
              p["models"][e["m"] - 1]["udict"] != p["files"][e["f"] - 1]["udict"]), e5)

    # 6. an accepted save reported as refused; 7. new content equal to dead content; 8. a save through the callback
    #    that does not store the just-trained parameters
    add("trace in which an accepted save is reported as ValueError was accepted",
        _find(line, lambda n, e, p: e["op"] == "Save" and e["out"] == "ok"), lambda e, p: e.update(out="ValueError"))
    add("trace in which 'fresh' parameters equal earlier ones was accepted",
        _find(line, lambda n, e, p: e["op"] == "Randomise"), lambda e, p: e.update(notfresh=True))

    def e8(e, p):
        e["files"][e["f"] - 1]["pver"] = p["models"][e["m"] - 1]["pver"]
    add("trace in which ModelSaver stores the parameters of before the epoch was accepted",
        _find(line, lambda n, e, p: e["op"] == "SaverTick" and e["out"] == "ok"), e8)
    return out


# ---------------------------------------------------------------- the phase of check_c11.run
def _effects(line):
    eff = dict(calls=len(line["ev"]), restore=0, reshape=0, udict_restore=0, refused=0, overwrite=0, stale_src=0, cross_model=0)
    origin = {}                                   # file -> model slot whose save wrote it
    for n, e in enumerate(line["ev"]):
        p = _prev(line, n)
        if e["op"] in ("Load", "Autoload"):
            b, a = p["models"][e["m"] - 1], e["models"][e["m"] - 1]
            eff["restore"] += b["pver"] != a["pver"]
            eff["reshape"] += b["shape"] != a["shape"]
            eff["udict_restore"] += b["udict"] != a["udict"]
            eff["cross_model"] += origin.get(e["f"]) not in (None, e["m"])
        if e["op"] in ("Save", "SaverTick"):
            if e["out"] == "ok":
                eff["overwrite"] += bool(p["files"][e["f"] - 1]["present"])
                origin[e["f"]] = e["m"]
            else:
                eff["refused"] += 1
        if e["op"] in ("TrainStep", "Randomise", "SaverTick"):
            pv = p["models"][e["m"] - 1]["pver"]
            eff["stale_src"] += any(f["present"] and f["pver"] == pv for f in p["files"])
    return eff


def _state_type(line, e):
    return line["setup"]["types"][e["m"] - 1] if 0 < e.get("m", 0) <= line["nm"] else "-"


def report(chk, line, v, key="trace"):
    """A real trace that TLC rejected -> one violation."""
    n = v["matched"] - 1                            # index of the first unmatched event; -1: the initial projection
    if n < 0:
        op, typ, ev, before = "Init", "-", line["init"], None
    else:
        ev = line["ev"][n]
        op, typ, before = ev["op"], _state_type(line, ev), _prev(line, n)
    calls = [pr.call_text(dict(e, out="ok")) + ("   # reported: " + e["out"] if e["out"] != "ok" else "")
             for e in line["ev"][:max(n, 0) + 1]]
    chk.violation("%s:rejected:%s:%s" % (key, op, typ),
                  dict(setup=line["setup"], nm=line["nm"], nf=line["nf"], seed=line["seed"], fit_train=line["fit_train"],
                       calls=calls, matched_prefix=v["matched"], of=v["need"],
                       note="items = initial projection + calls; the call below is the first one that is no step of Persist.tla "
                            "with the recorded outcome and effect",
                       event=ev, state_before=before,
                       spec_expected=v["expected"] if v["expected"] is not None else
                       "(the specification does not allow this call in the state before it)",
                       trace=dict(setup=line["setup"], nm=line["nm"], nf=line["nf"],
                                  labels=[lbl(e["op"], e["m"], e["f"], e["k"]) for e in line["ev"][:max(n, 0) + 1]])))


def histories(tier, seed, tmpdir):
    """The scripted history, then SIZES[tier] seeded random ones."""
    rng = random.Random(seed * 7919 + 11)
    lines = [record(SCRIPT_SETUP, 3, seed, tmpdir, calls=SCRIPT)]
    groups, weights = [g for g, _ in GROUPS], [w for _, w in GROUPS]
    for i in range(SIZES[tier]):
        nm, nf = rng.choices(groups, weights=weights)[0]
        setup = random_setup(rng, nm)
        lines.append(record(setup, nf, seed + 1 + i, tmpdir, length=rng.randint(15, 40), fit_train=(i % 3 != 1)))
    return lines


def _judge(chk, lines, verdicts, key="trace"):
    """accepted real traces are counted, rejected ones become violations; returns (accepted, ops, exercised)"""
    total = dict(calls=0, restore=0, reshape=0, udict_restore=0, refused=0, overwrite=0, stale_src=0, cross_model=0)
    ops, accepted = {}, 0
    for ln, v in zip(lines, verdicts):
        if v is None:                               # its TLC run ended in a violated property of the specification
            continue
        if not v["accepted"]:
            report(chk, ln, v, key)
            continue
        accepted += 1
        chk.traces += 1
        eff = _effects(ln)
        for k in total:
            total[k] += eff[k]
        for e in ln["ev"]:
            ops[e["op"]] = ops.get(e["op"], 0) + 1
        if eff["restore"] or eff["reshape"] or eff["udict_restore"] or eff["refused"] or eff["stale_src"]:
            chk.nontriv((key, ln["nm"], ln["nf"], ln["seed"]))
    return accepted, ops, total


def phase(chk, tier, seed, tmpdir):
    """code -> spec phase of C11.  Returns the number of accepted real traces."""
    d = os.path.join(tmpdir, "trace")
    os.makedirs(d, exist_ok=True)
    lines = histories(tier, seed, d)
    try:
        ctl = controls(lines[0])
    except (common.MachineryError, KeyError, IndexError):
        ctl = None                                  # judged below: legitimate only when the scripted history itself is rejected
    verdicts, runs = validate(lines + [c for _, c, _ in ctl or []], timeout=1500 if tier == "thorough" else 600)
    for res, label in runs:
        chk.add_tlc(res, label)
        if res.violation:
            chk.violation("trace:spec-property:" + str(res.violation)[:80],
                          dict(note="an invariant / action property of Persist.tla fails on a prefix of a recorded history that "
                                    "TracePersist accepted step by step", run=label, tlc=res.raw[-4000:]))
    accepted, ops, total = _judge(chk, lines, verdicts[:len(lines)])
    scripted_ok = verdicts[0] is not None and verdicts[0]["accepted"]
    if ctl is None and scripted_ok:
        raise common.MachineryError("the scripted history was accepted but offers no event for some negative control")
    for (what, _, at), v in zip(ctl or [], verdicts[len(lines):]):
        ok = v is not None and (not v["accepted"]) and v["matched"] == at
        if ok or scripted_ok:
            chk.control(ok, what + ("" if v is None else " (matched %d of %d items, corrupted item %d)" % (v["matched"], v["need"], at)))
        else:                                       # the donor history itself is no behaviour of the specification
            chk.extra.setdefault("controls_inconclusive", []).append(what)
    chk.extra["trace_phase"] = dict(histories=len(lines), accepted=accepted, calls=sum(len(ln["ev"]) for ln in lines), ops=ops,
                                    exercised=total, batches=sorted({"NM=%d NF=%d" % (ln["nm"], ln["nf"]) for ln in lines}))
    ln = lines[min(1, len(lines) - 1)]
    chk.sample(dict(trace_setup=ln["setup"], nf=ln["nf"],
                    calls=[e["op"] + "(%s)" % ",".join(str(x) for x in (e["m"], e["f"], e["k"]) if x not in (0, ""))
                           + ("!" if e["out"] != "ok" else "") for e in ln["ev"]]), limit=8)
    return accepted


def replay(chk, det, tmpdir):
    """./check C11 --replay of a `trace:rejected:*` record: make the recorded calls again on a new world built from the
    recorded setup and seed, and validate that history."""
    t = det["trace"]
    d = os.path.join(tmpdir, "trace")
    os.makedirs(d, exist_ok=True)
    line = record(t["setup"], t["nf"], det["seed"], d, calls=t["labels"], fit_train=det.get("fit_train", True))
    verdicts, _ = validate([line], timeout=300)
    _judge(chk, [line], verdicts)
