"""Shim: QuCumber's training_statistics imports scipy.linalg.sqrtm but never calls it;
scipy is not installed in /venv.  Used only when the real scipy is not importable."""
