def sqrtm(*a, **k):
    raise NotImplementedError("scipy shim: sqrtm is never called by QuCumber")
