"""Run SANY / TLC on the modules in /verif/spec and collect what they print.

A run happens in a private scratch directory (created with tempfile, removed
afterwards) that holds a copy of every spec module plus a generated MC module
and .cfg; nothing is left in /tmp.  Specs export data to the harness by
`PrintT(ToJson(x))`, which TLC prints as one quoted JSON string per line.
"""
import json
import os
import re
import shutil
import subprocess
import tempfile
import time

VERIF = os.path.dirname(os.path.dirname(os.path.abspath(__file__)))
SPEC = os.path.join(VERIF, "spec")
JAR = "/opt/veriftools/tla/tla2tools.jar"
DEPS = "/opt/veriftools/tla/CommunityModules-deps.jar"


class TLCError(Exception):
    """Machinery failure (parse error, overflow, timeout, ...) - never a violation."""


class TLCResult:
    def __init__(self):
        self.generated = 0
        self.distinct = 0
        self.depth = 0
        self.exports = []          # decoded JSON values printed by the spec
        self.exported = None       # with export_sample: how many values the spec printed (exports holds a sample)
        self.violation = None      # name of violated invariant / property / "deadlock" / "assert"
        self.raw = ""
        self.wall = 0.0
        self.coverage = {}
        self.returncode = None

    def summary(self):
        return dict(generated=self.generated, distinct=self.distinct, depth=self.depth,
                    violation=self.violation, wall_s=round(self.wall, 2))


def _cfg_value(v):
    if isinstance(v, bool):
        return "TRUE" if v else "FALSE"
    if isinstance(v, int):
        if v < 0:
            raise TLCError("cfg files cannot hold negative numbers; define it in the MC module")
        return str(v)
    if isinstance(v, str):
        return '"%s"' % v
    if isinstance(v, (set, frozenset)):
        return "{" + ", ".join(_cfg_value(x) for x in sorted(v, key=repr)) + "}"
    if isinstance(v, (list, tuple)):
        # cfg has no tuples; callers should use defs for those
        raise TLCError("sequence constants must go through `defs`")
    raise TLCError("unsupported cfg constant %r" % (v,))


def tla_value(v):
    """Python value -> TLA+ expression text (for generated MC modules)."""
    if isinstance(v, bool):
        return "TRUE" if v else "FALSE"
    if isinstance(v, int):
        return str(v) if v >= 0 else "(-%d)" % (-v)
    if isinstance(v, str):
        return '"%s"' % v
    if isinstance(v, (list, tuple)):
        return "<<" + ", ".join(tla_value(x) for x in v) + ">>"
    if isinstance(v, (set, frozenset)):
        return "{" + ", ".join(tla_value(x) for x in sorted(v, key=repr)) + "}"
    if isinstance(v, dict):
        return "[" + ", ".join("%s |-> %s" % (k, tla_value(x)) for k, x in v.items()) + "]"
    raise TLCError("unsupported value %r" % (v,))


def run(module, *, constants=None, defs=None, init="Init", next="Next", spec=None,
        invariants=(), properties=(), constraints=(), action_constraints=(),
        postcondition=None, view=None, deadlock=False, workers=16, timeout=900,
        simulate=None, depth=None, seed=None, env=None, coverage=False,
        extends_extra=(), extra_text="", keep=None, depth_first=False, heap="8g", export_sample=None):
    """Model-check `module` (a file in spec/) with a generated MC wrapper.

    constants: {name: python value} written literally into the cfg.
    defs:      {name: TLA+ text} defined in the MC module and substituted for
               the constant of the same name (CONSTANT name <- MC_name).
    simulate:  None or "num=N" (passed to -simulate) ; depth for -depth.
    """
    constants = constants or {}
    defs = defs or {}
    # the timeouts only bound a TLC that hangs; on a loaded machine (checks run side by side) the lattice-point runs
    # have been seen to take three times their usual time, and a check that gives up is worth nothing
    timeout = int(timeout * float(os.environ.get("VERIF_TLC_TIMEOUT_SCALE", "3")))
    scratch = tempfile.mkdtemp(prefix="verif-tlc-")
    try:
        for f in os.listdir(SPEC):
            if f.endswith(".tla"):
                shutil.copy(os.path.join(SPEC, f), scratch)
        mc = "MC"
        lines = ["---- MODULE %s ----" % mc,
                 "EXTENDS %s" % ", ".join([module] + list(extends_extra))]
        for k, v in defs.items():      # "Name" or "Name(args)" for operator constants
            lines.append("MC_%s == %s" % (k, v))
        if extra_text:
            lines.append(extra_text)
        lines.append("====")
        with open(os.path.join(scratch, mc + ".tla"), "w") as fh:
            fh.write("\n".join(lines) + "\n")
        cfg = []
        if spec:
            cfg.append("SPECIFICATION %s" % spec)
        else:
            cfg.append("INIT %s" % init)
            cfg.append("NEXT %s" % next)
        if constants or defs:
            cfg.append("CONSTANTS")
            for k, v in constants.items():
                cfg.append("  %s = %s" % (k, _cfg_value(v)))
            for k in defs:
                k = k.split("(")[0]
                cfg.append("  %s <- MC_%s" % (k, k))
        for i in invariants:
            cfg.append("INVARIANT %s" % i)
        for p in properties:
            cfg.append("PROPERTY %s" % p)
        for c in constraints:
            cfg.append("CONSTRAINT %s" % c)
        for c in action_constraints:
            cfg.append("ACTION_CONSTRAINT %s" % c)
        if postcondition:
            cfg.append("POSTCONDITION %s" % postcondition)
        if view:
            cfg.append("VIEW %s" % view)
        cfg.append("CHECK_DEADLOCK %s" % ("TRUE" if deadlock else "FALSE"))
        with open(os.path.join(scratch, mc + ".cfg"), "w") as fh:
            fh.write("\n".join(cfg) + "\n")

        cmd = ["java", "-XX:+UseParallelGC", "-Xmx" + heap, "-Xss16m"]      # deep TLC recursion (N >= 20) overflows the default 1 MB thread stack
        jtmp = os.path.join(scratch, "jtmp")          # TLC leaves an empty tlc-* directory per run in java.io.tmpdir
        os.makedirs(jtmp, exist_ok=True)
        cmd.append("-Djava.io.tmpdir=" + jtmp)
        if depth_first:
            cmd.append("-Dtlc2.tool.queue.IStateQueue=StateDeque")
        cmd += ["-cp", JAR + ":" + DEPS, "tlc2.TLC",
                "-workers", str(workers), "-metadir", os.path.join(scratch, "meta"),
                "-noGenerateSpecTE", "-config", mc + ".cfg"]
        if simulate:
            cmd += ["-simulate", simulate]
        if depth:
            cmd += ["-depth", str(depth)]
        if seed is not None:
            cmd += ["-seed", str(seed)]
        # per-action coverage of every run of the thorough tier, except the lattice-point runs: there the actions are
        # "read the next point", the work is in the invariants, and TLC's per-expression counters cost 2-4x
        if coverage or (os.environ.get("VERIF_TLC_COVERAGE") == "1" and not (env and "POINTS_FILE" in env)):
            cmd += ["-coverage", "1"]
        cmd.append(mc + ".tla")
        e = dict(os.environ)
        e.pop("JAVA_TOOL_OPTIONS", None)
        if env:
            e.update({k: str(v) for k, v in env.items()})
        t0 = time.time()
        try:
            p = subprocess.run(cmd, cwd=scratch, env=e, stdout=subprocess.PIPE,
                               stderr=subprocess.STDOUT, timeout=timeout, text=True)
        except subprocess.TimeoutExpired as ex:
            subprocess.run(["pkill", "-f", scratch], check=False)
            raise TLCError("TLC timed out after %ss on %s" % (timeout, module)) from ex
        res = parse(p.stdout, export_sample)
        res.wall = time.time() - t0
        res.returncode = p.returncode
        if keep:
            shutil.copytree(scratch, keep, dirs_exist_ok=True)
        if res.violation is None and p.returncode != 0:
            ls = p.stdout.splitlines()
            cand = [i for i, l in enumerate(ls) if l.startswith("Error:") or "Exception" in l]
            first = cand[0] if cand else max(0, len(ls) - 40)
            tail = "\n".join(ls[first:first + 25] + ["..."] + ls[-15:])
            raise TLCError("TLC failed (rc=%s) on %s:\n%s" % (p.returncode, module, tail))
        return res
    finally:
        shutil.rmtree(scratch, ignore_errors=True)


_GEN = re.compile(r"(\d+) states generated, (\d+) distinct states found")
_DEPTH = re.compile(r"depth of the complete state graph search is (\d+)")
_INV = re.compile(r"Error: Invariant (\S+) is violated")
_COV = re.compile(r"^<(\w+) line \d+, col \d+ to line \d+, col \d+ of module (\w+)>: (\d+):(\d+)")
_PROP = re.compile(r"Error: (?:Action|Temporal) propert(?:y|ies) (\S+)? ?(?:was|were|is) violated")


def _lines(text):
    """the lines of `text` one at a time (str.splitlines would hold a second copy of hundreds of megabytes)"""
    i, n = 0, len(text)
    while i < n:
        j = text.find("\n", i)
        if j < 0:
            j = n
        yield text[i:j].rstrip("\r")
        i = j + 1


def parse(out, export_sample=None):
    """export_sample = (n, seed[, substring]): keep a uniform random sample of n exported values (those whose text
    contains `substring`, if given) instead of all of them - a thorough-tier run of Train.tla exports millions of
    behaviours, which decoded take tens of gigabytes; res.exported counts all of them."""
    res = TLCResult()
    kept = []                      # everything TLC said except the exported JSON values (kept decoded in res.exports)
    rnd = None
    if export_sample:
        import random as _random
        rnd = _random.Random(export_sample[1])
    pool, seen = [], 0
    for line in _lines(out):
        if line.startswith('"') and len(line) > 2 and line[1] in "{[":
            if rnd is None:
                try:
                    res.exports.append(json.loads(json.loads(line)))
                    continue
                except ValueError:
                    pass
            else:
                if len(export_sample) > 2 and export_sample[2] not in line:
                    continue
                seen += 1                           # reservoir sampling over the undecoded lines
                if len(pool) < export_sample[0]:
                    pool.append(line)
                else:
                    j = rnd.randrange(seen)
                    if j < export_sample[0]:
                        pool[j] = line
                continue
        kept.append(line)
        if line.startswith("The coverage statistics at"):
            res.coverage = {}          # TLC reprints the table periodically: the last one is complete
            continue
        if line.startswith("<"):
            m = _COV.match(line)
            if m:
                res.coverage[(m.group(2), m.group(1))] = int(m.group(4))
                continue
        m = _GEN.search(line)
        if m:
            res.generated, res.distinct = int(m.group(1)), int(m.group(2))
        m = _DEPTH.search(line)
        if m:
            res.depth = int(m.group(1))
        m = _INV.search(line)
        if m:
            res.violation = m.group(1)
        elif "Error: Action property" in line or "Error: Temporal properties were violated" in line:
            res.violation = res.violation or line.strip()
        elif "Error: Deadlock reached" in line:
            res.violation = "deadlock"
        elif "The first argument of Assert evaluated to FALSE" in line:
            res.violation = res.violation or "assert"
        elif "Error: Postcondition" in line or "is violated by the initial state" in line:
            res.violation = res.violation or line.strip()
    if rnd is not None:
        for line in pool:
            try:
                res.exports.append(json.loads(json.loads(line)))
            except ValueError:
                kept.append(line)
        res.exported = seen
    res.raw = "\n".join(kept)
    if "Overflow when computing" in res.raw:
        raise TLCError("TLC integer overflow:\n" + "\n".join(kept[-30:]))
    return res


def sany_all():
    """Parse every module in spec/ with SANY (used by setup_cmd)."""
    scratch = tempfile.mkdtemp(prefix="verif-sany-")
    bad = []
    try:
        for f in os.listdir(SPEC):
            if f.endswith(".tla"):
                shutil.copy(os.path.join(SPEC, f), scratch)
        for f in sorted(os.listdir(scratch)):
            p = subprocess.run(["java", "-cp", JAR + ":" + DEPS, "tla2sany.SANY", f],
                               cwd=scratch, stdout=subprocess.PIPE, stderr=subprocess.STDOUT, text=True)
            if p.returncode != 0 or "*** Errors" in p.stdout or "Fatal errors" in p.stdout:
                bad.append((f, p.stdout[-2000:]))
    finally:
        shutil.rmtree(scratch, ignore_errors=True)
    return bad
