"""C08 - Observable estimators are unbiased for the operator they name.

(1) spec/Observables.tla states the theorem over an abstract exact field (psi a vector of small
Gaussian integers / rho a Gram matrix of one or two of them; true integer arithmetic): operators
defined from their names (Pauli matrices written out, tensor-product placement with site 1 most
significant, spin convention s = 2 sigma - 1 for the Z-type ones), the per-sample value as the code
computes it, and INVARIANT Unbiased: SUM_sigma P(sigma) L_O(sigma) = tr(rho_hat O) for every
operator, c = 1..n, both boundary conditions - plus LocalIsRow, ZTypeReal, ImaginaryAveragesOut,
PeriodicEitherWay, Hermiticity of the tables, and seeded faults of the model that the theorem must
expose.  TLC exports per n each operator's row structure and dense matrix.
(2) spec -> code: lattice points run through RBM.tla / PurifRBM.tla (as C01 / C02) give psi / rho
exactly; the exported operator rows applied to the exact importance-sampling ratios are compared
entry by entry with Observable.apply(state, full basis) on PositiveWaveFunction, ComplexWaveFunction
and DensityMatrix; the probability/Z-weighted mean with tr(rho_hat O) from the exported dense
matrix; absolute=True; sample tensor untouched; output real, one number per row.
(3) code -> spec: the importance-sampling queries an observable makes (recorded on the instance)
must be exactly the off-diagonal support of the operator's rows: one numerator query per site on
flip_i(samples) paired with samples, one denominator query on samples.
"""
import copy
import random

import mpmath
import torch

import common
import bigbatch
import lattice
import obs_lib
import tlc

PID = "C08"
qucumber = common.import_qucumber()
from qucumber.observables import SigmaX, SigmaY, SigmaZ, NeighbourInteraction  # noqa: E402

FAULTS = ["y-sign", "pm1-of-flipped", "num-args-swapped", "aliased-flip", "z-sign", "open-off-by-one",
          "div-n-minus-c"]
INVARIANTS = ["TypeOK", "Unbiased", "LocalIsRow", "ZTypeReal", "ImaginaryAveragesOut", "PeriodicEitherWay",
              "OpsHermitian", "OpsPeriodicSymmetric", "OpsPlacement", "OpsPauli", "FaultsExposed",
              "MC_Export"]
EXPORT = ('MC_Export == /\\ (st = "ops" => PrintT(ToJson(OpsRecord(C.n))))')


def theorem(tier, rng, seed):
    quick = tier == "quick"
    defs, sizes = obs_lib.abstract_defs(rng, 2 if quick else 12, 60 if quick else 1500,
                                        [1, 2, 3] if quick else [1, 2, 3, 4, 5], FAULTS)
    res = tlc.run("Observables", constants={"NExh": 2, "Lanes": 16}, defs=defs, invariants=INVARIANTS,
                  extends_extra=["Json"], extra_text=EXPORT, workers=obs_lib.WORKERS, heap=obs_lib.HEAP,
                  timeout=2400, seed=seed)
    return res, sizes


# ---------------------------------------------------------------------------------------------
def make_observable(op, absolute=False):
    # documented arguments by position as often as by keyword
    if op["k"] in ("X", "Y", "Z"):
        return common.api_call({"X": SigmaX, "Y": SigmaY, "Z": SigmaZ}[op["k"]], ["absolute"], dict(absolute=absolute),
                               defaults=dict(absolute=False))
    return common.api_call(NeighbourInteraction, ["periodic_bcs", "c"], dict(periodic_bcs=op["per"], c=op["c"]),
                           defaults=dict(periodic_bcs=False, c=1))


def op_name(op):
    if op["k"] == "ZZ":
        return "ZZ(c=%d,%s)" % (op["c"], "periodic" if op["per"] else "open")
    return op["k"]


def coef_of(c):
    return mpmath.mpc(mpmath.mpf(c["re"][0]) / c["re"][1], mpmath.mpf(c["im"][0]) / c["im"][1])


def expected_local(S, rec, k):
    """Re SUM_{s'} O(s, s') * numerator(s', s) / denominator(s) from the exported row, with its tolerance
    and the size sum |O(s,s')| |ratio| (for the tolerance of the mean)"""
    val, tol, size = mpmath.mpc(0), mpmath.mpf(0), mpmath.mpf(0)
    for ent in rec["rows"][k]:
        c = coef_of(ent["coef"])
        r, t = S.ratio(ent["to"], k)
        val += c * r
        tol += abs(c) * t
        size += abs(c) * abs(r)
    return val.real, tol + mpmath.mpf(1e-14), size


def dense_trace(S, rec):
    """tr(rho_hat O) from the exported dense matrix (n * O as Gaussian integers, den = n)"""
    N = S.N
    t = mpmath.mpc(0)
    for k in range(N):
        for l in range(N):
            g = rec["dense"][k][l]
            if g[0] or g[1]:
                t += mpmath.mpc(g[0], g[1]) * S.rho(l, k)
    return t / rec["den"] / S.Z


def same_tensor(before, after):
    return before.dtype == after.dtype and before.shape == after.shape and torch.equal(before, after)


BIG = [0]


def bind_state(chk, S, tab, hist=None):
    """spec -> code for one state and every observable of its n"""
    n, N = S.n, S.N
    sp = lattice.space(n)
    key0 = "apply:" + S.kind
    prob = S.model.probability(sp) / S.model.normalization(sp)
    for rec in tab["ops"]:
        op = rec["op"]
        name = op_name(op)
        det = dict(S.describe(), observable=name, op=op)
        before = sp.clone()
        try:
            out = make_observable(op).apply(S.model, sp)
        except Exception as ex:                  # the library raised on a documented input
            chk.violation(key0 + ":raised:" + op["k"], dict(det, raised=repr(ex)))
            continue
        chk.evaluations += 1
        if not same_tensor(before, sp):
            chk.violation(key0 + ":sample-tensor-modified:" + op["k"], dict(det, before=before.tolist(), after=sp.tolist()))
            sp = before.clone()
        if not (torch.is_tensor(out) and out.dim() == 1 and out.shape[0] == N and out.is_floating_point()
                and not out.is_complex()):
            chk.violation(key0 + ":output-shape:" + op["k"], dict(det, shape=list(getattr(out, "shape", [])),
                                                                  dtype=str(getattr(out, "dtype", None))))
            continue
        exp = [expected_local(S, rec, k) for k in range(N)]
        bad = False
        for k in range(N):
            chk.evaluations += 1
            got = out[k].item()
            want, tol, _ = exp[k]
            if hist is not None and abs(want) > 1e-6:
                hist.add((S.kind, op["k"]))
            if not (abs(mpmath.mpf(got) - want) <= tol):
                chk.violation("%s:%s:local-value" % (key0, op["k"]),
                              dict(det, basis_state=lattice.rows(n)[k], got=got, expected=mpmath.nstr(want, 17),
                                   tolerance=mpmath.nstr(tol, 3)))
                bad = True
                break
        # weighted mean over the exact distribution vs tr(rho_hat O)
        chk.evaluations += 1
        mean = float((prob * out).sum().item())
        want = dense_trace(S, rec)
        tol = sum(S.w[k] / S.Z * (exp[k][1] + 6 * S.rel * exp[k][2]) for k in range(N)) + mpmath.mpf(1e-13)
        # the theorem at this point, in 50-digit arithmetic: rows and dense matrix agree
        exact_mean = sum(S.w[k] / S.Z * exp[k][0] for k in range(N))
        if abs(exact_mean - want.real) > mpmath.mpf(10) ** -30 or abs(want.imag) > mpmath.mpf(10) ** -30:
            # not a statement about QuCumber: run() turns this key into a machinery failure
            chk.violation("%s:%s:rows-vs-dense" % (key0, op["k"]), dict(det, exact_mean=mpmath.nstr(exact_mean, 20),
                                                                       trace=mpmath.nstr(want, 20)))
            continue
        if not bad and not (abs(mpmath.mpf(mean) - want.real) <= tol):
            chk.violation("%s:%s:mean-vs-trace" % (key0, op["k"]),
                          dict(det, got=mean, expected=mpmath.nstr(want.real, 17), tolerance=mpmath.nstr(tol, 3)))
        # a long sample list (as statistics() feeds it): row by row the value of the row's basis state
        if not bad:
            BIG[0] += 1
            try:
                bigbatch.rowwise(chk, "%s:%s:long-batch" % (key0, op["k"]), det,
                                 lambda b: make_observable(op).apply(S.model, b), sp, out, BIG[0])
            except Exception as ex:
                chk.violation(key0 + ":raised:" + op["k"], dict(det, long_batch=True, raised=repr(ex)))
        # one configuration handed over as a 1-D tensor (where the observable takes that form at all): the value
        # of that basis state
        if not bad:
            for k in {BIG[0] % N, (5 * BIG[0] + 1) % N}:
                try:
                    one = make_observable(op).apply(S.model, sp[k].clone())
                except Exception:      # noqa: BLE001 - this observable has no 1-D form; nothing is claimed about it
                    break
                chk.evaluations += 1
                want, tol, _ = exp[k]
                if not (torch.is_tensor(one) and one.numel() == 1 and abs(mpmath.mpf(float(one.reshape(-1)[0])) - want) <= tol):
                    chk.violation("%s:%s:local-value[1-D]" % (key0, op["k"]),
                                  dict(det, basis_state=lattice.rows(n)[k], got=one.tolist() if torch.is_tensor(one) else repr(one),
                                       expected=mpmath.nstr(want, 17)))
                    break
        # absolute=True is the pointwise absolute value
        if op["k"] in ("X", "Y", "Z"):
            chk.evaluations += 1
            before = sp.clone()
            ab = make_observable(op, absolute=True).apply(S.model, sp)
            if not same_tensor(before, sp):
                chk.violation(key0 + ":sample-tensor-modified:" + op["k"], dict(det, absolute=True))
                sp = before.clone()
            if not (torch.is_tensor(ab) and ab.shape == out.shape and torch.equal(ab, out.abs())):
                chk.violation("%s:%s:absolute" % (key0, op["k"]), dict(det, got=ab.tolist(), expected=out.abs().tolist()))
    chk.nontriv((S.kind, str(S.pt)))


# ---------------------------------------------------------------------------------------------
def validate_queries(samples, num, den, rec, n):
    """code -> spec.  The recorded queries must be the off-diagonal support of the operator's rows:
    for each sample s, every s' with O(s, s') # 0, s' # s, is asked exactly once as numerator(s', s);
    one denominator query on the samples.  Returns None or the reason for rejection."""
    ks = obs_lib.rows_of(samples)
    offdiag = [sorted(ent["to"] for ent in rec["rows"][k] if ent["to"] != k) for k in ks]
    needs = any(offdiag)
    if not needs:
        return None                    # diagonal operator: no ratio is needed, nothing is demanded
    if len(den) != 1:
        return "%d denominator queries (expected 1)" % len(den)
    if tuple(den[0].shape) != tuple(samples.shape) or not torch.equal(den[0], samples):
        return "denominator queried on a batch that is not the sample batch"
    if len(num) != n:
        return "%d numerator queries (expected one per site: %d)" % (len(num), n)
    for vp, v in num:
        if tuple(v.shape) != tuple(samples.shape) or not torch.equal(v, samples):
            return "numerator queried against a reference batch that is not the sample batch"
        if tuple(vp.shape) != tuple(samples.shape):
            return "numerator queried on a batch of another shape"
    asked = [sorted(obs_lib.index_of(vp[r].tolist()) for vp, _ in num) for r in range(len(ks))]
    for r in range(len(ks)):
        if asked[r] != offdiag[r]:
            return "row %d (basis state %d): asked %s, operator row has %s" % (r, ks[r], asked[r], offdiag[r])
    return None


def record_queries(chk, S, tab, rng, nbatch):
    n = S.n
    for b in range(nbatch):
        m = rng.choice([1, 2, 3, 5, 2 ** n, 2 ** n + 3])
        samples, ks = obs_lib.random_batch(rng, n, m)
        for rec in tab["ops"]:
            op = rec["op"]
            if op["k"] == "ZZ" and op["c"] > 1 and b > 0:
                continue
            before = samples.clone()
            det = dict(S.describe(), observable=op_name(op), batch=ks)
            try:
                with obs_lib.Queries(S.model) as q:
                    out = make_observable(op).apply(S.model, samples)
            except Exception as ex:
                chk.violation("queries:%s:raised:%s" % (S.kind, op["k"]), dict(det, raised=repr(ex)))
                continue
            chk.traces += 1
            if not same_tensor(before, samples):
                chk.violation("queries:%s:sample-tensor-modified:%s" % (S.kind, op["k"]), det)
                samples = before.clone()
            why = validate_queries(before, q.num, q.den, rec, n)
            if why:
                chk.violation("queries:%s:%s" % (S.kind, op["k"]), dict(det, rejected=why))
            if tuple(out.shape) != (m,):
                chk.violation("queries:%s:output-shape:%s" % (S.kind, op["k"]), dict(det, shape=list(out.shape)))
            # repeated rows get equal values, each equal to the full-basis value (per-sample function)
            full = make_observable(op).apply(S.model, lattice.space(n))
            chk.evaluations += 1
            # (the same code on two batch compositions: the local value is a sum of up to n amplitude ratios that may
            # cancel, so its rounding noise is a few ulps of the LARGEST ratio of the model, not of the value itself -
            # seen once: 2.678297e-05 in a model whose values reach 1e5, differing in the 7th digit)
            noise = 1e-11 * max(1.0, float(full.abs().max()))
            if not torch.allclose(out, full[ks], rtol=1e-12, atol=noise):
                chk.violation("queries:%s:%s:not-a-per-sample-function" % (S.kind, op["k"]),
                              dict(det, got=out.tolist(), expected=full[ks].tolist()))
    return True


# ---------------------------------------------------------------------------------------------
def controls(chk, tier, seed, states, tabs, rng):
    """corrupted expected values / recorded fields must be rejected"""
    cx = next(s for s in states if s.kind == "complex" and s.n >= 2)
    dm = next(s for s in states if s.kind == "density" and s.n >= 2)
    pos = next(s for s in states if s.kind == "positive" and s.n >= 2)

    def rejected(S, tab, suffix):
        ctl = common.Check(PID, tier, seed)
        bind_state(ctl, S, tab)
        return any(k.endswith(suffix) for k, _ in ctl.violations)

    def mutate(tab, kind, f):
        t = copy.deepcopy(tab)
        for rec in t["ops"]:
            if rec["op"]["k"] == kind:
                f(rec)
        return t

    def neg_coefs(rec):
        for row in rec["rows"]:
            for ent in row:
                ent["coef"]["re"][0] *= -1
                ent["coef"]["im"][0] *= -1
        rec["dense"] = [[[-g[0], -g[1]] for g in r] for r in rec["dense"]]

    def scale_den(rec):                          # per-site normalisation: 1/(n-1) instead of 1/n
        for row in rec["rows"]:
            for ent in row:
                for part in ("re", "im"):
                    if ent["coef"][part][0]:
                        ent["coef"][part] = [ent["coef"][part][0] * rec["den"], ent["coef"][part][1] * (rec["den"] + 1)]
        rec["den"] += 1

    def conj_dense(rec):                         # transposed operator in the trace only
        rec["dense"] = [[[g[0], -g[1]] for g in r] for r in rec["dense"]]

    for S in (cx, dm):
        tab = tabs[S.n]
        chk.control(rejected(S, mutate(tab, "Y", neg_coefs), ":Y:local-value"),
                    "expected Y values with the opposite sign compared equal (%s)" % S.kind)
    chk.control(rejected(pos, mutate(tabs[pos.n], "Z", neg_coefs), ":Z:local-value"),
                "expected Z values in the sigma_z = 1 - 2 sigma convention compared equal")
    chk.control(rejected(pos, mutate(tabs[pos.n], "X", scale_den), ":X:local-value"),
                "expected X values divided by n+1 compared equal")
    chk.control(rejected(dm, mutate(tabs[dm.n], "ZZ", scale_den), ":ZZ:local-value"),
                "expected ZZ values divided by n+1 compared equal")
    if abs(dense_trace(cx, tabs[cx.n]["ops"][1]).real) > 1e-6:
        chk.control(rejected(cx, mutate(tabs[cx.n], "Y", conj_dense), ":Y:rows-vs-dense"),
                    "the transposed dense Y operator agreed with the operator rows")
    # recorded queries
    n = cx.n
    samples, _ = obs_lib.random_batch(rng, n, 4)
    rec = tabs[n]["ops"][0]
    with obs_lib.Queries(cx.model) as q:
        SigmaX().apply(cx.model, samples)
    if validate_queries(samples, q.num, q.den, rec, n) is not None:
        raise common.MachineryError("control baseline rejected")
    num = [(vp.clone(), v.clone()) for vp, v in q.num]
    num[0] = (num[1][0].clone(), num[0][1])      # site 1 asked twice, site 0 never
    chk.control(validate_queries(samples, num, q.den, rec, n) is not None, "a flip query on the wrong site was accepted")
    chk.control(validate_queries(samples, q.num[:-1], q.den, rec, n) is not None, "a missing flip query was accepted")
    num = [(v.clone(), vp.clone()) for vp, v in q.num]
    chk.control(validate_queries(samples, num, q.den, rec, n) is not None, "numerator queries with swapped arguments were accepted")
    chk.control(validate_queries(samples, q.num, q.den + q.den, rec, n) is not None, "two denominator queries were accepted")
    flipped = samples.clone()
    flipped[0, 0] = 1 - flipped[0, 0]
    chk.control(not same_tensor(samples, flipped), "a sample tensor with one flipped bit counted as unchanged")


def run(tier, seed):
    chk = common.Check(PID, tier, seed)
    rng = random.Random(seed)
    quick = tier == "quick"
    torch.manual_seed(seed)
    chk.rule = ("theorem: TLC over every psi in {1,-1,i,-i,1+i,2}^(2^n), n <= 2, every Gram matrix of two such "
                "vectors for n = 1, (all vectors) x (seeded second vectors) for n = 2, seeded pure/mixed cases for "
                "n = 3; all 3 + 2n observables each.  binding: seeded lattice points (every parameter non-zero, "
                "phase network non-zero) nv 1..%d, three state types, every basis state and every observable; "
                "non-trivial = (state type, point); local values that are non-zero are counted per (type, operator)"
                % (3 if quick else 5))
    res, sizes = theorem(tier, rng, seed)
    chk.add_tlc(res, "Observables.tla Unbiased/LocalIsRow/ZTypeReal/ImaginaryAveragesOut/PeriodicEitherWay/Ops*")
    chk.extra["abstract_cases"] = sizes
    if res.violation:
        chk.violation("spec:" + str(res.violation), dict(tlc=res.raw[-4000:]))
        return chk.finish()
    tabs = {e["n"]: e for e in res.exports if "ops" in e}
    frec = {e["fault"]: e["exposed"] for e in res.exports if "fault" in e}
    if sorted(tabs) != ([1, 2, 3] if quick else [1, 2, 3, 4, 5]) or set(frec) != set(FAULTS) | {"code", "per-minus"}:
        raise common.MachineryError("operator tables / fault record not exported")
    for v in FAULTS:
        chk.control(frec[v] > 0, "seeded fault '%s' in the model of the code satisfied Unbiased" % v)
    chk.extra["seeded_faults_exposed_at"] = frec

    pure, purif = obs_lib.lattice_exports(chk, rng, 24 if quick else 260, 14 if quick else 150,
                                          3 if quick else 5, seed)
    states = []
    for e in pure:
        states += obs_lib.pure_states(e)
    for e in purif:
        states.append(obs_lib.density_state(e))
    hist = set()
    skipped = 0
    for i, S in enumerate(states):
        if not S.representable():
            skipped += 1
            continue
        bind_state(chk, S, tabs[S.n], hist)
        if i % 17 == 0:
            chk.sample(dict(S.describe(), n=S.n, Y_row_of_state_0=tabs[S.n]["ops"][1]["rows"][0]))
    if any(k.endswith(":rows-vs-dense") for k, _ in chk.violations):
        raise common.MachineryError("exported operator rows and dense matrix disagree on an exact state")
    chk.extra["states_bound"] = len(states) - skipped
    chk.extra["unrepresentable"] = skipped
    chk.extra["nonzero_local_values_seen"] = sorted("%s/%s" % x for x in hist)
    if not chk.violations:               # anti-vacuity of a held verdict (comparisons stop at the first mismatch)
        for need in [("complex", "X"), ("complex", "Y"), ("density", "X"), ("density", "Y"), ("positive", "X"),
                     ("positive", "Z"), ("density", "ZZ")]:
            if need not in hist:
                raise common.MachineryError("no non-zero local value seen for %s/%s (vacuous binding)" % need)
    # code -> spec
    usable = [S for S in states if S.representable()]
    for S in (usable if not quick else usable[::2]):
        record_queries(chk, S, tabs[S.n], rng, 2 if quick else 4)
    if chk.violations:           # the negative controls presuppose an implementation that conforms
        return chk.finish()
    controls(chk, tier, seed, usable, tabs, rng)
    import random as _random
    import obs_reuse
    import lattice as _lat
    from qucumber.observables import SigmaX as _SX, SigmaY as _SY, SigmaZ as _SZ, NeighbourInteraction as _NI
    _rng = _random.Random(seed)
    _states = []
    for _typ in ("positive", "complex", "density"):
        _st = _lat.PositiveWaveFunction(3, 2, gpu=False) if _typ == "positive" else (
            _lat.ComplexWaveFunction(3, 2, gpu=False) if _typ == "complex" else _lat.DensityMatrix(3, 2, 2, gpu=False))
        with torch.no_grad():
            for _net in _st.networks:
                for _p in getattr(_st, _net).parameters():
                    _p.copy_(torch.randn_like(_p) * 0.6)
            if _typ == "density":
                _st.rbm_ph.aux_bias.zero_()
        _states.append((_typ, _st))
    for _mk in (lambda: _SX(), lambda: _SY(), lambda: _SZ(), lambda: _SY(absolute=True),
                lambda: _NI(periodic_bcs=True, c=2), lambda: _NI(c=1)):
        obs_reuse.reuse_phase(chk, _mk, _states, _rng, "apply", rounds=4)
    chk.assumptions += [
        "X, Y are the Pauli matrices in the (|0>,|1>) order; Z-type observables use the library's documented spin "
        "map s = 2 sigma - 1 (per-site operator diag(-1,+1)), so SigmaZ is minus the Pauli-Z magnetisation",
        "the theorem is checked by TLC on the abstract field only within the stated bounds (n <= 3, amplitudes in "
        "{1,-1,i,-i,1+i,2}); RBM states enter at lattice points t*ln B (B = 2, 3) whose exact psi / rho come from "
        "RBM.tla / PurifRBM.tla (identities modulo three primes)",
        "P(sigma) is the model's reported probability(space)/Z (C01 / C02 tie it to |psi|^2 / diag rho)",
        "tolerance 3*(1e-9 + 2.1e-9 per hidden/auxiliary unit) relative per importance ratio (torch softplus "
        "threshold), 1e-7 relative to sqrt(rho_ii rho_jj) where a purification factor cancels exactly",
        "batches are 2-D (rows = samples); float64 on CPU"]
    return chk.finish()


def replay(path):
    """./check C08 --replay <file>: rebuild the recorded state from its lattice point, apply the recorded
    observable to the full basis and compare with the recorded exact expectation."""
    import json
    with open(path) as fh:
        blob = json.load(fh)
    d = blob["detail"]
    if "point" not in d or "op" not in d:
        print("C08 replay: %s is not a recorded library call; run ./check C08" % blob["key"])
        return 2
    st = {"positive": lattice.positive_state, "complex": lattice.complex_state,
          "density": lattice.density_state}[d["state"]](d["point"])
    sp = lattice.space(d["point"]["nv"])
    before = sp.clone()
    out = make_observable(d["op"], absolute=bool(d.get("absolute"))).apply(st, sp)
    print("observable %s on %s state, full basis -> %s" % (d["observable"], d["state"], out.tolist()))
    if not same_tensor(before, sp):
        print("VIOLATION property=C08 replay=%s\n  the sample tensor was modified: %s" % (path, sp.tolist()))
        return 1
    if "basis_state" in d and "expected" in d:
        k = obs_lib.index_of(d["basis_state"])
        got, want, tol = out[k].item(), mpmath.mpf(d["expected"]), mpmath.mpf(d.get("tolerance", "1e-9"))
        print("basis state %s: got %r, exact %s" % (d["basis_state"], got, d["expected"]))
        if not abs(mpmath.mpf(got) - want) <= tol + mpmath.mpf(10) ** -15 * abs(want):
            print("VIOLATION property=C08 replay=%s" % path)
            return 1
    print("C08 replay: agrees with the recorded expectation")
    return 0
