"""C07 - Every epoch uses every training sample once, paired with its own basis.

TLC: every permutation (N <= 4), every batch-size combination, the three
negative-phase paths, duplicates in the data; invariants EachRowOnce / OwnBasis
on spec/Train.tla.  Every terminal behaviour is replayed into the real fit()
(draws forced to the behaviour's) and the rows / bases handed to
compute_batch_gradients compared; unforced real runs with N up to 23 in three
container types are validated by TraceTrain.tla.
"""
import copy
import random

import torch

import common
import traincheck as tc
import trainrun

PID = "C07"


def cfg_space(tier):
    nmax = 3 if tier == "quick" else 4
    # positive state, no bases: paths A (negB = 0 or = posB) and B (negB # posB); duplicates in the data
    pos = '''{ [type |-> "positive", startEp |-> 1, epochs |-> ee, N |-> n, posB |-> pb, negB |-> ngb,
       data |-> d, bases |-> <<>>, sched |-> FALSE, entryStop |-> FALSE, again |-> "no", perms |-> "all",
       cbs |-> <<[t |-> "rec"]>>, vals |-> <<>>, vars |-> <<>>] :
       n \\in 1..%d, pb \\in 1..%d, ngb \\in 0..2, ee \\in 1..2,
       d \\in {<<1, 2, 3, 0>>, <<2, 2, 1, 2>>} } ''' % (nmax, nmax)
    pos = pos.replace("data |-> d,", "data |-> [i \\in 1..n |-> d[i]],")
    # complex / mixed: bases given, negatives from the all-Z rows only (path C)
    oth = '''{ [type |-> ty, startEp |-> 1, epochs |-> 1, N |-> n, posB |-> pb, negB |-> ngb,
       data |-> [i \\in 1..n |-> d[i]], bases |-> [i \\in 1..n |-> bs[i]], sched |-> FALSE, entryStop |-> FALSE,
       again |-> "no", perms |-> "all", cbs |-> <<[t |-> "rec"]>>, vals |-> <<>>, vars |-> <<>>] :
       ty \\in {"complex", "density"}, n \\in 1..%d, pb \\in 1..3, ngb \\in 0..2,
       d \\in {<<1, 2, 3, 0>>, <<3, 3, 1, 3>>}, bs \\in {<<0, 1, 2, 5>>, <<0, 0, 4, 0>>} }''' % nmax
    return [pos, oth]


def random_cfg(rng, tier):
    typ = rng.choice(["positive", "complex", "density"])
    N = rng.randint(1, 9 if tier == "quick" else 23)
    nv = rng.randint(2, 4)
    data = [rng.randrange(2 ** nv) for _ in range(N)]
    if rng.random() < 0.4:
        data = [rng.choice(data[:2]) for _ in range(N)]         # heavy duplication
    bases = []
    if typ != "positive":
        bases = [rng.choice([0, rng.randrange(3 ** nv)]) for _ in range(N)]
        bases[rng.randrange(N)] = 0
    pb = rng.choice([1, 2, 3, N, N + 2, max(1, N // 2), 4])
    return dict(type=typ, startEp=1, epochs=rng.randint(1, 3), N=N, posB=pb,
                negB=rng.choice([0, pb, 1, 2, 5]), data=data, bases=bases, sched=False,
                entryStop=False, again="no", perms="all", cbs=[{"t": "rec"}], vals=[], vars=[])


def tutorial_runs(rng, tier):
    """The repository's own tutorial workloads (examples/Tutorial1-3): the files are read with the library's
    loaders, a seeded window of consecutive rows is trained on with the tutorials' batch sizes / k, and the
    recorded runs are validated like every other trace."""
    import os
    import torch
    from qucumber.utils import data as qdata
    ex = os.path.join(common.REPO, "examples")
    t1 = os.path.join(ex, "Tutorial1_TrainPosRealWaveFunction")
    t2 = os.path.join(ex, "Tutorial2_TrainComplexWaveFunction")
    t3 = os.path.join(ex, "Tutorial3_TrainDensityMatrix")
    if not all(os.path.isdir(p) for p in (t1, t2, t3)):
        return []
    src = []
    d1 = qdata.load_data(os.path.join(t1, "tfim1d_data.txt"), os.path.join(t1, "tfim1d_psi.txt"))[0]
    src.append(("positive", d1, None, dict(nh=10)))
    d2, _, b2, _ = qdata.load_data(os.path.join(t2, "qubits_train.txt"), os.path.join(t2, "qubits_psi.txt"),
                                   os.path.join(t2, "qubits_train_bases.txt"), os.path.join(t2, "qubits_bases.txt"))
    src.append(("complex", d2, b2, dict(nh=2)))
    d3, _, b3, _ = qdata.load_data_DM(os.path.join(t3, "N2_W_state_100_samples_data.txt"),
                                      os.path.join(t3, "N2_W_state_target_real.txt"),
                                      os.path.join(t3, "N2_W_state_target_imag.txt"),
                                      os.path.join(t3, "N2_W_state_100_samples_bases.txt"),
                                      os.path.join(t3, "N2_IC_bases.txt"))
    src.append(("density", d3, b3, dict(nh=2, na=2)))
    out = []
    for typ, d, b, arch in src:
        rows = d.to(torch.int64).tolist() if torch.is_tensor(d) else [[int(x) for x in r] for r in d]
        nv = len(rows[0])
        for rep in range(2 if tier == "quick" else 8):
            N = rng.randint(6, 16 if tier == "quick" else 23)
            lo = rng.randrange(0, len(rows) - N)
            if b is not None and not any(all(ch == "Z" for ch in b[i]) for i in range(lo, lo + N)):
                lo = next(i for i in range(len(rows) - N) if all(ch == "Z" for ch in b[i]))    # fit() needs an all-Z row
            cfg = dict(type=typ, startEp=1, epochs=rng.randint(1, 2), N=N, posB=rng.choice([5, 100]),
                       negB=rng.choice([0, 5]), data=[trainrun.row_code(r) for r in rows[lo:lo + N]],
                       bases=[] if b is None else [trainrun.basis_code(list(b[i])) for i in range(lo, lo + N)],
                       sched=False, entryStop=False, again="no", perms="all", cbs=[{"t": "rec"}], vals=[], vars=[])
            st = trainrun.make_state(typ, nv, **arch)
            real = trainrun.real_run(cfg, seed=rng.randrange(10 ** 6), k=rng.choice([1, 5]), lr=0.01, nn_state=st,
                                     container=rng.choice(["tensor", "numpy"]))
            out.append((cfg, real, dict(tutorial=typ, first_row=lo)))
    return out


def run(tier, seed):
    chk = common.Check(PID, tier, seed)
    rng = random.Random(seed)
    chk.rule = ("TLC: all N<=%d x pos/neg batch sizes x every permutation per epoch x representative negative "
                "draws x data with/without duplicates x bases present or not; non-trivial = a behaviour with >= 2 "
                "batches or a tail batch; each replayed into the real fit() with the same draws.  Traces: unforced "
                "real runs, N up to 23, tensor/numpy/list containers, validated by TraceTrain.tla" % (3 if tier == "quick" else 4))
    res = tc.mc(cfg_space(tier), maxinj=0, invariants=["TypeOK", "EachRowOnce", "OwnBasis", "Protocol", "StepProtocol"],
                timeout=3000, export_sample=None if tier == "quick" else (60000, seed))
    chk.add_tlc(res, "Train.tla batching, all permutations")
    if res.violation:
        chk.violation("spec:" + str(res.violation), dict(tlc=res.raw[-4000:]))
        return chk.finish()
    behs = res.exports
    # TLC checked every behaviour; a seeded sample is replayed into the real fit()
    cap = 2500 if tier == "quick" else 60000
    chk.extra["terminal_behaviours_checked_by_tlc"] = res.exported if res.exported is not None else len(behs)
    if len(behs) > cap:
        behs = rng.sample(behs, cap)
    conts = ["tensor", "numpy", "list", "tensor_strided", "numpy_fortran"]
    tc.replay_behaviours(chk, behs, seed, nontrivial=lambda b: sum(1 for e in b["hist"] if e["k"] == "CG") >= 2,
                         opts=lambda n, b: dict(container=conts[n % len(conts)], time_flag=False))
    runs = []
    for i in range(120 if tier == "quick" else 1200):
        cfg = random_cfg(rng, tier)
        side = None
        if i % 4 == 1:
            # two live models whose training runs interleave: a callback of this run trains an independent model (its own
            # data, its own size) for an epoch after the first batch of every epoch of this one
            other = trainrun.make_state("positive", 2)
            odata = torch.tensor([[0., 1.], [1., 1.], [1., 0.], [0., 0.], [1., 1.]], dtype=torch.double)

            def side(kind, ep, b, _o=other, _d=odata):
                if kind == "BE" and b == 0:
                    _o.fit(_d, epochs=1, pos_batch_size=2, k=1, lr=0.01)
        real = trainrun.real_run(cfg, seed=rng.randrange(10 ** 6), k=rng.randint(0, 1),
                                 container=rng.choice(conts), interleave=side)
        runs.append((cfg, real, dict(interleaved=side is not None)))
        if i % 3 == 0 and real["error"] is None:
            # training resumed on the SAME model object with ANOTHER dataset (other rows, other all-Z rows,
            # starting_epoch > 1): every epoch of the second call must batch the second call's data
            cfg2 = random_cfg(rng, tier)
            while cfg2["type"] != cfg["type"] or trainrun.nv_for(cfg2) > real["nv"]:
                cfg2 = random_cfg(rng, tier)
            cfg2 = dict(cfg2, startEp=cfg["epochs"] + 1, epochs=cfg["epochs"] + rng.randint(1, 2))
            real["nn_state"].stop_training = False
            real2 = trainrun.real_run(cfg2, seed=rng.randrange(10 ** 6), k=rng.randint(0, 1),
                                      container=rng.choice(conts), nn_state=real["nn_state"])
            runs.append((cfg2, real2, dict(resumed_after=cfg)))

    # two fixed runs that can always serve as donors of the negative controls (tail batch, distinct rows, mixed bases)
    for typ, bases in (("positive", []), ("complex", [0, 1, 0, 5, 7])):
        cfg = dict(type=typ, startEp=1, epochs=2, N=5, posB=2, negB=0, data=[1, 2, 3, 0, 2], bases=bases, sched=False,
                   entryStop=False, again="no", perms="all", cbs=[{"t": "rec"}], vals=[], vars=[])
        runs.append((cfg, trainrun.real_run(cfg, seed=rng.randrange(10 ** 6), k=1), dict(fixed_donor=True)))
    tut = tutorial_runs(rng, tier)
    chk.extra["tutorial_workload_traces"] = len(tut)
    runs += tut

    def swap_rows(lines):
        ln = copy.deepcopy(next(x for x in lines if any(e["k"] == "CG" and len(set(e["pos"])) >= 2 for e in x["ev"])))
        e = next(e for e in ln["ev"] if e["k"] == "CG" and len(set(e["pos"])) >= 2)
        i, j = [e["pos"].index(v) for v in sorted(set(e["pos"]))[:2]]
        e["pos"][i], e["pos"][j] = e["pos"][j], e["pos"][i]
        return ("trace with two rows of a batch swapped (bases left in place) accepted", ln)

    def foreign_basis(lines):
        cands = [x for x in lines if x["cfg"]["bases"] and len(set(x["cfg"]["bases"])) >= 2]
        ln = copy.deepcopy(cands[0])
        for e in ln["ev"]:
            if e["k"] == "CG" and len(set(e["bas"])) >= 1:
                other = [c for c in ln["cfg"]["bases"] if c != e["bas"][0]]
                e["bas"][0] = other[0]
                break
        return ("trace where a sample got another row's basis accepted", ln)

    def dropped_tail(lines):
        first = lambda x: [i for i, e in enumerate(x["ev"]) if e["k"] == "CG" and e["ep"] == x["cfg"]["startEp"]]  # noqa: E731
        ln = copy.deepcopy(next(x for x in lines if x["cfg"]["N"] % x["cfg"]["posB"] and x["cfg"]["N"] > x["cfg"]["posB"]
                                and len(first(x)) >= 2))
        cgs = first(ln)
        last = cgs[-1]
        # remove the whole last batch of epoch 1: BS .. BE
        lo = max(i for i in range(last) if ln["ev"][i]["k"] == "BS")
        hi = min(i for i in range(last, len(ln["ev"])) if ln["ev"][i]["k"] == "BE")
        del ln["ev"][lo:hi + 1]
        return ("trace with the tail batch dropped accepted", ln)

    tc.trace_phase(chk, runs, [swap_rows, foreign_basis, dropped_tail])
    chk.assumptions += ["bases, when given, contain at least one all-Z row (otherwise torch.randint(0) raises)",
                        "row identity through row contents: duplicates are compared as multisets slice-by-slice",
                        "in the default/equal-size path the negative batch is the positive batch (tail included)"]
    return chk.finish()
