"""C17 - Periodic callbacks fire on schedule and their records match what happened.

spec/Train.tla carries MetricEvaluator / ObservableEvaluator, ModelSaver and Logger
with periods; TLC explores periods 1..3, epoch ranges, a stop injected at every
event, save_initial on/off and a second fit() on the same callback objects with
or without clear_history, checking OnSchedule.  Every terminal behaviour is
replayed into the real fit() with the real callbacks; afterwards every public
accessor, the CSV log and every saved file are compared with the specification's
records.
"""
import copy
import csv
import os
import random

import numpy as np
import torch

import common
import traincheck as tc
import trainrun

PID = "C17"

REC = '[t |-> "rec"]'


def cfg_space(tier, again):
    pmax = 2 if tier == "quick" else 3
    lists = [
        '<<%s, [t |-> "eval", period |-> p1, kind |-> "metric", log |-> TRUE], [t |-> "saver", period |-> p2, initial |-> ini, meta |-> "callable"], [t |-> "logger", period |-> p1], %s>>' % (REC, REC),
        '<<%s, [t |-> "eval", period |-> p2, kind |-> "obs", log |-> TRUE], [t |-> "eval", period |-> p1, kind |-> "metric", verbose |-> TRUE], [t |-> "saver", period |-> p1, initial |-> ini, meta |-> "none"]>>' % REC,
    ]
    shards = []
    for cb in lists:
        shards.append('''{ [type |-> "positive", startEp |-> s, epochs |-> e, N |-> 2, posB |-> pb, negB |-> 0,
           data |-> <<1, 2>>, bases |-> <<>>, sched |-> FALSE, entryStop |-> FALSE, again |-> ag, perms |-> "id",
           cbs |-> %s, vals |-> [i \\in 1..6 |-> 10 * i + 3], vars |-> [i \\in 1..6 |-> i]] :
           s \\in 0..2, e \\in 1..%d, pb \\in {2}, p1 \\in 1..%d, p2 \\in 1..%d, ini \\in BOOLEAN,
           ag \\in %s }''' % (cb, 3 if tier == "quick" else 4, pmax, pmax, again))
    if again != '{"no"}':
        return shards
    # complex / mixed states with dict metadata and metadata_only
    shards.append('''{ [type |-> ty, startEp |-> 1, epochs |-> e, N |-> 2, posB |-> 2, negB |-> 0,
       data |-> <<1, 2>>, bases |-> <<0, 1>>, sched |-> FALSE, entryStop |-> FALSE, again |-> "no", perms |-> "id",
       cbs |-> <<%s, [t |-> "saver", period |-> p1, initial |-> ini, meta |-> md, metaonly |-> mo]>>,
       vals |-> <<>>, vars |-> <<>>] :
       ty \\in {"complex", "density"}, e \\in 1..3, p1 \\in 1..2, ini \\in BOOLEAN,
       md \\in {"dict", "callable", "none"}, mo \\in BOOLEAN }''' % REC)
    return shards


def check_accessors(chk, cfg, real, exp_cbs, key):
    """Everything the evaluators expose vs the specification's records.  An accessor that raises on a record the
    evaluator holds is a finding about the accessor, not a failure of this harness."""
    try:
        _check_accessors(chk, cfg, real, exp_cbs, key)
    except common.MachineryError:
        raise
    except Exception as ex:       # noqa: BLE001
        import traceback
        tb = traceback.extract_tb(ex.__traceback__)
        in_lib = [f for f in tb if os.sep + "qucumber" + os.sep in f.filename]
        if not in_lib:
            raise
        chk.violation("%s:accessor:raised:%s" % (key, type(ex).__name__),
                      dict(cfg=cfg, raised=repr(ex), where="%s:%d %s" % (os.path.basename(in_lib[-1].filename), in_lib[-1].lineno, in_lib[-1].name),
                           harness_line=next((f.lineno for f in reversed(tb) if f.filename.endswith("check_c17.py")), None)))


def _check_accessors(chk, cfg, real, exp_cbs, key):
    for i, d in enumerate(cfg["cbs"]):
        o = real["objs"][i]
        exp = exp_cbs[i]
        if d["t"] != "eval":
            continue
        eps = [r[0] for r in exp]
        vals = [float(r[1]) for r in exp]
        vars_ = [float(r[2]) for r in exp]
        probs = []
        if len(o) != len(exp):
            probs.append(("len", len(exp), len(o)))
        if list(o.epochs) != eps:
            probs.append(("epochs", eps, list(o.epochs)))
        metric = d.get("kind", "metric") == "metric"
        name = "m" if metric else "SigmaZ"
        two = metric and trainrun.has_second(cfg, i + 1)
        n2 = trainrun.second_name(cfg, i + 1)
        if sorted(o.names) != sorted([name] + ([n2] if two else [])):
            probs.append(("names", [name] + ([n2] if two else []), list(o.names)))
        if two:
            # every value is filed under the name of the metric that produced it (a name the evaluator uses for an
            # attribute of its own is reachable by subscript and get_value only)
            want2 = [trainrun.second_value(e) for e in eps]
            for how, arr in ((("getattr", getattr(o, n2)),) if n2 == "a" else ()) + (("getitem", o[n2]),):
                if not hasattr(arr, "__iter__") or isinstance(arr, dict) or [float(x) for x in arr] != want2:
                    probs.append((how, want2, repr(arr)[:200]))
            if exp and float(o.get_value(n2)) != want2[-1]:
                probs.append(("get_value()", want2[-1], float(o.get_value(n2))))
        if metric:
            for how, arr in (("getattr", getattr(o, name)), ("getitem", o[name])):
                if [float(x) for x in arr] != vals:
                    probs.append((how, vals, [float(x) for x in arr]))
            for idx in range(-len(exp), len(exp)):
                if float(o.get_value(name, idx)) != vals[idx]:
                    probs.append(("get_value[%d]" % idx, vals[idx], float(o.get_value(name, idx))))
            if exp and float(o.get_value(name)) != vals[-1]:
                probs.append(("get_value()", vals[-1], float(o.get_value(name))))
            explast = {name: vals[-1]} if exp else {}
            if two and exp:
                explast[n2] = trainrun.second_value(eps[-1])
            if {k: float(v) for k, v in o.last.items()} != explast:
                probs.append(("last", explast, dict(o.last)))
        else:
            st = getattr(o, name)
            for attr, want in (("mean", vals), ("means", vals), ("variance", vars_), ("variances", vars_)):
                got = [float(x) for x in getattr(st, attr)] if exp else list(getattr(st, attr)) if False else None
                if exp:
                    if got != want:
                        probs.append(("stats." + attr, want, got))
            if exp and [float(x) for x in o[name]["mean"]] != vals:
                probs.append(("getitem.mean", vals, [float(x) for x in o[name]["mean"]]))
            for idx in range(-len(exp), len(exp)):
                g = o.get_value(name, idx)
                if float(g["mean"]) != vals[idx] or float(g["variance"]) != vars_[idx]:
                    probs.append(("get_value[%d]" % idx, (vals[idx], vars_[idx]), (g["mean"], g["variance"])))
            if exp and float(o.get_value(name)["mean"]) != vals[-1]:
                probs.append(("get_value()", vals[-1], o.get_value(name)["mean"]))
            if exp:
                if set(o.last) != {name} or float(o.last[name]["mean"]) != vals[-1]:
                    probs.append(("last", vals[-1], o.last))
            elif o.last != {}:
                probs.append(("last", {}, o.last))
        for p in probs:
            chk.violation("%s:accessor:%s" % (key, p[0].split("[")[0]), dict(cfg=cfg, callback=i + 1, expected=p[1], got=p[2]))


def check_csv(chk, cfg, real, all_recs, key):
    """CSV = header + one row per evaluation ever made (clear_history does not touch the file)."""
    for i, d in enumerate(cfg["cbs"]):
        if d["t"] != "eval" or not d.get("log"):
            continue
        path = os.path.join(real["tmpdir"], "eval%d.csv" % (i + 1))
        with open(path) as fh:
            rows = list(csv.reader(fh))
        metric = d.get("kind", "metric") == "metric"
        header = ["epoch", "m"] if metric else ["epoch", "SigmaZ_mean", "SigmaZ_variance", "SigmaZ_std_error"]
        two = metric and trainrun.has_second(cfg, i + 1)
        exp = all_recs[i]
        if two:
            # columns are identified by their header; each value sits under the name of its metric
            n2 = trainrun.second_name(cfg, i + 1)
            ok = rows and rows[0][0] == "epoch" and sorted(rows[0][1:]) == sorted([n2, "m"]) and len(rows) == 1 + len(exp)
            if ok:
                cm, ca = rows[0].index("m"), rows[0].index(n2)
                for r, e in zip(rows[1:], exp):
                    if int(r[0]) != e[0] or float(r[cm]) != float(e[1]) or float(r[ca]) != trainrun.second_value(e[0]):
                        ok = False
            header = ["epoch", "m", n2]
        else:
            ok = rows and rows[0] == header and len(rows) == 1 + len(exp)
        if ok and not two:
            for r, e in zip(rows[1:], exp):
                if int(r[0]) != e[0] or float(r[1]) != float(e[1]) or (not metric and float(r[2]) != float(e[2])):
                    ok = False
        if not ok:
            chk.violation(key + ":csv", dict(cfg=cfg, callback=i + 1, expected=[header] + exp, got=rows))


def check_files(chk, cfg, real, key):
    """Each file written by the saver: named by the epoch, loads back to the parameters the model
    had at the end of that epoch, with the requested metadata."""
    from qucumber.nn_states import PositiveWaveFunction, ComplexWaveFunction, DensityMatrix
    cls = {"positive": PositiveWaveFunction, "complex": ComplexWaveFunction, "density": DensityMatrix}[cfg["type"]]
    # hash of the parameters at each epoch end / at train start, from the recording callback
    at = {}
    for idx, h in real["hashes"]:
        e = real["hist"][idx]
        if e["k"] == "EE":
            at[e["ep"]] = h
        elif e["k"] == "TS":
            at[-1] = h
    last = {}
    for s in real["saves"]:
        last[(s["cb"], s["name"])] = s          # a later save under the same name overwrites
    for (cbi, name), s in last.items():
        d = cfg["cbs"][cbi - 1]
        fname = real["fnames"].get(cbi, "m{}.pt").format("initial" if name == -1 else name)
        if os.path.basename(s["path"]) != fname or not os.path.exists(s["path"]):
            chk.violation(key + ":file-name", dict(cfg=cfg, expected=fname, got=s["path"]))
            continue
        content = torch.load(s["path"])
        md = d.get("meta", "none")
        ep_for_meta = 0 if name == -1 else name
        want = {"dict": {"note": "n%d" % cbi, "k": 7},
                "callable": {"epoch_meta": ep_for_meta, "tag": "t%d" % cbi}, "none": {}}[md]
        nets = ["rbm_am"] if cfg["type"] == "positive" else ["rbm_am", "rbm_ph"]
        reserved = set(nets) | ({"unitary_dict"} if cfg["type"] != "positive" else set())
        if d.get("metaonly"):
            if content != want:
                chk.violation(key + ":metadata-only-file", dict(cfg=cfg, expected=want, got=repr(content)[:300]))
            continue
        got_meta = {k: v for k, v in content.items() if k not in reserved}
        if got_meta != want:
            chk.violation(key + ":file-metadata", dict(cfg=cfg, name=name, expected=want, got=repr(got_meta)[:300]))
        if not set(nets) <= set(content):
            chk.violation(key + ":file-networks", dict(cfg=cfg, got=sorted(content)))
            continue
        m = cls.autoload(s["path"], gpu=False)
        h = trainrun.param_hash(m)
        if h != at.get(name):
            chk.violation(key + ":file-parameters", dict(cfg=cfg, name=name, why="loaded parameters differ from those at that epoch's end"))
        chk.extra["files_loaded"] = chk.extra.get("files_loaded", 0) + 1


def run(tier, seed):
    chk = common.Check(PID, tier, seed)
    rng = random.Random(seed)
    chk.rule = ("TLC: periods 1..3 for two evaluators / saver / logger x epoch ranges x a stop injected at every event x "
                "save_initial x second run with/without clear_history x metadata kinds; non-trivial = behaviours where "
                ">= 1 periodic action fires; replayed into the real fit() with real MetricEvaluator, ObservableEvaluator, "
                "ModelSaver, Logger; accessors, CSV and saved files compared afterwards")
    inv = ["TypeOK", "OnSchedule", "Protocol", "StopHonoured", "Complete"]
    # single runs cut short by a stop injected at every event; second runs without injection
    # (thorough tier: TLC still checks every behaviour; a uniform sample of them is decoded for the replay - decoded, the
    # millions of exported behaviours took 18 GB and the check was killed on a machine that was busy otherwise)
    smp = (lambda n, *f: None) if tier == "quick" else (lambda n, *f: (n, seed) + f)
    res = tc.mc(cfg_space(tier, '{"no"}'), maxinj=1, invariants=inv, timeout=3400, export_sample=smp(20000))
    chk.add_tlc(res, "Train.tla periodic callbacks, one run, stop injected at every event")
    two = '{"keep", "clear"}' if tier == "quick" else '{"keep", "clear", "keepStop"}'
    res2 = tc.mc(cfg_space(tier, two), maxinj=0 if tier == "quick" else 1, invariants=inv, timeout=3400, export_sample=smp(20000))
    chk.add_tlc(res2, "Train.tla periodic callbacks, second fit() on the same callback objects")
    # a first run ended by an exception raised in a user callback at any event (no stop injected), then a second
    # fit() on the same objects with nothing reset in between
    res3 = tc.mc(cfg_space(tier, '{"abort"}'), maxinj=0, invariants=inv, timeout=3400, export_sample=smp(12000, "RZ"))
    chk.add_tlc(res3, "Train.tla periodic callbacks, fit() after a run aborted by a raising user callback")
    for r in (res, res2, res3):
        if r.violation:
            chk.violation("spec:" + str(r.violation), dict(tlc=r.raw[-4000:]))
            return chk.finish()
    behs = res.exports + res2.exports
    nrep = 600 if tier == "quick" else 20000
    if len(behs) > nrep:
        behs = rng.sample(behs, nrep)
    ab = [b for b in res3.exports if b["carry"] and b["carry"]["hist"] and b["carry"]["hist"][-1]["k"] == "RZ"]
    nab = 250 if tier == "quick" else 6000
    behs += rng.sample(ab, nab) if len(ab) > nab else ab
    chk.extra["aborted_first_runs_replayed"] = min(len(ab), nab)
    del ab
    for r in (res, res2, res3):        # hundreds of thousands of exported behaviours: only the sample is kept
        r.exports = []
    for n, beh in enumerate(behs):
        cfg = beh["cfg"]
        carry = beh["carry"]
        key = "replay"
        if carry:
            cfg1 = dict(cfg, again=carry["again"], entryStop=False)
            real1 = trainrun.real_run(cfg1, plan=trainrun.plan_from_hist(carry["hist"]),
                                      force=trainrun.draws_from_hist(carry["hist"]), seed=seed + n, k=1)
            ok = tc.compare_run(chk, dict(cfg=cfg1, hist=carry["hist"],
                                          fin=dict(stop=carry["stop"], pver=carry["pver"], sched=0, cbs=carry["cbs"])),
                                real1, "replay:first-run")
            if not ok:
                continue
            check_accessors(chk, cfg1, real1, carry["cbs"], "replay:first-run")
            if carry["again"] == "clear":
                for o in real1["objs"]:
                    if hasattr(o, "clear_history"):
                        o.clear_history()
                # clear_history empties records and `last`
                check_accessors(chk, cfg1, real1, [[] for _ in cfg["cbs"]], "replay:after-clear")
            if carry["again"] not in ("keepStop", "abort"):
                real1["nn_state"].stop_training = False
            real = trainrun.real_run(cfg, plan=trainrun.plan_from_hist(beh["hist"]),
                                     force=trainrun.draws_from_hist(beh["hist"]), seed=seed + n, k=1, prev=real1)
            key = "replay:second-run:" + carry["again"]
            allrecs = [list(a) + list(b[len(a) if carry["again"] != "clear" or d["t"] != "eval" else 0:])
                       for a, b, d in zip(carry["cbs"], beh["fin"]["cbs"], cfg["cbs"])]
        else:
            real = trainrun.real_run(cfg, plan=trainrun.plan_from_hist(beh["hist"]),
                                     force=trainrun.draws_from_hist(beh["hist"]), seed=seed + n, k=1)
            allrecs = beh["fin"]["cbs"]
        fin = dict(beh["fin"])
        if carry:
            fin["pver"] = beh["fin"]["pver"]
        ok = tc.compare_run(chk, dict(beh, fin=fin), real, key)
        chk.evaluations += 1
        if ok:
            check_accessors(chk, cfg, real, beh["fin"]["cbs"], key)
            check_csv(chk, cfg, real, allrecs, key)
            check_files(chk, cfg, real, key)
        if any(e["k"] in ("EV", "SV", "LG") for e in beh["hist"]):
            chk.nontriv(("beh", n))
        if n % 300 == 5:
            chk.sample(dict(cfg=cfg, records=beh["fin"]["cbs"], second_run=bool(carry)))
    # comparator control: an evaluator record at a non-multiple epoch must be flagged
    ctl = common.Check(PID, tier, seed)
    beh = next(b for b in behs if not b["carry"] and any(d["t"] == "eval" and len(c) >= 1
                                                           for d, c in zip(b["cfg"]["cbs"], b["fin"]["cbs"])))
    bad = copy.deepcopy(beh)
    i = next(i for i, d in enumerate(bad["cfg"]["cbs"]) if d["t"] == "eval" and bad["fin"]["cbs"][i])
    bad["fin"]["cbs"][i][0][0] += 1
    real = trainrun.real_run(beh["cfg"], plan=trainrun.plan_from_hist(beh["hist"]),
                             force=trainrun.draws_from_hist(beh["hist"]), seed=seed, k=1)
    tc.compare_run(ctl, bad, real, "control")
    chk.control(len(ctl.violations) > 0, "evaluator record with a shifted epoch compared equal")
    # -- code -> spec: randomised runs with random periods / ranges / stops
    runs = []
    for i in range(100 if tier == "quick" else 1000):
        s = rng.randint(0, 3)
        cbs = [{"t": "rec"}]
        for _ in range(rng.randint(1, 3)):
            t = rng.choice(["eval", "saver", "logger"])
            if t == "eval":
                cbs.append({"t": "eval", "period": rng.randint(1, 4), "kind": rng.choice(["metric", "obs"])})
            elif t == "saver":
                cbs.append({"t": "saver", "period": rng.randint(1, 4), "initial": rng.random() < 0.5,
                            "meta": rng.choice(["none", "callable"])})
            else:
                cbs.append({"t": "logger", "period": rng.randint(1, 4)})
        cbs.append({"t": "rec"})
        L = s + rng.randint(0, 6)
        cfg = dict(type="positive", startEp=s, epochs=L, N=3, posB=rng.randint(1, 3), negB=0, data=[1, 2, 3],
                   bases=[], sched=rng.random() < 0.5, entryStop=False, again="no", perms="all", cbs=cbs,
                   vals=[10 * j + 3 for j in range(L + 2)], vars=[j for j in range(L + 2)])
        plan = set()
        if rng.random() < 0.5:
            k = rng.choice(["BS", "BE", "EE", "ES"])
            plan.add((k, rng.randint(s, L + 1), rng.randint(0, 2) if k in ("BS", "BE") else -1, rng.choice([1, len(cbs)])))
        real = trainrun.real_run(cfg, plan=plan, seed=rng.randrange(10 ** 6), k=1)
        runs.append((cfg, real, dict(plan=sorted(plan))))

    def extra_eval(lines):
        ln = copy.deepcopy(next(x for x in lines if any(e["k"] == "EV" for e in x["ev"])))
        j = next(i for i, e in enumerate(ln["ev"]) if e["k"] == "EV")
        ln["ev"].insert(j, dict(ln["ev"][j]))          # evaluated twice at one epoch
        return ("trace with a duplicated evaluation accepted", ln)

    def off_schedule(lines):
        ln = copy.deepcopy(next(x for x in lines if any(e["k"] == "SV" and e["name"] >= 0 for e in x["ev"])))
        for e in ln["ev"]:
            if e["k"] == "SV" and e["name"] >= 0:
                e["name"] += 1
                break
        return ("trace whose saver file is named for another epoch accepted", ln)

    tc.trace_phase(chk, runs, [extra_eval, off_schedule])
    chk.assumptions += ["metric values are scripted (10*epoch+3); ObservableEvaluator.system.statistics is replaced on the "
                        "instance by a scripted function (the sampling path is C13's)",
                        "saved files are read with the installed torch's default torch.load"]
    return chk.finish()
