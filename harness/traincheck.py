"""Shared machinery of the checks that rest on spec/Train.tla (C06, C07, C12, C17, C18):
model-check a configuration space, replay every terminal behaviour into the real
fit(), validate recorded real runs against TraceTrain.tla."""
import json
import os
import tempfile

import tlc
import trainrun
import common

EXPORT = ('MC_Export == pc = "Done" /\\ cfg.again = "no" => PrintT(ToJson([cfg |-> cfg, hist |-> hist, '
          'carry |-> carry, fin |-> [stop |-> stop, pver |-> pver, sched |-> sched, cbs |-> cbs]]))')

BASE_INV = ["TypeOK", "Protocol", "ParamsOnlyInBatch", "ListOrder", "StopHonoured", "Complete",
            "StepProtocol", "SchedOncePerEpoch", "EachRowOnce", "OwnBasis", "OnSchedule", "FirstHit"]


def mc(cfgs, maxinj=1, invariants=BASE_INV, export=True, liveness=False, timeout=900,
       workers=16, simulate=None, depth=None, seed=None, export_sample=None):
    """cfgs: TLA+ text of a set of configurations, or a list of such texts (one shard each)."""
    inv = list(invariants) + (["MC_Export"] if export else [])
    shards = [cfgs] if isinstance(cfgs, str) else list(cfgs)
    body = " [] ".join("shardNo = %d -> %s" % (i + 1, t) for i, t in enumerate(shards))
    return tlc.run("Train", constants={"MaxInj": maxinj},
                   defs={"Shards": "1..%d" % len(shards), "CfgsOf(shardNo)": "CASE " + body},
                   spec="Spec" if liveness else None,
                   properties=["Terminates"] if liveness else (),
                   invariants=inv, extends_extra=["Json"], extra_text=EXPORT if export else "",
                   workers=workers, timeout=timeout, simulate=simulate, depth=depth, seed=seed, export_sample=export_sample)


def rec(**kw):
    """TLA+ record text from python keyword values (strings that start with '@' are raw TLA+)."""
    parts = []
    for k, v in kw.items():
        if isinstance(v, str) and v.startswith("@"):
            parts.append("%s |-> %s" % (k, v[1:]))
        else:
            parts.append("%s |-> %s" % (k, tlc.tla_value(v)))
    return "[" + ", ".join(parts) + "]"


def compare_run(check, beh, real, key_prefix):
    """A spec behaviour against the projection of the real run that was driven along it."""
    spec_hist = beh["hist"]
    fin = beh["fin"]
    cfg = beh["cfg"]
    if real["error"] is not None:
        check.violation(key_prefix + ":exception:" + type(real["error"]).__name__,
                        dict(cfg=cfg, error=repr(real["error"]), spec_hist=spec_hist))
        return False
    d = trainrun.first_diff(spec_hist, real["hist"])
    if d is not None:
        i, exp, got = d
        kind = (exp or got or {}).get("k")
        check.violation("%s:event-mismatch:%s" % (key_prefix, kind),
                        dict(cfg=cfg, at=i, expected=exp, got=got, spec_hist=spec_hist,
                             real_hist=real["hist"]))
        return False
    ok = True
    # the total-time notice is the Timer's, and the Timer is there only when the caller asked for it (time=True)
    if not real.get("time_flag", True) and "Total time elapsed" in real.get("stdout", ""):
        check.violation(key_prefix + ":timer-not-requested", dict(cfg=cfg, stdout=real["stdout"][-300:]))
        ok = False
    for f in ("stop", "pver", "sched"):
        if fin[f] != real[f]:
            check.violation("%s:final-%s" % (key_prefix, f), dict(cfg=cfg, expected=fin[f], got=real[f]))
            ok = False
    # per-callback records (evaluator epochs and values, logger epochs, saver names, stopper epoch)
    for i, d in enumerate(cfg["cbs"]):
        exp = fin.get("cbs", [None] * len(cfg["cbs"]))[i] if "cbs" in fin else None
        if exp is None:
            continue
        got = real["cbs"][i]
        if d["t"] == "eval":
            e2 = [[r[0], r[1]] for r in exp]
            g2 = [[r[0], r[1]] for r in got]
        elif d["t"] == "saver":
            e2, g2 = [r[0] for r in exp], [r[0] for r in got]
        elif d["t"] in ("logger", "early"):
            e2, g2 = list(exp), list(got)
        else:
            continue
        if e2 != g2:
            check.violation("%s:callback-record:%s" % (key_prefix, d["t"]),
                            dict(cfg=cfg, callback=i + 1, expected=e2, got=g2))
            ok = False
    # parameters may change only between a batch start and its batch end
    hs = real["hashes"]
    for (i0, h0), (i1, h1) in zip(hs, hs[1:]):
        e0, e1 = real["hist"][i0], real["hist"][i1]
        inside = e0["k"] == "BS" and e1["k"] == "BE"
        same_dispatch = (e0["k"], e0["ep"], e0["b"]) == (e1["k"], e1["ep"], e1["b"])
        if h0 != h1 and not inside:
            check.violation("%s:params-changed-outside-batch:%s->%s" % (key_prefix, e0["k"], e1["k"]),
                            dict(cfg=cfg, between=[e0, e1]))
            ok = False
        if same_dispatch and h0 != h1:
            ok = False
    if hs and real["hash0"] != hs[0][1]:
        check.violation(key_prefix + ":params-changed-before-train-start", dict(cfg=cfg))
        ok = False
    if hs and real["hash_end"] != hs[-1][1]:
        check.violation(key_prefix + ":params-changed-after-train-end", dict(cfg=cfg))
        ok = False
    if cfg["entryStop"]:
        if real["hash_end"] != real["hash0"] or real["rng0"] != real["rng_end"] or real["hist"]:
            check.violation(key_prefix + ":entry-stop-not-inert",
                            dict(cfg=cfg, params_same=real["hash_end"] == real["hash0"],
                                 rng_same=real["rng0"] == real["rng_end"], hist=real["hist"]))
            ok = False
    if not real["data_same"] or not real["bases_same"]:
        check.violation(key_prefix + ":caller-data-modified", dict(cfg=cfg))
        ok = False
    return ok


_INT = lambda x: isinstance(x, int) and not isinstance(x, bool)  # noqa: E731
_SEQI = lambda x: isinstance(x, list) and all(_INT(v) for v in x)  # noqa: E731
_SCHEMA = {
    "SH": dict(ep=_INT, perm=_SEQI, neg=_SEQI),
    "CG": dict(ep=_INT, b=_INT, pos=_SEQI, bas=_SEQI, neg=_SEQI),
    "ZG": dict(ep=_INT, b=_INT), "AS": dict(ep=_INT, b=_INT, net=_INT),
    "OS": dict(ep=_INT, b=_INT, pv=_INT), "SC": dict(ep=_INT, n=_INT),
    "EV": dict(cb=_INT, ep=_INT), "LG": dict(cb=_INT, ep=_INT), "SV": dict(cb=_INT, name=_INT, pv=_INT),
    "RZ": dict(kk=lambda x: x in ("TS", "ES", "BS", "BE", "EE", "TE"), ep=_INT, b=_INT, cb=_INT),
}
for _k in ("TS", "ES", "BS", "BE", "EE", "TE"):
    _SCHEMA[_k] = dict(ep=_INT, b=_INT, cb=_INT, stop=lambda x: isinstance(x, bool), pv=_INT,
                       inj=lambda x: isinstance(x, bool))


def malformed(ev):
    """Index of the first event that is not even shaped like a specification event (the
    trace spec is total only on well-shaped events), or None."""
    for i, e in enumerate(ev):
        sch = _SCHEMA.get(e.get("k"))
        if sch is None or set(e) != set(sch) | {"k"} or not all(f(e[n]) for n, f in sch.items()):
            return i
    return None


def rebased(real, pv0):
    """A later fit() on a model that has already taken pv0 optimizer steps, seen as a run of its own (the trace
    specification starts every run at parameter version 0)."""
    r = dict(real)
    r["hist"] = [dict(e, pv=e["pv"] - pv0) if "pv" in e else e for e in real["hist"]]
    r["pver"] = real["pver"] - pv0
    return r


def to_trace(cfg, real):
    """Real run -> one TraceTrain line."""
    fin = dict(stop=real["stop"], pver=real["pver"], sched=real["sched"],
               cbs=[[[x if x is not None else 0 for x in r] if isinstance(r, list) else r for r in c]
                    for c in real["cbs"]])
    # evaluator values are scripted integers; make them ints for TLC
    for c in fin["cbs"]:
        for r in c:
            if isinstance(r, list):
                for j, x in enumerate(r):
                    if isinstance(x, float) and float(x).is_integer():
                        r[j] = int(x)
    return dict(cfg={k: v for k, v in cfg.items() if k != "scale"}, ev=real["hist"], fin=fin)


def validate_traces(lines, timeout=900):
    """lines: list of trace dicts.  Returns (tlc result, [accepted bool per line], [matched])."""
    d = tempfile.mkdtemp(prefix="verif-trace-")
    try:
        path = os.path.join(d, "traces.ndjson")
        with open(path, "w") as fh:
            for ln in lines:
                fh.write(json.dumps(ln) + "\n")
        res = tlc.run("TraceTrain", constants={"MaxInj": 3}, defs={"Shards": "{}", "CfgsOf(shardNo)": "NoCfgs(shardNo)"},
                      init="TInit", next="TNext", constraints=["Track"], postcondition="Verdicts",
                      invariants=BASE_INV, workers=1, timeout=timeout, env={"TRACE_FILE": path})
    finally:
        import shutil
        shutil.rmtree(d, ignore_errors=True)
    verdict = {}
    for e in res.exports:
        if isinstance(e, dict) and "tid" in e:
            verdict[e["tid"]] = e
    acc, matched = [], []
    for i in range(1, len(lines) + 1):
        v = verdict.get(i)
        if v is None:
            raise common.MachineryError("no verdict for trace %d\n%s" % (i, res.raw[-3000:]))
        acc.append(v["matched"] == v["need"])
        matched.append(v["matched"])
    return res, acc, matched


def replay_behaviours(chk, behs, seed, key="replay", nontrivial=None, sample_every=400, post=None,
                      opts=None):
    """spec -> code: drive the real fit() along each exported behaviour."""
    for n, beh in enumerate(behs):
        o = dict(time_flag=(n % 5 == 0), k=n % 3)
        if opts:
            o.update(opts(n, beh))
        real = trainrun.real_run(beh["cfg"], plan=trainrun.plan_from_hist(beh["hist"]),
                                 force=trainrun.draws_from_hist(beh["hist"]), seed=seed + n, **o)
        ok = compare_run(chk, beh, real, key)
        if ok and post:
            post(chk, beh, real, n)
        chk.evaluations += 1
        if nontrivial is None or nontrivial(beh):
            chk.nontriv((key, n))
        if n % sample_every == 7:
            chk.sample(dict(cfg=beh["cfg"], events=[[e["k"], e.get("ep"), e.get("b")] for e in beh["hist"]][:40]))


def trace_phase(chk, runs, controls, timeout=1800, key="trace"):
    """code -> spec.  runs: list of (cfg, real, meta).  controls: list of (name, corrupted line)
    that TraceTrain must reject."""
    lines, metas = [], []
    for cfg, real, meta in runs:
        if real["error"] is not None:
            chk.violation(key + ":exception:" + type(real["error"]).__name__,
                          dict(cfg=cfg, meta=meta, error=repr(real["error"])))
            continue
        compare_run(chk, dict(cfg=cfg, hist=real["hist"],
                              fin=dict(stop=real["stop"], pver=real["pver"], sched=real["sched"])), real, key)
        bad = malformed(real["hist"])
        if bad is not None:
            chk.violation("%s:rejected:%s" % (key, real["hist"][bad].get("k")),
                          dict(cfg=cfg, meta=meta, why="event has no counterpart in the specification",
                               event=real["hist"][bad]))
            continue
        lines.append(to_trace(cfg, real))
        metas.append(meta)
    ctl = []
    for c in controls:
        try:
            ctl.append(c(lines))
        except (StopIteration, IndexError):
            if not chk.violations:          # no donor trace although nothing was rejected: generator too weak
                raise common.MachineryError("no donor trace for negative control " + c.__name__)
    tres, acc, matched = validate_traces(lines + [c[1] for c in ctl], timeout=timeout)
    chk.add_tlc(tres, "TraceTrain.tla (%d traces)" % len(lines))
    if tres.violation:
        chk.violation(key + ":invariant:" + str(tres.violation), dict(tlc=tres.raw[-4000:]))
    for j, (name, _) in enumerate(ctl):
        chk.control(not acc[len(lines) + j], name)
    for i, ok in enumerate(acc[:len(lines)]):
        if ok:
            chk.traces += 1
            if len(lines[i]["ev"]) > 8:
                chk.nontriv((key, i))
        else:
            ev = lines[i]["ev"]
            nxt = ev[matched[i]] if matched[i] < len(ev) else "(final projection)"
            chk.violation("%s:rejected:%s" % (key, nxt.get("k") if isinstance(nxt, dict) else "final"),
                          dict(cfg=lines[i]["cfg"], meta=metas[i], matched_prefix=matched[i],
                               next_event=nxt, last_matched=ev[matched[i] - 1] if matched[i] else None,
                               fin=lines[i]["fin"]))
    if lines:
        chk.sample(dict(trace_cfg=lines[0]["cfg"], n_events=len(lines[0]["ev"]), first_events=lines[0]["ev"][:6]))
    return lines
