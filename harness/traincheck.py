"""Shared machinery of the checks that rest on spec/Train.tla (C06, C07, C12, C17, C18):
model-check a configuration space, replay every terminal behaviour into the real
fit(), validate recorded real runs against TraceTrain.tla."""
import json
import os
import tempfile

import tlc
import trainrun
import common

EXPORT = ('MC_Export == pc = "Done" => PrintT(ToJson([cfg |-> cfg, hist |-> hist, '
          'fin |-> [stop |-> stop, pver |-> pver, sched |-> sched, cbs |-> cbs]]))')

BASE_INV = ["TypeOK", "Protocol", "ParamsOnlyInBatch", "ListOrder", "StopHonoured", "Complete",
            "StepProtocol", "SchedOncePerEpoch", "EachRowOnce", "OwnBasis", "OnSchedule", "FirstHit"]


def mc(cfgs_text, maxinj=1, invariants=BASE_INV, export=True, liveness=False, timeout=900,
       workers=16, simulate=None, depth=None, seed=None):
    inv = list(invariants) + (["MC_Export"] if export else [])
    return tlc.run("Train", constants={"MaxInj": maxinj}, defs={"Cfgs": cfgs_text},
                   spec="Spec" if liveness else None,
                   properties=["Terminates"] if liveness else (),
                   invariants=inv, extends_extra=["Json"], extra_text=EXPORT if export else "",
                   workers=workers, timeout=timeout, simulate=simulate, depth=depth, seed=seed)


def rec(**kw):
    """TLA+ record text from python keyword values (strings that start with '@' are raw TLA+)."""
    parts = []
    for k, v in kw.items():
        if isinstance(v, str) and v.startswith("@"):
            parts.append("%s |-> %s" % (k, v[1:]))
        else:
            parts.append("%s |-> %s" % (k, tlc.tla_value(v)))
    return "[" + ", ".join(parts) + "]"


def compare_run(check, beh, real, key_prefix):
    """A spec behaviour against the projection of the real run that was driven along it."""
    spec_hist = beh["hist"]
    fin = beh["fin"]
    cfg = beh["cfg"]
    if real["error"] is not None:
        check.violation(key_prefix + ":exception:" + type(real["error"]).__name__,
                        dict(cfg=cfg, error=repr(real["error"]), spec_hist=spec_hist))
        return False
    d = trainrun.first_diff(spec_hist, real["hist"])
    if d is not None:
        i, exp, got = d
        kind = (exp or got or {}).get("k")
        check.violation("%s:event-mismatch:%s" % (key_prefix, kind),
                        dict(cfg=cfg, at=i, expected=exp, got=got, spec_hist=spec_hist,
                             real_hist=real["hist"]))
        return False
    ok = True
    for f in ("stop", "pver", "sched"):
        if fin[f] != real[f]:
            check.violation("%s:final-%s" % (key_prefix, f), dict(cfg=cfg, expected=fin[f], got=real[f]))
            ok = False
    # parameters may change only between a batch start and its batch end
    hs = real["hashes"]
    for (i0, h0), (i1, h1) in zip(hs, hs[1:]):
        e0, e1 = real["hist"][i0], real["hist"][i1]
        inside = e0["k"] == "BS" and e1["k"] == "BE"
        same_dispatch = (e0["k"], e0["ep"], e0["b"]) == (e1["k"], e1["ep"], e1["b"])
        if h0 != h1 and not inside:
            check.violation("%s:params-changed-outside-batch:%s->%s" % (key_prefix, e0["k"], e1["k"]),
                            dict(cfg=cfg, between=[e0, e1]))
            ok = False
        if same_dispatch and h0 != h1:
            ok = False
    if hs and real["hash0"] != hs[0][1]:
        check.violation(key_prefix + ":params-changed-before-train-start", dict(cfg=cfg))
        ok = False
    if hs and real["hash_end"] != hs[-1][1]:
        check.violation(key_prefix + ":params-changed-after-train-end", dict(cfg=cfg))
        ok = False
    if cfg["entryStop"]:
        if real["hash_end"] != real["hash0"] or real["rng0"] != real["rng_end"] or real["hist"]:
            check.violation(key_prefix + ":entry-stop-not-inert",
                            dict(cfg=cfg, params_same=real["hash_end"] == real["hash0"],
                                 rng_same=real["rng0"] == real["rng_end"], hist=real["hist"]))
            ok = False
    if not real["data_same"] or not real["bases_same"]:
        check.violation(key_prefix + ":caller-data-modified", dict(cfg=cfg))
        ok = False
    return ok


def to_trace(cfg, real):
    """Real run -> one TraceTrain line."""
    fin = dict(stop=real["stop"], pver=real["pver"], sched=real["sched"],
               cbs=[[[x if x is not None else 0 for x in r] if isinstance(r, list) else r for r in c]
                    for c in real["cbs"]])
    # evaluator values are scripted integers; make them ints for TLC
    for c in fin["cbs"]:
        for r in c:
            if isinstance(r, list):
                for j, x in enumerate(r):
                    if isinstance(x, float) and float(x).is_integer():
                        r[j] = int(x)
    return dict(cfg=cfg, ev=real["hist"], fin=fin)


def validate_traces(lines, timeout=900):
    """lines: list of trace dicts.  Returns (tlc result, [accepted bool per line], [matched])."""
    d = tempfile.mkdtemp(prefix="verif-trace-")
    try:
        path = os.path.join(d, "traces.ndjson")
        with open(path, "w") as fh:
            for ln in lines:
                fh.write(json.dumps(ln) + "\n")
        res = tlc.run("TraceTrain", constants={"MaxInj": 3}, defs={"Cfgs": "TraceCfgs"},
                      init="TInit", next="TNext", constraints=["Track"], postcondition="Verdicts",
                      invariants=BASE_INV, workers=1, timeout=timeout, env={"TRACE_FILE": path})
    finally:
        import shutil
        shutil.rmtree(d, ignore_errors=True)
    verdict = {}
    for e in res.exports:
        if isinstance(e, dict) and "tid" in e:
            verdict[e["tid"]] = e
    acc, matched = [], []
    for i in range(1, len(lines) + 1):
        v = verdict.get(i)
        if v is None:
            raise common.MachineryError("no verdict for trace %d\n%s" % (i, res.raw[-3000:]))
        acc.append(v["matched"] == v["need"])
        matched.append(v["matched"])
    return res, acc, matched
