"""C11 - Saving and reloading reproduces the state exactly and has no side effects.

spec/Persist.tla describes histories of public calls (randomise / train / add a unitary / edit the
caller's metadata / save / load / autoload / one epoch of fit() with the ModelSaver callback) over
several model slots, two files and three caller-owned metadata objects, with contents abstracted to
identity tokens.  TLC checks SaveIsPure, RefusedSaveNoEffect, SaveStoresState, LoadRestores,
SnapshotIsolation and SaveTwiceSameMeta on every transition of every behaviour up to a depth bound
(single-worker breadth-first runs, one per setup, side by side), and must REJECT three deliberately
wrong designs.  Behaviours exported by TLC (all of length 2 / a sample of length 3 / seeded random
walks of length 12-14) are executed on real states, real dicts and real files and the projection is
compared with the specification's state after every call (harness/persist_replay.py).  The
ModelSaver callback is additionally driven through real multi-epoch fits (harness/persist_saver.py).
In the other direction (harness/persist_trace.py) seeded random histories of 15-40 legal public calls
are made on real worlds of up to 4 models and 3 files, the full projection is recorded after every
call and TLC decides with spec/TracePersist.tla whether each recorded history is a behaviour of
Persist.tla (every call a Step with the recorded outcome and the recorded successor state).
"""
import concurrent.futures as cf
import copy
import json
import random
import shutil
import tempfile

import common
import persist_model as pm
import persist_replay as pr
import persist_saver as ps
import persist_trace as pt
import tlc

PID = "C11"

TIERS = {
    "quick": dict(
        exhaustive=[("pcd", 5), ("cd", 6), ("pd", 7), ("pc", 6)],
        len2=["cd"], len3=["cd", "pc"], len3_cap=200, len4=[], len4_cap=0,
        sim_names=[["pcd", "ccp", "ddc", "ppd", "pcd2", "cdd"]], sim_len=12, sim_gen=700, sim_keep=170,
        variant_level=4, saver_epochs=(2,)),
    "thorough": dict(
        exhaustive=[("pcd", 7), ("ccp", 6), ("ddc", 6), ("ppd", 7), ("pcd2", 6), ("cdd", 6),
                    ("pc", 9), ("cc", 7), ("dd", 7), ("cd", 8), ("pd", 10)],
        len2=["pcd", "ddc", "pc", "cc", "dd", "cd", "pd"],
        len3=["pcd", "ccp", "ddc", "ppd", "pcd2", "cdd", "pc", "cc", "dd", "cd", "pd"], len3_cap=250,
        len4=["cd", "pd"], len4_cap=600,
        sim_names=[["pcd", "ccp", "ddc", "ppd", "pcd2", "cdd"], ["pc", "cc", "dd", "cd", "pd"]],
        sim_len=14, sim_gen=4000, sim_keep=500,
        variant_level=5, saver_epochs=(2, 3)),
}


# ------------------------------------------------------------------ behaviour selection
def effects(beh):
    """What a behaviour exercises, read off the specification's states (no QuCumber semantics)."""
    setup = beh["setup"]
    prev = dict(models=[dict(type=t, shape=s, pver=i, udict=0) for i, (t, s) in enumerate(zip(setup["types"], setup["shapes"]))],
                files=[dict(present=False)] * 2)
    eff = dict(restore=0, reshape=0, udict_restore=0, resave=0, refused=0, overwrite=0, saver=0, stale_src=0)
    saved_with = set()
    for h in beh["hist"]:
        a = h["a"]
        if a["op"] in ("Load", "Autoload"):
            before, after = prev["models"][a["m"] - 1], h["models"][a["m"] - 1]
            eff["restore"] += before["pver"] != after["pver"]
            eff["reshape"] += before["shape"] != after["shape"]
            eff["udict_restore"] += before["udict"] != after["udict"]
        if a["op"] in ("Save", "SaverTick"):
            k = a["k"] if a["op"] == "Save" else "saver:" + setup["saver"]
            if a["out"] == "ok":
                eff["resave"] += (a["m"], k) in saved_with
                saved_with.add((a["m"], k))
                eff["overwrite"] += bool(prev["files"][a["f"] - 1]["present"])
                eff["saver"] += a["op"] == "SaverTick"
            else:
                eff["refused"] += 1
        if a["op"] in ("TrainStep", "Randomise", "SaverTick"):
            # the model moves away from a file that still holds its earlier parameters
            pv = prev["models"][a["m"] - 1]["pver"]
            eff["stale_src"] += any(f["present"] and f["pver"] == pv for f in prev["files"])
        prev = h
    return eff


def score(eff):
    return 3 * eff["restore"] + 3 * eff["reshape"] + 6 * eff["udict_restore"] + 2 * eff["resave"] + eff["refused"] \
        + eff["saver"] + 2 * eff["stale_src"] + eff["overwrite"]


def label(a):
    return "%s(%s)" % (a["op"], ",".join(str(x) for x in (a["m"], a["f"], a["k"]) if x not in (0, "")))


# ------------------------------------------------------------------ negative controls on the comparator
def soft_control(chk):
    """Negative controls run the implementation too.  When the implementation already violates the property
    (violations recorded), a control that does not come out as planned is inconclusive, not a machinery failure."""
    def control(ok, what):
        if ok or not chk.violations:
            chk.control(ok, what)
        else:
            chk.extra.setdefault("controls_inconclusive", []).append(what)
    return control


def comparator_controls(chk, behs, tmpdir, seed):
    """Corrupt expected values of accepted behaviours / break the implementation on the instance:
    the replay must flag each."""
    control = soft_control(chk)
    def rejected(beh, what, fault=None, want_known=None):
        ctl = common.Check(PID, chk.tier, seed)
        ctl.findings = {"known": []}
        pr.run_behaviour(ctl, beh, tmpdir, seed, fit_train=True, fault=fault, key="control")
        ok = len(ctl.violations) > 0
        if ok and want_known is not None:
            ok = any(k == pr.KNOWN for k, _ in ctl.violations) == want_known
        control(ok, what)

    def find(pred):
        for b in behs:
            for n, h in enumerate(b["hist"]):
                if pred(b, n, h):
                    return b, n
        raise common.MachineryError("no exported behaviour suitable for a comparator control")

    def prior(b, n):
        return b["hist"][n - 1] if n else None

    # 1. an accepted save expected to be refused
    b, n = find(lambda b, n, h: h["a"]["op"] == "Save" and h["a"]["out"] == "ok")
    c = copy.deepcopy(b)
    c["hist"][n]["a"]["out"] = "ValueError"
    rejected(c, "accepted save compared equal to an expected ValueError")
    # 2. an effective load expected to leave the model as it was
    b, n = find(lambda b, n, h: h["a"]["op"] == "Load" and n > 0 and
                prior(b, n)["models"][h["a"]["m"] - 1]["pver"] != h["models"][h["a"]["m"] - 1]["pver"])
    c = copy.deepcopy(b)
    c["hist"][n]["models"][c["hist"][n]["a"]["m"] - 1]["pver"] = prior(b, n)["models"][b["hist"][n]["a"]["m"] - 1]["pver"]
    rejected(c, "effective load compared equal to 'parameters unchanged'")
    # 3. a file expected to follow its model through later training (stale-by-reference expectation)
    b, n = find(lambda b, n, h: h["a"]["op"] == "TrainStep" and n > 0 and any(
        f["present"] and f["pver"] == prior(b, n)["models"][h["a"]["m"] - 1]["pver"] for f in h["files"]))
    c = copy.deepcopy(b)
    m = c["hist"][n]["a"]["m"] - 1
    for f in c["hist"][n]["files"]:
        if f["present"] and f["pver"] == prior(b, n)["models"][m]["pver"]:
            f["pver"] = c["hist"][n]["models"][m]["pver"]
    rejected(c, "file expected to change with later training compared equal")
    # 4. metadata keys of a written file
    b, n = find(lambda b, n, h: h["a"]["op"] == "Save" and h["a"]["out"] == "ok" and h["a"]["k"] == "m1")
    c = copy.deepcopy(b)
    c["hist"][n]["files"][c["hist"][n]["a"]["f"] - 1]["meta"]["keys"] = []
    rejected(c, "file with metadata compared equal to a file without")
    # 5. an instance whose save() writes into the caller's dict (the repaired defect) - must be reported
    #    under the key reserved for that class
    b, n = find(lambda b, n, h: h["a"]["op"] == "Save" and h["a"]["out"] == "ok" and h["a"]["k"] == "m1" and
                b["setup"]["types"][h["a"]["m"] - 1] != "positive")
    rejected(b, "save() writing into the caller's metadata dict went unnoticed", fault="alias-meta", want_known=True)
    # 6. an instance whose load() leaves the phase network alone
    b, n = find(lambda b, n, h: h["a"]["op"] == "Load" and n > 0 and b["setup"]["types"][h["a"]["m"] - 1] != "positive" and
                prior(b, n)["models"][h["a"]["m"] - 1]["pver"] != h["models"][h["a"]["m"] - 1]["pver"])
    rejected(b, "load() skipping rbm_ph went unnoticed", fault="drop-phase", want_known=False)


# ------------------------------------------------------------------ the check
def shared_dictionary(chk, tmpdir):
    """Several live models built from ONE dictionary object (and the caller keeps it): loading a file with another
    dictionary into one of them replaces that model's dictionary only - the siblings, the caller's dictionary and
    whatever the siblings save afterwards are as before."""
    import os
    import torch
    from qucumber.nn_states import ComplexWaveFunction, DensityMatrix
    from qucumber.utils import unitaries

    def snap(d):
        return {k: v.detach().clone() for k, v in d.items()}

    def same(d, e):
        return sorted(d) == sorted(e) and all(torch.equal(d[k], e[k]) for k in d)
    h = torch.tensor([[[1.0, 1.0], [1.0, -1.0]], [[0.0, 0.0], [0.0, 0.0]]], dtype=torch.double) / 2 ** 0.5
    sg = torch.tensor([[[1.0, 0.0], [0.0, 0.0]], [[0.0, 0.0], [0.0, 1.0]]], dtype=torch.double)
    for typ, cls, args in (("complex", ComplexWaveFunction, (2, 2)), ("density", DensityMatrix, (2, 2, 2))):
        D = unitaries.create_dict(H=h)
        a = cls(*args, unitary_dict=D, gpu=False)
        b = cls(*args, unitary_dict=D, gpu=False)
        other = cls(*args, unitary_dict=unitaries.create_dict(S=sg), gpu=False)
        D0, a0 = snap(D), snap(a.unitary_dict)
        f1, f2, f3 = (os.path.join(tmpdir, "shared-%s-%d.pt" % (typ, i)) for i in (1, 2, 3))
        a.save(f1)
        other.save(f2)
        b.load(f2)
        a.save(f3)
        chk.evaluations += 4
        det = dict(state_type=typ, scenario="a, b built from one dictionary D (keys X Y Z H); b.load(file with keys X Y Z S)")
        if not same(b.unitary_dict, other.unitary_dict):
            chk.violation("shared-dictionary:%s:loaded-model" % typ, dict(det, keys=sorted(b.unitary_dict)))
        if not same(a.unitary_dict, a0):
            chk.violation("shared-dictionary:%s:sibling-changed" % typ, dict(det, sibling_keys=sorted(a.unitary_dict), before=sorted(a0)))
        if not same(D, D0):
            chk.violation("shared-dictionary:%s:callers-dictionary-changed" % typ, dict(det, keys=sorted(D), before=sorted(D0)))
        d1, d3 = torch.load(f1), torch.load(f3)
        if not same(d1["unitary_dict"], d3["unitary_dict"]):
            chk.violation("shared-dictionary:%s:two-saves-differ" % typ, dict(det, first=sorted(d1["unitary_dict"]), second=sorted(d3["unitary_dict"])))
        c = cls.autoload(f3)
        if not same(c.unitary_dict, a0):
            chk.violation("shared-dictionary:%s:autoload" % typ, dict(det, keys=sorted(c.unitary_dict)))
        chk.nontriv(("shared-dictionary", typ))


def run(tier, seed):
    chk = common.Check(PID, tier, seed)
    cfg = TIERS[tier]
    rng = random.Random(seed)
    chk.rule = ("TLC: every behaviour of at most (level-1) calls over {Randomise, TrainStep, AddUnitary, TouchMeta, Save, Load, "
                "Autoload, SaverTick} x model slots x 2 files x 3 metadata objects per setup (types, shapes with nh != nv and "
                "na != nv, which reserved key the third dict holds, what the saver is given), six action properties on every "
                "transition.  Replays: non-trivial = behaviour in which a load/autoload really changes parameters, architecture or "
                "unitary dictionary, or a model is saved again with the same metadata object, or a model trains away from a "
                "file holding its earlier parameters, or a save is refused; counted by distinct (setup, call sequence).  "
                "Traces (code -> spec): one scripted history plus %d seeded random histories of 15..40 calls, each call drawn "
                "from the labels whose enabling condition in Persist.tla holds in the observed projection, on random setups "
                "with 2-4 model slots (slots of equal type and architecture included) and 2-3 files; TracePersist.tla accepts "
                "a history iff the initial projection is Persist's Init and every call is Step(label) with the recorded "
                "outcome and the recorded projection in every field (tokens canonicalised by the rule of Persist!Fresh); "
                "non-trivial = an accepted history with an effective load, a refused save or a model moving away from a file "
                "that holds its parameters" % pt.SIZES[tier])
    pool = cf.ThreadPoolExecutor(max_workers=14)
    ex_futs = [(n, lv, pool.submit(pm.exhaustive, n, lv, timeout=1700)) for n, lv in cfg["exhaustive"]]
    var_futs = []
    for v, props in pm.VARIANTS.items():
        # quick: the property that names the fault; thorough: every property the wrong design must violate, one by one
        for p in (props if tier == "thorough" else props[-1:]):
            inv = [p] if p in pm.INVARIANTS else []
            prop = [p] if p in pm.PROPERTIES else []
            var_futs.append((v, p, pool.submit(pm.exhaustive, "pcd", cfg["variant_level"], variant=v,
                                               invariants=inv, properties=prop, timeout=600)))

    tmpdir = tempfile.mkdtemp(prefix="verif-c11-")
    try:
        # -- spec -> code: exported behaviours on real objects
        behs = []
        for name in cfg["len2"]:
            r = pm.behaviours([name], 2)
            chk.add_tlc(r, "export: every behaviour of 2 calls, setup %s" % name)
            behs += [("len2", b) for b in r.exports]
        for name in cfg["len3"]:
            r = pm.behaviours([name], 3, only=pm.EFFECTIVE_LOAD)
            sel = r.exports if len(r.exports) <= cfg["len3_cap"] else rng.sample(r.exports, cfg["len3_cap"])
            chk.add_tlc(r, "export: every behaviour of 3 calls ending in a load/autoload that changes the model, setup %s "
                           "(%d, %d replayed)" % (name, len(r.exports), len(sel)))
            behs += [("len3", b) for b in sel]
        for name in cfg["len4"]:
            r = pm.behaviours([name], 4, only=pm.EFFECTIVE_LOAD)
            sel = r.exports if len(r.exports) <= cfg["len4_cap"] else rng.sample(r.exports, cfg["len4_cap"])
            chk.add_tlc(r, "export: behaviours of 4 calls ending in a load/autoload that changes the model, setup %s "
                           "(%d, %d replayed)" % (name, len(r.exports), len(sel)))
            behs += [("len4", b) for b in sel]
        for i, names in enumerate(cfg["sim_names"]):
            r = pm.behaviours(names, cfg["sim_len"], simulate=cfg["sim_gen"], seed=seed % 100000 + i)
            chk.extra.setdefault("tlc_runs", []).append(dict(label="export: -simulate, %d random behaviours of %d calls, setups %s"
                                                             % (len(r.exports), cfg["sim_len"], ",".join(names)), wall_s=round(r.wall, 2)))
            ranked = sorted(r.exports, key=lambda b: -score(effects(b)))
            keep = ranked[:cfg["sim_keep"] // 2]
            others = ranked[cfg["sim_keep"] // 2:]
            keep += rng.sample(others, min(len(others), cfg["sim_keep"] - len(keep)))
            behs += [("sim", b) for b in keep]
        calls = 0
        cover = dict(restore=0, reshape=0, udict_restore=0, resave=0, refused=0, overwrite=0, saver=0, stale_src=0)
        for n, (kind, b) in enumerate(behs):
            calls += pr.run_behaviour(chk, b, tmpdir, seed + n, fit_train=(n % 3 != 1), key="replay")
            chk.evaluations += 1
            eff = effects(b)
            for k in cover:
                cover[k] += eff[k]
            if eff["restore"] or eff["reshape"] or eff["udict_restore"] or eff["resave"] or eff["stale_src"] or eff["refused"]:
                chk.nontriv(json.dumps([b["setup"], [label(h["a"]) for h in b["hist"]]], sort_keys=True))
            if kind == "sim" and n % 97 == 0:
                chk.sample(dict(setup=b["setup"], calls=[label(h["a"]) + ("!" if h["a"]["out"] != "ok" else "") for h in b["hist"]]))
        chk.traces = 0
        chk.extra["replayed_behaviours"] = len(behs)
        chk.extra["replayed_calls_compared"] = calls
        chk.extra["exercised"] = cover
        # -- ModelSaver through real multi-epoch fits
        ps.run_all(chk, tmpdir, seed, epochs=cfg["saver_epochs"], thorough=(tier == "thorough"))
        try:
            shared_dictionary(chk, tmpdir)
        except common.MachineryError:
            raise
        except Exception as ex:
            chk.violation("shared-dictionary:exception:" + type(ex).__name__, dict(error=repr(ex)))
        # -- negative controls on the comparator / injected faults
        comparator_controls(chk, [b for _, b in behs], tmpdir, seed)
        ps.controls(chk, tmpdir, seed, soft_control(chk))
        # -- code -> spec: recorded histories of real calls validated by TLC against Persist.tla (TracePersist.tla);
        #    counts into chk.traces
        pt.phase(chk, tier, seed, tmpdir)
    finally:
        shutil.rmtree(tmpdir, ignore_errors=True)

    # -- TLC results
    exhaustive = True
    for name, lv, fut in ex_futs:
        res = fut.result()
        chk.add_tlc(res, "Persist.tla setup %s, every behaviour of <= %d calls (BFS, 1 worker)" % (name, lv - 1))
        if res.violation:
            chk.violation("spec:%s:%s" % (name, res.violation), dict(setup=pm.SETUPS[name], tlc=res.raw[-4000:]))
    for v, p, fut in var_futs:
        res = fut.result()
        want = [p]
        hit = res.violation is not None and any(w in str(res.violation) for w in want)
        chk.control(hit, "TLC accepted the wrong design %s (%s)" % (v, p))
        chk.extra.setdefault("wrong_designs_rejected", []).append(dict(variant=v, property=str(res.violation)[:80]))
    pool.shutdown()
    chk.assumptions += [
        "CPU only; files are paths in a temporary directory (file objects as `location` not exercised)",
        "metadata values are of the kinds the installed torch.load (weights_only default) accepts: int, float, str, "
        "nested dict/list, tensors; keys are strings",
        "Load is exercised only on models of the file's type and architecture (the property's 'compatible model')",
        "contents are compared through SHA-1 of names+dtype+shape+bytes and, after load/autoload and after each save, "
        "torch.equal against clones taken by the harness",
        "TrainStep / SaverTick are real one-epoch fit() calls (SGD, weight decay so that every parameter moves); in one third "
        "of the behaviours TrainStep is a direct in-place perturbation instead",
        "trace validation trusts the recorder's projection (persist_replay.World.observe: SHA-1 of names+dtype+shape+bytes, "
        "files read back with torch.load) and its token naming (persist_trace.Canon); new content that equals content no "
        "longer referenced is flagged (`notfresh`) and rejected",
    ]
    return chk.finish(exhaustive=False)


def replay(path):
    """./check C11 --replay <file>: run the recorded behaviour / scenario again on the current tree."""
    with open(path) as fh:
        rec = json.load(fh)
    det = rec["detail"]
    chk = common.Check(PID, "replay", det.get("seed", 0))
    chk.findings = {"known": []}
    tmpdir = tempfile.mkdtemp(prefix="verif-c11-")
    try:
        if "behaviour" in det:
            pr.run_behaviour(chk, det["behaviour"], tmpdir, det["seed"], fit_train=det.get("fit_train", True), key="replay")
        elif "scenario" in det:
            ps.scenario(chk, tmpdir, **det["scenario"])
        elif "trace" in det:
            pt.replay(chk, det, tmpdir)
        else:
            print("nothing replayable in", path)
            return 2
    finally:
        shutil.rmtree(tmpdir, ignore_errors=True)
    for k, d in chk.violations:
        print("REPRODUCED key=%s" % k)
        print("  " + json.dumps({x: d[x] for x in d if x not in ("behaviour",)}, default=str)[:1500])
    if not chk.violations:
        print("not reproduced on the current tree (recorded key: %s)" % rec["key"])
    return 1 if chk.violations else 0
