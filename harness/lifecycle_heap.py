"""C20 binding: replay behaviours of spec/Heap.tla on the real classes and compare, after every
action, the projection of the real objects with the specification's view.

Projection of a network object = for each parameter (registration order) its storage
(`data_ptr()`), its shape and a hash of its bytes.  The comparison is generic:
  * storages: two parameters share a storage in the specification  <=>  they do in the code;
  * shapes and sizes: equal;
  * values: specification token -> hash is a FUNCTION over the whole behaviour (same token =>
    same bytes); `zero` tokens are all-zero tensors; `rand` tokens have no zero entry; distinct
    `rand` / `mut` / `zero` tokens have distinct bytes.  `trained` tokens carry no obligation
    beyond being a function (training MAY leave a value where it was);
  * errors, callback events and generator movement as the specification says.
No QuCumber semantics lives here.
"""
import random
import warnings

import numpy as np
import torch

import common

qucumber = common.import_qucumber()
from qucumber.nn_states import PositiveWaveFunction, ComplexWaveFunction, DensityMatrix  # noqa: E402
from qucumber.rbm import BinaryRBM, PurificationRBM  # noqa: E402
from qucumber.callbacks import CallbackBase  # noqa: E402

torch.set_num_threads(1)

CLASSES = {"positive": PositiveWaveFunction, "complex": ComplexWaveFunction, "density": DensityMatrix}


class World:
    def __init__(self):
        self.S = None
        self.M = None
        self.type = "none"


class UserAbort(Exception):
    pass


class Counter(CallbackBase):
    """counts the events it receives; when armed, raises at the end of the given epoch (a user callback that fails:
    the run ends there, after at least one optimizer step - for the heap of Heap.tla that is a Fit like any other,
    and whatever follows - Reinit in particular - must find the object in working order)"""

    def __init__(self, raise_at=None):
        self.n = 0
        self.raise_at = raise_at

    def on_train_start(self, nn_state):
        self.n += 1

    def on_train_end(self, nn_state):
        self.n += 1

    def on_epoch_start(self, nn_state, epoch):
        self.n += 1

    def on_epoch_end(self, nn_state, epoch):
        self.n += 1
        if self.raise_at == epoch:
            raise UserAbort("epoch %d" % epoch)

    def on_batch_start(self, nn_state, epoch, batch):
        self.n += 1

    def on_batch_end(self, nn_state, epoch, batch):
        self.n += 1


def rng_token():
    return common.sha(torch.get_rng_state().numpy().tobytes())


def net_view(net):
    if net is None:
        return []
    out = []
    for name, p in net.named_parameters():
        a = p.detach().cpu().contiguous().numpy()
        out.append(dict(name=name, ptr=p.data_ptr(), shape=list(p.shape), hash=common.sha(a.tobytes()),
                        allzero=bool((a == 0).all()), nozero=bool((a != 0).all())))
    return out


def view(w):
    S = w.S
    v = dict(am=net_view(S.rbm_am) if S is not None else [],
             ph=net_view(S.rbm_ph) if (S is not None and "rbm_ph" in S.networks) else [],
             M=net_view(w.M), type=w.type)
    if S is not None:
        v["state_sizes"] = [S.num_visible, S.num_hidden] + ([S.num_aux] if w.type == "density" else [0])
        am = S.rbm_am
        v["am_sizes"] = [am.num_visible, am.num_hidden, getattr(am, "num_aux", 0)]
        v["networks"] = list(S.networks)
    v["mIsAm"] = bool(S is not None and w.M is not None and S.rbm_am is w.M)
    return v


OPTS = {"SGD": (torch.optim.SGD, {}), "SGDm": (torch.optim.SGD, {"momentum": 0.9}),
        "Adam": (torch.optim.Adam, {}), "RMSprop": (torch.optim.RMSprop, {}),
        "Adagrad": (torch.optim.Adagrad, {}), "SGDnesterov": (torch.optim.SGD, {"momentum": 0.5, "nesterov": True})}


def gpu_flag(r):
    """gpu=True is a supported request on a machine without CUDA: the library warns and continues on the
    CPU; every contract holds as with gpu=False"""
    return r.random() < 0.3 and not torch.cuda.is_available()


def apply(w, act, r):
    """Perform one specification action through the public API.  Returns dict(err, events,
    rng_moved, aux_moved_steps, steps) ; an unexpected exception propagates to the caller."""
    a = act["a"]
    info = dict(err="", events=0, aux_moved_steps=0, steps=0)
    g0 = rng_token()
    with warnings.catch_warnings():
        warnings.simplefilter("ignore")
        if a == "ConstructSizes":
            ty, nv = act["ty"], act["nv"]
            args = [nv]
            kw = {"gpu": gpu_flag(r)}
            if act["nh"]:
                if r.random() < 0.5:
                    args.append(act["nh"])
                else:
                    kw["num_hidden"] = act["nh"]
            elif r.random() < 0.3:
                kw["num_hidden"] = None
            if ty == "density":
                if act["na"]:
                    kw["num_aux"] = act["na"]
                elif r.random() < 0.3:
                    kw["num_aux"] = None
            w.S = CLASSES[ty](*args, **kw)
            w.type = ty
        elif a == "NewModule":
            zw = {"zero_weights": True} if act["opt"] == "zero_weights" else ({"zero_weights": False} if r.random() < 0.3 else {})
            if act["ty"] == "binary":
                w.M = BinaryRBM(act["nv"], act["nh"], gpu=gpu_flag(r), **zw)
            else:
                w.M = PurificationRBM(act["nv"], act["nh"], act["na"], gpu=gpu_flag(r), **zw)
        elif a == "ConstructModule":
            w.S = CLASSES[act["ty"]](act["nv"], module=w.M, gpu=gpu_flag(r))
            w.type = act["ty"]
        elif a == "Mutate":
            net = {"am": lambda: w.S.rbm_am, "ph": lambda: w.S.rbm_ph, "M": lambda: w.M}[act["tgt"]]()
            p = list(net.parameters())[act["idx"] - 1]
            how = r.randrange(3)
            with torch.no_grad():
                if how == 0:
                    p.data.add_(0.5 + r.random())
                elif how == 1:
                    p.mul_(0.5).sub_(1.25 + r.random())
                else:
                    p.copy_(torch.full_like(p, 2.0 + r.random()) + p)
        elif a == "Reinit":
            w.S.reinitialize_parameters()
        elif a == "Fit":
            S = w.S
            nv = S.num_visible
            N = r.randint(3, 6)
            data = [[r.randint(0, 1) for _ in range(nv)] for _ in range(N)]
            bases = [["Z"] * nv for _ in range(N)]
            for i in range(1, N):
                if r.random() < 0.6 or i == 1:
                    bases[i] = [r.choice("XYZ") for _ in range(nv)]
            bases[1][r.randrange(nv)] = r.choice("XY")      # row 0 all-Z, row 1 never all-Z
            if all(bool((p == 0).all()) for net in S.networks for p in getattr(S, net).parameters()):
                # a state whose parameters are ALL exactly zero (built from a zero_weights module and never touched)
                # has psi = const: an outcome of an X / Y measurement can have probability exactly 0, its
                # log-likelihood gradient does not exist (0/0).  Not a statement about the library: such a state
                # is trained on reference-basis data here.
                bases = [["Z"] * nv for _ in range(N)]
            base, oargs = OPTS[act["opt"]]
            ph = S.rbm_ph if "rbm_ph" in S.networks else None
            aux = getattr(ph, "aux_bias", None) if ph is not None else None
            aux0 = aux.detach().clone() if aux is not None else None

            class Probe(base):
                def step(self, *aa, **kk):
                    out = super().step(*aa, **kk)
                    info["steps"] += 1
                    if aux0 is not None:
                        cur = S.rbm_ph.aux_bias
                        if cur.shape != aux0.shape or not bool((cur.detach() == aux0).all()):
                            info["aux_moved_steps"] += 1
                    return out

            epochs = r.randint(1, 2)
            # (more often when something follows the training: that is where a run that ended badly can show)
            cb = Counter(raise_at=r.randint(1, epochs) if r.random() < (0.6 if act.get("_followed") else 0.2) else None)
            kw = dict(epochs=epochs, pos_batch_size=r.randint(1, 3), neg_batch_size=r.choice([None, 2]),
                      k=r.randint(1, 2), lr=0.1, callbacks=[cb], optimizer=Probe, optimizer_args=dict(oargs))
            if act["bases"]:
                kw["input_bases"] = np.array(bases)
            d = torch.tensor(data, dtype=torch.double) if r.random() < 0.5 else np.array(data, dtype=float)
            try:
                S.fit(d, **kw)
            except ValueError as ex:
                info["err"] = "ValueError"
                info["msg"] = str(ex)
            except UserAbort:
                pass
            info["events"] = cb.n
        else:
            raise common.MachineryError("unknown action %r" % (act,))
    info["rng_moved"] = rng_token() != g0
    return info


def compare(step, v, info, tokmap, problems):
    """Specification view `step` (one element of hist) against the real view `v`.
    Appends (what, detail) to problems."""
    def bad(what, **d):
        problems.append((what, d))

    if step["type"] != v["type"]:
        bad("type", expected=step["type"], got=v["type"])
    if step["err"] != info["err"]:
        bad("error", expected=step["err"], got=info["err"], msg=info.get("msg"))
    if step["dEv"] == 0 and info["events"] != 0:
        bad("callback-events-on-refusal", events=info["events"])
    if step["dRng"] == 0 and info["rng_moved"]:
        bad("generator-moved")
    if info["aux_moved_steps"]:
        bad("phase-aux-bias-moved", steps=info["aux_moved_steps"], of=info["steps"])
    if bool(step["mIsAm"]) != v["mIsAm"]:
        bad("module-identity", expected=step["mIsAm"], got=v["mIsAm"])
    ent = []
    for role in ("am", "ph", "M"):
        sv, cv = step[role], v[role]
        if len(sv) != len(cv):
            bad("network-presence", role=role, expected=len(sv), got=len(cv))
            return
        for i, (s, c) in enumerate(zip(sv, cv)):
            ent.append((role, i, s, c))
            if list(s["shape"]) != c["shape"]:
                bad("shape", role=role, param=c["name"], expected=s["shape"], got=c["shape"])
    if step["amSizes"] and v.get("am_sizes") is not None:
        if list(step["amSizes"]) != v["am_sizes"] or list(step["amSizes"]) != v["state_sizes"]:
            bad("sizes", expected=step["amSizes"], network=v["am_sizes"], state=v["state_sizes"])
    # storage relation
    for x in range(len(ent)):
        for y in range(x + 1, len(ent)):
            r1, i1, s1, c1 = ent[x]
            r2, i2, s2, c2 = ent[y]
            if (s1["st"] == s2["st"]) != (c1["ptr"] == c2["ptr"]):
                bad("storage-sharing", a=[r1, c1["name"]], b=[r2, c2["name"]],
                    spec_shared=s1["st"] == s2["st"], code_shared=c1["ptr"] == c2["ptr"])
    # values (a token names the contents of one storage; the all-zero token is shared, so the
    # function is keyed by token and shape)
    for role, i, s, c in ent:
        tok = (tuple(s["val"]), tuple(c["shape"]))
        kind = tok[0][0]
        if tok in tokmap:
            if tokmap[tok] != c["hash"]:
                bad("value-changed", role=role, param=c["name"], token=list(tok[0]))
        else:
            if kind in ("rand", "mut"):
                for t2, h2 in tokmap.items():
                    if t2[0][0] in ("rand", "mut") and h2 == c["hash"]:
                        bad("value-not-fresh", role=role, param=c["name"], token=list(tok[0]), same_as=list(t2[0]))
            tokmap[tok] = c["hash"]
        if kind == "zero" and not c["allzero"]:
            bad("not-zero", role=role, param=c["name"])
        if kind == "rand" and not c["nozero"]:
            bad("weights-not-random", role=role, param=c["name"])
        if kind == "mut" and c["allzero"]:
            # the harness never writes zeros: an all-zero tensor under a 'mut' token is either a value that
            # was not carried over (already reported above as value-changed) or a harness bug
            if not problems:
                raise common.MachineryError("the harness's own mutation left an all-zero tensor")


def replay(beh, seed):
    """-> list of (step index, what, detail); first exception is reported as ('exception', ...)."""
    r = random.Random("c20-%s-%s" % (seed, common.sha(repr(beh).encode())))
    torch.manual_seed(r.randrange(2 ** 31))
    w = World()
    tokmap = {}
    out = []
    for i, step in enumerate(beh["hist"]):
        try:
            info = apply(w, dict(step["act"], _followed=i + 1 < len(beh["hist"])), r)
        except common.MachineryError:
            raise
        except Exception as ex:
            out.append((i, "exception", dict(error=repr(ex), exc=type(ex).__name__)))
            return out
        problems = []
        compare(step, view(w), info, tokmap, problems)
        out.extend((i, what, d) for what, d in problems)
        if problems:
            return out
    return out
