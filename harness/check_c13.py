"""C13 - Streaming observable statistics equal the statistics of all drawn samples.

spec/Stats.tla, part A: `_update_statistics` transcribed over exact rationals; TLC enumerates
every dataset over -2..2 (length <= 5 quick / 6 thorough), every prefix/suffix split (empty
sides included) and every chunking and checks MergeIsOnePass (mean, unbiased variance, length
of the chained / direct merge = one pass, wherever one pass is defined).  Part B: the schedule
of ObservableBase.statistics / System.statistics (Call, Draw, Finish) with count, chain-count,
burn-in, continuity, user-buffer and shared-advance invariants.

Binding.  spec -> code: TLC's datasets/splits go through the real `_update_statistics`
(block summaries by torch.var_mean as the callers do) and are compared with python Fractions;
TLC's schedule behaviours are replayed into the real `statistics` with a recording wrapper on
`nn_state.sample`.  code -> spec: randomised real calls (three state types, composites, System)
are recorded and validated by spec/TraceStats.tla, which re-runs the schedule actions and
recomputes the one-pass statistics exactly.
"""
import copy
import json
import random
from concurrent.futures import ThreadPoolExecutor
import warnings

import common
import tlc
import stats_run as sr

PID = "C13"
WORKERS = 8
ALG_INV = ["MergeIsOnePass", "EmptyMerge", "RatOK"]
EXPORT_A = ('MC_ExportA == (ALive /\\ (%s)) => PrintT(ToJson([xs |-> alg.xs, parts |-> alg.parts, '
            'fold |-> Fold(Merge, Cut(alg.xs, alg.parts)), one |-> OnePass(alg.xs)]))')
EXPORT_B = ('MC_ExportB == BDone => PrintT(ToJson([cfg |-> cfg, cp |-> cp, nt |-> nt, draws |-> draws, '
            'count |-> count, ucont |-> content[1]]))')
SMALL_B = dict(MaxS=1, MaxC=1, MaxL=1, MaxObs=1)


def run_alg(maxlen, export=None, over=None, invariants=ALG_INV, timeout=1500, vals="-2..2", workers=WORKERS):
    defs = {"Vals": vals, "Ks": "{0}"}
    defs.update(over or {})
    inv = list(invariants) + (["MC_ExportA"] if export else [])
    return tlc.run("Stats", constants=dict(MaxLen=maxlen, **SMALL_B), defs=defs, init="InitA", next="NextA",
                   invariants=inv, extends_extra=["Json"] if export else [],
                   extra_text=(EXPORT_A % export) if export else "", workers=workers, heap="4g", timeout=timeout)


def run_sched(bounds, ks, export=True, over=None, timeout=900, workers=WORKERS):
    defs = {"Vals": "{0}", "Ks": ks}
    defs.update(over or {})
    inv = sr.SCHED_INV + (["MC_ExportB"] if export else [])
    return tlc.run("Stats", constants=dict(MaxLen=1, **bounds), defs=defs, init="InitB", next="NextB",
                   invariants=inv, extends_extra=["Json"] if export else [],
                   extra_text=EXPORT_B if export else "", workers=workers, heap="4g", timeout=timeout)


# ---------------------------------------------------------------------------
def phase_merge(chk, tier, tally):
    if tier == "quick":      # all of -2..2 up to length 4, and every chunking of lengths 5, 6 over {-1, 2}
        runs = [(4, "-2..2", "TRUE"), (6, "{-1, 2}", "Len(alg.xs) >= 5")]
    else:
        runs = [(6, "-2..2", "Len(alg.xs) <= 5 \\/ (alg.xs[1] = -2 /\\ alg.xs[2] = 2)")]
    cases = []
    for maxlen, vals, sel in runs:
        res = run_alg(maxlen, export=sel, vals=vals)
        chk.add_tlc(res, "Stats.tla part A (merge algebra, values %s, length <= %d)" % (vals, maxlen))
        if res.violation:
            chk.violation("spec:" + str(res.violation), dict(tlc=res.raw[-3000:]))
            return []
        cases += res.exports
    cases.sort(key=lambda c: (len(c["xs"]), c["xs"], c["parts"]))      # TLC's output order depends on its threads
    if len(cases) < 7000:
        raise common.MachineryError("only %d merge cases exported" % len(cases))
    for n, c in enumerate(cases):
        sr.merge_case(tally, c)
        chk.evaluations += 1
        if sum(1 for p in c["parts"] if p > 0) >= 2 and c["one"]["n"] >= 2 and c["one"]["var"][0] != 0:
            chk.nontriv(("merge", n))
        if n in (3018, 6019):
            chk.sample(dict(merge_case=dict(xs=c["xs"], parts=c["parts"], one_pass=c["one"])))
    # spec-level controls: a wrong cross term / a biased final division violate the invariant
    ctl = (("delta^2*na*nb/(na+nb)^2", {"Cross(d2, la, lb)": "RDiv(RMul(d2, RInt(la * lb)), RInt((la + lb) * (la + lb)))"}),
           ("biased variance (divide by new_len)", {"Bessel(n)": "n"}),
           ("1-sample block contributes var*(len-1) with var = 1", {"Scaled(v, l)": "IF l = 1 THEN RInt(1) ELSE RMul(v, RInt(l - 1))"}))
    with ThreadPoolExecutor(len(ctl)) as ex:
        rs = list(ex.map(lambda c: run_alg(3, over=c[1], invariants=["MergeIsOnePass"], workers=2), ctl))
    for (what, _), r in zip(ctl, rs):
        chk.control(r.violation == "MergeIsOnePass", "Stats.tla with " + what + " satisfied MergeIsOnePass")
    # comparator controls: wrong python merges on the same cases (cases without 1-sample blocks)
    sub = [c for c in cases if 1 not in c["parts"] and len(c["xs"]) >= 4][:400]
    for name, fn in (("biased", sr.merge_biased), ("squared denominator", sr.merge_sq)):
        t = sr.Tally()
        for c in sub:
            sr.merge_case(t, c, merge=fn, site="control")
        chk.control(any(k[0] == "control:variance" for k in t.items), "merge comparator accepted the %s merge" % name)
    return cases


# ---------------------------------------------------------------------------
def phase_schedule(chk, tier, seed, rng, tally):
    if tier == "quick":
        bounds, ks, nrep = dict(MaxS=6, MaxC=7, MaxL=2, MaxObs=2), "{0, 1, 2}", 1500
    else:
        bounds, ks, nrep = dict(MaxS=8, MaxC=9, MaxL=3, MaxObs=3), "{0, 1, 2}", 10 ** 9
    res = run_sched(bounds, ks)
    chk.add_tlc(res, "Stats.tla part B (schedule)")
    if res.violation:
        chk.violation("spec:" + str(res.violation), dict(tlc=res.raw[-3000:]))
        return []
    behs = sorted(res.exports, key=lambda b: json.dumps(b["cfg"], sort_keys=True))
    if len(behs) < 1000:
        raise common.MachineryError("only %d schedule behaviours exported" % len(behs))
    # spec-level controls
    small = dict(MaxS=4, MaxC=5, MaxL=2, MaxObs=2)
    ctl = (("floor instead of ceil", {"NumSteps(S, c)": "IF S \\div c = 0 THEN 1 ELSE S \\div c"}, "CountOK"),
           ("burn-in on every draw", {"GibbsK(i, c)": "c.burn"}, "BurnOnceFirst"),
           ("num_chains > num_samples not capped", {"NumChains(c)": "IF c.L > 0 THEN c.L ELSE IF c.C # 0 THEN c.C ELSE c.S"},
            "ChainsAsDocumented"))
    with ThreadPoolExecutor(len(ctl)) as ex:
        rs = list(ex.map(lambda c: run_sched(small, "{0, 1}", export=False, over=c[1], workers=2), ctl))
    for (what, _, inv), r in zip(ctl, rs):
        chk.control(r.violation == inv, "Stats.tla with %s satisfied %s" % (what, inv))
    if len(behs) > nrep:
        behs = rng.sample(behs, nrep)
    states = {(k, n): sr.make_state(k, n, seed + n) for k in sr.STATE_KINDS for n in (2, 3, 4)}
    for i, beh in enumerate(behs):
        st = states[(sr.STATE_KINDS[i % 3], 2 + (i // 3) % 3)]
        nobs = beh["cfg"]["nobs"]
        idx = [(i + 3 * j) % len(sr.OBS) for j in range(nobs)]
        sk, sn = sr.STATE_KINDS[i % 3], 2 + (i // 3) % 3
        sr.replay_schedule(tally, beh, st, idx, seed + i, state_id=[sk, sn, seed + sn])
        chk.evaluations += 1
        if beh["nt"] >= 2:
            chk.nontriv(("replay", i))
        if i in (5, 982):
            chk.sample(dict(schedule=dict(cfg=beh["cfg"], chains=beh["cp"], draws=[[d["k"], d["ns"], d["init"], d["ret"]] for d in beh["draws"]])))
    # comparator control: an expected schedule with burn-in on the second draw as well must be flagged
    beh = copy.deepcopy(next(b for b in behs if b["nt"] >= 3 and b["cp"] >= 2 and b["cfg"]["burn"] != b["cfg"]["steps"]))
    beh["draws"][1]["k"] = beh["cfg"]["burn"]
    t = sr.Tally()
    sr.replay_schedule(t, beh, states[("positive", 3)], list(range(beh["cfg"]["nobs"])), seed, site="control")
    if len(tally) and any(k[0].startswith("control:") for k in t.items):
        # the library already disagrees with the specification's schedule on uncorrupted behaviours (the run fails on
        # those): the corrupted one is then flagged too, though not necessarily at the draw that was corrupted
        chk.controls += 1
    else:
        chk.control(any(k[0] == "control:sample-call:k" for k in t.items), "replay comparator accepted a wrong k")
    return behs


# ---------------------------------------------------------------------------
def random_call(rng):
    n = rng.randint(2, 6)
    kind = rng.choice(["obs", "sys"])
    nobs = 1 if kind == "obs" else rng.randint(1, 4)
    obs_idx = rng.sample(range(len(sr.OBS)), nobs)
    if kind == "obs" and rng.random() < 0.4:
        obs_idx = [2]                                   # 2*SigmaZ() - NeighbourInteraction(c=1)
    L = 0
    S = rng.randint(1, 12) if rng.random() < 0.25 else rng.randint(13, 400)
    r = rng.random()
    if r < 0.25:
        L = rng.choice([1, 2, 2, 3, 5, 8, 16])
        S = min(S, 50 * L)
        C = rng.choice([0, 0, 1, 7, S + 3])
    elif r < 0.37:
        S = min(S, 120)
        C = rng.choice([0, S + 1, S + 50, S])
    elif r < 0.42:
        S = min(S, 40)
        C = 1
    else:
        lo = max(2, -(-S // 50))
        C = rng.randint(lo, max(lo, min(S, 64)))
        if rng.random() < 0.3:                          # a divisor of S when there is one
            ds = [d for d in range(lo, min(S, 64) + 1) if S % d == 0]
            C = rng.choice(ds) if ds else C
    cfg = dict(kind=kind, nobs=nobs, S=S, C=C, burn=rng.choice([0, 1, 2, 5]), steps=rng.choice([0, 1, 1, 2, 3]),
               L=L, ow=rng.random() < 0.5, conv=(L > 0 and rng.random() < 0.35))
    return cfg, n, obs_idx, rng.choice(sr.STATE_KINDS)


def phase_long(chk, tier, seed, rng, tally):
    """Draws of thousands of chains (num_chains = 0 means one chain per requested sample - the default): beyond
    TLC's integers, decided in Python by the specification's own one-pass definition (exact rationals over every
    recorded value), for statistics(), System.statistics() and statistics_from_samples()."""
    import torch
    for i, (S, C) in enumerate([(5000, 0), (4097, 0), (9000, 4500), (300, 0), (12000, 6001)][: 3 if tier == "quick" else 5]):
        skind = sr.STATE_KINDS[i % len(sr.STATE_KINDS)]
        st = sr.make_state(skind, 3, seed + 31 * i)
        kind = "sys" if i % 2 else "obs"
        obs_idx = [2, 0] if kind == "sys" else [2]
        cfg = dict(kind=kind, nobs=len(obs_idx), S=S, C=C, burn=1, steps=1, L=0, ow=False)
        names = [sr.OBS[j][0] for j in obs_idx]
        sr.torch.manual_seed(seed + i)
        out = sr.real_call(cfg, st, sr.make_obs(obs_idx), None)
        chk.evaluations += 1
        sr.check_numbers(tally, "long-draw", cfg, names, out, 3,
                         info=dict(cfg=cfg, observables=names, state=skind, repro=dict(site="call", cfg=cfg, obs=obs_idx,
                                                                                       state=[skind, 3, seed + 31 * i], seed=seed + i)))
        # statistics_from_samples on a long batch
        rows = [4097, 7000, 10001, 5000][i % 4]
        g = torch.Generator().manual_seed(seed + i)
        batch = torch.randint(0, 2, (rows, 3), generator=g).to(torch.double)
        obs = sr.make_obs([2])[0]
        before = batch.clone()
        r = obs.statistics_from_samples(st, batch)
        ys = sr.scaled_values(obs, st, before)
        mean, var, N = sr.exact_stats(ys, 3)
        chk.evaluations += 1
        bad = [k for k, ok in (("mean", sr._close(r["mean"], mean)), ("variance", sr._close(r["variance"], var)),
                               ("std_error", sr._close(r["std_error"], (float(var) / N) ** 0.5)),
                               ("num_samples", r["num_samples"] == N)) if not ok]
        if bad or not torch.equal(batch, before):
            tally.add("long-batch:statistics_from_samples:" + (bad[0] if bad else "batch-modified"),
                      "statistics of a long batch differ from one pass over its values",
                      dict(rows=rows, state=skind, observable=sr.OBS[2][0], reported={k: r[k] for k in r},
                           one_pass=dict(mean=str(mean), variance=str(var), num_samples=N)), rows)
        chk.nontriv(("long", i))


def phase_traces(chk, tier, seed, rng, tally):
    ncalls = 150 if tier == "quick" else 3000
    lines, metas = [], []
    for i in range(ncalls):
        cfg, n, obs_idx, skind = random_call(rng)
        st = sr.make_state(skind, n, seed + 7 * i)
        names = [sr.OBS[j][0] for j in obs_idx]
        user = sr.user_buffer(cfg["L"], n, seed + i, cfg.get("conv", False))
        sr.torch.manual_seed(seed + i)
        out = sr.real_call(cfg, st, sr.make_obs(obs_idx), user)
        meta = dict(cfg=cfg, observables=names, state=skind, num_visible=n,
                    repro=dict(site="call", cfg=cfg, obs=obs_idx, state=[skind, n, seed + 7 * i], seed=seed + i))
        cp = sr.chains_of(cfg)
        size = cfg["S"] * 100 + cp
        chk.evaluations += 1
        if out["error"] is not None:
            e = out["error"]
            key = sr.KNOWN_KEY if (cp == 1 and isinstance(e, ZeroDivisionError)) else "trace:exception:" + type(e).__name__
            tally.add(key, "statistics raised %r" % (e,), dict(meta, draws_before_error=len(out["calls"])), size)
            continue
        N = cp * len(out["calls"])
        bad = [k for r in out["res"] for k in ("mean", "variance", "std_error", "num_samples")
               if not sr._finite(r.get(k)) and not (N < 2 and k in ("variance", "std_error"))]
        if bad:
            tally.add(sr.KNOWN_KEY if cp == 1 and set(bad) <= {"variance", "std_error"} else "trace:not-a-number:" + bad[0],
                      "statistics reported a non-finite %s" % bad[0], dict(meta, reported=str(out["raw"])), size)
            continue
        ln = sr.to_trace(cfg, out, n)
        why = sr.malformed(ln)
        if why:
            tally.add("trace:malformed:" + why, "the recorded call has no counterpart in the specification", dict(meta, line=ln), size)
            continue
        want_draws = -(-cfg["S"] // cp)
        if sr.oversize(ln) and len(out["calls"]) != want_draws:
            # far more draws than the schedule has: beyond TLC's integers, and decided by the count alone
            tally.add("trace:rejected:Draw", "the call made %d draws, the schedule ceil(S / C') has %d"
                      % (len(out["calls"]), want_draws), dict(meta, draws=len(out["calls"])), size)
            continue
        lines.append(ln)
        metas.append(meta)
    if len(lines) < ncalls // 2:
        tally.flush(chk)
        if not chk.violations:
            raise common.MachineryError("only %d of %d calls produced a trace" % (len(lines), ncalls))

    # ---- negative controls: corrupted traces that TraceStats must reject
    def draws(ln):
        return ln["ev"][1:-1]

    def donor(pred):
        return copy.deepcopy(next(ln for ln in lines if pred(ln)))

    ctl = []

    def c_burn():
        ln = donor(lambda x: len(draws(x)) >= 3 and x["ev"][0]["burn"] != x["ev"][0]["steps"])
        ln["ev"][3]["k"] = ln["ev"][0]["burn"]
        return "burn-in applied again on a later draw", ln

    def c_fresh():
        ln = donor(lambda x: len(draws(x)) >= 2)
        ln["ev"][2]["init"], ln["ev"][2]["from"] = 0, 0
        return "a later draw starting from fresh random chains (initial_state=None)", ln

    def c_floor():
        ln = donor(lambda x: len(draws(x)) >= 2 and x["ev"][0]["S"] % x["ev"][1]["ns"] != 0)
        last = ln["ev"].pop(-2)
        for r in ln["ev"][-1]["res"]:
            r["count"] -= last["ns"]
        return "one draw too few (floor instead of ceil)", ln

    def c_extra():
        ln = donor(lambda x: len(draws(x)) >= 2 and x["ev"][0]["kind"] == "sys" and x["ev"][0]["nobs"] >= 2)
        ln["ev"].insert(3, copy.deepcopy(ln["ev"][2]))
        return "System advancing the chains once per observable (extra sample call)", ln

    def c_mean():
        ln = donor(lambda x: len(draws(x)) >= 2)
        ln["ev"][-1]["res"][-1]["mean"] += 3
        return "mean off by 3e-6", ln

    def c_biased():
        def big(x):
            N = x["ev"][-1]["res"][0]["count"]
            return N >= 2 and x["ev"][-1]["res"][0]["var"] > 20 * N
        ln = donor(big)
        r = ln["ev"][-1]["res"][0]
        r["var"] = int(round(r["var"] * (r["count"] - 1) / r["count"]))
        return "biased variance", ln

    def c_se():
        ln = donor(lambda x: x["ev"][-1]["res"][0]["count"] >= 2 and x["ev"][-1]["res"][0]["se"] > 100)
        ln["ev"][-1]["res"][0]["se"] += 3
        return "std_error off by 3e-6", ln

    def c_count():
        ln = donor(lambda x: len(draws(x)) >= 2)
        ln["ev"][-1]["res"][0]["count"] = ln["ev"][0]["S"] - 1
        return "num_samples below the request", ln

    def c_ucont():
        ln = donor(lambda x: x["ev"][0]["L"] > 0 and not x["ev"][0]["ow"] and x["ev"][-2]["to"] != 1)
        ln["ev"][-1]["ucont"] = ln["ev"][-2]["to"]
        return "user buffer overwritten although overwrite=False", ln

    def c_nown():
        ln = donor(lambda x: x["ev"][0]["L"] > 0 and x["ev"][0]["ow"] and x["ev"][-2]["to"] != 1)
        ln["ev"][-1]["ucont"] = 1
        for d in draws(ln):
            d["init"], d["ret"] = 2, 2
        return "overwrite=True but the work was done on a clone", ln

    def c_val():
        ln = donor(lambda x: len(draws(x)) >= 2 and x["ev"][0]["kind"] == "sys" and x["ev"][0]["nobs"] >= 2)
        v = ln["ev"][2]["vals"]
        v[0], v[1] = v[1], [y + 1 for y in v[0]]
        return "System observable evaluated on other chain states than it would see alone", ln

    for c in (c_burn, c_fresh, c_floor, c_extra, c_mean, c_biased, c_se, c_count, c_ucont, c_nown, c_val):
        try:
            ctl.append(c())
        except StopIteration:
            raise common.MachineryError("no donor trace for negative control " + c.__name__)
    for name, ln in ctl:
        if sr.malformed(ln):
            raise common.MachineryError("control trace malformed: " + name)

    batch = 600
    alll = lines + [c[1] for c in ctl]
    acc, matched = [], []
    for at in range(0, len(alll), batch):
        tres, a, m = sr.validate_traces(alll[at:at + batch])
        chk.add_tlc(tres, "TraceStats.tla (%d traces)" % len(a))
        if tres.violation:
            chk.violation("trace:invariant:" + str(tres.violation), dict(tlc=tres.raw[-3000:]))
        acc += a
        matched += m
    for j, (name, _) in enumerate(ctl):
        chk.control(not acc[len(lines) + j], "TraceStats accepted a trace with " + name)
    for i, ok in enumerate(acc[:len(lines)]):
        ev = lines[i]["ev"]
        if ok:
            chk.traces += 1
            if len(ev) >= 4:
                chk.nontriv(("trace", i))
            continue
        nxt = ev[matched[i]]
        cp = sr.chains_of(metas[i]["cfg"])
        what = nxt["e"]
        d = dict(metas[i], matched_events=matched[i], next_event={k: v for k, v in nxt.items() if k != "vals"})
        if what == "Result":
            d["all_values"] = [[y for e in ev[1:-1] for y in e["vals"][o]] for o in range(len(ev[-1]["res"]))]
        tally.add("trace:rejected:" + what, "TraceStats.tla rejects the recorded call at its %s event" % what, d,
                  metas[i]["cfg"]["S"] * 100 + cp)
    if lines:
        chk.sample(dict(trace=dict(meta=metas[0], events=len(lines[0]["ev"]), result=lines[0]["ev"][-1])))
    return lines


def run(tier, seed):
    chk = common.Check(PID, tier, seed)
    rng = random.Random(seed)
    tally = sr.Tally()
    chk.rule = ("TLC part A: every dataset over -2..2 up to the length bound x every prefix/suffix split (empty sides "
                "included) x every composition of the length; non-trivial = at least two non-empty blocks and non-zero "
                "variance.  TLC part B: every (kind, nobs, S, C, burn, steps, L, overwrite) within the bounds; non-trivial = "
                "at least two draws.  Exported cases/behaviours are replayed into the real code (all of them in the thorough "
                "tier).  Traces: seeded random real calls (3 state types, 8 observables incl. composites, System with 1-4 "
                "observables, S <= 400, user buffers with overwrite on/off)")
    with warnings.catch_warnings():
        warnings.simplefilter("ignore")          # torch.var_mean of one sample warns (degrees of freedom <= 0)
        phase_merge(chk, tier, tally)
        phase_schedule(chk, tier, seed, rng, tally)
        phase_traces(chk, tier, seed, rng, tally)
        phase_long(chk, tier, seed, rng, tally)
    tally.flush(chk)
    if not chk.violations:
        # the same contract for USER-defined observables through System and ObservableEvaluator
        # (spec/UserObs.tla composed from Stats.tla's actions and an ObsExpr.tla instance; see ext_userobs.py)
        import ext_userobs
        with warnings.catch_warnings():
            warnings.simplefilter("ignore")
            ext_userobs.run(chk, tier, seed)
        # the schedule for UNBOUNDED requests (spec/StatsInd.tla, Apalache) and Stats.tla's refinement of it
        import ext_apalache_stats
        ext_apalache_stats.run(chk, tier, seed)
    chk.assumptions += [
        "nn_state.sample is observed through a wrapper installed on the instance; its contract (initial_state=None -> "
        "fresh buffer, overwrite=True -> works in place and returns its argument) is the environment of the schedule model",
        "observables used have per-sample values whose multiple by num_visible is an integer (SigmaZ, NeighbourInteraction, "
        "sums/products of them), so one-pass statistics are exact rationals; reported float64 numbers are compared at "
        "+-2e-6 (traces) / 1e-9 relative (replay) / 1e-12 relative (merge routine)",
        "a block of one sample has no unbiased variance: the merge must treat (len-1)*var as 0 for it; results are "
        "compared wherever one pass is defined (mean for N >= 1, variance and std_error for N >= 2)",
    ]
    return chk.finish()


def replay(path):
    """./check C13 --replay <file>: re-run one stored failing input against the working tree."""
    with open(path) as fh:
        blob = json.load(fh)
    d = blob["detail"].get("smallest") or {}
    repro = d.get("repro")
    if repro is None:
        print("C13 replay: %s holds no input (specification-level finding)" % path)
        return 2
    t, lines = sr.rerun(repro)
    print("\n".join(lines))
    if not len(t):
        print("C13 replay: the input agrees with the specification")
        return 0
    for (key, what), it in sorted(t.items.items()):
        print("VIOLATION property=C13 replay=%s" % path)
        print("  key=%s" % key)
        print("  " + (what + " " + json.dumps(it["detail"], default=str))[:600])
    return 1
