"""C02 - The reconstructed density matrix is always a physical state.

spec/PurifRBM.tla DEFINES rho by purification (rho = sum_a Psi(.,a) Psi(.,a)^dagger, a Gram
matrix, hence Hermitian and PSD) on the exact lattice and TLC checks modulo three primes that
the closed form the code implements equals it entry for entry (PartialTrace), that the closed
form is Hermitian, that the diagonal is the probability the model reports and samples from
(Diagonal, Marginal) and that the trace is the normalisation (TraceIsZ).  Every lattice point
is replayed into DensityMatrix: all call forms of rho, probability, normalisation, pi and the
two gamma functions are compared with exactly evaluated terms; Hermiticity, eigenvalues and
trace are asserted on the code's own matrix as well.
"""
import math
import random
from fractions import Fraction

import mpmath
import numpy as np
import torch

import bigbatch
import common
import lattice
import terms
import tlc

PID = "C02"
qucumber = common.import_qucumber()
from qucumber.utils import cplx  # noqa: E402


def gfac(B, es, fs):
    """exact Gaussian rational PROD_k (1 + B^e[k] * i^f[k]) as a pair of Fractions"""
    re, im = Fraction(1), Fraction(0)
    for e, f in zip(es, fs):
        m = Fraction(B) ** e
        ur, ui = [(1, 0), (0, 1), (-1, 0), (0, -1)][f % 4]
        tr, ti = 1 + m * ur, m * ui
        re, im = re * tr - im * ti, re * ti + im * tr
    return re, im


def exact_rho(e):
    """mpmath complex matrix of the unnormalised rho from the exported structure"""
    pt = e["pt"]
    B, nv = pt["B"], pt["nv"]
    n = 2 ** nv
    A = [terms.fac(B, r["k"], r["ms"]) for r in e["A"]]
    Hm = [terms.fac(B, 0, ms) for ms in e["Hm"]]
    rho = [[None] * n for _ in range(n)]
    for i in range(n):
        for j in range(n):
            gr, gi = gfac(B, e["G"][i][j]["e"], e["G"][i][j]["f"])
            g = mpmath.mpc(terms.mpf(gr), terms.mpf(gi))
            ph = terms.cis(terms.ln(Hm[i] / Hm[j]) / 2) * terms.ipow(e["tb"][i] - e["tb"][j])
            rho[i][j] = terms.sqrt(A[i] * A[j]) * ph * g
    return rho, A, Hm


def cancels(g):
    """a factor 1 + B^e i^f that vanishes exactly (e = 0, i^f = -1): the code evaluates |1 + e^z| as
    sqrt(1 + 2 e^x cos(phi) + e^2x), whose rounding noise is ~sqrt(machine eps) = 1.5e-8 there"""
    return any(e == 0 and f % 4 == 2 for e, f in zip(g["e"], g["f"]))


def cclose(got_re, got_im, want, scale, rel):
    tol = rel * scale + mpmath.mpf(10) ** -300
    return abs(mpmath.mpf(got_re) - want.real) <= tol and abs(mpmath.mpf(got_im) - want.imag) <= tol


_HELD = {}


class _WrongShape(Exception):
    pass


def shaped(chk, key, det, t, want):
    """the documented shape of a result (call forms rely on the published defaults: rho / pi / gamma expand to the full
    matrix unless told otherwise); anything else is reported and ends the replay of this point"""
    chk.evaluations += 1
    if not torch.is_tensor(t) or tuple(t.shape) != tuple(want):
        chk.violation(key + ":shape", dict(det, expected=list(want), got=list(t.shape) if torch.is_tensor(t) else repr(type(t))))
        raise _WrongShape(key)
    return t


def replay(chk, e, n, key="lattice"):
    try:
        _replay(chk, e, n, key)
    except _WrongShape:
        pass


def _replay(chk, e, n, key="lattice"):
    pt = e["pt"]
    B, nv, nh, na = pt["B"], pt["nv"], pt["nh"], pt["na"]
    N = 2 ** nv
    rel = 1e-9 + (nh + na) * 2.1e-9        # torch softplus threshold, see C01
    det = dict(point=pt)
    st = lattice.density_state(pt)
    sp = lattice.space(nv)
    rho, A, Hm = exact_rho(e)
    diag = [rho[i][i].real for i in range(N)]
    if max(abs(x) for x in diag) > mpmath.mpf(10) ** 290:
        chk.extra["unrepresentable"] = chk.extra.get("unrepresentable", 0) + 1
        return
    Z = sum(diag)
    full = shaped(chk, key + ":rho[full]", det, st.rho(sp, sp), (2, N, N))
    # a result belongs to the caller: the matrix obtained for the PREVIOUS parameter setting of the same shape, still held,
    # keeps its values when another one is computed (two models compared side by side, a matrix gathered element by element)
    held = _HELD.get(("full", N))
    if held is not None and not torch.equal(held[0], held[1]):
        chk.violation(key + ":rho[full]:earlier-result-overwritten", dict(det, note="the tensor returned for the previous point changed"))
    _HELD[("full", N)] = (full, full.clone())
    ok = True
    for i in range(N):
        for j in range(N):
            chk.evaluations += 1
            scale = mpmath.sqrt(diag[i] * diag[j])
            if not cclose(full[0, i, j].item(), full[1, i, j].item(), rho[i][j], scale,
                          1e-7 if cancels(e["G"][i][j]) else rel):
                chk.violation(key + ":rho[full]", dict(det, i=i, j=j, got=[full[0, i, j].item(), full[1, i, j].item()],
                                                         expected=[mpmath.nstr(rho[i][j].real, 17), mpmath.nstr(rho[i][j].imag, 17)]))
                ok = False
                break
        if not ok:
            break
    # rho(space) with vp = None is rho(space, space)
    chk.evaluations += 1
    if not torch.equal(shaped(chk, key + ":rho[vp=None]", det, st.rho(sp), (2, N, N)), full):
        chk.violation(key + ":rho[vp=None]", det)
    # paired form: element i of the result is rho(v_i, vp_i)
    idx_i = [i for i in range(N) for _ in range(N)]
    idx_j = [j for _ in range(N) for j in range(N)]
    pair = shaped(chk, key + ":rho[expand=False]", det, st.rho(sp[idx_i], sp[idx_j], expand=False), (2, N * N))
    for form, cur in (("pair", pair),):
        held = _HELD.get((form, N))
        if held is not None and not torch.equal(held[0], held[1]):
            chk.violation(key + ":rho[expand=False]:earlier-result-overwritten", dict(det))
        _HELD[(form, N)] = (cur, cur.clone())
    for t, (i, j) in enumerate(zip(idx_i, idx_j)):
        chk.evaluations += 1
        scale = mpmath.sqrt(diag[i] * diag[j])
        if not cclose(pair[0, t].item(), pair[1, t].item(), rho[i][j], scale, 1e-7 if cancels(e["G"][i][j]) else rel):
            chk.violation(key + ":rho[expand=False]", dict(det, i=i, j=j, got=[pair[0, t].item(), pair[1, t].item()],
                                                             expected=[mpmath.nstr(rho[i][j].real, 17), mpmath.nstr(rho[i][j].imag, 17)]))
            break
    # single element (1-D call form)
    i, j = n % N, (n // N) % N
    one = st.rho(sp[i], sp[j])
    held = _HELD.get(("one", 0))
    if held is not None and not torch.equal(held[0], held[1]):
        chk.violation(key + ":rho[1-D]:earlier-result-overwritten", dict(det))
    _HELD[("one", 0)] = (one, one.clone())
    chk.evaluations += 1
    if one.numel() != 2 or not cclose(one.reshape(-1)[0].item(), one.reshape(-1)[1].item(), rho[i][j],
                                      mpmath.sqrt(diag[i] * diag[j]), 1e-7 if cancels(e["G"][i][j]) else rel):
        chk.violation(key + ":rho[1-D]", dict(det, i=i, j=j, got=one.tolist()))
    # diagonal = reported probability = what sampling targets (aux-traced marginal)
    prob = shaped(chk, key + ":probability", det, st.probability(sp), (N,))
    dform = shaped(chk, key + ":rho[diag-form]", det, st.rho(sp, expand=False), (2, N))
    for i in range(N):
        chk.evaluations += 1
        if not terms.close(prob[i].item(), diag[i], rel=rel):
            chk.violation(key + ":diagonal-vs-probability", dict(det, i=i, got=prob[i].item(), expected=mpmath.nstr(diag[i], 17)))
            break
        if dform[0, i].item() != prob[i].item() or dform[1, i].item() != 0.0:
            chk.violation(key + ":rho[diag-form]", dict(det, i=i))
            break
        if not terms.close(full[0, i, i].item(), diag[i], rel=rel):
            chk.violation(key + ":rho[full]-diagonal", dict(det, i=i))
            break
    # batches are lists of samples: more rows than basis states, repeats, any order; rectangular rho(v, vp)
    r = random.Random(n)
    li = [r.randrange(N) for _ in range(N + 1 + n % (N + 3) if n % 8 else bigbatch.size(n // 8))]
    lj = [r.randrange(N) for _ in range(1 + n % (2 * N + 1))]
    lprob = shaped(chk, key + ":probability[long-batch]", det, st.probability(sp[li]), (len(li),))
    lrho = st.rho(sp[li], sp[lj])
    for t in (0, len(li) - 1, r.randrange(len(li))):
        chk.evaluations += 2
        if not terms.close(lprob[t].item(), diag[li[t]], rel=rel):
            chk.violation(key + ":probability[long-batch]", dict(det, row=t, rows=len(li), state=li[t], got=lprob[t].item(),
                                                                   expected=mpmath.nstr(diag[li[t]], 17)))
            break
        u = r.randrange(len(lj))
        i, j = li[t], lj[u]
        if tuple(lrho.shape) != (2, len(li), len(lj)) or not cclose(
                lrho[0, t, u].item(), lrho[1, t, u].item(), rho[i][j], mpmath.sqrt(diag[i] * diag[j]),
                1e-7 if cancels(e["G"][i][j]) else rel):
            chk.violation(key + ":rho[rectangular]", dict(det, i=i, j=j, shape=list(lrho.shape)))
            break
    chk.evaluations += 2
    if not terms.close(st.normalization(sp).item(), Z, rel=rel):
        chk.violation(key + ":normalization", dict(det, got=st.normalization(sp).item(), expected=mpmath.nstr(Z, 17)))
    tr = sum(full[0, i, i].item() for i in range(N))
    if not terms.close(tr, Z, rel=rel):
        chk.violation(key + ":trace", dict(det, got=tr, expected=mpmath.nstr(Z, 17)))
    # factors (so that a rejection names the faulty one): exp(pi) = G, gamma+ = ln(A A')/2, gamma- = phase part
    pi_ = shaped(chk, key + ":pi", det, st.pi(sp, sp), (2, N, N))
    # (eta left out is +1: the amplitude network's call form)
    gp = shaped(chk, key + ":gamma+", det, st.rbm_am.gamma(sp, sp) if n % 2 else st.rbm_am.gamma(sp, sp, eta=+1), (N, N))
    gm = shaped(chk, key + ":gamma-", det, st.rbm_ph.gamma(sp, sp, eta=-1), (N, N))
    for i in range(N):
        for j in range(N):
            gr, gi = gfac(B, e["G"][i][j]["e"], e["G"][i][j]["f"])
            g = mpmath.mpc(terms.mpf(gr), terms.mpf(gi))
            got = mpmath.exp(mpmath.mpf(pi_[0, i, j].item())) * terms.cis(mpmath.mpf(pi_[1, i, j].item()))
            chk.evaluations += 3
            gscale = mpmath.sqrt(terms.mpf(gfac(B, e["G"][i][i]["e"], e["G"][i][i]["f"])[0])
                                 * terms.mpf(gfac(B, e["G"][j][j]["e"], e["G"][j][j]["f"])[0]))
            if abs(got - g) > (1e-7 if cancels(e["G"][i][j]) else 1e-9 + na * 2.1e-9) * gscale:
                chk.violation(key + ":pi", dict(det, i=i, j=j, got=[pi_[0, i, j].item(), pi_[1, i, j].item()],
                                                  expected_exp=[mpmath.nstr(g.real, 17), mpmath.nstr(g.imag, 17)]))
                return
            want = terms.ln(A[i] * A[j]) / 2
            if not terms.close(gp[i, j].item(), want, rel=1e-12, abs_=nh * 2.1e-9 + 1e-12):
                chk.violation(key + ":gamma+", dict(det, i=i, j=j, got=gp[i, j].item(), expected=mpmath.nstr(want, 17)))
                return
            want = terms.ln(Hm[i] / Hm[j]) / 2 + mpmath.pi * (e["tb"][i] - e["tb"][j]) / 2
            if not terms.close(gm[i, j].item(), want, rel=1e-12, abs_=nh * 2.1e-9 + 1e-11):
                chk.violation(key + ":gamma-", dict(det, i=i, j=j, got=gm[i, j].item(), expected=mpmath.nstr(want, 17)))
                return
    physical(chk, st, sp, det, key, cancel=any(cancels(g) for row in e["G"] for g in row))


def physical(chk, st, sp, det, key, cancel=False):
    """necessary conditions on the code's own matrix: Hermitian, PSD, trace = normalisation.
    Tolerances follow from the entry accuracy: every entry is accurate to `rel` relative to
    sqrt(rho_ii rho_jj) <= trace, with rel = 1e-9 + (nh+na)*2.1e-9 (torch's softplus threshold: rho goes
    through softplus for the hidden units and through an exact log for the auxiliary units, probability /
    normalisation through softplus for both), 1e-7 where a factor 1+e^z cancels exactly; an eigenvalue
    moves by at most N times that (Gershgorin)."""
    M = cplx.numpy(st.rho(sp, sp))
    tr = float(np.trace(M).real)
    chk.evaluations += 3
    if not np.isfinite(M).all() or tr <= 0 or tr > 1e290:
        chk.extra["unrepresentable"] = chk.extra.get("unrepresentable", 0) + 1
        return
    N = M.shape[0]
    rel = 1e-9 + (int(st.num_hidden) + int(st.num_aux)) * 2.1e-9 + (1e-7 if cancel else 0.0)
    if np.abs(M - M.conj().T).max() > 1e-12 * tr:
        chk.violation(key + ":not-hermitian", dict(det, asym=float(np.abs(M - M.conj().T).max()), trace=tr))
    w = np.linalg.eigvalsh((M + M.conj().T) / 2 / tr)
    if w.min() < -2 * N * rel:
        chk.violation(key + ":not-psd", dict(det, min_eig_over_trace=float(w.min()), allowed=-2 * N * rel))
    z = st.normalization(sp).item()
    if abs(tr - z) > 2 * rel * abs(z):
        chk.violation(key + ":trace-vs-normalization", dict(det, trace=tr, normalization=z))
    p = st.probability(sp).numpy()
    if np.abs(np.diag(M).real - p).max() > 2 * rel * tr:
        chk.violation(key + ":diagonal-vs-probability", dict(det))


def many_sites(chk, rng, tier):
    """Beyond the exhaustive bound in the number of SITES: 13 visible units (8192 basis states), small lattice
    parameters; normalisation, reported probabilities and sampled matrix elements against the defining sums
    (partial trace over the auxiliary units written out) evaluated with 50 digits."""
    for rep in range(1 if tier == "quick" else 3):
        pt = lattice.random_purif_point(rng, nvmax=1, nhmax=1, namax=1, small=True)
        nv = 13
        pt["nv"] = nv
        g = lambda: lattice.nz(rng, 1)  # noqa: E731
        for name in ("W", "Wm", "u", "um"):
            pt[name] = [[g() for _ in range(nv)]]
        pt["b"] = [g() for _ in range(nv)]
        pt["bmm"] = [g() for _ in range(nv)]
        B = mpmath.mpf(pt["B"])
        W, b, c, u, dd = pt["W"][0], pt["b"], pt["c"][0], pt["u"][0], pt["dd"][0]

        def diag(v):      # rho(v, v) = e^{b.v} (1 + e^{c + W.v}) (1 + e^{2 (dd + u.v)})     (U = 2u, d = 2dd)
            return (B ** sum(b[i] * v[i] for i in range(nv)) * (1 + B ** (c + sum(W[i] * v[i] for i in range(nv))))
                    * (1 + B ** (2 * (dd + sum(u[i] * v[i] for i in range(nv))))))
        rows = [[(k >> (nv - 1 - i)) & 1 for i in range(nv)] for k in range(2 ** nv)]
        ds = [diag(v) for v in rows]
        Z = mpmath.fsum(ds)
        st = lattice.density_state(pt)
        sp = st.generate_hilbert_space(nv)
        det = dict(point={k: (v if not isinstance(v, list) or len(str(v)) < 200 else "...") for k, v in pt.items()}, many_sites=True)
        chk.evaluations += 3
        if not terms.close(st.normalization(sp).item(), Z, rel=1e-9):
            chk.violation("lattice:normalization[13 sites]", dict(det, got=st.normalization(sp).item(), expected=mpmath.nstr(Z, 17)))
        prob = st.probability(sp)
        if not terms.close(prob.sum().item(), Z, rel=1e-9):
            chk.violation("lattice:trace[13 sites]", dict(det, got=prob.sum().item(), expected=mpmath.nstr(Z, 17)))
        for k in (0, 4095, 4096, 4097, 2 ** nv - 1, rng.randrange(2 ** nv)):
            chk.evaluations += 2
            if not terms.close(prob[k].item(), ds[k], rel=1e-9):
                chk.violation("lattice:probability[13 sites]", dict(det, state=k, got=prob[k].item(), expected=mpmath.nstr(ds[k], 17)))
            one = st.rho(sp[k], sp[k]).reshape(-1)
            if not terms.close(one[0].item(), ds[k], rel=1e-9) or abs(one[1].item()) > 1e-9 * float(ds[k]):
                chk.violation("lattice:rho[13 sites]", dict(det, state=k, got=one.tolist(), expected=mpmath.nstr(ds[k], 17)))
        chk.nontriv(("many-sites", rep))


def run(tier, seed):
    chk = common.Check(PID, tier, seed)
    lattice.REUSE = True          # parameter settings reached on live objects, by every route (see lattice.py)
    rng = random.Random(seed)
    quick = tier == "quick"
    chk.rule = ("purification lattice points (all parameters incl. visible/hidden/auxiliary biases non-zero, phase "
                "auxiliary bias 0): exhaustive tiny architectures + seeded points nv,nh,na in 1..4 (1..3 quick), "
                "|theta| up to ~30; TLC checks PartialTrace/Hermitian/Diagonal/TraceIsZ/Marginal mod 3 primes; "
                "every point replayed into DensityMatrix (all pairs of basis states, expand=True/False/1-D); "
                "non-trivial = every point")
    pts = [lattice.random_purif_point(rng, nvmax=3 if quick else 4, nhmax=3 if quick else 4, namax=3 if quick else 4, strong=True)
           for _ in range(150 if quick else 2000)]
    pf = lattice.PointsFile(pts)
    try:
        res = tlc.run("PurifRBM", constants={"TMax": 1800, "Lanes": 32},
                      defs={"Archs": "{<<1,1,1,2>>, <<2,1,1,3>>}" if quick else "{<<1,1,1,2>>, <<2,1,1,3>>, <<1,2,1,2>>, <<1,1,2,3>>}",
                            "Vals": "{-1, 1, 2}" if quick else "{-2, -1, 1, 2}"},
                      invariants=["WellDefined", "Marginal", "PartialTrace", "Hermitian", "Diagonal", "TraceIsZ", "Export"],
                      env={"POINTS_FILE": pf.path}, workers=16, timeout=3400)
    finally:
        pf.close()
    chk.add_tlc(res, "PurifRBM.tla PartialTrace/Hermitian/Diagonal/TraceIsZ/Marginal")
    if res.violation == "WellDefined":
        raise common.MachineryError("lattice bound exceeded\n" + res.raw[-2000:])
    if res.violation:
        chk.violation("spec:" + str(res.violation), dict(tlc=res.raw[-4000:]))
        return chk.finish()
    exps = res.exports
    if len({e["idx"] for e in exps if e["idx"] > 0}) != len(pts):
        raise common.MachineryError("TLC did not handle every supplied point")
    # TLC checks the identities at EVERY enumerated point; a seeded sample of them is replayed into the code
    enum = [e for e in exps if e["idx"] == 0]
    chk.extra["enumerated_points_checked_by_tlc"] = len(enum)
    exps = [e for e in exps if e["idx"] > 0] + rng.sample(enum, min(250 if quick else 4000, len(enum)))
    for n, e in enumerate(exps):
        replay(chk, e, n)
        chk.nontriv(str(e["pt"]))
        if n % 120 == 1:
            chk.sample(dict(point=e["pt"], G_01=e["G"][0][-1], A_0=e["A"][0]))
    # negative control: the auxiliary bias dropped from the expected G must be flagged
    ctl = common.Check(PID, tier, seed)
    e = next(x for x in exps if x["pt"]["nv"] >= 1)
    import copy
    bad = copy.deepcopy(e)
    for row in bad["G"]:
        for g in row:
            g["e"] = [x - 2 * d for x, d in zip(g["e"], bad["pt"]["dd"])]
    replay(ctl, bad, 0)
    chk.control(len(ctl.violations) > 0, "expected rho without the auxiliary bias compared equal")
    bad = copy.deepcopy(e)
    for i, row in enumerate(bad["G"]):
        for j, g in enumerate(row):
            g["f"] = [-x for x in g["f"]]                   # conjugated G = transposed rho
    if any(any(f % 4 in (1, 3) for f in g["f"]) for row in e["G"] for g in row):
        replay(ctl, bad, 0)
        chk.control(any(k.endswith(("rho[full]", "pi")) for k, _ in ctl.violations), "transposed rho compared equal")
    # auxiliary: necessary conditions at non-lattice real parameters (magnitudes to 30)
    torch.manual_seed(seed)
    for i in range(40 if quick else 600):
        nv, nh, na = rng.randint(1, 3 if quick else 4), rng.randint(1, 4), rng.randint(1, 4)
        st = lattice.DensityMatrix(nv, nh, na, gpu=False)
        mag = rng.choice([0.5, 1.0, 3.0, 10.0, 30.0 / (nv + 1)])
        with torch.no_grad():
            for net in (st.rbm_am, st.rbm_ph):
                for name, p in net.named_parameters():
                    p.copy_((torch.rand_like(p) * 2 - 1) * mag)
            st.rbm_ph.aux_bias.zero_()
        physical(chk, st, lattice.space(nv), dict(non_lattice=True, nv=nv, nh=nh, na=na, mag=mag, seed=seed, i=i), "real-params")
    many_sites(chk, rng, tier)
    chk.extra["points_replayed"] = len(exps)
    chk.assumptions += ["lattice: amplitude W,b,c in ln(B)Z, U,d in 2ln(B)Z; phase W,c in ln(B)Z, U,b in pi*Z, aux bias 0",
                        "PSD follows from the Gram definition whose closed form TLC checks entrywise; at non-lattice "
                        "parameters only necessary conditions (Hermitian, eigenvalues, trace) are asserted",
                        "tolerance 1e-9 + (nh+na)*2.1e-9 relative to sqrt(rho_ii rho_jj) (torch softplus threshold)"]
    return chk.finish()
