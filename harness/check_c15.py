"""C15 - The complex-tensor kernel agrees with complex arithmetic.

spec/Cplx.tla (+ CplxArith.tla) states every function of qucumber/utils/cplx.py by its index formula over
Gaussian integers / Gaussian rationals, with Defined(op, shapes) from the documented contract.  TLC enumerates
function x shapes (dims 1..3, rank <= 3; rank 4 for the batched einsums) x operand families (unit tensors
e_k / i e_k, seeded generic tensors, scalars exhaustively over {-2..2}^2) and checks the algebraic laws
(sesquilinearity of <x|y>, (A(x)B)(C(x)D) = AC(x)BD, (AB)^H = B^H A^H, z inverse(z) = 1, einsum-reshape = kron,
|x><y| = x y^H, (x/y) y = x, sigmoid(z) + sigmoid(-z) = 1, ...) on every case, so the transcription is not
merely trusted.  Every case is exported with its exact expected value and replayed into the real functions.
"""
import concurrent.futures
import copy
import json
import random
import re
import warnings

import common
import tlc
import cplx_bind as cb

PID = "C15"

INVARIANTS = ["TypeOK", "EncodeLaw", "InnerConjLinear", "InnerNormSqr", "NormLaw", "KronMixedProduct",
              "EinsumKron", "ConjugateAntiHom", "MatMulEinsum", "OuterAsMatmul", "InverseLaw", "DivisionLaw",
              "ConjLaws", "EinsumLaws", "SigmoidLaw"]
EXPORT = 'MC_Export == pc = "Done" => PrintT(ToJson(ExportRec))'

# transcription faults planted in the SPECIFICATION (constant Fault): (fault, the law that must catch it, the
# functions whose shards are explored).  Each run checks that ONE law only, so every listed law is shown to bite.
FAULTS = {
    "gmul-sign": "imaginary part of the product with the wrong sign",
    "inverse-no-conj": "inverse without conjugation",
    "inner-conj-side": "inner product conjugating the second argument",
    "outer-conj-side": "outer product conjugating the first argument",
    "kron-no-interleave": 'Kronecker product as "ab,cd->abcd" reshaped',
    "conjugate-no-swap": "conjugate that does not transpose",
}
FAULT_RUNS = [
    ("inner-conj-side", "InnerConjLinear", {"law_inner"}),
    ("kron-no-interleave", "KronMixedProduct", {"law_kron"}),
    ("conjugate-no-swap", "ConjugateAntiHom", {"matmul"}),
    ("inverse-no-conj", "InverseLaw", {"inverse"}),
    ("outer-conj-side", "OuterAsMatmul", {"outer_prod"}),
    # thorough tier only
    ("kron-no-interleave", "EinsumKron", {"kronecker_prod"}),
    ("inverse-no-conj", "DivisionLaw", {"scalar_divide"}),
    ("gmul-sign", "SigmoidLaw", {"sigmoid"}),
    ("gmul-sign", "InverseLaw", {"inverse"}),
    ("conjugate-no-swap", "ConjLaws", {"conjugate"}),
    ("gmul-sign", "InnerNormSqr", {"inner_prod"}),
]


def seeds_of(seed, n):
    rng = random.Random(seed)
    out = set()
    while len(out) < n:
        out.add(rng.randrange(0, 60))
    return sorted(out)


def model_check(tier, seed, fault="", export=True, workers=8, timeout=1700, invariants=None, only=()):
    big = tier == "thorough"
    seeds = seeds_of(seed, 3 if big else 1)
    return tlc.run("Cplx", constants={"UMax": 27 if big else 4, "Big": big, "Fault": fault, "OnlyOps": set(only)},
                   defs={"Seeds": "{" + ", ".join(map(str, seeds)) + "}"},
                   invariants=list(invariants or INVARIANTS) + (["MC_Export"] if export else []),
                   extends_extra=["Json"], extra_text=EXPORT if export else "",
                   workers=workers, heap="4g", timeout=timeout, seed=seed), seeds


def replay_cases(chk, cplx, recs):
    """Run every exported case through the library; returns the cases on which it agrees with the spec."""
    good = []
    for n, rec in enumerate(recs):
        layout = 1 if n % 3 == 2 else 0
        out = cb.call(cplx, rec, layout)
        chk.evaluations += 1
        verdict = cb.judge(rec, out)
        if verdict is not None and layout == 1:
            # a strided operand is only a different memory layout of the same values: tell the two apart
            v0 = cb.judge(rec, cb.call(cplx, rec, 0))
            if v0 is None:
                verdict = (verdict[0] + ":strided-operands-only", verdict[1])
        if verdict is None:
            good.append(rec)
        else:
            chk.violation(cb.key(rec, verdict[0]), dict(case=rec, what=verdict[0], detail=verdict[1],
                                                        reproducer=cb.reproducer(rec)))
        chk.nontriv((rec["op"], rec["cls"], rec["def"], tuple(rec["opt"][0]), json.dumps(rec["sh"])))
    return good


def out_variants(chk, cplx, good):
    """Every accepted scalar_mult case once more with an out= buffer (written AND returned) and with the
    buffer aliasing an operand (refused) - in particular when an operand is the library's own constant
    cplx.I, a combination the enumerated option table does not contain."""
    import copy
    n = 0
    for rec in good:
        if rec["op"] != "scalar_mult" or rec["def"] != "ok" or rec["opt"][1][0] != "none":
            continue
        if "I" not in rec["opt"][0] and n % 7:
            n += 1
            continue
        n += 1
        for how, want in (("fresh", "ok"), ("x", "RuntimeError"), ("y", "RuntimeError")):
            r2 = copy.deepcopy(rec)
            r2["opt"][1][0] = how
            r2["def"] = want
            if how != "fresh":
                fam = r2["opt"][0]
                # the buffer must have the result's shape for the aliasing case to be meaningful
                if json.dumps(r2["sh"][0 if how == "x" else 1]) != json.dumps(r2["exp"]["shape"][1:] if isinstance(r2["exp"], dict) and "shape" in r2["exp"] else r2["sh"][0]):
                    pass
            out = cb.call(cplx, r2, 0)
            chk.evaluations += 1
            verdict = cb.judge(r2, out)
            if verdict is not None:
                chk.violation(cb.key(r2, verdict[0]) + ":out-variant", dict(case=r2, what=verdict[0], detail=verdict[1],
                                                                            reproducer=cb.reproducer(r2)))


BILINEAR = {"scalar_mult": lambda c, a: c.scalar_mult(a[0], a[1]), "elementwise_mult": lambda c, a: c.elementwise_mult(a[0], a[1]),
            "matmul": lambda c, a: c.matmul(a[0], a[1]), "inner_prod": lambda c, a: c.inner_prod(a[0], a[1]),
            "outer_prod": lambda c, a: c.outer_prod(a[0], a[1]), "kronecker_prod": lambda c, a: c.kronecker_prod(a[0], a[1]),
            "einsum": None}


def live_operands(chk, cplx, good):
    """The products are bilinear: the SAME operand objects, the first doubled in place between two calls, give exactly
    twice the first result (a power of two: no rounding) - and the first result, still held by the caller, keeps
    its value.  Nothing a call remembers about tensor objects it has seen may show."""
    import torch
    n = 0
    for rec in good:
        if rec["def"] != "ok" or rec["op"] not in BILINEAR or "I" in rec["opt"][0]:
            continue
        if rec["op"] == "scalar_mult" and rec["opt"][1][0] != "none":
            continue
        if rec["kind"] == "none":        # an einsum asked for neither part returns nothing
            continue
        n += 1
        if n % 5:
            continue
        a = [cb.tens(e, 0) for e in rec["args"]]
        f = BILINEAR[rec["op"]] or (lambda c, aa, _r=rec: c.einsum(cb.eq_string(_r["opt"]), aa[0], aa[1],
                                                                    real_part="r" in _r["opt"][4], imag_part="i" in _r["opt"][4]))
        try:
            v1 = f(cplx, a)
            held = v1.clone()
            a[0].mul_(2.0)
            v2 = f(cplx, a)
        except Exception as ex:      # noqa: BLE001
            chk.violation(cb.key(rec, "live-operands:raised"), dict(case=rec, raised=repr(ex)))
            continue
        chk.evaluations += 1
        if not torch.equal(v1, held):
            chk.violation(cb.key(rec, "live-operands:earlier-result-changed"), dict(case=rec, reproducer=cb.reproducer(rec)))
        elif v2.shape != held.shape or not torch.equal(v2, held * 2.0):
            chk.violation(cb.key(rec, "live-operands:second-call"), dict(case=rec, first=held.tolist(), second=v2.tolist(),
                                                                      note="first operand doubled in place between the calls"))


def wide_values(chk, cplx, good):
    """Mixed precision: the library's constant cplx.I is a float32 tensor, the operand next to it is float64.  The
    kernel converts the SECOND operand to the first one's type, which is exact for the constant - so the result is
    what complex arithmetic gives on the decoded operands to full double precision.  Operand values here are the
    exported Gaussian integers times 2^24 + 1 (exact in float64, not representable in float32): an implementation
    that computes in the precision of the constant shows."""
    import torch
    S = float(2 ** 24 + 1)
    for rec in good:
        fam = rec["opt"][0]
        if rec["def"] != "ok" or len(fam) != 2 or fam[1] != "I" or fam[0] == "I":
            continue
        if rec["op"] == "scalar_mult" and rec["opt"][1][0] != "none":
            continue
        f = LINEAR_IN_FIRST.get(rec["op"])
        if f is None:
            continue
        x = cb.tens(rec["args"][0], 0)
        try:
            v1 = f(cplx, [x, cplx.I])
            v2 = f(cplx, [x * S, cplx.I])
        except Exception as ex:      # noqa: BLE001
            chk.violation(cb.key(rec, "wide-values:raised"), dict(case=rec, raised=repr(ex)))
            continue
        chk.evaluations += 1
        if v2.dtype != torch.float64 or v2.shape != v1.shape or not torch.equal(v2, v1.to(torch.float64) * S):
            chk.violation(cb.key(rec, "wide-values"), dict(case=rec, scale="2^24+1", dtype=str(v2.dtype), got=v2.tolist(),
                                                          expected=(v1.to(torch.float64) * S).tolist(),
                                                          reproducer=cb.reproducer(rec)))
        chk.nontriv(("wide-values", rec["op"]))


LINEAR_IN_FIRST = dict({k: v for k, v in BILINEAR.items() if v is not None},
                       elementwise_division=lambda c, a: c.elementwise_division(a[0], a[1]),
                       scalar_divide=lambda c, a: c.scalar_divide(a[0], a[1]))


class Patched:
    """The library module with some attributes replaced (negative controls only)."""

    def __init__(self, mod, **over):
        self._mod, self._over = mod, over

    def __getattr__(self, name):
        if name in self._over:
            return self._over[name]
        return getattr(self._mod, name)


def controls(chk, cplx, recs):
    """Corrupt expected values / contracts of ACCEPTED cases; the comparator must reject each.
    (With a defective library a base case may be missing: that control is skipped - the run fails anyway.)"""
    class NoBase(Exception):
        pass

    def first(pred):
        for r in recs:
            if pred(r):
                return copy.deepcopy(r)
        if chk.violations:
            raise NoBase()
        raise common.MachineryError("no accepted base case for a negative control")

    def rejected(rec, lib=cplx):
        return cb.judge(rec, cb.call(lib, rec, 0)) is not None

    def off_by_one(kind):
        # one entry of the expected value off by one unit
        r = first(lambda r: r["def"] == "ok" and r["kind"] == kind and r["op"] not in ("law_inner", "law_kron"))
        r["exp"]["num" if kind in ("q", "qs") else "val"][-1] += 1
        chk.control(rejected(r), "expected %s value off by one accepted (%s)" % (kind, r["op"]))

    def small_relative_error():
        # relative error 1e-9 in a division-type result (the tolerance is 1e-12)
        r = first(lambda r: r["op"] == "inverse" and r["def"] == "ok")
        r["exp"]["num"] = [v * 10 ** 9 + 1 for v in r["exp"]["num"]]
        r["exp"]["den"] = [v * 10 ** 9 for v in r["exp"]["den"]]
        chk.control(rejected(r), "division-type result off by 1e-9 relative accepted")

    def kron_entries_exchanged():
        # (1x2) (x) (2x1): the two off-diagonal entries exchanged, shape kept
        r = first(lambda r: r["op"] == "kronecker_prod" and r["def"] == "ok" and r["sh"] == [[1, 2], [2, 1]]
                  and r["opt"][0] == ["g", "g"])
        v = r["exp"]["val"]
        r["exp"]["val"] = [v[0], v[2], v[1], v[3], v[4], v[6], v[5], v[7]]
        chk.control(rejected(r), "Kronecker product with two entries exchanged accepted")

    def contract_flipped():
        r = first(lambda r: r["def"] == "ValueError" and r["op"] == "outer_prod")
        r2 = first(lambda r: r["def"] == "ok" and r["op"] == "outer_prod")
        r["def"], r["kind"], r["exp"] = "ok", "g", r2["exp"]
        chk.control(rejected(r), "raising call accepted as defined")
        r2["def"] = "ValueError"
        chk.control(rejected(r2), "returned value accepted where an exception is documented")
        r = first(lambda r: r["def"] == "ValueError")
        r["def"] = "RuntimeError"
        chk.control(rejected(r), "ValueError accepted where RuntimeError is documented")

    def out_buffers():
        # a scalar_mult that ignores `out`, one that fills it but returns a copy, one without the aliasing check
        real_sm = cplx.scalar_mult
        r = first(lambda r: r["op"] == "scalar_mult" and r["opt"][1][0] == "fresh" and r["def"] == "ok")
        chk.control(rejected(r, Patched(cplx, scalar_mult=lambda x, y, out=None: real_sm(x, y))),
                    "scalar_mult ignoring out= accepted")
        chk.control(rejected(r, Patched(cplx, scalar_mult=lambda x, y, out=None: real_sm(x, y, out=out).clone())),
                    "scalar_mult returning a copy of out accepted")

        def no_alias_check(x, y, out=None):
            if out is x or out is y:
                out.copy_(real_sm(x, y))
                return out
            return real_sm(x, y, out=out)
        for how in ("x", "y"):
            r = first(lambda r: r["op"] == "scalar_mult" and r["opt"][1][0] == how and r["sh"][0] == r["sh"][1])
            chk.control(rejected(r, Patched(cplx, scalar_mult=no_alias_check)),
                        "scalar_mult(out is %s) not refused accepted" % how)

    jobs = [lambda k=k: off_by_one(k) for k in ("g", "r", "q", "sqrt", "np", "qs")]
    jobs += [small_relative_error, kron_entries_exchanged, contract_flipped, out_buffers]
    for job in jobs:
        try:
            job()
        except NoBase:
            pass


def spec_faults(tier, seed):
    """Anti-vacuity of the laws: a transcription fault planted in the specification must violate the named law.
    Runs beside the main model-checking run (1 TLC worker each, quick bounds, one function, no export)."""
    runs = FAULT_RUNS if tier == "thorough" else FAULT_RUNS[:5]
    with concurrent.futures.ThreadPoolExecutor(max_workers=4) as ex:
        futs = [(f, law, ex.submit(model_check, "quick", seed, f, False, 1, 600, [law], ops)) for f, law, ops in runs]
        return [(f, law, fu.result()[0].violation) for f, law, fu in futs]


def apply_faults(chk, found):
    for f, law, violated in found:
        chk.control(violated == law, "specification fault '%s' (%s) does not violate %s" % (f, FAULTS[f], law))
    chk.extra["spec_fault_controls"] = ["%s -> %s" % (f, v) for f, law, v in found]


def run(tier, seed):
    chk = common.Check(PID, tier, seed)
    chk.rule = ("TLC enumerates library function x operand shapes (dims 1..3, rank <= 3, rank 4 for the batched "
                "einsums) x operand family (every unit tensor e_k, i e_k; seeded generic tensors with pairwise "
                "distinct entries, re # 0, im # 0; scalars exhaustive over {-2..2}^2) x options (out=, flags, "
                "cplx.I); non-trivial = distinct (function, shape class, shapes, family, defined/rejected) "
                "classes replayed into qucumber.utils.cplx")
    qucumber = common.import_qucumber()   # noqa: F841
    from qucumber.utils import cplx

    with concurrent.futures.ThreadPoolExecutor(max_workers=1) as ex:
        fault_job = ex.submit(spec_faults, tier, seed)
        res, seeds = model_check(tier, seed)
        chk.add_tlc(res, "Cplx.tla: laws + export (%s)" % tier)
        chk.extra["generic_tensor_seeds"] = seeds
        chk.extra["laws"] = INVARIANTS
        if res.violation:
            chk.violation("spec:" + str(res.violation), dict(tlc=res.raw[-4000:]))
            apply_faults(chk, fault_job.result())
            return chk.finish()
        recs = res.exports
        # every non-initial state is exactly one exported case (guards against lost / interleaved output lines)
        m = re.search(r"Finished computing initial states: (\d+) distinct", res.raw)
        if not recs or not m or len(recs) != res.distinct - int(m.group(1)):
            raise common.MachineryError("exported %d cases, TLC found %d states (%s initial)" % (
                len(recs), res.distinct, m and m.group(1)))
        recs.sort(key=lambda r: json.dumps(r, sort_keys=True))
        by = {}
        for r in recs:
            by.setdefault((r["op"], r["def"]), 0)
            by[(r["op"], r["def"])] += 1
        chk.extra["cases"] = {"%s/%s" % k: v for k, v in sorted(by.items())}
        for want in ("ok", "ValueError", "RuntimeError", "error"):
            if not any(r["def"] == want for r in recs):
                raise common.MachineryError("no exported case with def=" + want)
        with warnings.catch_warnings():
            warnings.simplefilter("ignore")     # torch: "creating a tensor from a list of numpy.ndarrays" (sigmoid)
            good = replay_cases(chk, cplx, recs)
            out_variants(chk, cplx, good)
            live_operands(chk, cplx, good)
            wide_values(chk, cplx, good)
            controls(chk, cplx, good)
        for r in recs[:: max(1, len(recs) // 6)][:6]:
            chk.sample(json.dumps(dict(op=r["op"], opt=r["opt"], args=r["args"], defined=r["def"], exp=r["exp"])))
        apply_faults(chk, fault_job.result())
    chk.assumptions += [
        "operand values on the Gaussian-integer lattice (exact in float64); denominators without zero entries",
        "sigmoid arguments on the lattice x = a ln 2, y = b pi/2 (tensors |a| <= 3, -3 <= b <= 4; scalars exhaustive "
        "on that box, thorough tier |a| <= 6, -5 <= b <= 8), poles 1 + e^z = 0 excluded; "
        "division-type and sigmoid results judged to 1e-12 relative to the complex modulus",
        "judged shape classes: those of the docstrings / tests/test_cplx.py (scalar*tensor, equal shapes and "
        "right-aligned broadcasting for scalar_mult; matrix.matrix and matrix.vector for matmul with the vector "
        "second; vectors or scalars for inner_prod; vectors for outer_prod; matrices for kronecker_prod; equal "
        "shapes for elementwise_division; same shape or scalar denominator for scalar_divide; scalars for "
        "norm / norm_sqr); other shape combinations are not judged",
        "inner-dimension / length mismatches (matmul, inner_prod) must raise some exception (class not documented)",
        "operands float64 (every third case as a non-contiguous strided view), cplx.I passed as the object itself",
        "pair_einsum: torch.einsum('c...j,...k->c...jk') as used by DensityMatrix.pi_grad, judged together with "
        "cplx.einsum('...j,...k->...jk') on the same operands",
    ]
    return chk.finish()


def replay(path):
    """./check C15 --replay <file>: re-run one recorded case against the working tree."""
    common.import_qucumber()
    from qucumber.utils import cplx
    with open(path) as fh:
        blob = json.load(fh)
    rec = blob["detail"]["case"]
    verdict = cb.judge(rec, cb.call(cplx, rec, 0))
    print("\n".join(cb.reproducer(rec)))
    if verdict is None:
        print("C15 replay: case agrees with the specification")
        return 0
    print("VIOLATION property=C15 replay=%s" % path)
    print("  key=%s" % cb.key(rec, verdict[0]))
    print("  " + verdict[1][:600])
    return 1
