"""C12 - Training follows the documented event protocol and honours stop requests.

TLC explores spec/Train.tla over every configuration of a bounded space with a
stop injected at every event of the run by every recording callback, checking
Protocol / ParamsOnlyInBatch / ListOrder / StopHonoured / Complete (and the
other Train invariants).  Every terminal behaviour is then replayed into the
real fit(); randomised larger real runs are validated against TraceTrain.tla.
"""
import random

import common
import traincheck as tc
import trainrun

PID = "C12"


def cfg_space(tier):
    pos = '''{ [type |-> "positive", startEp |-> s, epochs |-> e, N |-> nb[1], posB |-> nb[2], negB |-> 0,
       data |-> [i \\in 1..nb[1] |-> i], bases |-> <<>>, sched |-> sc, entryStop |-> es, again |-> "no", perms |-> "id",
       cbs |-> cb, vals |-> <<>>, vars |-> <<>>] :
       s \\in 0..%d, e \\in 0..3, nb \\in %s, sc \\in BOOLEAN, es \\in BOOLEAN,
       cb \\in {<<[t |-> "rec"]>>, <<[t |-> "rec"], [t |-> "rec"]>>%s} }''' % (
        (2, "{<<1,1>>, <<2,1>>, <<3,2>>}", "") if tier == "quick" else
        (3, "{<<1,1>>, <<2,1>>, <<3,2>>, <<3,1>>, <<4,3>>}", ', <<[t |-> "rec"], [t |-> "rec"], [t |-> "rec"]>>'))
    # complex / mixed states: bases required; rows 1 and N are all-Z (code 0)
    other = '''{ [type |-> ty, startEp |-> s, epochs |-> e, N |-> 3, posB |-> pb, negB |-> ngb,
       data |-> <<1, 2, 3>>, bases |-> <<0, 1, 0>>, sched |-> FALSE, entryStop |-> es, again |-> "no", perms |-> "id",
       cbs |-> <<[t |-> "rec"]>>, vals |-> <<>>, vars |-> <<>>] :
       ty \\in {"complex", "density"}, s \\in 1..2, e \\in 1..%d, pb \\in {2, 3}, ngb \\in {0, 1}, es \\in BOOLEAN }''' % (
        2 if tier == "quick" else 3)
    return [pos, other]


def random_cfg(rng):
    typ = rng.choice(["positive", "positive", "complex", "density"])
    N = rng.randint(1, 7)
    nv = rng.randint(2, 3)
    data = [rng.randrange(2 ** nv) for _ in range(N)]
    bases = []
    if typ != "positive":
        bases = [rng.choice([0, 0, rng.randrange(3 ** nv)]) for _ in range(N)]
        bases[rng.randrange(N)] = 0
    s = rng.randint(0, 3)
    cfg = dict(type=typ, startEp=s, epochs=rng.randint(s - 1, s + 3), N=N, posB=rng.randint(1, 4),
               negB=rng.choice([0, 0, 1, 2, 3]), data=data, bases=bases, sched=rng.random() < 0.5,
               entryStop=rng.random() < 0.08, again="no", perms="all",
               cbs=[{"t": "rec"} for _ in range(rng.randint(1, 3))], vals=[], vars=[])
    plan = set()
    for _ in range(rng.choice([0, 1, 1, 2])):
        k = rng.choice(["TS", "ES", "BS", "BE", "EE", "TE"])
        ep = -1 if k in ("TS", "TE") else rng.randint(s, s + 3)
        b = rng.randint(0, 3) if k in ("BS", "BE") else -1
        plan.add((k, ep, b, rng.randint(1, len(cfg["cbs"]))))
    return cfg, plan


def run(tier, seed):
    chk = common.Check(PID, tier, seed)
    rng = random.Random(seed)
    chk.rule = ("TLC: every configuration of the bounded space x a stop injected at every callback event by "
                "every recording callback; non-trivial = terminal behaviour with >= 1 epoch executed; each is "
                "replayed into the real fit() and the event list compared.  Traces: randomised real runs "
                "(unforced draws, up to 2 stop requests, 1-3 callbacks, 3 state types) validated by TraceTrain.tla")
    maxinj = 1 if tier == "quick" else 2
    res = tc.mc(cfg_space(tier), maxinj=maxinj, liveness=(tier == "thorough"),
                timeout=3000 if tier == "thorough" else 600)
    chk.add_tlc(res, "Train.tla exhaustive (MaxInj=%d)" % maxinj)
    if res.violation:
        chk.violation("spec:" + str(res.violation), dict(tlc=res.raw[-4000:]))
        return chk.finish()
    # -- spec -> code: replay every terminal behaviour
    behs = res.exports
    for n, beh in enumerate(behs):
        real = trainrun.real_run(beh["cfg"], plan=trainrun.plan_from_hist(beh["hist"]),
                                 force=trainrun.draws_from_hist(beh["hist"]), seed=seed + n,
                                 time_flag=(n % 5 == 0), k=n % 3)
        tc.compare_run(chk, beh, real, "replay")
        chk.evaluations += 1
        if any(e["k"] == "EE" for e in beh["hist"]):
            chk.nontriv(("beh", n))
        if n % 400 == 7:
            chk.sample(dict(cfg=beh["cfg"], events=[(e["k"], e.get("ep"), e.get("b"), e.get("stop"))
                                                     for e in beh["hist"] if e.get("cb", 1) == 1][:40]))
    # comparator control: a behaviour with one event removed must be flagged
    ctl = common.Check(PID, tier, seed)
    beh = next(b for b in behs if len(b["hist"]) > 6)
    bad = dict(beh, hist=beh["hist"][:3] + beh["hist"][4:])
    real = trainrun.real_run(beh["cfg"], plan=trainrun.plan_from_hist(beh["hist"]),
                             force=trainrun.draws_from_hist(beh["hist"]), seed=seed)
    tc.compare_run(ctl, bad, real, "control")
    chk.control(len(ctl.violations) > 0, "behaviour with a dropped event compared equal")
    # -- code -> spec: randomised real runs, validated as traces
    ntr = 150 if tier == "quick" else 1500
    lines, metas = [], []
    for i in range(ntr):
        cfg, plan = random_cfg(rng)
        real = trainrun.real_run(cfg, plan=plan, seed=rng.randrange(10 ** 6), k=rng.randint(0, 2),
                                 time_flag=rng.random() < 0.3, container=rng.choice(["tensor", "numpy", "list"]))
        if real["error"] is not None:
            chk.violation("trace:exception:" + type(real["error"]).__name__,
                          dict(cfg=cfg, plan=sorted(plan), error=repr(real["error"])))
            continue
        tc.compare_run(chk, dict(cfg=cfg, hist=real["hist"], fin=dict(stop=real["stop"], pver=real["pver"],
                                                                       sched=real["sched"])), real, "trace")
        lines.append(tc.to_trace(cfg, real))
        metas.append(sorted(plan))
    # a run ended by an exception raised in a user callback (Train.tla, again = "abort"): no further event of that
    # run; the next fit() on the same model and callback objects is a run like any other
    for i in range(ntr // 3):
        cfg, plan = random_cfg(rng)
        cfg["again"], cfg["entryStop"] = "abort", False
        k = rng.choice(["TS", "ES", "BS", "BE", "EE", "TE"])
        ep = -1 if k in ("TS", "TE") else rng.randint(cfg["startEp"], cfg["startEp"] + 2)
        b = rng.randint(0, 1) if k in ("BS", "BE") else -1
        rz = ("RZ", k, ep, b, rng.randint(1, len(cfg["cbs"])))
        # the specification's environment does one thing per dispatch: a stop request (by one callback) or a raise
        plan = {p for p in plan if p[:3] != rz[1:4]}
        plan.add(rz)
        real1 = trainrun.real_run(cfg, plan=plan, seed=rng.randrange(10 ** 6), k=rng.randint(0, 2),
                                  time_flag=rng.random() < 0.3)
        cfg2 = dict(cfg, again="no", entryStop=bool(real1["stop"]), epochs=cfg["epochs"] + rng.randint(0, 1))
        plan2 = set(p for p in random_cfg(rng)[1] if p[3] <= len(cfg["cbs"]))
        real2 = trainrun.real_run(cfg2, plan=plan2, seed=rng.randrange(10 ** 6), k=1, prev=real1,
                                  time_flag=rng.random() < 0.3)
        for c, r, pl in ((cfg, real1, plan), (cfg2, tc.rebased(real2, real1["pver"]), plan2)):
            if r["error"] is not None:
                chk.violation("trace:exception:" + type(r["error"]).__name__,
                              dict(cfg=c, plan=sorted(pl), error=repr(r["error"]), after_abort=c is cfg2))
                break
            lines.append(tc.to_trace(c, r))
            metas.append(sorted(pl))
        if real1["aborted"]:
            chk.nontriv(("aborted", i))
    # negative control: corrupt one recorded field of one trace
    import copy
    donor = next(ln for ln in lines if sum(1 for e in ln["ev"] if e["k"] == "BE") >= 2)
    c1 = copy.deepcopy(donor)
    j = next(i for i, e in enumerate(c1["ev"]) if e["k"] == "BE")
    c1["ev"][j]["ep"] += 1
    c2 = copy.deepcopy(donor)
    j = [i for i, e in enumerate(c2["ev"]) if e["k"] == "OS"][0]
    del c2["ev"][j]                                    # an optimizer step that never happened
    tres, acc, matched = tc.validate_traces(lines + [c1, c2], timeout=1800)
    chk.add_tlc(tres, "TraceTrain.tla (%d traces)" % len(lines))
    if tres.violation:
        chk.violation("trace:invariant:" + str(tres.violation), dict(tlc=tres.raw[-4000:]))
    chk.control(not acc[-2], "trace with a bumped epoch number accepted")
    chk.control(not acc[-1], "trace with a deleted optimizer step accepted")
    for i, ok in enumerate(acc[:-2]):
        if ok:
            chk.traces += 1
            if len(lines[i]["ev"]) > 8:
                chk.nontriv(("trace", i))
        else:
            ev = lines[i]["ev"]
            nxt = ev[matched[i]] if matched[i] < len(ev) else "(final projection)"
            chk.violation("trace:rejected:%s" % (nxt.get("k") if isinstance(nxt, dict) else "final"),
                          dict(cfg=lines[i]["cfg"], plan=metas[i], matched_prefix=matched[i],
                               next_event=nxt, last_matched=ev[matched[i] - 1] if matched[i] else None,
                               fin=lines[i]["fin"]))
    chk.sample(dict(trace_cfg=lines[0]["cfg"], n_events=len(lines[0]["ev"])))
    # the container and helper callbacks behind the protocol: CallbackList as a mutable sequence with its type
    # discipline and dispatch order, LambdaCallback's arity table, the Timer (spec/CallbackSeq.tla)
    import ext_callbacks
    ext_callbacks.run(chk, tier, seed)
    # the auxiliary callbacks of the same protocol: Timer (fit(time=True)), LivePlotting, Logger content, progbar
    # (spec/AuxCallbacks.tla, TraceAuxCallbacks.tla; see ext_auxcb.py)
    import ext_auxcb
    ext_auxcb.run(chk, tier, seed)
    if tier == "thorough":
        # unbounded safety of the stop protocol: Apalache inductive invariant on spec/TrainInd.tla, TLC
        # refinement Train.tla => TrainInd.tla (skipped, never a failure, when Apalache is unavailable)
        import ext_apalache
        ext_apalache.run(chk, tier, seed)
    chk.assumptions += ["CPU only",                         "at least one recording callback is in the list"]
    return chk.finish()
