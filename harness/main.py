"""Entry point: ./check <Cnn> [--tier quick|thorough] [--replay path]"""
import argparse
import importlib
import os
import sys
import traceback

sys.path.insert(0, os.path.dirname(os.path.abspath(__file__)))


def main():
    ap = argparse.ArgumentParser()
    ap.add_argument("pid")
    ap.add_argument("--tier", default=os.environ.get("VERIF_TIER", "quick"), choices=["quick", "thorough"])
    ap.add_argument("--replay", default=None)
    a = ap.parse_args()
    seed = int(os.environ.get("VERIF_SEED", "20261004"))
    os.environ.setdefault("VERIF_TLC_COVERAGE", "1" if a.tier == "thorough" else "0")
    if a.pid == "setup":
        import setup_check
        return setup_check.main()
    try:
        mod = importlib.import_module("check_" + a.pid.lower())
    except ImportError:
        traceback.print_exc()
        print("no check for", a.pid)
        return 2
    if not a.replay and os.environ.get("VERIF_NO_FORK") != "1":
        # The check proper runs in a child process: a change to the library that makes a sequence of legal public calls
        # kill the interpreter (a memory-mapped checkpoint overwritten under a live model: SIGBUS) must end in a verdict,
        # not in a dead checker.  Only SIGBUS / SIGSEGV / SIGFPE / SIGILL - faults of native code reached through the library -
        # are reported as a violation of the property being replayed; anything else (kill, out of memory) is a machinery failure.
        sys.stdout.flush()
        pid = os.fork()
        if pid == 0:
            os.environ["VERIF_NO_FORK"] = "1"
            try:
                rc = _run(mod, a, seed)
            except BaseException:
                traceback.print_exc()
                rc = 2
            sys.stdout.flush()
            sys.stderr.flush()
            os._exit(rc if isinstance(rc, int) else 2)
        _, status = os.waitpid(pid, 0)
        if os.WIFEXITED(status):
            return os.WEXITSTATUS(status)
        sig = os.WTERMSIG(status)
        import signal as _sg
        if sig in (_sg.SIGBUS, _sg.SIGSEGV, _sg.SIGFPE, _sg.SIGILL):
            import common
            d = os.path.join(common.REPLAYS, a.pid)
            os.makedirs(d, exist_ok=True)
            path = os.path.join(d, "killed-by-signal-%d.json" % sig)
            import json
            with open(path, "w") as fh:
                json.dump(dict(property=a.pid, key="process-killed:signal-%d" % sig,
                               detail="the interpreter running the library under test was killed by signal %d (%s) while "
                                      "the check replayed legal public calls; run ./check %s again with VERIF_NO_FORK=1 "
                                      "under gdb / faulthandler to locate the call" % (sig, _sg.Signals(sig).name, a.pid)), fh, indent=1)
            print("VIOLATION property=%s replay=%s" % (a.pid, path))
            print("  key=process-killed:signal-%d" % sig)
            return 1
        print("MACHINERY-FAILURE property=%s: the check process was killed by signal %d (not a violation)" % (a.pid, sig))
        return 2
    return _run(mod, a, seed)


def _run(mod, a, seed):
    try:
        if a.replay:
            return mod.replay(a.replay)
        return mod.run(a.tier, seed)
    except Exception as exc:
        traceback.print_exc()
        import common
        if isinstance(exc, common.CodeFault) and not a.replay:
            chk = common.PRIMARY[0] if common.PRIMARY else common.Check(a.pid, a.tier, seed)
            chk.violation(exc.key, dict(detail=exc.detail))
            chk.assumptions.append("run cut short: the object under test could not be brought into the state the check needs")
            return chk.finish()
        if common.PRIMARY and common.PRIMARY[0].violations and not a.replay:
            # violations established before the machinery broke stand on their own replay files
            print("MACHINERY-FAILURE property=%s in a later phase; reporting the violations found before it" % a.pid)
            common.PRIMARY[0].assumptions.append("run cut short by a machinery failure in a later phase")
            return common.PRIMARY[0].finish()
        print("MACHINERY-FAILURE property=%s (not a violation)" % a.pid)
        return 2


if __name__ == "__main__":
    sys.exit(main())
