"""Entry point: ./check <Cnn> [--tier quick|thorough] [--replay path]"""
import argparse
import importlib
import os
import sys
import traceback

sys.path.insert(0, os.path.dirname(os.path.abspath(__file__)))


def main():
    ap = argparse.ArgumentParser()
    ap.add_argument("pid")
    ap.add_argument("--tier", default=os.environ.get("VERIF_TIER", "quick"), choices=["quick", "thorough"])
    ap.add_argument("--replay", default=None)
    a = ap.parse_args()
    seed = int(os.environ.get("VERIF_SEED", "20261004"))
    os.environ.setdefault("VERIF_TLC_COVERAGE", "1" if a.tier == "thorough" else "0")
    if a.pid == "setup":
        import setup_check
        return setup_check.main()
    try:
        mod = importlib.import_module("check_" + a.pid.lower())
    except ImportError:
        traceback.print_exc()
        print("no check for", a.pid)
        return 2
    try:
        if a.replay:
            return mod.replay(a.replay)
        return mod.run(a.tier, seed)
    except Exception:
        traceback.print_exc()
        import common
        if common.PRIMARY and common.PRIMARY[0].violations and not a.replay:
            # violations established before the machinery broke stand on their own replay files
            print("MACHINERY-FAILURE property=%s in a later phase; reporting the violations found before it" % a.pid)
            common.PRIMARY[0].assumptions.append("run cut short by a machinery failure in a later phase")
            return common.PRIMARY[0].finish()
        print("MACHINERY-FAILURE property=%s (not a violation)" % a.pid)
        return 2


if __name__ == "__main__":
    sys.exit(main())
