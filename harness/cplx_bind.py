"""Spec -> code binding for C15: one case exported by spec/Cplx.tla (operands and exact expected value in the
library's real-pair encoding) is run through qucumber.utils.cplx and judged.

Nothing here knows complex arithmetic: operands are turned into float64 tensors, the library function named
by the case is called, the result is compared with the numbers TLC computed.
  kind "g" / "r" / "np": exact equality (Gaussian integers are exact in float64)
  kind "q" / "qs":       Gaussian rationals num/den; |got - exp| <= 1e-12 |exp| (complex modulus), decided in
                         exact rational arithmetic (python fractions)
  kind "sqrt":           the squares are given; |got - sqrt(n)| <= 1e-12 sqrt(n) against mpmath (50 digits)
  def != "ok":           the call must raise (the documented class where one is documented)
"""
import math
from fractions import Fraction

import mpmath
import numpy as np
import torch

TOL = Fraction(1, 10 ** 12)
mpmath.mp.dps = 50
LN2 = math.log(2.0)
HALF_PI = math.pi / 2


def tens(enc, layout=0):
    """float64 tensor from an exported real tensor; layout 1: same values as a non-contiguous (strided) view"""
    t = torch.tensor(enc["val"], dtype=torch.float64).reshape(tuple(enc["shape"]))
    if layout == 1 and t.dim() >= 1:
        big = torch.full(tuple(t.shape[:-1]) + (2 * t.shape[-1],), 77.0, dtype=torch.float64)
        big[..., ::2] = t
        t = big[..., ::2]
    return t


# An einsum equation means the same under any injective renaming of its index letters: the specification's
# names are mapped onto changing alphabets (the whole range a-z and upper case is the caller's to use).
_POOLS = ["abcdefgh", "zyxwvuts", "ijklmnop", "pqrzstuv", "xzyabcde", "ZzYyXxWw", "nmzlkjih"]
_EQ = [0]


def eq_string(opt):
    _EQ[0] += 1
    pool = _POOLS[_EQ[0] % len(_POOLS)]
    names = sorted(set(opt[1]) | set(opt[2]) | set(opt[3]))
    ren = {n: pool[i] for i, n in enumerate(names)} if len(names) <= len(pool) and all(len(n) == 1 and n.isalpha() for n in names) \
        else {n: n for n in names}
    return "%s,%s->%s" % tuple("".join(ren[x] for x in part) for part in (opt[1], opt[2], opt[3]))


class Outcome:
    def __init__(self, value=None, error=None, extra=None):
        self.value, self.error, self.extra = value, error, ({} if extra is None else extra)


def call(cplx, rec, layout=0):
    """Run the library on one case.  Returns Outcome (value or the exception raised)."""
    op, opt = rec["op"], rec["opt"]
    fam = opt[0]
    a = []
    for i, e in enumerate(rec["args"]):
        if fam[i] == "I":
            a.append(cplx.I)                      # the library's own float32 constant, the object itself
        else:
            a.append(tens(e, layout))
    extra = {}
    before = [t.clone() if isinstance(t, torch.Tensor) else None for t in a]
    try:
        try:
            return _call(cplx, rec, op, opt, a, extra)
        finally:
            # no function of the kernel may write into an operand (only into an out= buffer it was handed)
            for i, (t, b) in enumerate(zip(a, before)):
                if b is not None and t is not extra.get("target") and not torch.equal(t, b) \
                        and not (torch.isnan(t) & torch.isnan(b)).all():
                    extra["operand_modified"] = i
    except KeyError:
        raise


def _call(cplx, rec, op, opt, a, extra):
    try:
        if op == "make_complex1":
            v = cplx.make_complex(a[0])
        elif op == "make_complex2":
            v = cplx.make_complex(a[0], a[1])
        elif op == "make_complex_np":
            arr = a[0][0].numpy() + 1j * a[0][1].numpy()
            extra["input_is_ndarray"] = isinstance(arr, np.ndarray)
            v = cplx.make_complex(np.asarray(arr, dtype=np.complex128))
        elif op == "numpy":
            v = cplx.numpy(a[0])
        elif op == "real":
            v = cplx.real(a[0])
        elif op == "imag":
            v = cplx.imag(a[0])
        elif op == "scalar_mult":
            how = opt[1][0]
            if how == "none":
                v = cplx.scalar_mult(a[0], a[1])
            elif how == "fresh":
                out = torch.full(tuple(rec["exp"]["shape"]), 99.0, dtype=torch.float64)
                v = cplx.scalar_mult(a[0], a[1], out=out)
                extra["out"] = out
            else:
                target = a[0] if how == "x" else a[1]
                extra["before"] = target.clone()
                extra["target"] = target
                v = cplx.scalar_mult(a[0], a[1], out=target)
        elif op == "elementwise_mult":
            v = cplx.elementwise_mult(a[0], a[1])
        elif op == "matmul":
            v = cplx.matmul(a[0], a[1])
        elif op == "inner_prod":
            v = cplx.inner_prod(a[0], a[1])
        elif op == "outer_prod":
            v = cplx.outer_prod(a[0], a[1])
        elif op == "einsum":
            v = cplx.einsum(eq_string(opt), a[0], a[1], real_part="r" in opt[4], imag_part="i" in opt[4])
        elif op == "pair_einsum":
            # density_matrix.pi_grad: a real einsum in which the pair axis rides along ...
            v = torch.einsum("c...j,...k->c...jk", a[0], a[1])
            # ... and the same product through the library's complex einsum (ellipsis passed through)
            extra["via_cplx"] = cplx.einsum("...j,...k->...jk", a[0], cplx.make_complex(a[1]))
        elif op == "kronecker_prod":
            v = cplx.kronecker_prod(a[0], a[1])
        elif op == "conjugate":
            v = cplx.conjugate(a[0])
        elif op == "conj":
            v = cplx.conj(a[0])
        elif op == "elementwise_division":
            v = cplx.elementwise_division(a[0], a[1])
        elif op == "scalar_divide":
            v = cplx.scalar_divide(a[0], a[1])
        elif op == "inverse":
            v = cplx.inverse(a[0])
        elif op == "sigmoid":
            v = cplx.sigmoid(a[0] * LN2, a[1] * HALF_PI)
        elif op == "absolute_value":
            v = cplx.absolute_value(a[0])
        elif op == "norm_sqr":
            v = cplx.norm_sqr(a[0])
        elif op == "norm":
            v = cplx.norm(a[0])
        elif op == "law_inner":
            x, x2, y, c = a
            v = cplx.inner_prod(cplx.scalar_mult(c, x) + x2, y)
            extra["rhs"] = cplx.scalar_mult(cplx.conj(c), cplx.inner_prod(x, y)) + cplx.inner_prod(x2, y)
        elif op == "law_kron":
            A, B, C, D = a
            v = cplx.matmul(cplx.kronecker_prod(A, B), cplx.kronecker_prod(C, D))
            extra["rhs"] = cplx.kronecker_prod(cplx.matmul(A, C), cplx.matmul(B, D))
        else:
            raise KeyError("unknown op " + op)
    except KeyError:
        raise
    except Exception as ex:  # noqa: BLE001 - the library's reaction is what is being judged
        return Outcome(error=ex, extra=extra)
    return Outcome(value=v, extra=extra)


def _exact(got, exp):
    """got (tensor) equals the exported integer tensor exactly, shape included"""
    if not isinstance(got, torch.Tensor):
        return "not a tensor: %r" % type(got).__name__
    if tuple(got.shape) != tuple(exp["shape"]):
        return "shape %s, expected %s" % (list(got.shape), exp["shape"])
    want = torch.tensor(exp["val"], dtype=torch.float64).reshape(tuple(exp["shape"]))
    if not torch.equal(got.detach().to(torch.float64), want):
        return "value %s, expected %s" % (got.detach().flatten().tolist(), exp["val"])
    return None


def _rational(got, exp):
    if not isinstance(got, torch.Tensor):
        return "not a tensor: %r" % type(got).__name__
    if tuple(got.shape) != tuple(exp["shape"]):
        return "shape %s, expected %s" % (list(got.shape), exp["shape"])
    flat = got.detach().to(torch.float64).flatten().tolist()
    n = len(flat) // 2
    for k in range(n):
        if not (math.isfinite(flat[k]) and math.isfinite(flat[n + k])):
            return "entry %d not finite: %r" % (k, (flat[k], flat[n + k]))
        er, ei = Fraction(exp["num"][k], exp["den"][k]), Fraction(exp["num"][n + k], exp["den"][n + k])
        dr, di = Fraction(flat[k]) - er, Fraction(flat[n + k]) - ei
        if dr * dr + di * di > TOL * TOL * (er * er + ei * ei):
            return "entry %d: got %r + %r i, expected %s + %s i" % (k, flat[k], flat[n + k], er, ei)
    return None


def _sqrt(got, exp):
    if not isinstance(got, torch.Tensor):
        return "not a tensor: %r" % type(got).__name__
    if tuple(got.shape) != tuple(exp["shape"]):
        return "shape %s, expected %s" % (list(got.shape), exp["shape"])
    flat = got.detach().to(torch.float64).flatten().tolist()
    for k, (g, sq) in enumerate(zip(flat, exp["val"])):
        want = mpmath.sqrt(sq)
        if not math.isfinite(g) or abs(mpmath.mpf(g) - want) > mpmath.mpf(10) ** -12 * want:
            return "entry %d: got %r, expected sqrt(%d)" % (k, g, sq)
    return None


def _numpy(got, exp):
    if not isinstance(got, (np.ndarray, np.generic)):     # a complex scalar comes back as a numpy scalar
        return "not a numpy array: %r" % type(got).__name__
    got = np.asarray(got)
    if not np.iscomplexobj(got):
        return "not a complex array: %s" % got.dtype
    if list(got.shape) != list(exp["shape"][1:]):
        return "shape %s, expected %s" % (list(got.shape), exp["shape"][1:])
    want = np.array(exp["val"], dtype=np.float64).reshape(exp["shape"])
    if not (np.array_equal(got.real, want[0]) and np.array_equal(got.imag, want[1])):
        return "value %s, expected %s" % (got.flatten().tolist(), exp["val"])
    return None


_JUDGE = {"g": _exact, "r": _exact, "q": _rational, "qs": _rational, "sqrt": _sqrt, "np": _numpy}


def judge(rec, out):
    """None if the library's outcome is what the specification says, else (what, detail)."""
    d = rec["def"]
    if d != "ok":
        if out.error is None:
            return ("returned-a-value", "expected %s, got a value %s" % (
                d, getattr(out.value, "shape", None) and list(out.value.shape)))
        want = {"ValueError": ValueError, "RuntimeError": RuntimeError, "error": Exception}[d]
        if not isinstance(out.error, want):
            return ("wrong-exception", "expected %s, got %r" % (d, out.error))
        if "target" in out.extra and not torch.equal(out.extra["target"], out.extra["before"]):
            return ("argument-overwritten", "the refused output buffer was modified")
        return None
    if "operand_modified" in out.extra:
        return ("operand-modified", "argument %d was written to by the call" % out.extra["operand_modified"])
    if out.error is not None:
        return ("raised", repr(out.error))
    if rec["kind"] == "none":
        return None if out.value is None else ("value", "expected None, got %r" % (out.value,))
    bad = _JUDGE[rec["kind"]](out.value, rec["exp"])
    if bad:
        return ("value", bad)
    if "out" in out.extra:                    # out= buffer: written AND returned
        if out.value is not out.extra["out"]:
            return ("out-not-returned", "scalar_mult(out=buf) returned another object")
        bad = _exact(out.extra["out"], rec["exp"])
        if bad:
            return ("out-not-written", bad)
    if "rhs" in out.extra:                    # composite law, right-hand side through the library as well
        bad = _exact(out.extra["rhs"], rec["exp"])
        if bad:
            return ("law-rhs", bad)
    if "via_cplx" in out.extra:
        bad = _exact(out.extra["via_cplx"], rec["exp"])
        if bad:
            return ("via-cplx-einsum", bad)
    return None


def key(rec, what, layout=0):
    k = "replay:%s:%s:%s" % (rec["op"], rec["cls"], what)
    if rec["op"] == "scalar_mult" and rec["opt"][1][0] != "none":
        k += ":out=" + rec["opt"][1][0]
    if rec["op"] in ("einsum",):
        k += ":" + eq_string(rec["opt"]) + ":" + "".join(rec["opt"][4])
    if "I" in rec["opt"][0]:
        k += ":cplx.I"
    return k


def reproducer(rec):
    """A few lines of Python that re-run the case against the library (for the report)."""
    lines = ["import torch, numpy as np", "from qucumber.utils import cplx"]
    for i, e in enumerate(rec["args"]):
        if rec["opt"][0][i] == "I":
            lines.append("a%d = cplx.I" % i)
        else:
            lines.append("a%d = torch.tensor(%s, dtype=torch.float64).reshape(%s)" % (i, e["val"], e["shape"]))
    lines.append("# op=%s opt=%s expected def=%s kind=%s exp=%s" % (rec["op"], rec["opt"], rec["def"], rec["kind"],
                                                                 {k: v for k, v in rec["exp"].items()}))
    return lines
