"""C04 - Measurement-basis rotations equal the tensor-product unitary they denote.

TLC: spec/Unitaries.tla (dictionary as Gaussian-integer matrices, Pauli eigenvector claim,
dense Kronecker product, block definition = Row definition), spec/KronSweep.tla (the
_kron_mult sweep as a state machine: SweepRefinesDense with the intermediate invariant,
rotate_rho = sweep / conjugate-transpose / sweep = Dense rho Dense^H, trace and positivity),
spec/Expand.tla (_rotate_basis_state: the expansion sums equal the entries / diagonal of the
dense rotation) - over all strings in {X,Y,Z}^n, n <= 3 (4 thorough), strings over the
extended dictionary {X,Y,Z,S,R,W} for n <= 2, and unit vectors, i*unit vectors, the
Hermitian basis, seeded generic vectors / Hermitian matrices with non-zero imaginary
off-diagonals and Gram-built PSD matrices.

spec -> code: every exported case through the real rotate_psi / rotate_rho /
rotate_psi_inner_prod / rotate_rho_probs (explicit inputs: exact integers; model-derived:
exported dense structure applied to the library's own psi / rho numbers), create_dict.
code -> spec: per-site intermediates of _kron_mult recorded through a wrapper on
cplx.matmul, validated by spec/TraceKron.tla.
"""
import copy
import json
import random
import traceback

import numpy as np
import torch

import common
import tlc
import rot_tlc as R

PID = "C04"
EXT = '{"X", "Y", "Z", "S", "R", "W"}'
SWEEP_INV = ["TypeOK", "Strides", "SlicesPartition", "SweepRefinesDense", "RhoRotated", "InputsOK", "Physical", "Export"]
EXPAND_INV = ["TermsShape", "ExpandEqualsDense", "PathsAgree", "InputsOK", "Export"]


def herm_strings(rng, n, extra):
    fixed = {3: ["XYZ", "YZX", "ZXY", "YYX", "XZY", "ZZY"], 4: ["XYZY", "YZXX", "ZYXZ", "YYYX", "XZYZ", "ZXYY"]}[n]
    out = list(fixed)
    while len(out) < len(fixed) + extra:
        s = "".join(rng.choice("XYZ") for _ in range(n))
        if s not in out and "Y" in s:
            out.append(s)
    return out


def run(tier, seed):
    import rot_lib as L
    import rot_replay as RP
    import rot_record as RR
    chk = R.cap_violations(common.Check(PID, tier, seed))
    rng = random.Random(seed)
    quick = tier == "quick"
    nmax = 3 if quick else 4
    chk.rule = ("TLC: every string in {X,Y,Z}^n, n<=%d, and every string over {X,Y,Z,S,R,W} for n<=2, x inputs "
                "{e_k, i e_k} / {E_kk, E_kl+E_lk, i(E_kl-E_lk)} (Hermitian basis at n=%d only for a seeded subset of "
                "strings) / seeded generic vectors and Hermitian matrices with non-zero imaginary off-diagonals / "
                "Gram-built PSD matrices; every exported case replayed into the real functions with batches of "
                "outcomes with repeats in arbitrary order; non-trivial = a string with >= 2 different letters, or a "
                "Y, or a user letter" % (nmax, nmax))
    basis_set = (R.strings(R.XYZ, 1, nmax) + " \\cup {b \\in " + R.strings(EXT, 1, 2)
                 + " : \\E q \\in 1..Len(b) : b[q] \\in UserLetters}")
    hsel = R.tla_strings(herm_strings(rng, nmax, 2 if quick else 1))
    selected = 'Len(b) < %d \\/ (Len(b) = %d /\\ (f # "herm" \\/ b \\in %s))' % (nmax, nmax, hsel)
    fam = R.family_defs(seed, nmax, counts=(2, 2, 2), beyond=0 if quick else 1)
    if not quick:
        # sampled beyond the exhaustive bound: a few strings with 5 sites, generic inputs only
        five = ["XYZYX", "YZXZY"] + ["".join(rng.choice("XYZ") for _ in range(5)) for _ in range(2)]
        basis_set += " \\cup " + R.tla_strings(five)
        selected += ' \\/ (Len(b) = 5 /\\ f = "gen")'

    # ---- 1. dictionary facts, dense structure (block definition = Row definition, unitarity)
    w = tlc.run("IndexWalk", constants={"NFull": 1, "NMaxRows": 1, "Chunk": 1},
                defs={"Samples": "{}", "BasisSet": basis_set}, init="InitBasis", next="NextBasis",
                invariants=["DictOK", "BasisOK", "ExportDense", "ExportDict"], timeout=1200, env=R.JAVA_ENV)
    chk.add_tlc(w, "Unitaries.tla via IndexWalk: DictionaryFacts, OneConvention, DenseUnitary")
    # ---- 2. the sweep
    defs = dict(fam)
    defs.update({"BasisSet": basis_set, "Selected(b, kd, f)": selected, "Exported(b, kd, f)": "TRUE"})
    sw = tlc.run("KronSweep", defs=defs, invariants=SWEEP_INV, timeout=3000, env=R.JAVA_ENV)
    chk.add_tlc(sw, "KronSweep.tla: SweepRefinesDense, RhoRotated, Physical")
    # ---- 3. the expansion
    defs = dict(fam)
    defs.update({"BasisSet": basis_set, "Selected(b, kd, f)": selected, "ExportTerms": "TRUE"})
    xp = tlc.run("Expand", defs=defs, invariants=EXPAND_INV, timeout=3000, env=R.JAVA_ENV)
    chk.add_tlc(xp, "Expand.tla: TermsShape, ExpandEqualsDense, PathsAgree")
    for res, name in ((w, "Unitaries"), (sw, "KronSweep"), (xp, "Expand")):
        if res.violation == "InputsOK":          # the harness's own generated inputs are malformed: not a statement about QuCumber
            raise common.MachineryError("generated inputs violate InputsOK of %s\n%s" % (name, res.raw[-1500:]))
        if res.violation:
            chk.violation("spec:%s:%s" % (name, res.violation), dict(tlc=res.raw[-4000:]))
    if chk.violations:
        return chk.finish()

    tb = RP.Tables()
    tb.add_walk(w.exports)
    tb.add_terms(xp.exports)
    if set(tb.dict) != {"X", "Y", "Z", "S", "R", "W"} or not tb.dense or not tb.terms:
        raise common.MachineryError("TLC exports incomplete")
    if len(tb.terms) != sum(2 ** len(b) for b in tb.dense) or w.distinct != len(tb.terms):
        raise common.MachineryError("TLC exports incomplete: %d strings, %d expansions" % (len(tb.dense), len(tb.terms)))

    # ---- 4. create_dict() contents and create_dict(**user)
    try:
        dictionary_checks(chk, tb, L)
        dictionary_history(chk, tb, rng, L)
    except common.MachineryError:
        raise
    except Exception as ex:
        chk.violation("exception:create_dict:" + type(ex).__name__, dict(error=repr(ex), where=traceback.format_exc()[-1500:]))

    # ---- 5. spec -> code, explicit inputs (integer exact)
    rp = RP.Replayer(chk, tb, rng)
    cases = sorted((c for c in sw.exports if "kind" in c), key=lambda c: (len(c["basis"]), json.dumps(c, sort_keys=True)))   # TLC's order varies; small first
    if quick and len(cases) > 3200:
        keep = [c for c in cases if c["fam"] in ("gen", "gram")]
        rest = [c for c in cases if c["fam"] not in ("gen", "gram")]
        cases = keep + rng.sample(rest, 3200 - len(keep))
    for c in cases:
        letters = c["basis"]
        try:
            info = rp.psi_case(c) if c["kind"] == "psi" else rp.rho_case(c)
        except (common.MachineryError, tlc.TLCError):
            raise
        except Exception as ex:                      # the library raised on a case inside the property's domain
            chk.violation("exception:explicit-%s:%s" % (c["kind"], type(ex).__name__),
                          dict(basis="".join(letters), fam=c["fam"], x=c["x"], error=repr(ex), where=traceback.format_exc()[-1500:]))
            continue
        if len(set(letters)) >= 2 or "Y" in letters or set(letters) - {"X", "Y", "Z"}:
            chk.nontriv(("".join(letters), c["kind"], c["fam"]))
        if c["fam"] in ("gen", "gram") and len(letters) >= 2 and "Y" in letters:
            chk.sample(info, limit=4)

    # ---- 6. spec -> code, model-derived paths (psi=None / rho=None)
    gen = torch.Generator().manual_seed(seed % (2 ** 31))
    strings = sorted(tb.dense)
    for skind in ("positive", "complex", "density"):
        sel = [b for b in strings if len(b) <= (3 if quick else 4)]
        if quick:
            sel = [b for b in sel if len(b) <= 2] + rng.sample([b for b in sel if len(b) == 3], 14)
        else:
            if skind == "density":
                sel = [b for b in sel if len(b) <= 3] + rng.sample([b for b in sel if len(b) == 4], 30)
            sel = sel + [b for b in strings if len(b) == 5]
        for b in sel:
            try:
                rp.model_case(skind, b, gen)
            except (common.MachineryError, tlc.TLCError):
                raise
            except Exception as ex:
                chk.violation("exception:model:%s:%s" % (skind, type(ex).__name__),
                              dict(basis="".join(b), error=repr(ex), where=traceback.format_exc()[-1500:]))

    # ---- 7. code -> spec: per-site intermediates of _kron_mult
    trace_phase(chk, tb, rng, quick, L, RR)

    # ---- 8. comparator controls: a corrupted expected value / a transposed input must be flagged
    comparator_controls(chk, tb, cases, rng, RP)

    chk.assumptions += [
        "explicit rho is Hermitian (the property's domain); non-Hermitian explicit rho is not generated",
        "the key \"Z\" denotes the identity (the default dictionary's Z is not overridden by a user unitary)",
        "basis strings are given as str, list, tuple or numpy array of one-letter keys",
        "model-derived paths: the numbers psi(space) / rho(space, space) are the library's own (their correctness is C01/C02); "
        "compared at 1e-12 absolute times the largest magnitude",
        "include_extras: terms are matched to the expanded rows they are returned with; either axis order of the "
        "rho term array is accepted",
        "CPU, double precision",
    ]
    return chk.finish()


def dictionary_checks(chk, tb, L):
    un = L.un
    d = un.create_dict()
    chk.evaluations += 1
    if set(d) != {"X", "Y", "Z"}:
        chk.violation("create_dict:keys", dict(keys=sorted(d)))
    for b in ("X", "Y", "Z"):
        got, err = L.to_gauss(d[b], L.sqrt2pow(tb.dict[b]["fac"]))
        if err > 1e-12 or got != tb.dict[b]["u"] or d[b].dtype != torch.double:
            chk.violation("create_dict:default:" + b, dict(expected=tb.dict[b], got=got, non_integer=err))
    for form in ("tensor", "list", "numpy"):
        kw = {b: L.user_matrix(tb.dict[b]["u"], tb.dict[b]["fac"], form) for b in ("S", "R", "W")}
        d2 = un.create_dict(**kw)
        chk.evaluations += 1
        if set(d2) != {"X", "Y", "Z", "S", "R", "W"}:
            chk.violation("create_dict:user:keys", dict(keys=sorted(d2), form=form))
            continue
        for b in d2:
            got, err = L.to_gauss(d2[b], L.sqrt2pow(tb.dict[b]["fac"]))
            # nested python lists go through torch.tensor(list) = single precision before the cast to double:
            # recorded, not judged (the property speaks about the dictionary's entries, whatever their precision)
            lim = 1e-12 if form != "list" or b in "XYZ" else 1e-6
            if form == "list" and b not in "XYZ":
                chk.extra["create_dict_list_form_max_deviation"] = max(err, chk.extra.get("create_dict_list_form_max_deviation", 0.0))
            if err > lim or got != tb.dict[b]["u"] or d2[b].dtype != torch.double:
                chk.violation("create_dict:user:" + b, dict(expected=tb.dict[b], got=got, form=form, non_integer=err))
    # a user operator with a default key overwrites the default matrix
    d3 = un.create_dict(X=L.user_matrix(tb.dict["W"]["u"], 0, "tensor"))
    got, _ = L.to_gauss(d3["X"], 1.0)
    chk.evaluations += 1
    if got != tb.dict["W"]["u"] or set(d3) != {"X", "Y", "Z"}:
        chk.violation("create_dict:user:overwrite", dict(got=got))


def dictionary_history(chk, tb, rng, L):
    """The same letters under DIFFERENT dictionaries within one process (two states that each add a
    user unitary under the same name, an overridden default key, then the first dictionary again): every
    call must use the dictionary it is given / its state carries.  Expected values come from the
    exported dense matrices of the string obtained by renaming the letters to the specification's."""
    import numpy as np
    un = L.un
    M = lambda b: L.user_matrix(tb.dict[b]["u"], tb.dict[b]["fac"], "tensor")  # noqa: E731
    dicts = [("A->S,B->R", dict(A=M("S"), B=M("R")), {"A": "S", "B": "R"}),
             ("A->R,B->S", dict(A=M("R"), B=M("S")), {"A": "R", "B": "S"}),
             ("A->S,B->R", dict(A=M("S"), B=M("R")), {"A": "S", "B": "R"}),
             ("X->Y,Y->X", dict(X=M("Y"), Y=M("X")), {"X": "Y", "Y": "X"}),
             ("default", dict(), {}),
             ("A->W,B->Y", dict(A=M("W"), B=M("Y")), {"A": "W", "B": "Y"})]
    strings = ["AB", "BA", "AZ", "ZB", "XA", "BY", "AA", "XY", "YZ"]
    x = [[1, 2], [3, -1], [-2, 1], [0, 4]]                       # generic Gaussian-integer psi on 2 sites
    xc = np.array([complex(a, b) for a, b in x])
    rho = np.outer(xc, xc.conj()) + np.diag([1, 2, 3, 4])         # Hermitian, PSD, rho != rho^T
    space = L.space_tensor(tb.rows[2])
    t_psi = L.vec_tensor(x)
    t_rho = L.mat_tensor([[[int(v.real), int(v.imag)] for v in row] for row in rho])
    for rnd, (label, user, rename) in enumerate(dicts):
        ud = un.create_dict(**user)
        # the matrices handed over are the caller's: the caller goes on using its buffers (here: fills them with
        # something else), the dictionary keeps what was registered
        for t in user.values():
            t.mul_(-3.0).add_(0.25)
        for via in ("argument", "state"):
            for s_ in strings:
                if not set(s_) <= set(ud):
                    continue
                spec = tuple(rename.get(ch, ch) for ch in s_)
                if spec not in tb.dense:
                    raise common.MachineryError("no exported dense matrix for %s" % (spec,))
                D, nf = tb.dense[spec]["D"], tb.dense[spec]["nfac"]
                want_psi = D @ xc
                want_rho = np.real(np.diag(D @ rho @ D.conj().T))
                for kind in ("psi", "rho"):
                    st = L.state_for("complex" if kind == "psi" else "density", 2, unitary_dict=ud if via == "state" else None)
                    arg = ud if via == "argument" else None
                    chk.evaluations += 1
                    det = dict(round=rnd, dictionary=label, via=via, basis=s_, denotes="".join(spec))
                    if kind == "psi":
                        got, err = L.to_gauss(un.rotate_psi_inner_prod(st, s_, space, unitaries=arg, psi=t_psi), L.sqrt2pow(nf))
                        exp = [[int(round(v.real)), int(round(v.imag))] for v in want_psi]
                        if err > L.INT_TOL or [list(g) for g in got] != exp:
                            chk.violation("dictionary-history:rotate_psi_inner_prod", dict(det, expected=exp, got=got))
                        got, err = L.to_gauss(un.rotate_psi(st, s_, space, unitaries=arg, psi=t_psi), L.sqrt2pow(nf))
                        if err > L.INT_TOL or [list(g) for g in got] != exp:
                            chk.violation("dictionary-history:rotate_psi", dict(det, expected=exp, got=got))
                    else:
                        p = un.rotate_rho_probs(st, s_, space, unitaries=arg, rho=t_rho)
                        gotp = (p * (2 ** nf)).tolist()
                        if any(abs(a - b) > 1e-9 for a, b in zip(gotp, want_rho.tolist())):
                            chk.violation("dictionary-history:rotate_rho_probs", dict(det, expected=want_rho.tolist(), got=gotp))
    chk.nontriv("dictionary-history")


def trace_phase(chk, tb, rng, quick, L, RR):
    un = L.un
    fac = tb.fac()
    lines, meta = [], []
    plan = []
    for i in range(14 if quick else 60):
        n = rng.randint(2, 5 if quick else 6)
        alphabet = "XYZ" if i % 3 else "XYZSRW"
        plan.append(("psi", "".join(rng.choice(alphabet) for _ in range(n))))
    for i in range(8 if quick else 40):
        n = rng.randint(1, 3 if quick else 4)
        alphabet = "XYZ" if i % 3 else "XYZSRW"
        plan.append(("rho", "".join(rng.choice(alphabet) for _ in range(n))))
    full = un.create_dict(**{b: L.user_matrix(tb.dict[b]["u"], tb.dict[b]["fac"], "tensor") for b in ("S", "R", "W")})
    for kind, letters in plan:
        n = len(letters)
        state = L.state_for("complex" if kind == "psi" else "density", n)
        space = state.generate_hilbert_space(n)
        if kind == "psi":
            x = R.gen_psi(rng, n, 1)[0]
            t = L.vec_tensor(x)
            call = lambda b: un.rotate_psi(state, b, space, unitaries=full, psi=t)     # noqa: E731
        else:
            x = R.gen_rho(rng, n, 1)[0]
            t = L.mat_tensor(x)
            call = lambda b: un.rotate_rho(state, b, space, unitaries=full, rho=t)     # noqa: E731
        try:
            trs, prob = RR.build_trace(kind, letters, x, call, fac)
        except common.MachineryError:
            raise
        except Exception as ex:
            chk.violation("exception:trace:%s:%s" % (kind, type(ex).__name__),
                          dict(basis=letters, x=x, error=repr(ex), where=traceback.format_exc()[-1500:]))
            continue
        if trs is None:
            chk.violation("trace:non-integer:" + kind, dict(basis=letters, x=x, problem=prob))
            continue
        for tr in trs:
            j = RR.malformed(tr)
            if j is not None:
                chk.violation("trace:malformed:" + kind, dict(basis=letters, event=j))
                continue
            lines.append(tr)
            meta.append((kind, "".join(tr["basis"])))
    if not lines:
        return
    # negative controls: one corrupted intermediate, one corrupted result, one run with the sites swapped
    if chk.violations and not all(any(t["kind"] == kd and len(t["basis"]) >= 2 for t in lines) for kd in ("psi", "rho")):
        return                                       # no donors because the library already failed: reported above
    donor = next(t for t in lines if t["kind"] == "psi" and len(set(t["basis"])) >= 2)
    c1 = copy.deepcopy(donor)
    c1["ev"][1]["y"][1][0] += 1
    c2 = copy.deepcopy(next(t for t in lines if t["kind"] == "rho" and len(t["basis"]) >= 2))
    c2["fin"][0][1][1] += 1
    c3 = copy.deepcopy(donor)
    c3["ev"][0], c3["ev"][1] = c3["ev"][1], c3["ev"][0]
    ctl = [("trace with a bumped intermediate accepted", c1), ("trace with a bumped rotate_rho result accepted", c2),
           ("trace with two sites visited in the other order accepted", c3)]
    res, acc, matched = RR.validate(lines + [c[1] for c in ctl], timeout=1500)
    chk.add_tlc(res, "TraceKron.tla (%d traces)" % len(lines))
    if res.violation:
        chk.violation("trace:invariant:" + str(res.violation), dict(tlc=res.raw[-4000:]))
    for j, (name, _) in enumerate(ctl):
        chk.control(not acc[len(lines) + j], name)
    for i, ok in enumerate(acc[:len(lines)]):
        if ok:
            chk.traces += 1
            chk.nontriv(("trace",) + meta[i])
        else:
            ev = lines[i]["ev"]
            nxt = ev[matched[i]] if matched[i] < len(ev) else dict(e="result", y=lines[i]["fin"])
            chk.violation("trace:rejected:%s:%s" % (meta[i][0], nxt["e"]),
                          dict(basis=meta[i][1], x=lines[i]["x"], matched_prefix=matched[i], next_event=nxt))
    chk.sample(dict(trace_basis=lines[0]["basis"], mode=lines[0]["mode"], events=[(e["e"], e.get("s"), e.get("b")) for e in lines[0]["ev"]]))


def comparator_controls(chk, tb, cases, rng, RP):
    gen_rho = [c for c in cases if c["kind"] == "rho" and c["fam"] == "gen" and len(c["basis"]) >= 2
               and "Y" in c["basis"] and len(set(c["basis"])) >= 2]
    gen_psi = [c for c in cases if c["kind"] == "psi" and c["fam"] == "gen" and len(c["basis"]) >= 2]
    if not gen_rho or not gen_psi:
        raise common.MachineryError("no donor case for the comparator controls")
    # A control feeds a corrupted expectation and requires rejection; it is meaningful only where the
    # uncorrupted comparison passed (a faulty library may coincide with the corruption - it is reported anyway).
    if any(k != "rotate_rho_probs:explicit-rho" for k, _ in chk.violations):
        return
    # (a) an expected amplitude off by one
    ctl = common.Check(PID, chk.tier, chk.seed)
    c = copy.deepcopy(gen_psi[0])
    c["y"][1][0] += 1
    RP.Replayer(ctl, tb, random.Random(1)).psi_case(c)
    chk.control(any(k.startswith("rotate_psi:") for k, _ in ctl.violations), "expected amplitude off by one compared equal")
    # (b) rotate_rho fed the transposed matrix must differ from the expectation for rho (inputs are rho != rho^T sensitive)
    ctl = common.Check(PID, chk.tier, chk.seed)
    c = copy.deepcopy(gen_rho[0])
    N = len(c["x"])
    c["x"] = [[c["x"][j][i] for j in range(N)] for i in range(N)]
    RP.Replayer(ctl, tb, random.Random(2)).rho_case(c)
    chk.control(any(k.startswith("rotate_rho:") for k, _ in ctl.violations), "rotation of rho^T compared equal to the rotation of rho")
    # (c) a dictionary whose Y has its rows exchanged must not pass as the specified Y
    ctl = common.Check(PID, chk.tier, chk.seed)
    tb2 = copy.copy(tb)
    tb2.dict = copy.deepcopy(tb.dict)
    tb2.dict["Y"]["u"] = [tb.dict["Y"]["u"][1], tb.dict["Y"]["u"][0]]
    import rot_lib as L
    dictionary_checks(ctl, tb2, L)
    chk.control(any(k == "create_dict:default:Y" for k, _ in ctl.violations), "Y with rows exchanged compared equal to Y")


def replay(path):
    """./check C04 --replay <file>: re-run one recorded explicit-input case against the working tree and
    compare with the expectation TLC exported when the case was recorded."""
    import rot_lib as L
    with open(path) as fh:
        blob = json.load(fh)
    key, d = blob["key"], blob["detail"]
    site = key.split(":")[0]
    if site not in ("rotate_psi", "rotate_rho", "rotate_psi_inner_prod", "rotate_rho_probs") or "expected" not in d \
            or "model" in key or "x" not in d:
        print("C04 replay: key %s is not an explicit-input comparison; run ./check C04" % key)
        return 2
    un = L.un
    letters, nf = d["basis"], d["nfac"]
    n = len(letters)
    ud = un.create_dict(**{b: L.user_matrix(v["u"], v["fac"], "tensor") for b, v in d.get("user", {}).items()})
    rho = site in ("rotate_rho", "rotate_rho_probs")
    st = L.state_for("density" if rho else "complex", n)
    space = st.generate_hilbert_space(n)
    t = L.mat_tensor(d["x"]) if rho else L.vec_tensor(d["x"])
    sc = L.sqrt2pow(nf * (2 if rho else 1))
    if site == "rotate_psi":
        got, err = L.to_gauss(un.rotate_psi(st, letters, space, unitaries=ud, psi=t), sc)
    elif site == "rotate_rho":
        got, err = L.to_gauss(un.rotate_rho(st, letters, space, unitaries=ud, rho=t), sc)
    elif site == "rotate_psi_inner_prod":
        got, err = L.to_gauss(un.rotate_psi_inner_prod(st, letters, space[d["outcomes"]], unitaries=ud, psi=t), sc)
    else:
        got, err = L.to_ints(un.rotate_rho_probs(st, letters, space[d["outcomes"]], unitaries=ud, rho=t), sc)
    print("%s(basis=%r, explicit input x=%s%s) * 2^(%d/2)" % (site, letters, d["x"], ", outcomes=%s" % d["outcomes"] if "outcomes" in d else "",
                                                           nf * (2 if rho else 1)))
    print("  expected (TLC): %s" % d["expected"])
    print("  got           : %s" % got)
    if err <= L.INT_TOL and got == d["expected"]:
        print("C04 replay: case agrees with the specification")
        return 0
    print("VIOLATION property=C04 replay=%s" % path)
    print("  key=%s" % key)
    return 1
