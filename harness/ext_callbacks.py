"""C12 extension - the callback container and the helper callbacks behind the training protocol.

spec/CallbackSeq.tla holds three machines that spec/Train.tla abstracts away:

  A  CallbackList as a mutable sequence over a heap of list objects (nesting, aliasing, type
     discipline, the MutableSequence mixins written out on the five primitives, dispatch);
  B  the construction table of LambdaCallback (parameter kinds -> inspect.signature count);
  C  Timer driven by the event protocol of fit() (latch, messages, elapsed time, second fit).

TLC explores each machine exhaustively inside stated bounds and exports every transition (A),
every table row (B) and every terminal behaviour (C).  Each exported item is replayed on the
real classes (spec -> code); randomised operation sequences on real CallbackList objects are
validated by spec/TraceCallbackSeq.tla (code -> spec); Timer behaviours are additionally driven
through real fit() runs (own driver and trainrun.real_run(time_flag=True)).

Entry point: run(chk, tier, seed) - adds to an existing common.Check for C12.
"""
import concurrent.futures as cf
import contextlib
import copy
import functools
import inspect
import io
import json
import operator
import os
import random
import re
import shutil
import tempfile

import common
import tlc

qucumber = common.import_qucumber()
import torch  # noqa: E402
from qucumber.callbacks import CallbackBase, CallbackList, LambdaCallback, Timer  # noqa: E402
import qucumber.callbacks.timer as timer_mod  # noqa: E402
from qucumber.nn_states import PositiveWaveFunction  # noqa: E402

K = "ext:callbacks:"
NONE = 99
HOOKS = ["on_train_start", "on_train_end", "on_epoch_start", "on_epoch_end", "on_batch_start", "on_batch_end"]
ARITY = [1, 1, 2, 2, 3, 3]
WORKERS, HEAP = 8, "4g"

A_INV = ["ATypeOK", "TypeDiscipline", "NoNewNonCallbacks", "LikeList", "MixinLaws", "AddPure",
         "OthersUntouched", "ReadOnly", "AtomicFailure", "DispatchLaw"]
B_INV = ["CountRule", "ExactOnPlain", "GapsOnlyOffPlain", "NoneAndJunk"]
C_INV = ["CTypeOK", "TShape", "AtMostOne", "NamesFirstSeen", "NoStopNoMessage", "Elapsed", "TotalLine",
         "EntryStopInert"]

A_EXPORT = ('MC_Export == Rep => PrintT(ToJson(<<last.o.op, last.o.tgt, last.o.i, last.o.j, last.o.k, last.o.x, '
            'last.o.vk, last.o.vs, last.before, lists, last.rk, last.ret, last.exc>>))')
B_EXPORT = ('MC_Export == BLive => PrintT(ToJson([row |-> row, res |-> Outcome(row).res, count |-> Outcome(row).count, '
            'binds |-> Outcome(row).binds, sig |-> Outcome(row).sig]))')
C_EXPORT = ('MC_Export == TFinished => PrintT(ToJson([cfg |-> tcfg, ev |-> tev, out |-> tout, fin |-> '
            '[notified |-> tmNotified, time |-> tmTime, start |-> tmStart, stop |-> tstop]]))')

# constants of the parts that are not running
IDLE_A = dict(c={"NCb": 1, "NLists": 1, "MaxLen": 1},
              d={"NonKinds": "{}", "IdxSet": "{}", "Bounds": "{}", "Steps": "{}", "PyLists": "{}"})
IDLE_B = dict(c={"MaxParams": 0}, d={"BForms": "{}"})
IDLE_C = dict(c={"TMaxInj": 0, "LatchPerObject": True}, d={"TShards": "{}", "TCfgsOf(s)": "{}"})


def _consts(*parts, **over):
    c, d = {}, {}
    for p in parts:
        c.update(p["c"])
        d.update(p["d"])
    for k, v in over.items():
        (d if isinstance(v, str) and not v.startswith("=") else c)[k] = v
    return c, d


# --------------------------------------------------------------------------------------------
# Part A: CallbackList


def a_bounds(tier):
    """name -> (constants, defs): the bounded heaps explored by TLC."""
    if tier == "quick":
        return {
            "2 lists x len<=2": dict(NCb=2, NLists=2, MaxLen=2, NonKinds="{11}", IdxSet="{-3, -1, 0, 2}",
                                     Bounds="{99, 1}", Steps="{99, -1}", PyLists="{<<1>>, <<1, 11>>, <<21>>}"),
            "1 list x len<=3": dict(NCb=2, NLists=1, MaxLen=3, NonKinds="{11, 12, 13, 14}", IdxSet="-4..3",
                                    Bounds="{99, -4, -1, 0, 2, 4}", Steps="{99, -1, 2, 0}",
                                    PyLists="{<<>>, <<1>>, <<2, 1>>, <<1, 11>>, <<11, 2>>, <<1, 13, 2>>}"),
        }
    return {
        "2 lists x len<=2": dict(NCb=2, NLists=2, MaxLen=2, NonKinds="{11, 12, 13, 14}", IdxSet="-3..2",
                                 Bounds="{99, -1, 1}", Steps="{99, -1, 2}",
                                 PyLists="{<<>>, <<1>>, <<1, 11>>, <<2, 21>>, <<21>>, <<13>>}"),
        "3 lists x len<=2": dict(NCb=1, NLists=3, MaxLen=2, NonKinds="{}", IdxSet="{-3, -1, 0, 2}",
                                 Bounds="{99, 1}", Steps="{99}", PyLists="{<<1>>, <<1, 21>>, <<22>>}"),
        "2 lists x len<=3": dict(NCb=2, NLists=2, MaxLen=3, NonKinds="{}", IdxSet="{-4, -1, 0, 1, 3}",
                                 Bounds="{99, 2}", Steps="{99, -1}", PyLists="{<<1, 2>>, <<2, 21>>, <<21>>}"),
        "1 list x len<=4": dict(NCb=3, NLists=1, MaxLen=4, NonKinds="{11, 12, 13, 14}", IdxSet="-5..5",
                                Bounds="{99, -5, -2, -1, 0, 1, 3, 5}", Steps="{99, -1, 2, -2, 0}",
                                PyLists="{<<>>, <<1>>, <<2, 1>>, <<1, 11>>, <<11, 2>>, <<1, 13, 2>>, <<3, 2, 1>>}"),
    }


def tlc_a(b, export=True, invariants=A_INV, defs_over=None, timeout=900):
    c, d = _consts(IDLE_B, IDLE_C)
    for k, v in b.items():
        (d if isinstance(v, str) else c)[k] = v
    if defs_over:
        d.update(defs_over)
    return tlc.run("CallbackSeq", constants=c, defs=d, init="AInit", next="ANext",
                   invariants=list(invariants) + (["MC_Export"] if export else []),
                   extends_extra=["Json"], extra_text=A_EXPORT if export else "",
                   workers=WORKERS, heap=HEAP, timeout=timeout)


def _fn_token(*a):          # token 12: "a function"
    return None


NONVAL = {11: None, 12: _fn_token, 13: "s", 14: 7}
class _State:
    """stands in for the neural state in a dispatch: identity is compared; it carries the attribute a
    dispatcher may legitimately read"""
    stop_training = False


NN, EP, BT = _State(), 5, 7          # the arguments of a dispatch (identity is compared)
HOOK_ARGS = [(NN,), (NN,), (NN, EP), (NN, EP), (NN, EP, BT), (NN, EP, BT)]
LOG = []
OBSERVED = {}


class Atom(CallbackBase):
    """A plain user callback: logs (hook index * 10 + own number, the arguments it received)."""

    def __init__(self, n):
        self.n = n

    def on_train_start(self, *a):
        LOG.append((10 + self.n, a))

    def on_train_end(self, *a):
        LOG.append((20 + self.n, a))

    def on_epoch_start(self, *a):
        LOG.append((30 + self.n, a))

    def on_epoch_end(self, *a):
        LOG.append((40 + self.n, a))

    def on_batch_start(self, *a):
        LOG.append((50 + self.n, a))

    def on_batch_end(self, *a):
        LOG.append((60 + self.n, a))


ATOMS = {n: Atom(n) for n in range(1, 10)}
_ATOM_ID = {id(a): n for n, a in ATOMS.items()}


class World:
    """Real CallbackList objects for a heap `before` (list of token lists; 20 + l = list l)."""

    def __init__(self, before):
        self.objs = {}
        self.before = before
        for l in range(1, len(before) + 1):
            self._build(l, 0)
        self.ids = {id(o): l for l, o in self.objs.items()}

    def _build(self, l, depth):
        if l in self.objs:
            return self.objs[l]
        if depth > len(self.before):
            raise common.MachineryError("cyclic heap exported by the specification")
        items = []
        for t in self.before[l - 1]:
            items.append(self._build(t - 20, depth + 1) if 20 < t < NONE else self.obj(t))
        self.objs[l] = CallbackList(items)
        return self.objs[l]

    def obj(self, t):
        if t <= 9:
            return ATOMS[t]
        if t <= 14:
            return NONVAL[t]
        return self.objs[t - 20]

    def tok(self, o):
        n = _ATOM_ID.get(id(o))
        if n is not None:
            return n
        l = self.ids.get(id(o))
        if l is not None:
            return 20 + l
        if o is None:
            return 11
        if o is _fn_token:
            return 12
        if isinstance(o, str) and o == "s":
            return 13
        if type(o) is int and o == 7:
            return 14
        return ("?", repr(o))

    def adopt(self, o):
        """a CallbackList created by the operation becomes the next list of the heap"""
        l = len(self.objs) + 1
        self.objs[l] = o
        self.ids[id(o)] = l
        return l

    def heap(self):
        return [[self.tok(x) for x in list.__iter__(self.objs[l].callbacks)] for l in sorted(self.objs)]


def _sl(v):
    return None if v == NONE else v


def apply_op(w, op, tgt, i, j, k, x, vk, vs):
    """Perform one operation of the specification on the real objects.
    Returns (rk, ret, exc) in the vocabulary of CallbackSeq.tla."""
    cl = w.objs.get(tgt)
    arg = [w.obj(t) for t in vs] if vk == "pylist" else (w.obj(x) if x else None)
    try:
        if op == "construct":
            new = CallbackList(arg)
            if type(new) is not CallbackList:
                return ("?", "not a CallbackList", "")
            return ("new", [20 + w.adopt(new)], "")
        if op == "len":
            return ("int", [len(cl)], "")
        if op == "bool":
            return ("int", [int(bool(cl))], "")
        if op == "iter":
            return ("pylist", [w.tok(v) for v in iter(cl)], "")
        if op == "reversed":
            return ("pylist", [w.tok(v) for v in reversed(cl)], "")
        if op == "getitem":
            return ("tok", [w.tok(cl[i])], "")
        if op == "getslice":
            r = cl[slice(_sl(i), _sl(j), _sl(k))]
            # the type of a slice is not part of any contract: a plain list (what the code returns) or a
            # NEW CallbackList are both accepted; the observed type is recorded in the evidence
            fresh = type(r) is list or (type(r) is CallbackList and not any(r is o for o in w.objs.values()))
            OBSERVED["type of cl[a:b]"] = type(r).__name__
            return ("pylist" if fresh else "?" + type(r).__name__, [w.tok(v) for v in r], "")
        if op == "contains":
            return ("int", [int(arg in cl)], "")
        if op == "count":
            return ("int", [cl.count(arg)], "")
        if op == "index":
            return ("int", [cl.index(arg)], "")
        if op == "insert":
            r = cl.insert(i, arg)
        elif op == "setitem":
            cl[i] = arg
            r = None
        elif op == "delitem":
            del cl[i]
            r = None
        elif op == "setslice":
            cl[_sl(i):_sl(j)] = arg
            r = None
        elif op == "delslice":
            del cl[_sl(i):_sl(j)]
            r = None
        elif op == "append":
            r = cl.append(arg)
        elif op == "extend":
            r = cl.extend(arg)
        elif op == "iadd":
            r = operator.iadd(cl, arg)
            return ("tok", [w.tok(r)], "")
        elif op == "pop":
            r = cl.pop() if i == NONE else cl.pop(i)
            return ("tok", [w.tok(r)], "")
        elif op == "remove":
            r = cl.remove(arg)
        elif op == "reverse":
            r = cl.reverse()
        elif op == "clear":
            r = cl.clear()
        elif op == "add":
            new = cl + arg
            if type(new) is not CallbackList or any(new is o for o in w.objs.values()):
                return ("?", "result of + is not a new CallbackList", "")
            return ("new", [20 + w.adopt(new)], "")
        elif op == "radd":
            new = arg + cl
            return ("?", "list + CallbackList returned " + type(new).__name__, "")
        elif op == "dispatch":
            del LOG[:]
            exc = ""
            try:
                r = getattr(cl, HOOKS[k - 1])(*HOOK_ARGS[k - 1])
            except Exception as ex:
                exc, r = type(ex).__name__, None
            calls = []
            for code, a in LOG:
                ok = len(a) == len(HOOK_ARGS[k - 1]) and all(p is q for p, q in zip(a, HOOK_ARGS[k - 1]))
                calls.append(code if ok else -code)      # wrong arguments: flagged by the sign
            if r is not None:
                return ("?", "dispatch returned %r" % (r,), exc)
            return ("calls", calls, exc)
        else:
            raise common.MachineryError("unknown operation %r" % op)
        if r is not None:
            return ("?", "returned %r" % (r,), "")
        return ("none", [], "")
    except Exception as ex:
        if isinstance(ex, common.MachineryError):
            raise
        return ("none", [], type(ex).__name__)


def control(chk, rejected, what):
    """Negative control.  On an implementation that already disagrees with the specification a
    corrupted expectation may coincide with the (wrong) behaviour: the control cannot be judged then."""
    if not rejected and chk.violations:
        return
    chk.control(rejected, what)


def guarded(fn, *a, **k):
    """Run a replay; an exception escaping from the library is a finding, not a machinery failure."""
    try:
        return fn(*a, **k)
    except common.MachineryError:
        raise
    except Exception as ex:
        import traceback
        return dict(what="exception", error=repr(ex), where=traceback.format_exc().splitlines()[-3:])


def replay_transition(t):
    """One exported transition on fresh real objects -> None or a mismatch description."""
    op, tgt, i, j, k, x, vk, vs, before, after, rk, ret, exc = t
    w = World(before)
    got = apply_op(w, op, tgt, i, j, k, x, vk, vs)
    heap = w.heap()
    if op == "add" and exc == "AttributeError" and got[2] in ("TypeError", "AttributeError"):
        # `cl + <not a CallbackList>`: refused, operands untouched; which of the two exceptions is immaterial
        OBSERVED["cl + [callbacks] raises"] = got[2]
        got = (got[0], got[1], exc)
    if got != (rk, ret, exc) or heap != after:
        return dict(op=op, target=tgt, i=i, j=j, k=k, x=x, vk=vk, vs=vs, before=before,
                    expected=dict(heap=after, rk=rk, ret=ret, exc=exc),
                    got=dict(heap=heap, rk=got[0], ret=got[1], exc=got[2]))
    return None


def a_key(t):
    """violation key: operation + argument class"""
    op, x, vk, exc = t[0], t[5], t[6], t[12]
    cls = "pylist" if vk == "pylist" else ("-" if not x else "cb" if x <= 9 else "noncb" if x <= 14 else "list")
    return "%sreplay:%s:%s" % (K, op, cls)


def replay_a(chk, res, label, stats):
    n_bad = 0
    for t in res.exports:
        if not isinstance(t, list) or len(t) != 13:
            raise common.MachineryError("malformed export of Part A: %r" % (t,))
        bad = replay_transition(t)
        chk.evaluations += 1
        op = t[0]
        stats[op] = stats.get(op, 0) + 1
        if t[8] and any(t[8]):
            chk.nontriv(("A", label, op, t[12]))
        if bad is not None:
            n_bad += 1
            if n_bad <= 40:
                chk.violation(a_key(t), dict(bounds=label, **bad))
    return n_bad


def a_controls(chk, exports):
    """Comparator controls: a corrupted expectation must be flagged by replay_transition."""
    def pick(pred):
        for t in exports:
            if pred(t):
                return copy.deepcopy(t)
        raise common.MachineryError("no donor transition for a negative control")
    t = pick(lambda t: t[0] == "insert" and t[12] == "TypeError")
    t[12] = ""
    control(chk, replay_transition(t) is not None, "insert of a non-callback expected to succeed compared equal")
    t = pick(lambda t: t[0] == "dispatch" and len(t[11]) >= 2 and t[11][0] != t[11][1])
    t[11] = t[11][::-1]
    control(chk, replay_transition(t) is not None, "dispatch with reversed expected call order compared equal")
    t = pick(lambda t: t[0] == "dispatch" and len(t[11]) >= 2)
    t[11] = t[11][1:]
    control(chk, replay_transition(t) is not None, "dispatch with the first expected call dropped compared equal")
    t = pick(lambda t: t[0] == "add" and t[12] == "" and len(t[9][-1]) >= 1)
    t[9][t[1] - 1] = t[9][-1]
    control(chk, replay_transition(t) is not None, "__add__ expected to extend its left operand compared equal")
    t = pick(lambda t: t[0] == "extend" and t[12] == "TypeError" and t[9] != t[8])
    t[9] = t[8]
    control(chk, replay_transition(t) is not None, "failing extend expected to be atomic compared equal")
    t = pick(lambda t: t[0] == "setitem" and t[12] == "" and t[9] != t[8])
    t[9] = t[8]
    control(chk, replay_transition(t) is not None, "__setitem__ expected to change nothing compared equal")


# ---- code -> spec: random operation sequences on real objects, validated by TraceCallbackSeq.tla

TRACE_LISTS, TRACE_LEN = 3, 6


def random_traces(rng, n_traces, n_ops, max_lists=TRACE_LISTS, max_len=TRACE_LEN, ncb=4):
    traces = []
    for _ in range(n_traces):
        w = World([])
        ev = []
        for _ in range(n_ops):
            nl = len(w.objs)
            toks = list(range(1, ncb + 1)) + [11, 12, 13, 14] + [20 + l for l in range(1, nl + 1)]
            cbtoks = list(range(1, ncb + 1)) + [20 + l for l in range(1, nl + 1)]

            def tk():
                return rng.choice(cbtoks) if rng.random() < 0.75 else rng.choice(toks)

            def pyl():
                return [tk() if rng.random() < 0.85 else rng.choice([11, 12, 13, 14])
                        for _ in range(rng.randint(0, 3))]

            def idx(n):
                return rng.randint(-n - 2, n + 1)

            def bnd(n):
                return NONE if rng.random() < 0.3 else rng.randint(-n - 2, n + 2)
            if nl == 0 or (nl < max_lists and rng.random() < 0.12):
                o = ("construct", 0, 0, 0, 0, 0, "pylist", pyl()) if rng.random() < 0.8 else \
                    ("construct", 0, 0, 0, 0, rng.choice(toks), "tok", [])
            else:
                t = rng.randint(1, nl)
                n = len(w.objs[t])
                op = rng.choice(["insert", "insert", "setitem", "delitem", "getitem", "pop", "getslice", "setslice",
                                 "delslice", "len", "bool", "iter", "reversed", "reverse", "clear", "contains", "count",
                                 "index", "remove", "append", "append", "extend", "extend", "iadd", "add", "radd",
                                 "dispatch", "dispatch"])
                if op in ("insert", "setitem"):
                    o = (op, t, idx(n), 0, 0, tk(), "", [])
                elif op in ("delitem", "getitem"):
                    o = (op, t, idx(n), 0, 0, 0, "", [])
                elif op == "pop":
                    o = (op, t, NONE if rng.random() < 0.4 else idx(n), 0, 0, 0, "", [])
                elif op == "getslice":
                    o = (op, t, bnd(n), bnd(n), rng.choice([NONE, NONE, 1, -1, 2, -2, 3, 0]), 0, "", [])
                elif op == "setslice":
                    o = (op, t, bnd(n), bnd(n), 0, tk(), "", [])
                elif op == "delslice":
                    o = (op, t, bnd(n), bnd(n), 0, 0, "", [])
                elif op in ("len", "bool", "iter", "reversed", "reverse", "clear"):
                    if op == "clear" and rng.random() < 0.7:
                        op = "len"
                    o = (op, t, 0, 0, 0, 0, "", [])
                elif op in ("contains", "count", "index", "remove", "append"):
                    o = (op, t, 0, 0, 0, tk(), "", [])
                elif op == "radd":
                    o = (op, t, 0, 0, 0, 0, "pylist", pyl())
                elif op == "dispatch":
                    o = (op, t, 0, 0, rng.randint(1, 6), 0, "", [])
                else:
                    o = (op, t, 0, 0, 0, tk(), "tok", []) if rng.random() < 0.5 else (op, t, 0, 0, 0, 0, "pylist", pyl())
            # scope of the specification: no cyclic containment, bounded sizes
            trial = World(w.heap())
            rk, ret, exc = apply_op(trial, *o)
            h = trial.heap()
            if any(type(t) is not int for s in h for t in s):
                pass
            elif _cyclic(h) or len(h) > max_lists or any(len(s) > max_len for s in h):
                continue
            rk, ret, exc = apply_op(w, *o)
            if o[0] == "add" and exc == "TypeError" and not (o[6] == "tok" and 20 < o[5] < NONE):
                exc = "AttributeError"          # the specification's name for the refusal of `cl + <not a CallbackList>`
            ev.append(dict(o=dict(op=o[0], tgt=o[1], i=o[2], j=o[3], k=o[4], x=o[5], vk=o[6], vs=o[7]),
                           after=w.heap(), rk=rk, ret=ret, exc=exc))
            if trace_malformed(dict(ev=ev[-1:])) is not None:
                break                   # an object the vocabulary has no token for: reported by the caller
        traces.append(dict(ev=ev))
    return traces


def _cyclic(h):
    n = len(h)
    for l in range(1, n + 1):
        seen, front = set(), {t - 20 for t in h[l - 1] if 20 < t < NONE}
        for _ in range(n + 1):
            seen |= front
            front = {t - 20 for m in front for t in h[m - 1] if 20 < t < NONE}
        if l in seen:
            return True
    return False


def trace_malformed(tr):
    ints = lambda s: isinstance(s, list) and all(type(v) is int for v in s)  # noqa: E731
    for i, e in enumerate(tr["ev"]):
        o = e["o"]
        if not (ints(e["ret"]) and isinstance(e["rk"], str) and isinstance(e["exc"], str)
                and all(ints(s) for s in e["after"]) and ints(o["vs"])
                and all(type(o[f]) is int for f in ("tgt", "i", "j", "k", "x"))):
            return i
    return None


def validate_list_traces(lines, timeout=900):
    d = tempfile.mkdtemp(prefix="verif-cbtrace-")
    try:
        path = os.path.join(d, "traces.ndjson")
        with open(path, "w") as fh:
            for ln in lines:
                fh.write(json.dumps(ln) + "\n")
        c, dd = _consts(IDLE_A, IDLE_B, IDLE_C)
        c.update({"NCb": 9, "NLists": TRACE_LISTS, "MaxLen": TRACE_LEN})
        res = tlc.run("TraceCallbackSeq", constants=c, defs=dd, init="TrInit", next="TrNext",
                      constraints=["TrTrack"], postcondition="TrVerdicts", invariants=A_INV,
                      workers=1, heap=HEAP, timeout=timeout, env={"TRACE_FILE": path})
    finally:
        shutil.rmtree(d, ignore_errors=True)
    verdict = {e["tid"]: e for e in res.exports if isinstance(e, dict) and "tid" in e}
    acc, matched = [], []
    for i in range(1, len(lines) + 1):
        if i not in verdict:
            raise common.MachineryError("no verdict for list trace %d\n%s" % (i, res.raw[-3000:]))
        acc.append(verdict[i]["matched"] == verdict[i]["need"])
        matched.append(verdict[i]["matched"])
    return res, acc, matched


# ---- the same dispatch inside a real fit()

class Stopper(CallbackBase):
    """Records the events it receives; requests a stop at the planned (run, kind, epoch, batch)."""

    def __init__(self, plan=()):
        self.plan = set(plan)
        self.run = 1
        self.ev = []

    def _e(self, nn, k, ep, b):
        self.ev.append((self.run, k, ep, b))
        if (self.run, k, ep, b) in self.plan:
            nn.stop_training = True

    def on_train_start(self, nn):
        self._e(nn, "TS", -1, -1)

    def on_train_end(self, nn):
        self._e(nn, "TE", -1, -1)

    def on_epoch_start(self, nn, ep):
        self._e(nn, "ES", ep, -1)

    def on_epoch_end(self, nn, ep):
        self._e(nn, "EE", ep, -1)

    def on_batch_start(self, nn, ep, b):
        self._e(nn, "BS", ep, b)

    def on_batch_end(self, nn, ep, b):
        self._e(nn, "BE", ep, b)


def fit_once(nn, start_ep, epochs, nb, callbacks, time_flag=False):
    data = torch.tensor([[float(r % 2), float((r // 2) % 2)] for r in range(nb)], dtype=torch.double)
    out = io.StringIO()
    with contextlib.redirect_stdout(out):
        nn.fit(data, epochs=epochs, pos_batch_size=1, k=1, lr=0.01, starting_epoch=start_ep,
               callbacks=callbacks, time=time_flag)
    return out.getvalue()


def fit_dispatch(chk, exports, rng, n):
    """A heap's list handed to a real fit(): every event must reach the elements exactly as the
    specification's dispatch says; the caller's container must not be changed (time=True appends
    a Timer to fit's own copy)."""
    cands = sorted(t for t in exports if t[0] == "dispatch" and t[12] == "" and len(t[11]) >= 2)
    rng.shuffle(cands)
    proto = [(1, ()), (3, (1,)), (5, (1, 0)), (6, (1, 0)), (5, (1, 1)), (6, (1, 1)), (4, (1,)), (2, ())]
    for t in cands[:n]:
        before, tgt, calls = t[8], t[1], [c % 10 for c in t[11]]
        for how in ("CallbackList", "list"):
            w = World(before)
            arg = w.objs[tgt] if how == "CallbackList" else list(w.objs[tgt])
            nn = PositiveWaveFunction(2, 2, gpu=False)
            del LOG[:]
            try:
                stdout = fit_once(nn, 1, 1, 2, arg, time_flag=True)
            except Exception as ex:
                chk.violation(K + "fit-dispatch:exception:" + how, dict(heap=before, target=tgt, error=repr(ex)))
                continue
            got = [(code, a[1:]) for code, a in LOG]
            exp = [(h * 10 + c, args) for h, args in proto for c in calls]
            chk.evaluations += 1
            chk.nontriv(("A-fit", tuple(calls)))
            if got != exp or any(a[0] is not nn for _, a in LOG):
                chk.violation(K + "fit-dispatch:" + how, dict(heap=before, target=tgt, expected=exp, got=got))
            if w.heap() != before or (how == "list" and [w.tok(v) for v in arg] != before[tgt - 1]):
                chk.violation(K + "fit-dispatch:caller-container-modified:" + how,
                              dict(heap=before, after=w.heap(), arg=[w.tok(v) for v in arg]))
            if not re.fullmatch(r"Total time elapsed during training: +\d+\.\d{3} s\n", stdout):
                chk.violation(K + "fit-dispatch:timer-output", dict(stdout=stdout))


# --------------------------------------------------------------------------------------------
# Part B: LambdaCallback

B_FORMS = ["def", "lambda", "method", "callobj", "class", "partial", "partialkw"]


def tlc_b(max_params, export=True, defs_over=None, timeout=900):
    c, d = _consts(IDLE_A, IDLE_C)
    c["MaxParams"] = max_params
    d["BForms"] = "{" + ", ".join('"%s"' % f for f in B_FORMS) + "}"
    if defs_over:
        d.update(defs_over)
    return tlc.run("CallbackSeq", constants=c, defs=d, init="BInit", next="BNext",
                   invariants=B_INV + (["MC_Export"] if export else []),
                   extends_extra=["Json"], extra_text=B_EXPORT if export else "",
                   workers=WORKERS, heap=HEAP, timeout=timeout)


_DFLT, _V1, _V2 = object(), object(), object()
_GOT = []


def _rec(d):
    _GOT.append(d)


def param_source(ps):
    names = ["p%d" % (i + 1) for i in range(len(ps))]
    parts = []
    star = False
    for i, (k, nm) in enumerate(zip(ps, names)):
        if k == "po":
            parts.append(nm)
            if i + 1 == len(ps) or ps[i + 1] != "po":
                parts.append("/")
        elif k == "pk":
            parts.append(nm)
        elif k == "pkd":
            parts.append(nm + "=_DFLT")
        elif k == "va":
            parts.append("*" + nm)
            star = True
        elif k in ("ko", "kod"):
            if not star:
                parts.append("*")
                star = True
            parts.append(nm + ("=_DFLT" if k == "kod" else ""))
        elif k == "vk":
            parts.append("**" + nm)
        else:
            raise common.MachineryError("unknown parameter kind %r" % k)
    return ", ".join(parts), names


def make_callable(form, ps, a):
    """A real callable for a specification row.  Its body records the arguments it was bound to."""
    src, names = param_source(ps)
    env = {"_DFLT": _DFLT, "_rec": _rec}
    if form in ("def", "partial", "partialkw"):
        exec("def f(%s):\n    _rec(dict(locals()))\n" % src, env)
        f = env["f"]
        if form == "def":
            return f
        if form == "partial":
            return functools.partial(f, *[_V1, _V2][:a])
        return functools.partial(f, **{names[a - 1]: _V1})
    if form == "lambda":
        return eval("lambda %s: _rec(dict(locals()))" % src, env)
    meth = {"method": "m", "callobj": "__call__", "class": "__init__"}[form]
    exec("class Kls:\n    def %s(%s):\n        _rec(dict(locals()))\n" % (meth, src), env)
    if form == "method":
        return env["Kls"]().m
    if form == "callobj":
        return env["Kls"]()
    return env["Kls"]


def received(ps, loc):
    """positional values a synthesised function was bound to, in parameter order (*args flattened)"""
    _, names = param_source(ps)
    flat = []
    for nm, k in zip(names, ps):
        v = loc.get(nm)
        flat.extend(v) if k == "va" and isinstance(v, tuple) else flat.append(v)
    return flat


def junk_value(a):
    return [0, "name", [1], object()][a - 1]


def replay_row(e):
    """One row of the construction table on the real LambdaCallback -> list of mismatch strings."""
    row, res, count, binds = e["row"], e["res"], e["count"], e["binds"]
    h = row["hook"] - 1
    bad = []
    if row["vk"] == "none":
        value = None
    elif row["vk"] == "noncallable":
        value = junk_value(row["a"])
    else:
        value = make_callable(row["form"], row["ps"], row["a"])
        # the arity model against inspect.signature itself
        try:
            n = len(inspect.signature(value).parameters)
            kinds = [p.kind.name + ("=" if p.default is not p.empty else "") for p in
                     inspect.signature(value).parameters.values()]
        except ValueError:
            n, kinds = -1, []
        if n != count:
            bad.append("signature-count: inspect reports %d parameters %s, specification %d %s"
                       % (n, kinds, count, e["sig"]))
        elif n >= 0:
            m = {"po": "POSITIONAL_ONLY", "pk": "POSITIONAL_OR_KEYWORD", "pkd": "POSITIONAL_OR_KEYWORD=",
                 "va": "VAR_POSITIONAL", "ko": "KEYWORD_ONLY", "kod": "KEYWORD_ONLY=", "vk": "VAR_KEYWORD"}
            if sorted(kinds) != sorted(m[k] for k in e["sig"]):
                bad.append("signature-kinds: inspect reports %s, specification %s" % (kinds, e["sig"]))
    try:
        lc = LambdaCallback(**{HOOKS[h]: value})
        got = "ok"
    except Exception as ex:
        got, lc = type(ex).__name__, None
    want = {"noop": "ok", "accept": "ok"}.get(res, res)
    if got != want:
        bad.append("construction: expected %s, got %s" % (want, got))
        return bad
    if lc is None:
        return bad
    if not isinstance(lc, CallbackBase):
        bad.append("not a CallbackBase")
    # invoke all six hooks the way the library does: through a CallbackList, with its arguments
    cl = CallbackList([lc])
    for g in range(6):
        del _GOT[:]
        try:
            r = getattr(cl, HOOKS[g])(*HOOK_ARGS[g])
            out = "ok"
        except TypeError:
            r, out = None, "TypeError"
        if g != h or res == "noop":
            if out != "ok" or r is not None or _GOT:
                bad.append("noop-hook %s: %s" % (HOOKS[g], out))
            continue
        if out != ("ok" if binds else "TypeError"):
            bad.append("invoke: expected %s, got %s" % ("ok" if binds else "TypeError", out))
        elif binds:
            if len(_GOT) != 1:
                bad.append("invoke: user function ran %d times" % len(_GOT))
            else:
                seen = [v for v in received(row["ps"], _GOT[0]) if any(v is s for s in HOOK_ARGS[g])]
                if len(seen) != len(HOOK_ARGS[g]) or any(p is not q for p, q in zip(seen, HOOK_ARGS[g])):
                    bad.append("invoke: user function did not receive exactly the library's arguments in order")
    return bad


def replay_b(chk, rows, stats):
    n_bad = 0
    for e in rows:
        bad = replay_row(e)
        chk.evaluations += 1
        row = e["row"]
        cls = row["vk"] if row["vk"] != "callable" else row["form"]
        stats[e["res"]] = stats.get(e["res"], 0) + 1
        if row["vk"] == "callable":
            chk.nontriv(("B", row["form"], tuple(row["ps"]), row["a"]))
            if e["res"] == "accept" and not e["binds"]:
                stats["accepted but not callable with the library's arguments"] = \
                    stats.get("accepted but not callable with the library's arguments", 0) + 1
            if e["res"] == "ValueError" and e["count"] >= 0 and e["binds"]:
                stats["refused although callable with the library's arguments"] = \
                    stats.get("refused although callable with the library's arguments", 0) + 1
        for b in bad:
            n_bad += 1
            if n_bad <= 40:
                chk.violation("%slambda:%s:%s:%s" % (K, b.split(":")[0], cls, HOOKS[row["hook"] - 1]),
                              dict(row=row, specification=dict(res=e["res"], count=e["count"], binds=e["binds"],
                                                               sig=e["sig"]), mismatch=b))
    return n_bad


def b_controls(chk, rows):
    def pick(pred):
        for e in rows:
            if pred(e):
                return copy.deepcopy(e)
        raise common.MachineryError("no donor row for a negative control")
    e = pick(lambda e: e["res"] == "accept" and e["binds"] and e["row"]["form"] == "def")
    e["res"] = "ValueError"
    control(chk, bool(replay_row(e)), "accepted callable expected to be refused compared equal")
    e = pick(lambda e: e["res"] == "ValueError" and e["count"] == ARITY[e["row"]["hook"] - 1] - 1)
    e["res"], e["binds"] = "accept", False
    control(chk, bool(replay_row(e)), "callable with one parameter too few expected to be accepted compared equal")
    e = pick(lambda e: e["res"] == "accept" and not e["binds"])
    e["binds"] = True
    control(chk, bool(replay_row(e)), "keyword-only signature expected to take positional arguments compared equal")
    e = pick(lambda e: e["row"]["vk"] == "noncallable")
    e["res"] = "ValueError"
    control(chk, bool(replay_row(e)), "non-callable expected to raise ValueError compared equal")
    e = pick(lambda e: e["row"]["vk"] == "callable" and e["count"] >= 2)
    e["count"] -= 1
    control(chk, bool(replay_row(e)), "parameter count off by one compared equal")


def lambda_in_fit(chk, rows, rng, n):
    """LambdaCallbacks built from accepted rows of different forms, in a real fit(): they must see
    exactly what a CallbackBase subclass in the same list sees."""
    rows = sorted(rows, key=lambda e: json.dumps(e, sort_keys=True))
    per_hook = {h: [e for e in rows if e["res"] == "accept" and e["binds"] and e["row"]["hook"] == h
                    and e["row"]["form"] != "class"] for h in range(1, 7)}
    hook_of = {"TS": 1, "TE": 2, "ES": 3, "EE": 4, "BS": 5, "BE": 6}
    for _ in range(n):
        picks = {h: rng.choice(per_hook[h]) for h in range(1, 7)}
        forms = {HOOKS[h - 1]: e["row"] for h, e in picks.items()}
        chk.evaluations += 1
        chk.nontriv(("B-fit", tuple(sorted((h, e["row"]["form"]) for h, e in picks.items()))))
        marks = []

        class Mark(CallbackBase):       # stands after the LambdaCallback: counts the user-function calls so far
            pass
        for hn in HOOKS:
            setattr(Mark, hn, (lambda hn: lambda self, *a: marks.append((hn, a[1:], len(_GOT))))(hn))
        ref = Stopper(plan={(1, "BE", 2, 0)})
        nn = PositiveWaveFunction(2, 2, gpu=False)
        del _GOT[:]
        try:
            lc = LambdaCallback(**{HOOKS[h - 1]: make_callable(e["row"]["form"], e["row"]["ps"], e["row"]["a"])
                                   for h, e in picks.items()})
            fit_once(nn, 1, 3, 2, [ref, lc, Mark()])
        except Exception as ex:
            chk.violation(K + "lambda:fit:exception", dict(forms=forms, error=repr(ex)))
            continue
        exp = list(ref.ev)
        # every event reached the user function exactly once, before the next callback of the list ran
        ok = [m[2] for m in marks] == list(range(1, len(marks) + 1)) and len(marks) == len(exp) == len(_GOT)
        for (hn, args, _), g, (_, k, ep, b) in zip(marks, _GOT, exp):
            vals = [v for v in received(picks[hook_of[k]]["row"]["ps"], g) if v is nn or type(v) is int]
            want = [nn] + [v for v in (ep, b) if v >= 0]
            if hn != HOOKS[hook_of[k] - 1] or len(vals) != len(want) or vals[0] is not nn or vals[1:] != want[1:]:
                ok = False
        if not ok:
            chk.violation(K + "lambda:fit", dict(forms=forms, events=exp, marks=[(m[0], m[1], m[2]) for m in marks]))


# --------------------------------------------------------------------------------------------
# Part C: Timer

def c_space(tier):
    rec = ('[startEp |-> s, epochs |-> e, nb |-> n, verbose |-> v, place |-> p, runs |-> %s, again |-> %s, '
           'dt |-> %s, entryStop |-> %s]')
    if tier == "quick":
        one = "{ %s : s \\in {1}, e \\in 0..2, n \\in 1..2, v \\in BOOLEAN, p \\in {\"first\", \"last\"}, d \\in {0, 3}, es \\in BOOLEAN }" % (
            rec % ("1", '"reset"', "d", "es"))
        two = "{ %s : s \\in {1}, e \\in 1..2, n \\in 1..2, v \\in BOOLEAN, p \\in {\"first\", \"last\"}, a \\in {\"reset\", \"keep\"} }" % (
            rec % ("2", "a", "1", "FALSE"))
    else:
        one = "{ %s : s \\in 0..2, e \\in 0..3, n \\in 1..3, v \\in BOOLEAN, p \\in {\"first\", \"last\"}, d \\in {0, 1, 1000}, es \\in BOOLEAN }" % (
            rec % ("1", '"reset"', "d", "es"))
        two = "{ %s : s \\in 1..2, e \\in 1..3, n \\in 1..2, v \\in BOOLEAN, p \\in {\"first\", \"last\"}, a \\in {\"reset\", \"keep\"}, es \\in BOOLEAN }" % (
            rec % ("2", "a", "2", "es"))
    return [one, two]


def tlc_c(shards, export=True, latch=True, invariants=C_INV, liveness=False, defs_over=None, timeout=900):
    c, d = _consts(IDLE_A, IDLE_B)
    c.update({"TMaxInj": 1, "LatchPerObject": latch})
    d["TShards"] = "1..%d" % len(shards)
    d["TCfgsOf(shardNo)"] = "CASE " + " [] ".join("shardNo = %d -> %s" % (i + 1, t) for i, t in enumerate(shards))
    if defs_over:
        d.update(defs_over)
    return tlc.run("CallbackSeq", constants=c, defs=d,
                   init="CInit", next="CNext", spec="CSpec" if liveness else None,
                   properties=["TTerminates"] if liveness else (),
                   invariants=list(invariants) + (["MC_Export"] if export else []),
                   extends_extra=["Json"], extra_text=C_EXPORT if export else "",
                   workers=WORKERS, heap=HEAP, timeout=timeout)


_TERM_B = re.compile(r"Training terminated at epoch: (-?\d+), batch: (-?\d+)")
_TERM_E = re.compile(r"Training terminated at epoch: (-?\d+)")
_TOTAL = re.compile(r"Total time elapsed during training: *(-?\d+\.\d{3}) s")


def parse_lines(text):
    """stdout of a run -> message records in the vocabulary of the specification"""
    out = []
    for ln in text.splitlines():
        m = _TERM_B.fullmatch(ln)
        if m:
            out.append(("term", int(m.group(1)), int(m.group(2))))
            continue
        m = _TERM_E.fullmatch(ln)
        if m:
            out.append(("term", int(m.group(1)), -1))
            continue
        m = _TOTAL.fullmatch(ln)
        if m:
            out.append(("total", float(m.group(1))))
            continue
        out.append(("?", ln))
    return out


def spec_lines(out, run=None, upto=None, times=True):
    r = []
    for m in out:
        if (run is not None and m["run"] != run) or (upto is not None and m["at"] > upto):
            continue
        if m["m"] == "term":
            r.append(("term", m["ep"], m["b"]))
        else:
            r.append(("total", float(m["t"])) if times else ("total",))
    return r


class _Clock:
    def __init__(self):
        self.now = 0

    def time(self):
        return self.now


class _NN:
    """Stand-in for the trained state when a Timer is driven directly: only stop_training is read."""
    stop_training = False


def timer_direct(beh):
    """Drive a real Timer object along the behaviour's events with the behaviour's clock."""
    cfg, ev, out, fin = beh["cfg"], beh["ev"], beh["out"], beh["fin"]
    clock = _Clock()
    saved = timer_mod.time
    timer_mod.time = clock
    buf = io.StringIO()
    try:
        t = Timer(verbose=cfg["verbose"]) if not cfg["verbose"] else Timer()
        nn = _NN()
        run = 0
        with contextlib.redirect_stdout(buf):
            for n, e in enumerate(ev, start=1):
                if e["run"] != run:
                    run = e["run"]
                    nn.stop_training = False          # the user resets the flag between the fits
                clock.now = e["clk"]
                if e["inj"] and cfg["place"] == "last":
                    nn.stop_training = True           # the stopper ran before the Timer in this dispatch
                if bool(nn.stop_training) != e["seen"]:
                    raise common.MachineryError("replay lost track of the stop flag")
                k = e["k"]
                if k == "TS":
                    t.on_train_start(nn)
                elif k == "TE":
                    t.on_train_end(nn)
                elif k == "ES":
                    t.on_epoch_start(nn, e["ep"])
                elif k == "EE":
                    t.on_epoch_end(nn, e["ep"])
                elif k == "BS":
                    t.on_batch_start(nn, e["ep"], e["b"])
                else:
                    t.on_batch_end(nn, e["ep"], e["b"])
                if e["inj"]:
                    nn.stop_training = True
                got = parse_lines(buf.getvalue())
                if got != spec_lines(out, upto=n):
                    return dict(at_event=n, event=e, expected=spec_lines(out, upto=n), got=got)
        if ev:
            state = dict(notified=bool(t.already_notified), time=getattr(t, "training_time", -1),
                         start=getattr(t, "start_time", -1))
            want = dict(notified=fin["notified"], time=fin["time"], start=fin["start"])
            if state != want:
                return dict(at_event="final", expected=want, got=state)
    finally:
        timer_mod.time = saved
    return None


def timer_fit(beh, via_time_flag=False):
    """The same behaviour through real fit() calls.  Real clock: totals are only required to be >= 0."""
    cfg, ev, out = beh["cfg"], beh["ev"], beh["out"]
    plan = {(e["run"], e["k"], e["ep"], e["b"]) for e in ev if e["inj"]}
    st = Stopper(plan)
    nn = PositiveWaveFunction(2, 2, gpu=False)
    if cfg["entryStop"]:
        nn.stop_training = True
    tm = None if via_time_flag else Timer(verbose=cfg["verbose"])
    cbs = [st] if via_time_flag else ([st, tm] if cfg["place"] == "last" else [tm, st])
    texts = []
    for run in range(1, cfg["runs"] + 1):
        st.run = run
        if run > 1 and cfg["again"] == "reset":
            nn.stop_training = False
        texts.append(fit_once(nn, cfg["startEp"], cfg["epochs"], cfg["nb"], cbs, time_flag=via_time_flag))
    exp_ev = [(e["run"], e["k"], e["ep"], e["b"]) for e in ev]
    if st.ev != exp_ev:
        return dict(what="events", expected=exp_ev, got=st.ev)
    for run, text in enumerate(texts, start=1):
        got = parse_lines(text)
        want = spec_lines(out, run=run, times=False)
        g2 = [g if g[0] != "total" else ("total",) for g in got]
        if g2 != want or any(g[0] == "total" and g[1] < 0 for g in got):
            return dict(what="printed lines of run %d" % run, expected=want, got=got)
    if tm is not None and ev:
        if bool(tm.already_notified) != beh["fin"]["notified"] or not (getattr(tm, "training_time", -1) >= 0):
            return dict(what="timer state", notified=tm.already_notified, training_time=getattr(tm, "training_time", None))
    if bool(nn.stop_training) != beh["fin"]["stop"]:
        return dict(what="stop flag", expected=beh["fin"]["stop"], got=bool(nn.stop_training))
    return None


def timer_real_run(beh, seed):
    """Through harness/trainrun.real_run(time_flag=True): fit appends its own Timer() after the recorder."""
    import trainrun
    cfg, ev, out = beh["cfg"], beh["ev"], beh["out"]
    tcfg = dict(type="positive", startEp=cfg["startEp"], epochs=cfg["epochs"], N=cfg["nb"], posB=1, negB=0,
                data=list(range(1, cfg["nb"] + 1)), bases=[], sched=False, entryStop=cfg["entryStop"], again="no",
                perms="all", cbs=[{"t": "rec"}], vals=[], vars=[])
    plan = {(e["k"], e["ep"], e["b"], 1) for e in ev if e["inj"]}
    real = trainrun.real_run(tcfg, plan=plan, seed=seed, time_flag=True)
    if real["error"] is not None:
        return dict(what="exception", error=repr(real["error"]))
    got_ev = [(e["k"], e["ep"], e["b"]) for e in real["hist"] if e.get("cb") == 1]
    exp_ev = [(e["k"], e["ep"], e["b"]) for e in ev]
    if got_ev != exp_ev:
        return dict(what="events", expected=exp_ev, got=got_ev)
    got = parse_lines(real["stdout"])
    g2 = [g if g[0] != "total" else ("total",) for g in got]
    if g2 != spec_lines(out, run=1, times=False) or any(g[0] == "total" and g[1] < 0 for g in got):
        return dict(what="printed lines", expected=spec_lines(out, run=1, times=False), got=got)
    return None


def c_key(beh, how):
    cfg = beh["cfg"]
    inj = [e["k"] for e in beh["ev"] if e["inj"]]
    return "%stimer:%s:%s:%s:stop-at-%s" % (K, how, cfg["place"], "2fits-" + cfg["again"] if cfg["runs"] == 2 else "1fit",
                                            "+".join(inj) if inj else "none")


def replay_c(chk, behs, rng, n_fit, n_real, seed, stats):
    n_bad = 0
    for beh in behs:
        bad = guarded(timer_direct, beh)
        chk.evaluations += 1
        if any(m["m"] == "term" for m in beh["out"]):
            chk.nontriv(("C", json.dumps(beh["cfg"], sort_keys=True), tuple(i for i, e in enumerate(beh["ev"]) if e["inj"])))
        stats["behaviours"] = stats.get("behaviours", 0) + 1
        if beh["cfg"]["runs"] == 2 and beh["cfg"]["verbose"] and \
                sum(1 for e in beh["ev"] if e["seen"] and e["k"] in ("BE", "EE") and e["run"] == 2) and \
                not any(m["m"] == "term" and m["run"] == 2 for m in beh["out"]):
            stats["second fit stopped without a message (latch)"] = stats.get("second fit stopped without a message (latch)", 0) + 1
        if bad is not None:
            n_bad += 1
            if n_bad <= 20:
                chk.violation(c_key(beh, "direct"), dict(cfg=beh["cfg"], events=beh["ev"], spec_out=beh["out"], mismatch=bad))
    # the same behaviours through real fit() runs
    behs = sorted(behs, key=lambda b: json.dumps(b, sort_keys=True))     # TLC's order depends on thread timing
    idx = list(range(len(behs)))
    rng.shuffle(idx)
    interesting = [i for i in idx if any(e["inj"] for e in behs[i]["ev"])] + \
                  [i for i in idx if not any(e["inj"] for e in behs[i]["ev"])]
    for i in interesting[:n_fit]:
        beh = behs[i]
        bad = guarded(timer_fit, beh)
        chk.evaluations += 1
        stats["fit runs"] = stats.get("fit runs", 0) + beh["cfg"]["runs"]
        if bad is not None:
            chk.violation(c_key(beh, "fit"), dict(cfg=beh["cfg"], events=beh["ev"], spec_out=beh["out"], mismatch=bad))
    flag_ok = [i for i in interesting if behs[i]["cfg"]["runs"] == 1 and behs[i]["cfg"]["verbose"]
               and behs[i]["cfg"]["place"] == "last"]
    for n, i in enumerate(flag_ok[:n_real]):
        beh = behs[i]
        bad = guarded(timer_fit, beh, via_time_flag=True) if n % 2 else guarded(timer_real_run, beh, seed + n)
        chk.evaluations += 1
        stats["fit(time=True) runs"] = stats.get("fit(time=True) runs", 0) + 1
        if bad is not None:
            chk.violation(c_key(beh, "fit-time-flag"), dict(cfg=beh["cfg"], events=beh["ev"], spec_out=beh["out"], mismatch=bad))
    return n_bad


def c_controls(chk, behs):
    def pick(pred):
        for b in behs:
            if pred(b):
                return copy.deepcopy(b)
        raise common.MachineryError("no donor behaviour for a negative control")
    has_term_b = lambda b: any(m["m"] == "term" and m["b"] >= 0 and m["ep"] != m["b"] for m in b["out"])  # noqa: E731
    b = pick(lambda b: has_term_b(b) and b["cfg"]["runs"] == 1)
    for m in b["out"]:
        if m["m"] == "term":
            m["ep"], m["b"] = m["b"], m["ep"]
    control(chk, guarded(timer_direct, b) is not None and guarded(timer_fit, b) is not None,
                "termination message with epoch and batch swapped compared equal")
    b = pick(lambda b: any(m["m"] == "term" for m in b["out"]) and b["cfg"]["runs"] == 1)
    b["out"] = [m for m in b["out"] if m["m"] != "term"]
    control(chk, guarded(timer_direct, b) is not None and guarded(timer_fit, b) is not None, "dropped termination message compared equal")
    b = pick(lambda b: b["cfg"]["runs"] == 2 and b["cfg"]["verbose"] and any(m["m"] == "term" and m["run"] == 1 for m in b["out"])
             and any(e["run"] == 2 and e["seen"] and e["k"] == "BE" for e in b["ev"]))
    e2 = next(e for e in b["ev"] if e["run"] == 2 and e["seen"] and e["k"] == "BE")
    at = b["ev"].index(e2) + 1
    b["out"] = sorted(b["out"] + [dict(m="term", ep=e2["ep"], b=e2["b"], run=2, t=0, at=at)], key=lambda m: m["at"])
    control(chk, guarded(timer_direct, b) is not None and guarded(timer_fit, b) is not None,
                "second termination message from a re-used Timer (per-fit latch) compared equal")
    b = pick(lambda b: any(m["m"] == "total" and m["t"] > 0 for m in b["out"]))
    for m in b["out"]:
        if m["m"] == "total":
            m["t"] += 1
    control(chk, guarded(timer_direct, b) is not None, "elapsed time off by one tick compared equal")
    b = pick(lambda b: not b["cfg"]["verbose"] and b["ev"])
    b["out"] = [dict(m="total", ep=-1, b=-1, run=1, t=b["fin"]["time"], at=len([e for e in b["ev"] if e["run"] == 1]))]
    control(chk, guarded(timer_direct, b) is not None, "output from a non-verbose Timer compared equal")


# --------------------------------------------------------------------------------------------

def run(chk, tier, seed):
    rng = random.Random(seed * 7919 + 12)
    quick = tier == "quick"
    info = chk.extra.setdefault("ext_callbacks", {})
    bounds = a_bounds(tier)
    traces = random_traces(rng, 60 if quick else 600, 25 if quick else 40)
    for tr in traces:
        i = trace_malformed(tr)
        if i is not None:
            chk.violation(K + "trace:malformed:" + tr["ev"][i]["o"]["op"], dict(event=tr["ev"][i]))
    good = [t for t in traces if trace_malformed(t) is None]
    # corrupted traces the trace specification must refuse
    t_bad = []

    def corrupt(what, pred, change):
        for t in good:
            for n, e in enumerate(t["ev"]):
                if pred(e):
                    c = copy.deepcopy(t)
                    change(c["ev"][n])
                    t_bad.append((what, c))
                    return
        if not chk.violations:
            raise common.MachineryError("no donor trace for the negative control: " + what)
    corrupt("list trace with a dispatch in reversed order accepted",
            lambda e: e["o"]["op"] == "dispatch" and len(e["ret"]) >= 2 and e["ret"] != e["ret"][::-1],
            lambda e: e.update(ret=e["ret"][::-1]))
    corrupt("list trace in which storing a non-callback raised nothing accepted",
            lambda e: e["o"]["op"] in ("insert", "setitem", "append") and e["exc"] == "TypeError",
            lambda e: e.update(exc=""))
    corrupt("list trace whose += returned another object accepted",
            lambda e: e["o"]["op"] == "iadd" and e["exc"] == "" and len(e["after"]) >= 2,
            lambda e: e.update(ret=[20 + (e["o"]["tgt"] % len(e["after"])) + 1]))
    corrupt("list trace with an element lost by reverse accepted",
            lambda e: e["o"]["op"] == "reverse" and e["exc"] == "" and len(e["after"][e["o"]["tgt"] - 1]) >= 2,
            lambda e: e["after"].__setitem__(e["o"]["tgt"] - 1, e["after"][e["o"]["tgt"] - 1][1:]))

    with cf.ThreadPoolExecutor(max_workers=4) as pool:
        fa = {name: pool.submit(tlc_a, b) for name, b in bounds.items()}
        fb = pool.submit(tlc_b, 3 if quick else 5)
        fc = pool.submit(tlc_c, c_space(tier), True, True, C_INV, not quick)
        ft = pool.submit(validate_list_traces, good + [c for _, c in t_bad])
        # TLC-level controls: a corrupted specification must violate the stated invariant
        ctl = {
            "insert without the type check must violate TypeDiscipline": pool.submit(
                tlc_a, dict(list(bounds.values())[0], NLists=1), False, ["TypeDiscipline"],
                {"PIns(s, i, x)": 'LET p == Clamp(Len(s), i) IN S(Cut(s, 0, p) \\o <<x>> \\o Cut(s, p, Len(s)), "")'}),
            "the code's per-object latch must violate the per-fit reading of the docstring (PerFitAnnouncement)":
                pool.submit(tlc_c, c_space("quick")[1:], False, True, ["PerFitAnnouncement"]),
        }
        if not quick:
            small = dict(list(a_bounds("quick").values())[0])
            ctl["a dispatch that ignores nesting and order must violate DispatchLaw"] = pool.submit(
                tlc_a, small, False, ["DispatchLaw"], {"Calls(ls, s, j)": '[c |-> Rev(TopAtoms(s)), exc |-> ""]'})
            ctl["an all-or-nothing extend must violate MixinLaws (the real one keeps the prefix)"] = pool.submit(
                tlc_a, small, False, ["MixinLaws"],
                {"ExtendFrom(s, it, j)": 'IF AllCb(it) THEN S(s \\o it, "") ELSE S(s, "TypeError")'})
            ctl["__setitem__ without the type check must violate TypeDiscipline"] = pool.submit(
                tlc_a, small, False, ["TypeDiscipline"],
                {"PSet(s, i, x)": 'IF ~InRange(Len(s), i) THEN S(s, "IndexError") '
                                  'ELSE S([s EXCEPT ![Norm(Len(s), i) + 1] = x], "")'})
            ctl["a binding rule that accepts every signature must violate ExactOnPlain"] = pool.submit(
                tlc_b, 3, False, {"BindsPos(ps, n)": "TRUE"})

        # ---- Part B (small, arrives first)
        rb = fb.result()
        chk.add_tlc(rb, "CallbackSeq.tla part B: LambdaCallback table (MaxParams=%d)" % (3 if quick else 5))
        if rb.violation:
            chk.violation(K + "spec:B:" + str(rb.violation), dict(tlc=rb.raw[-3000:]))
        sb = {}
        replay_b(chk, rb.exports, sb)
        b_controls(chk, rb.exports)
        lambda_in_fit(chk, rb.exports, rng, 6 if quick else 60)
        info["lambda_table"] = sb
        chk.sample(dict(lambda_row=next((e for e in rb.exports if e["res"] == "accept" and not e["binds"]), None)))

        # ---- Part C
        rc = fc.result()
        chk.add_tlc(rc, "CallbackSeq.tla part C: Timer" + ("" if quick else " (+ termination)"))
        if rc.violation:
            chk.violation(K + "spec:C:" + str(rc.violation), dict(tlc=rc.raw[-3000:]))
        sc = {}
        replay_c(chk, rc.exports, rng, 120 if quick else 1500, 40 if quick else 300, seed, sc)
        c_controls(chk, rc.exports)
        info["timer"] = sc
        chk.sample(dict(timer_behaviour=next((b for b in rc.exports if b["cfg"]["runs"] == 2 and b["cfg"]["verbose"]
                                              and any(m["m"] == "term" for m in b["out"])), None)))

        # ---- Part A
        sa = {}
        first = None
        for name, f in fa.items():
            ra = f.result()
            chk.add_tlc(ra, "CallbackSeq.tla part A: %s" % name)
            if ra.violation:
                chk.violation(K + "spec:A:" + str(ra.violation), dict(tlc=ra.raw[-3000:]))
            replay_a(chk, ra, name, sa)
            if first is None:
                first = ra.exports
            else:
                ra.exports = None
            ra.raw = ""
        a_controls(chk, first)
        chk.sample(dict(list_transition=next((t for t in first if t[0] == "extend" and t[12] == "TypeError" and t[9] != t[8]),
                                             None)))
        fit_dispatch(chk, first, rng, 8 if quick else 80)
        info["list_transitions_by_operation"] = sa
        info["observed"] = dict(OBSERVED)

        # ---- traces
        rt, acc, matched = ft.result()
        chk.add_tlc(rt, "TraceCallbackSeq.tla (%d operation sequences on real objects)" % len(good))
        if rt.violation:
            chk.violation(K + "trace:invariant:" + str(rt.violation), dict(tlc=rt.raw[-3000:]))
        for j, (what, _) in enumerate(t_bad):
            control(chk, not acc[len(good) + j], what)
        for i, ok in enumerate(acc[:len(good)]):
            if ok:
                chk.traces += 1
                chk.nontriv(("A-trace", i))
            else:
                ev = good[i]["ev"]
                nxt = ev[matched[i]] if matched[i] < len(ev) else None
                chk.violation(K + "trace:rejected:" + (nxt["o"]["op"] if nxt else "end"),
                              dict(matched_prefix=matched[i], heap_before=ev[matched[i] - 1]["after"] if matched[i] else [],
                                   event=nxt))
        for what, f in ctl.items():
            r = f.result()
            chk.add_tlc(r, "control: " + what)
            chk.control(r.violation is not None, "specification control held although it must fail: " + what)
        if not quick:
            r = tlc_c(c_space("quick")[1:], False, False, C_INV + ["PerFitAnnouncement"])
            chk.add_tlc(r, "variant: LatchPerObject = FALSE (latch reset by the next fit) satisfies PerFitAnnouncement")
            if r.violation:
                raise common.MachineryError("the per-fit variant of the Timer specification is inconsistent: %s" % r.violation)

    chk.assumptions += [
        "callback container: no callback mutates the list during a dispatch; no cyclic containment; "
        "the internal attribute .callbacks is not touched; heaps bounded as listed in tlc_runs",
        "Timer: the wall clock does not run backwards; direct replays drive the clock (qucumber.callbacks.timer.time "
        "is replaced for the duration of a replay and restored), fit() replays use the real clock",
        "LambdaCallback: parameter lists up to MaxParams, forms def / lambda / bound method / __call__ object / class / "
        "functools.partial (positional and keyword)"]
    chk.rule += ("  || ext_callbacks: every (heap, operation) transition of CallbackSeq.tla part A inside the bounds, "
                 "every row of the LambdaCallback table, every terminal Timer behaviour (a stop at every event, Timer "
                 "before / after the stopper, verbose on/off, second fit on the same Timer); non-trivial = non-empty "
                 "heap transition / callable row / behaviour with a termination message")
    return chk
