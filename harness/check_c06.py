"""C06 - Each training step applies exactly the contrastive-divergence update.

TLC checks the update protocol of spec/Train.tla (per batch: compute, zero_grad, one
assignment per network in order, one optimizer step; the scheduler once per started
epoch after the batch loop, also when the epoch is cut by a stop) over all small
configurations with a stop injected at every event; every terminal behaviour is
replayed into the real fit().  Real runs on tiny models are recorded with every
number in 1e-6 fixed point (positive phase, effective-energy gradient of the k-step
Gibbs states, gradient handed to the optimizer, .grad of every named parameter,
parameter change divided by the learning rate, learning rate) and validated by
TraceTrain.tla, whose Compute / Assign / OptStep steps carry the CD arithmetic.
"""
import copy
import random

import common
import traincheck as tc
import trainrun

PID = "C06"


def cfg_space(tier):
    pos = '''{ [type |-> "positive", startEp |-> 1, epochs |-> e, N |-> nb[1], posB |-> nb[2], negB |-> nb[3],
       data |-> [i \\in 1..nb[1] |-> i], bases |-> <<>>, sched |-> sc, entryStop |-> FALSE, again |-> "no", perms |-> "id",
       cbs |-> <<[t |-> "rec"]>>, vals |-> <<>>, vars |-> <<>>] :
       e \\in 0..%d, nb \\in {<<1,1,0>>, <<3,2,0>>, <<3,2,1>>, <<3,1,2>>, <<2,3,3>>}, sc \\in BOOLEAN }''' % (2 if tier == "quick" else 3)
    oth = '''{ [type |-> ty, startEp |-> 1, epochs |-> e, N |-> 3, posB |-> pb, negB |-> ngb,
       data |-> <<1, 2, 3>>, bases |-> <<0, 1, 0>>, sched |-> sc, entryStop |-> FALSE, again |-> "no", perms |-> "id",
       cbs |-> <<[t |-> "rec"]>>, vals |-> <<>>, vars |-> <<>>] :
       ty \\in {"complex", "density"}, e \\in 1..2, pb \\in {2, 3}, ngb \\in {0, 1}, sc \\in BOOLEAN }'''
    return [pos, oth]


def strip(x):
    return {k: v for k, v in x.items() if not k.startswith("_")}


# one dictionary object handed to many fit() calls with different learning rates, as a user's script would
SHARED_OPT_ARGS = {"momentum": 0.0}


def random_numeric_run(rng, tier):
    typ = rng.choice(["positive", "complex", "density"])
    N = rng.randint(1, 6)
    nv = rng.randint(2, 3)
    data = [rng.randrange(2 ** nv) for _ in range(N)]
    bases = []
    if typ != "positive":
        bases = [rng.choice([0, rng.randrange(3 ** nv)]) for _ in range(N)]
        bases[rng.randrange(N)] = 0
    sched = rng.random() < 0.5
    lr = 0.512 if sched else rng.choice([0.512, 0.1, 0.001])
    pb = rng.randint(1, 4)
    cfg = dict(type=typ, startEp=1, epochs=rng.randint(1, 4 if tier == "quick" else 6), N=N, posB=pb,
               negB=rng.choice([0, pb, 1, 2, 5]), data=data, bases=bases, sched=sched, entryStop=False,
               again="no", perms="all", cbs=[{"t": "rec"}], vals=[], vars=[])
    k = 1 if rng.random() < 0.4 else rng.randint(0, 3)        # (k = 1 is the published default and is then left out as often as passed)
    plan = set()
    if rng.random() < 0.3:
        plan.add((rng.choice(["BS", "BE", "EE"]), rng.randint(1, 3), rng.choice([0, 1, -1]), 1))
        plan = {(a, e, (b if a in ("BS", "BE") and b >= 0 else (-1 if a == "EE" else 0)), c) for a, e, b, c in plan}
    real = trainrun.real_run(cfg, plan=plan, seed=rng.randrange(10 ** 6), k=k, lr=lr, numeric_hook=True,
                             opt_args=SHARED_OPT_ARGS if rng.random() < 0.7 else None)
    return cfg, real, dict(k=k, lr0=int(round(lr * 1e6)), plan=sorted(plan))


def lattice_first_steps(chk, tier, rng, seed):
    """spec -> code with exact numbers: at lattice parameters and k = 0 the chain end states are the negative
    batch itself, so the whole update is exact: theta' - theta = -lr * (mean_pos dE - mean_neg dE) with dE the
    closed forms of spec/GradRBM.tla (whose derivative identity TLC checks).  Negative rows come from the
    recorded draw (neg_batch_size != pos_batch_size)."""
    import mpmath
    import torch
    import gradlib
    import lattice
    import terms
    import tlc
    pts = [lattice.random_point(rng, nvmax=3, nhmax=3, budget=60) for _ in range(25 if tier == "quick" else 300)]
    pf = lattice.PointsFile(pts)
    try:
        res = tlc.run("GradRBM", constants={"TMax": 200, "Lanes": 16}, defs={"Archs": "{}", "Vals": "{1}"},
                      invariants=["WellDefined", "GradIsDerivative", "LayoutBijection", "GradExport"],
                      env={"POINTS_FILE": pf.path}, workers=8, timeout=1200)
    finally:
        pf.close()
    chk.add_tlc(res, "GradRBM.tla (first-step lattice points)")
    if res.violation:
        if res.violation == "WellDefined":
            raise common.MachineryError("lattice bound exceeded\n" + res.raw[-1500:])
        chk.violation("spec:GradRBM:" + str(res.violation), dict(tlc=res.raw[-3000:]))
        return
    for n, e in enumerate(res.exports):
        B, nv, nh = e["B"], e["nv"], e["nh"]
        # the same amplitude network as a positive state, as a complex state built from sizes, and as a complex state
        # built around a user's module: on reference-basis data the amplitude update is the same closed form in all
        # three, and the phase network does not move
        typ = ("positive", "complex", "complex-module")[n % 3]
        pt = dict(nv=nv, nh=nh, B=B, am=e["am"], ph=e["ph"])
        st = lattice.positive_state(pt) if typ == "positive" else lattice.complex_state(pt, via_module=typ == "complex-module")
        L = [[terms.mpf(gradlib.sigterm(B, t)) for t in row] for row in e["Lam"]]
        N = rng.randint(2, 5)
        data = [rng.randrange(2 ** nv) for _ in range(N)]
        pb = rng.randint(1, N)
        nbs = pb + rng.choice([1, 2])
        lr = rng.choice([0.5, 0.1, 0.01])
        cfg = dict(type=typ.split("-")[0], startEp=1, epochs=1, N=N, posB=pb, negB=nbs, data=data,
                   bases=[] if typ == "positive" else [0] * N, sched=False,
                   entryStop=False, again="no", perms="all", cbs=[{"t": "rec"}], vals=[], vars=[])
        before = [p.detach().clone() for p in st.rbm_am.parameters()]
        ph_before = [p.detach().clone() for p in st.rbm_ph.parameters()] if typ != "positive" else []
        # only the first batch is exact (later batches start from parameters off the lattice)
        real = trainrun.real_run(cfg, plan={("BE", 1, 0, 1)}, seed=seed + n, k=0, lr=lr, nn_state=st)
        if real["error"] is not None:
            chk.violation("lattice-step:exception:" + type(real["error"]).__name__, dict(cfg=cfg, error=repr(real["error"])))
            continue
        cg = next(ev for ev in real["hist"] if ev["k"] == "CG")
        pos, neg = cg["pos"], cg["neg"]
        npar = len(e["layout"])
        grad = [sum(L[r][q] for r in pos) / len(pos) - sum(L[r][q] for r in neg) / len(neg) for q in range(npar)]
        after = [p.detach().clone() for p in st.rbm_am.parameters()]
        delta = torch.cat([(a - b).reshape(-1) for a, b in zip(after, before)]).tolist()
        chk.evaluations += 1
        if typ != "positive":
            moved = max(float((a - b).abs().max()) for a, b in zip(st.rbm_ph.parameters(), ph_before))
            if moved != 0.0 or st.rbm_ph is st.rbm_am:
                chk.violation("lattice-step:phase-network-moved", dict(point=pt, cfg=cfg, built=typ, moved_by=moved,
                                                                      same_object=st.rbm_ph is st.rbm_am))
        for q in range(npar):
            want = -mpmath.mpf(lr) * grad[q]
            if abs(mpmath.mpf(delta[q]) - want) > 1e-12 + 1e-10 * abs(want):
                chk.violation("lattice-step:update", dict(point=dict(nv=nv, nh=nh, B=B, am=e["am"]), cfg=cfg, lr=lr, slot=e["layout"][q], built=typ,
                                                          got=delta[q], expected=mpmath.nstr(want, 17), pos_rows=pos, neg_rows=neg))
                break
        chk.nontriv(("lattice-step", n))


def rotated_first_steps(chk, tier, rng, seed):
    """The first step with measurement bases, for complex and mixed states at lattice points: the positive phase is the
    one the gradient specifications (GradRBM.tla / GradDM.tla, templates evaluated by gradlib - the oracle of C03)
    give for the batch with its bases; at k = 0 the negative phase is the mean effective-energy gradient of the
    recorded negative rows.  So   theta_am' - theta_am = -lr (pos_am / m - mean_neg dE),   theta_ph' - theta_ph =
    -lr pos_ph / m,   every value read from the NAMED parameter of its slot.  The comparisons C03 makes on the way are
    made on a scratch Check and not reported here."""
    import mpmath
    import check_c03
    sub = common.Check("C03", tier, seed)
    count = [0]
    biggest = [(0, 0, 0, 0)]

    def slot(rbm, s):
        p = dict(rbm.named_parameters())[s["p"]]
        r = s.get("j", s.get("r"))
        return (p[r - 1, s["i"] - 1] if p.dim() == 2 else p[(s["i"] or r) - 1]).item()

    def hook(typ, st, rows, bases, tot, E, layout, ttol, pt):
        if not any(all(ch == "Z" for ch in b) for b in bases):
            return
        m = len(rows)
        lr = rng.choice([0.5, 0.1])
        cfg = dict(type=typ, startEp=1, epochs=1, N=m, posB=m, negB=rng.choice([1, 2, 3]),
                   data=[check_c03.idx_of(r) for r in rows], bases=[trainrun.basis_code(b) for b in bases], sched=False,
                   entryStop=False, again="no", perms="all", cbs=[{"t": "rec"}], vals=[], vars=[])
        before = {net: [slot(getattr(st, "rbm_" + net), s) for s in layout] for net in ("am", "ph")}
        real = trainrun.real_run(cfg, plan={("BE", 1, 0, 1)}, seed=seed + count[0], k=0, lr=lr, nn_state=st)
        count[0] += 1
        if real["error"] is not None:
            chk.violation("lattice-step-rotated:exception:" + type(real["error"]).__name__,
                          dict(cfg=cfg, point=pt, error=repr(real["error"])))
            return
        cg = next(ev for ev in real["hist"] if ev["k"] == "CG")
        neg = cg["neg"]
        chk.evaluations += 1
        for net in ("am", "ph"):
            rbm = getattr(st, "rbm_" + net)
            for q, s in enumerate(layout):
                g = tot[net][q] / m - (sum(E[r][q] for r in neg) / len(neg) if net == "am" else 0)
                want = -mpmath.mpf(lr) * g
                got = mpmath.mpf(slot(rbm, s)) - mpmath.mpf(before[net][q])
                tol_q = lr * ttol / m + 1e-12 + 1e-9 * abs(want)
                biggest[0] = max(biggest[0], (abs(want) / tol_q, got, want, tol_q), key=lambda t: t[0])
                if abs(got - want) > lr * ttol / m + 1e-12 + 1e-9 * abs(want):
                    chk.violation("lattice-step-rotated:update:%s:%s" % (typ, net),
                                  dict(point=pt, cfg=cfg, lr=lr, slot=s, got=mpmath.nstr(got, 17), expected=mpmath.nstr(want, 17),
                                       neg_rows=neg, tolerance=lr * ttol / m))
                    return
        chk.nontriv(("lattice-step-rotated", typ, count[0]))

    check_c03.STEP_HOOK = hook
    try:
        # (the thorough tier takes C03's quick-tier point sets: C03's own thorough run is 45 minutes)
        check_c03.run_wave(sub, "quick", rng, seed, few=tier == "quick")
        check_c03.run_dm(sub, "quick", rng, seed, few=tier == "quick")
    finally:
        check_c03.STEP_HOOK = None
    chk.states += sub.states
    chk.transitions += sub.transitions
    chk.extra["rotated_first_steps"] = count[0]
    if count[0] < 10:
        raise common.MachineryError("only %d rotated first steps were taken" % count[0])
    if not chk.violations:
        # control: on the best-conditioned slot seen, an update that is off by one part in 10^4 is outside the tolerance
        _, got, want, tol = biggest[0]
        chk.control(abs(got - want * (1 + 1e-4)) > tol, "rotated first step: a step wrong by 1e-4 of its size was accepted")


def run(tier, seed):
    chk = common.Check(PID, tier, seed)
    rng = random.Random(seed)
    chk.rule = ("TLC: update protocol over all small configurations (3 state types, equal/different batch sizes, "
                "scheduler on/off) x a stop at every event; replayed into the real fit().  Numeric traces: tiny models "
                "(nv<=3, nh=2), k=0..3, lr in {0.512 (halved per epoch by the scheduler), 0.1, 0.001}, every batch of "
                "every epoch; non-trivial = a trace with >= 2 optimizer steps")
    res = tc.mc(cfg_space(tier), maxinj=1,
                invariants=["TypeOK", "StepProtocol", "SchedOncePerEpoch", "ParamsOnlyInBatch", "Protocol", "Complete"],
                timeout=3000)
    chk.add_tlc(res, "Train.tla update protocol")
    if res.violation:
        chk.violation("spec:" + str(res.violation), dict(tlc=res.raw[-4000:]))
        return chk.finish()
    behs = res.exports
    if tier == "quick" and len(behs) > 1200:
        behs = rng.sample(behs, 1200)
    import torch
    OPTS = [(torch.optim.SGD, None), (torch.optim.SGD, {"momentum": 0.9}), (torch.optim.Adam, None),
            (torch.optim.RMSprop, None), (torch.optim.SGD, {"momentum": 0.5, "nesterov": True})]
    SCHEDS = [(None, None), (torch.optim.lr_scheduler.ExponentialLR, {"gamma": 0.9}),
              (torch.optim.lr_scheduler.MultiStepLR, {"milestones": [2], "gamma": 0.1})]

    def opts(n, b):
        # the update PROTOCOL is the same for every optimizer / scheduler class the user may pass
        ob, oa = OPTS[n % len(OPTS)]
        sb, sa = SCHEDS[(n // len(OPTS)) % len(SCHEDS)]
        return dict(k=n % 4, time_flag=False, opt_base=ob, opt_args=oa, sched_base=sb, sched_args=sa)
    tc.replay_behaviours(chk, behs, seed, nontrivial=lambda b: any(e["k"] == "OS" for e in b["hist"]), opts=opts)
    lattice_first_steps(chk, tier, rng, seed)
    rotated_first_steps(chk, tier, rng, seed)
    # -- numeric traces
    runs = []
    extra = []
    for i in range(60 if tier == "quick" else 900):
        cfg, real, meta = random_numeric_run(rng, tier)
        runs.append((cfg, real, meta))
        if i % 4 == 0 and real["error"] is None:
            # the same model object trained again: after reinitialize_parameters() (new parameter objects),
            # or resumed as it is - every batch of the second fit is held to the same arithmetic
            st = real["nn_state"]
            how = "reinitialised" if i % 8 == 0 else "resumed"
            if how == "reinitialised":
                st.reinitialize_parameters()
            st.stop_training = False
            cfg2 = dict(cfg, startEp=cfg["epochs"] + 1, epochs=cfg["epochs"] + 2, cbs=[{"t": "rec"}])
            lr2 = 0.256 if cfg["sched"] else rng.choice([x for x in (0.512, 0.1, 0.001) if int(round(x * 1e6)) != meta["lr0"]])
            real2 = trainrun.real_run(cfg2, seed=rng.randrange(10 ** 6), k=meta["k"], lr=lr2, numeric_hook=True, nn_state=st,
                                      opt_args=SHARED_OPT_ARGS)
            runs.append((cfg2, real2, dict(meta, lr0=int(round(lr2 * 1e6)), plan=[], second_fit=how)))
        # (a fit() that writes into the caller's dictionary is not by itself a violation: what counts is the
        #  learning rate the later fits then use, which the trace specification checks at every step)
        if not real.get("args_same", True):
            chk.extra["optimizer_args_written_by_fit"] = repr(SHARED_OPT_ARGS)

    def attach(lines_meta):
        pass

    # trace_phase builds the lines; numbers are attached through a hook on to_trace
    orig_to_trace = tc.to_trace

    def to_trace_num(cfg, real):
        ln = orig_to_trace(cfg, real)
        meta = next(m for c, r, m in runs if r is real)
        ln["x"] = [strip(x) for x in real["numeric"]]
        ln["k"] = meta["k"]
        ln["lr0"] = meta["lr0"]
        return ln
    tc.to_trace = to_trace_num

    def wrong_divisor(lines):
        ln = copy.deepcopy(next(x for x in lines if x["x"] and any(v != 0 for v in x["x"][0]["negSum"])))
        x = ln["x"][0]
        i = next(i for i, v in enumerate(x["negSum"]) if v != 0)
        x["gradAm"][i] += 7                      # 7e-6 off: what a wrong divisor does, only smaller
        x["assigned"][0][i] += 7
        return ("trace whose amplitude gradient is not pos - negSum/nb accepted", ln)

    def phase_negative(lines):
        ln = copy.deepcopy(next(x for x in lines if x["cfg"]["type"] != "positive" and x["x"]))
        x = ln["x"][0]
        x["gradPh"][0] += 3
        x["assigned"][1][0] += 3
        x["pgrad"][1][0][0] += 3
        x["dlr"][1][0][0] += 3
        return ("trace whose phase network received more than the positive phase accepted", ln)

    def misplaced(lines):
        ln = copy.deepcopy(next(x for x in lines if x["x"] and len(set(x["x"][0]["pgrad"][0][1])) > 0
                                and x["x"][0]["pgrad"][0][1] != x["x"][0]["pgrad"][0][2][:len(x["x"][0]["pgrad"][0][1])]))
        x = ln["x"][0]
        a, b = x["pgrad"][0][1], x["pgrad"][0][2]
        x["pgrad"][0][1], x["pgrad"][0][2] = b, a       # visible-bias and hidden-bias gradients exchanged
        return ("trace with gradients on the wrong parameters accepted", ln)

    def wrong_lr(lines):
        ln = copy.deepcopy(next(x for x in lines if x["cfg"]["sched"] and len(x["x"]) >= 2 and x["cfg"]["epochs"] >= 2))
        ln["x"][-1]["lr"] = ln["x"][0]["lr"] if ln["x"][-1]["lr"] != ln["x"][0]["lr"] else ln["x"][0]["lr"] + 1
        return ("trace whose learning rate ignores the scheduler accepted", ln)

    try:
        lines = tc.trace_phase(chk, runs, [wrong_divisor, phase_negative, misplaced, wrong_lr])
    finally:
        tc.to_trace = orig_to_trace
    for ln in lines:
        if len(ln["x"]) >= 2:
            chk.nontriv(("numeric", len(chk.nontrivial)))
    chk.extra["optimizer_steps_validated"] = sum(len(ln["x"]) for ln in lines)
    if lines:
        x = lines[0]["x"][0] if lines[0]["x"] else {}
        chk.sample(dict(numeric_step={k: (v if not isinstance(v, list) else v[:6]) for k, v in x.items()}))
    chk.assumptions += ["negSum is the library's effective_energy_gradient of the recorded chain end states at the "
                        "pre-step parameters; posAm/posPh the library's positive_phase_gradients (C03/C05 tie those to "
                        "their definitions); C06 decides their composition and placement",
                        "fixed point 1e-6; tolerance nb+1 units on nb*grad, 2 units on delta/lr",
                        "plain SGD (no momentum); StepLR(step_size=1, gamma=0.5) as the scheduler"]
    return chk.finish()
