"""Development driver for the extension harness/ext_userobs.py (the integrator calls ext_userobs.run from a check)."""
import common
import ext_userobs

PID = "XUSEROBS"


def run(tier, seed):
    chk = common.Check(PID, tier, seed)
    ext_userobs.run(chk, tier, seed)
    return chk.finish()
