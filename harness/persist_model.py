"""Spec side of C11: run TLC on spec/Persist.tla (exhaustive to a depth bound, wrong-design
variants, behaviour export).  No QuCumber semantics here - only which configurations are
explored and how behaviours leave TLC."""
import concurrent.futures as cf

import tlc

INVARIANTS = ["TypeOK", "FilesWellFormed", "MetaKeysStable"]
PROPERTIES = ["SaveIsPure", "RefusedSaveNoEffect", "SaveStoresState", "LoadRestores",
              "SnapshotIsolation", "SaveTwiceSameMeta"]

# which property each deliberately wrong design must violate (TLC-level negative controls)
VARIANTS = {
    "aliasMeta": ["MetaKeysStable", "SaveIsPure", "RefusedSaveNoEffect", "SaveTwiceSameMeta"],
    "byRef": ["SaveStoresState", "SnapshotIsolation"],
    "noUdict": ["LoadRestores"],
}


def setup(types, shapes, m2, saver):
    """One element of the spec's Setups constant (python form; `tla` gives the TLA+ text)."""
    assert len(types) == len(shapes)
    return dict(types=list(types), shapes=[list(s) for s in shapes], m2=sorted(m2), saver=saver)


def tla(s):
    keys = ('[k \\in {"m0", "m1", "m2"} |-> IF k = "m0" THEN {} ELSE IF k = "m1" THEN {"plain"} ELSE %s]'
            % tlc.tla_value(set(s["m2"])))
    return "[types |-> %s, shapes |-> %s, keys |-> %s, saver |-> %s]" % (
        tlc.tla_value(s["types"]), tlc.tla_value(s["shapes"]), keys, tlc.tla_value(s["saver"]))


# num_hidden # num_visible and num_aux # num_visible everywhere; two slots of one type get different shapes
SETUPS = {
    # three different types; a network name as the reserved key; the saver re-uses the plain dict
    "pcd": setup(["positive", "complex", "density"], [(2, 3), (2, 3), (2, 3, 1)], {"rbm_am"}, "m1"),
    # two complex slots of different shapes; "unitary_dict" reserved for them but not for the positive slot
    "ccp": setup(["complex", "complex", "positive"], [(2, 3), (3, 2), (3, 1)], {"plain", "unitary_dict"}, "fn"),
    # two density slots; rbm_ph reserved for them; the saver is given the dict with the reserved key
    "ddc": setup(["density", "density", "complex"], [(2, 3, 1), (2, 1, 3), (2, 1)], {"plain", "rbm_ph"}, "m2"),
    "ppd": setup(["positive", "positive", "density"], [(2, 3), (3, 1), (3, 2, 1)], {"unitary_dict"}, "m2"),
    "pcd2": setup(["positive", "complex", "density"], [(3, 2), (3, 1), (3, 1, 2)], {"plain", "rbm_ph"}, "none"),
    "cdd": setup(["complex", "density", "density"], [(3, 2), (3, 2, 1), (3, 1, 2)], {"plain", "rbm_am"}, "m0"),
    # two slots: deeper exhaustive search
    "pc": setup(["positive", "complex"], [(2, 3), (2, 3)], {"rbm_ph"}, "m1"),
    "cc": setup(["complex", "complex"], [(2, 3), (3, 2)], {"plain", "unitary_dict"}, "m1"),
    "dd": setup(["density", "density"], [(2, 3, 1), (2, 1, 3)], {"rbm_am"}, "m1"),
    "cd": setup(["complex", "density"], [(3, 1), (3, 1, 2)], {"plain", "rbm_ph"}, "fn"),
    "pd": setup(["positive", "density"], [(3, 2), (3, 2, 1)], {"unitary_dict"}, "m2"),
}


def _consts(names, variant="contract", level=99):
    nm = {len(SETUPS[n]["types"]) for n in names}
    assert len(nm) == 1, "one TLC run = one number of model slots"
    return dict(constants={"NM": nm.pop(), "NF": 2, "Variant": variant, "MaxLevel": level},
                defs={"Setups": "{" + ", ".join(tla(SETUPS[n]) for n in names) + "}"})


def exhaustive(name, level, variant="contract", invariants=INVARIANTS, properties=PROPERTIES, timeout=1500):
    """Breadth-first, ONE worker: with a single worker TLCGet("level") is the true depth of a state, so
    LevelBound makes the search exhaustive over all behaviours of at most `level` states (level-1 calls)."""
    return tlc.run("Persist", invariants=list(invariants), properties=list(properties),
                   constraints=["LevelBound"], view="View", workers=1, heap="4g", timeout=timeout,
                   **_consts([name], variant, level))


def exhaustive_many(jobs, parallel=8):
    """jobs: list of (name, level).  Independent single-worker JVMs side by side."""
    with cf.ThreadPoolExecutor(max_workers=parallel) as ex:
        futs = [ex.submit(exhaustive, n, lv) for n, lv in jobs]
        return [f.result() for f in futs]


_EXPORT = '''VARIABLES hist, done
HInit == Init /\\ hist = <<>> /\\ done = FALSE
HNext == \\/ /\\ ~done /\\ Len(hist) < %(L)d
            /\\ Next
            /\\ hist' = Append(hist, [a |-> last', models |-> models', files |-> files', metas |-> metas'])
            /\\ done' = FALSE
         \\/ /\\ ~done /\\ Len(hist) = %(L)d
            /\\ done' = TRUE /\\ UNCHANGED <<vars, hist>>
MC_Filter == %(F)s
MC_Export == (done /\\ MC_Filter) => PrintT(ToJson([setup |-> setup, hist |-> hist]))
'''

# export filter: behaviours whose last call is a load / autoload that really changes the model
EFFECTIVE_LOAD = ('Len(hist) >= 2 /\\ hist[Len(hist)].a.op \\in {"Load", "Autoload"} '
                  '/\\ hist[Len(hist)].models # hist[Len(hist) - 1].models')


def behaviours(names, length, simulate=None, seed=None, timeout=900, only="TRUE"):
    """Behaviours of exactly `length` calls as JSON: every one (simulate=None) or `simulate` random ones.
    The history variable exists only in this export wrapper.  `only`: TLA+ state predicate over `hist`
    selecting which complete behaviours are printed."""
    res = tlc.run("Persist", init="HInit", next="HNext", invariants=["MC_Export"],
                  extends_extra=["Json"], extra_text=_EXPORT % dict(L=length, F=only), workers=1, heap="4g",
                  timeout=timeout, simulate=("num=%d" % simulate) if simulate else None,
                  depth=(length + 2) if simulate else None, seed=seed, **_consts(names))
    for b in res.exports:
        if len(b["hist"]) != length:
            raise tlc.TLCError("exported behaviour of length %d, expected %d" % (len(b["hist"]), length))
    return res
