"""C09 - The swap estimator measures the purity of the reduced state.

(1) spec/Swap.tla (on the abstract exact states of Observables.tla; true integer arithmetic):
swap_A exchanges the A-sites of two replicas, est_A(s1, s2) = Re[w(s1', s1) w(s2', s2)] as
entanglement.py computes it through importance_sampling_weight, rho_A = partial trace over the
complement (site order from Exact!Row).  TLC checks, for every region A (all 2^n):
SwapIsPurity  SUM P(s1) P(s2) est_A(s1, s2) = tr(rho_A^2)/(tr rho)^2,  PurityFacts (0 < purity <= 1,
empty region 1, pure states: purity(A) = purity(complement), full region 1), EstAlternatives
(replica roles and rho(s,s') for rho(s',s) give the same value), the batch pairing facts
(partner(i) = (i-1) mod m is a bijection onto cyclic neighbours; so is (i+1) mod m; roll by 0 is
not), and that seeded faults of the estimator are exposed.  It exports per n every region's swap
table and partial-trace structure and the pairing tables.
(2) spec -> code at lattice points (psi / rho exact from RBM.tla / PurifRBM.tla as in C01 / C02) on
PositiveWaveFunction, ComplexWaveFunction, DensityMatrix: every two-row batch [s1; s2] (all ordered
pairs) x every region, region given as int / list / ndarray / tensor; the p(s1)p(s2)-weighted
double sum against the purity evaluated from the exported partial-trace structure; batch untouched.
(3) code -> spec on larger batches: the recorded numerator / denominator queries must pair every
row with a cyclic neighbour (a bijection) and ask exactly for the swapped configurations.
"""
import copy
import random

import mpmath
import numpy as np
import torch

import common
import bigbatch
import lattice
import obs_lib
import tlc

PID = "C09"
qucumber = common.import_qucumber()
from qucumber.observables import SWAP  # noqa: E402

SWAP_FAULTS = ["conj-w2", "complement", "aliased-swap", "first-only"]
INVARIANTS = ["TypeOK", "SwapIsPurity", "PurityFacts", "EstAlternatives", "Pairing", "PairingAlt",
              "PairingFaultExposed", "SwapFaultsExposed", "MC_Export"]
EXPORT = ('MC_Export == /\\ (st = "ops" => PrintT(ToJson(SwapRecord(C.n))))\n'
          '             /\\ (st = "pairing" => PrintT(ToJson(PairingRecord)))')
MMAX = 17


def theorem(tier, rng, seed):
    quick = tier == "quick"
    defs, sizes = obs_lib.abstract_defs(rng, 1 if quick else 6, 24 if quick else 640,
                                        [1, 2, 3] if quick else [1, 2, 3, 4], [])
    defs["SwapFaults"] = "{" + ", ".join('"%s"' % f for f in SWAP_FAULTS) + "}"
    res = tlc.run("Swap", constants={"NExh": 2, "Lanes": 8 if quick else 32, "MMax": MMAX}, defs=defs, init="SInit",
                  invariants=INVARIANTS, extends_extra=["Json"], extra_text=EXPORT, workers=obs_lib.WORKERS,
                  heap=obs_lib.HEAP, timeout=2400, seed=seed)
    return res, sizes


# ---------------------------------------------------------------------------------------------
def region_forms(sites, n):
    """the ways the library documents to give a region; sites are 1-based in the spec, columns 0-based"""
    cols = [s - 1 for s in sites]
    forms = [("list", list(cols)), ("ndarray", np.array(cols, dtype=np.int64)),
             ("tensor", torch.tensor(cols, dtype=torch.long))]
    if len(cols) == 1:
        forms.insert(0, ("int", cols[0]))
    return forms


def est_exact(S, reg, k1, k2):
    """Re[w(s1', s1) w(s2', s2)], (s1', s2') from the exported swap table; with tolerance"""
    k1p, k2p = reg["swap"][k1][k2]
    r1, t1 = S.ratio(k1p, k1)
    r2, t2 = S.ratio(k2p, k2)
    return (r1 * r2).real, abs(r1) * t2 + abs(r2) * t1 + t1 * t2 + mpmath.mpf(1e-14)


def purity_exact(S, reg):
    """tr(rho_A^2)/(tr rho)^2 from the exported partial-trace structure"""
    t = mpmath.mpf(0)
    for a in reg["astates"]:
        for ap in reg["astates"]:
            x = sum((S.rho(a + b, ap + b) for b in reg["bstates"]), mpmath.mpc(0))
            t += abs(x) ** 2
    return t / S.Z ** 2


def same_tensor(before, after):
    return before.dtype == after.dtype and before.shape == after.shape and torch.equal(before, after)


BIG = [0]


def bind_state(chk, S, tab, pairing, hist=None, counter=None):
    n, N = S.n, S.N
    rows = lattice.rows(n)
    sp = lattice.space(n)
    key0 = "apply:" + S.kind
    prob = (S.model.probability(sp) / S.model.normalization(sp)).tolist()
    partner = [p["partner"] for p in pairing[1]]                # batch of 2 rows
    purities = {}
    for ri, reg in enumerate(tab["regions"]):
        forms = region_forms(reg["sites"], n)
        det = dict(S.describe(), region_sites_1based=reg["sites"])
        code = [[None] * N for _ in range(N)]
        bad = False
        call = 0
        for k1 in range(N):
            for k2 in range(k1, N):
                fname, A = forms[(call + ri) % len(forms)]
                call += 1
                ks = [k1, k2]
                batch = torch.tensor([rows[k1], rows[k2]], dtype=torch.double)
                before = batch.clone()
                try:
                    out = SWAP(A).apply(S.model, batch)
                except Exception as ex:          # the library raised on a documented input
                    chk.violation(key0 + ":raised", dict(det, form=fname, batch=[rows[k1], rows[k2]], raised=repr(ex)))
                    bad = True
                    break
                chk.evaluations += 1
                if counter is not None:
                    counter[fname] = counter.get(fname, 0) + 1
                if not same_tensor(before, batch):
                    chk.violation(key0 + ":batch-modified", dict(det, form=fname, batch=before.tolist(), after=batch.tolist()))
                    bad = True
                    break
                if not (torch.is_tensor(out) and tuple(out.shape) == (2,) and out.is_floating_point()):
                    chk.violation(key0 + ":output-shape", dict(det, form=fname, shape=list(getattr(out, "shape", []))))
                    bad = True
                    break
                for i in range(2):
                    a, b = ks[i], ks[partner[i]]
                    want, tol = est_exact(S, reg, a, b)
                    got = out[i].item()
                    code[a][b] = got
                    if hist is not None and abs(want - 1) > 1e-6:
                        hist.add((S.kind, "proper" if 0 < len(reg["sites"]) < n else "trivial"))
                    if not (abs(mpmath.mpf(got) - want) <= tol):
                        chk.violation(key0 + ":pair-value", dict(det, form=fname, batch=[rows[k1], rows[k2]], row=i,
                                                                 got=got, expected=mpmath.nstr(want, 17),
                                                                 tolerance=mpmath.nstr(tol, 3)))
                        bad = True
                        break
                if bad:
                    break
            if bad:
                break
        if bad:
            continue
        if any(x is None for r_ in code for x in r_):      # a pairing that does not cover all ordered pairs
            continue
        # a long sample list: every row paired with one and the same cyclic neighbour, values from the table
        BIG[0] += 1
        m = bigbatch.size(BIG[0] + ri)
        ks = bigbatch.rows(BIG[0] * 7919 + N, N, m)
        big = sp[ks]
        bbefore = big.clone()
        try:
            out = SWAP(forms[ri % len(forms)][1]).apply(S.model, big)
        except Exception as ex:
            chk.violation(key0 + ":raised", dict(det, long_batch=m, raised=repr(ex)))
            continue
        chk.evaluations += 1
        tcode = torch.tensor(code, dtype=torch.double)
        kt = torch.tensor(ks)
        prev_, next_ = tcode[kt, kt.roll(1)], tcode[kt, kt.roll(-1)]
        atol = 1e-12 * float(tcode.abs().max())
        if tuple(out.shape) != (m,) or not (torch.allclose(out, prev_, rtol=1e-9, atol=atol)
                                             or torch.allclose(out, next_, rtol=1e-9, atol=atol)):
            w = int((out - prev_).abs().argmax()) if tuple(out.shape) == (m,) else -1
            chk.violation(key0 + ":long-batch", dict(det, rows=m, worst_row_vs_previous_neighbour=w,
                                                     why="rows of a long batch are not each paired with their cyclic neighbour"))
        if not same_tensor(bbefore, big):
            chk.violation(key0 + ":batch-modified", dict(det, long_batch=m))
        # weighted double sum over independent pairs vs purity of the reduced state
        chk.evaluations += 1
        mean = sum(prob[a] * prob[b] * code[a][b] for a in range(N) for b in range(N))
        want = purity_exact(S, reg)
        tol = sum(S.w[a] * S.w[b] / S.Z ** 2 * (est_exact(S, reg, a, b)[1] + 6 * S.rel * abs(est_exact(S, reg, a, b)[0]))
                  for a in range(N) for b in range(N)) + mpmath.mpf(1e-13)
        exact_mean = sum(S.w[a] * S.w[b] / S.Z ** 2 * est_exact(S, reg, a, b)[0] for a in range(N) for b in range(N))
        if abs(exact_mean - want) > mpmath.mpf(10) ** -30:
            chk.violation(key0 + ":table-vs-partial-trace", dict(det, exact_mean=mpmath.nstr(exact_mean, 20), purity=mpmath.nstr(want, 20)))
            continue
        purities[tuple(reg["sites"])] = (mean, want, tol)
        if not (abs(mpmath.mpf(mean) - want) <= tol):
            chk.violation(key0 + ":mean-vs-purity", dict(det, got=mean, expected=mpmath.nstr(want, 17), tolerance=mpmath.nstr(tol, 3)))
        # consequences stated by the property, on the code's own number
        if mean > 1 + float(tol) or mean <= 0:
            chk.violation(key0 + ":renyi-entropy-negative", dict(det, purity=mean))
    if S.pure and len(purities) == len(tab["regions"]):
        for sites, (mean, _, tol) in purities.items():
            comp = tuple(s for s in range(1, n + 1) if s not in sites)
            chk.evaluations += 1
            if abs(mean - purities[comp][0]) > float(tol + purities[comp][2]):
                chk.violation(key0 + ":pure-complement-asymmetric", dict(S.describe(), region=sites, purity=mean,
                                                                         complement_purity=purities[comp][0]))
            if len(sites) in (0, n) and abs(mean - 1) > float(tol):
                chk.violation(key0 + ":pure-trivial-region", dict(S.describe(), region=sites, purity=mean))
    chk.nontriv((S.kind, str(S.pt)))


# ---------------------------------------------------------------------------------------------
def validate_queries(batch, num, den, reg, pairing, need_bijection):
    """code -> spec.  Returns (None, observed second-replica basis states) or (reason, None)."""
    m = batch.shape[0]
    ks = obs_lib.rows_of(batch)
    if len(num) != 2 or len(den) != 2:
        return "%d numerator / %d denominator queries (expected 2 / 2)" % (len(num), len(den)), None
    for (vp, v), d in zip(num, den):
        if tuple(v.shape) != tuple(batch.shape) or tuple(vp.shape) != tuple(batch.shape):
            return "a query on a batch of another shape", None
    if not all(any(torch.equal(v, d) for d in den) for _, v in num):
        return "a weight's denominator is not evaluated at its reference configuration", None
    x = [obs_lib.rows_of(v) for _, v in num]
    y = [obs_lib.rows_of(vp) for vp, _ in num]
    nb = pairing[m - 1]
    seconds, partners = [], []
    for i in range(m):
        ok = None
        for first, second in ((0, 1), (1, 0)):
            if x[first][i] != ks[i]:
                continue
            cands = [j for j in nb[i]["neighbours"] if ks[j] == x[second][i]]
            if not cands:
                continue
            want = reg["swap"][x[first][i]][x[second][i]]
            if [y[first][i], y[second][i]] == want:
                ok = (x[second][i], cands)
                break
        if ok is None:
            return ("row %d: references %s with configurations %s are not (sample, cyclic neighbour) with their "
                    "region-swapped configurations" % (i, [x[0][i], x[1][i]], [y[0][i], y[1][i]])), None
        seconds.append(ok[0])
        partners.append(ok[1])
    if need_bijection:            # rows are distinct: the partner of every row is identified
        js = [c[0] for c in partners]
        if m > 2 and any(len(c) != 1 for c in partners):
            return "ambiguous partner on a batch of distinct rows", None
        if sorted(js) != list(range(m)):
            return "some row is used twice (or never) as the second replica: partners %s" % js, None
    return None, seconds


def record_queries(chk, S, tab, pairing, rng, nbatch):
    n = S.n
    for b in range(nbatch):
        distinct = b % 2 == 0
        m = rng.randint(1, min(2 ** n, MMAX)) if distinct else rng.randint(3, MMAX)
        batch, ks = obs_lib.random_batch(rng, n, m, distinct=distinct)
        reg = rng.choice(tab["regions"])
        fname, A = rng.choice(region_forms(reg["sites"], n))
        before = batch.clone()
        det = dict(S.describe(), region_sites_1based=reg["sites"], form=fname, batch=ks, distinct_rows=distinct)
        try:
            with obs_lib.Queries(S.model) as q:
                out = SWAP(A).apply(S.model, batch)
        except Exception as ex:
            chk.violation("queries:%s:raised" % S.kind, dict(det, raised=repr(ex)))
            continue
        chk.traces += 1
        if not same_tensor(before, batch):
            chk.violation("queries:%s:batch-modified" % S.kind, det)
            batch = before.clone()
        why, seconds = validate_queries(before, q.num, q.den, reg, pairing, distinct)
        if why:
            chk.violation("queries:%s:pairing" % S.kind, dict(det, rejected=why))
            continue
        if tuple(out.shape) != (m,):
            chk.violation("queries:%s:output-shape" % S.kind, dict(det, shape=list(out.shape)))
            continue
        for i in range(m):
            chk.evaluations += 1
            want, tol = est_exact(S, reg, ks[i], seconds[i])
            if not (abs(mpmath.mpf(out[i].item()) - want) <= tol):
                chk.violation("queries:%s:value" % S.kind, dict(det, row=i, got=out[i].item(), expected=mpmath.nstr(want, 17)))
                break


# ---------------------------------------------------------------------------------------------
def controls(chk, tier, seed, states, tabs, pairing, rng):
    cx = next(s for s in states if s.kind == "complex" and s.n == 2)
    dm = next(s for s in states if s.kind == "density" and s.n == 2)

    def rejected(S, tab, suffix, pr=pairing):
        ctl = common.Check(PID, tier, seed)
        bind_state(ctl, S, tab, pr)
        return any(k.endswith(suffix) for k, _ in ctl.violations)

    n = 2
    tab = tabs[n]
    comp = copy.deepcopy(tab)                     # every region's swap table replaced by its complement's
    by_sites = {tuple(r["sites"]): r for r in tab["regions"]}
    for r in comp["regions"]:
        other = by_sites[tuple(s for s in range(1, n + 1) if s not in r["sites"])]
        r["swap"] = copy.deepcopy(other["swap"])
    chk.control(rejected(dm, comp, ":pair-value"), "swap tables of the complementary region compared equal (mixed state)")
    ptr = copy.deepcopy(tab)                      # partial trace over A instead of its complement
    for r in ptr["regions"]:
        r["astates"], r["bstates"] = r["bstates"], r["astates"]
    chk.control(rejected(dm, ptr, ":table-vs-partial-trace"), "purity of the complementary region agreed (mixed state)")
    ident = copy.deepcopy(tab)                    # nothing swapped
    for r in ident["regions"]:
        r["swap"] = [[[k1, k2] for k2 in range(2 ** n)] for k1 in range(2 ** n)]
    chk.control(rejected(cx, ident, ":pair-value"), "identity swap tables compared equal")
    selfpair = copy.deepcopy(pairing)             # row i paired with itself
    for i, p in enumerate(selfpair[1]):
        p["partner"] = i
    chk.control(rejected(cx, tab, ":pair-value", selfpair), "expected values for self-paired rows compared equal")
    # recorded queries
    S = next(s for s in states if s.kind == "complex" and s.n >= 3)
    n = S.n
    reg = tabs[n]["regions"][3]
    A = [s - 1 for s in reg["sites"]]
    batch, _ = obs_lib.random_batch(rng, n, 5, distinct=True)
    with obs_lib.Queries(S.model) as q:
        SWAP(A).apply(S.model, batch)
    if validate_queries(batch, q.num, q.den, reg, pairing, True)[0] is not None:
        raise common.MachineryError("control baseline rejected")
    def forged(partners, swapped=True):
        v2 = batch[partners].clone()
        s1, s2 = batch.clone(), v2.clone()
        if swapped:
            tmp = s1[:, A].clone()
            s1[:, A] = s2[:, A]
            s2[:, A] = tmp
        return validate_queries(batch, [(s1, batch.clone()), (s2, v2)], [batch.clone(), v2], reg, pairing, True)[0]

    if forged([4, 0, 1, 2, 3]) is not None or forged([1, 2, 3, 4, 0]) is not None:
        raise common.MachineryError("forged cyclic pairings rejected")
    chk.control(forged([0, 1, 2, 3, 4]) is not None, "rows paired with themselves were accepted")
    chk.control(forged([3, 4, 0, 1, 2]) is not None, "rows paired with the next-but-one row were accepted")
    chk.control(forged([1, 2, 1, 4, 3]) is not None, "a neighbour pairing that never uses row 0 as second replica was accepted")
    chk.control(forged([4, 0, 1, 2, 3], swapped=False) is not None, "unswapped configurations were accepted")
    chk.control(validate_queries(batch, q.num[:1], q.den, reg, pairing, True)[0] is not None, "a single weight was accepted")
    flipped = batch.clone()
    flipped[0, 0] = 1 - flipped[0, 0]
    chk.control(not same_tensor(batch, flipped), "a batch with one flipped bit counted as unchanged")


def run(tier, seed):
    chk = common.Check(PID, tier, seed)
    rng = random.Random(seed)
    quick = tier == "quick"
    torch.manual_seed(seed)
    nvmax = 3 if quick else 4
    chk.rule = ("theorem: TLC over the abstract states of C08 (n <= 2 exhaustive, n = 3 seeded) x all 2^n regions "
                "incl. empty and full; binding: seeded lattice points (all parameters non-zero) nv 1..%d, three "
                "state types, every ordered pair of basis states as a two-row batch x every region, region forms "
                "int/list/ndarray/tensor in rotation; larger batches (distinct and repeated rows) by recorded "
                "queries; non-trivial = (state type, point), pairs with est != 1 counted per type" % nvmax)
    res, sizes = theorem(tier, rng, seed)
    chk.add_tlc(res, "Swap.tla SwapIsPurity/PurityFacts/EstAlternatives/Pairing*/SwapFaultsExposed")
    chk.extra["abstract_cases"] = sizes
    if res.violation:
        chk.violation("spec:" + str(res.violation), dict(tlc=res.raw[-4000:]))
        return chk.finish()
    tabs = {e["n"]: e for e in res.exports if "regions" in e}
    frec = {e["fault"]: e["exposed"] for e in res.exports if "fault" in e}
    prec = [e for e in res.exports if "pairing" in e]
    if sorted(tabs) != list(range(1, nvmax + 1)) or set(frec) != set(SWAP_FAULTS) | {"code", "rho-transposed"} or len(prec) != 1:
        raise common.MachineryError("swap tables / fault record / pairing record not exported")
    pairing = prec[0]["pairing"]
    for v in SWAP_FAULTS:
        chk.control(frec[v] > 0, "seeded fault '%s' in the model of the estimator satisfied SwapIsPurity" % v)
    chk.extra["seeded_faults_exposed_at"] = frec

    pure, purif = obs_lib.lattice_exports(chk, rng, 10 if quick else 90, 8 if quick else 60, nvmax, seed)
    states = []
    for e in pure:
        states += obs_lib.pure_states(e)
    for e in purif:
        states.append(obs_lib.density_state(e))
    usable = [S for S in states if S.representable()]
    chk.extra["unrepresentable"] = len(states) - len(usable)
    hist, forms = set(), {}
    n_big = {}
    for i, S in enumerate(usable):
        if S.n == nvmax:                      # nv = 4: 2176 two-row batches per state (nv = 3: 288)
            n_big[S.kind] = n_big.get(S.kind, 0) + 1
            if n_big[S.kind] > (2 if quick else 12):
                continue
        bind_state(chk, S, tabs[S.n], pairing, hist, forms)
        if i % 9 == 0:
            chk.sample(dict(S.describe(), n=S.n, swap_of_region=tabs[S.n]["regions"][1]["sites"],
                            table_row_0=tabs[S.n]["regions"][1]["swap"][0]))
    if any(k.endswith(":table-vs-partial-trace") for k, _ in chk.violations):
        raise common.MachineryError("exported swap tables and partial-trace structure disagree on an exact state")
    chk.extra["region_forms_used"] = forms
    chk.extra["pairs_with_nontrivial_weight"] = sorted("%s/%s" % x for x in hist)
    if not chk.violations:               # anti-vacuity of a held verdict (comparisons stop at the first mismatch)
        for need in [("positive", "proper"), ("complex", "proper"), ("density", "proper"), ("density", "trivial")]:
            if need not in hist:
                raise common.MachineryError("no non-trivial pair value seen for %s/%s" % need)
        if set(forms) != {"int", "list", "ndarray", "tensor"}:
            raise common.MachineryError("not every region form was exercised")
    for S in usable:
        record_queries(chk, S, tabs[S.n], pairing, rng, 4 if quick else 10)
    if chk.violations:           # the negative controls presuppose an implementation that conforms
        return chk.finish()
    controls(chk, tier, seed, usable, tabs, pairing, rng)
    # the estimator is a function of (region, state, batch) only: one SWAP object reused on the same tensor
    # object that is advanced / refilled in place, and after its region attribute was reassigned
    import random as _random
    import obs_reuse
    import lattice as _lat
    from qucumber.observables import SWAP as _SWAP
    _rng = _random.Random(seed)
    _states = []
    for _typ in ("positive", "complex", "density"):
        _st = _lat.PositiveWaveFunction(3, 2, gpu=False) if _typ == "positive" else (
            _lat.ComplexWaveFunction(3, 2, gpu=False) if _typ == "complex" else _lat.DensityMatrix(3, 2, 2, gpu=False))
        with torch.no_grad():
            for _net in _st.networks:
                for _p in getattr(_st, _net).parameters():
                    _p.copy_(torch.randn_like(_p) * 0.6)
            if _typ == "density":
                _st.rbm_ph.aux_bias.zero_()
        _states.append((_typ, _st))
    obs_reuse.reuse_phase(chk, lambda: _SWAP([0]), _states, _rng, "apply", rounds=6,
                          mutate_attr=("A", [[1, 2], [0, 2], [2], [0, 1, 2]]))
    obs_reuse.reuse_phase(chk, lambda: _SWAP([0, 2]), _states, _rng, "apply", rounds=4)
    chk.assumptions += [
        "regions are sets of distinct column indices (int for a singleton, list, integer ndarray, long tensor)",
        "'paired with a cyclic neighbour': row i with row (i-1) mod m or (i+1) mod m, every row exactly once in "
        "each role; which neighbour is not demanded",
        "the theorem is checked by TLC on the abstract field within the stated bounds; RBM states enter at "
        "lattice points t*ln B whose exact psi / rho come from RBM.tla / PurifRBM.tla (identities mod 3 primes)",
        "P(s) is the model's reported probability(space)/Z; independence of the two replicas is the caller's "
        "responsibility (exact double sum here, no sampling)",
        "tolerances as in C08 (per importance ratio), float64 on CPU"]
    return chk.finish()


def replay(path):
    """./check C09 --replay <file>: rebuild the recorded state, apply SWAP(region) to the recorded two-row
    batch and compare with the recorded exact expectation."""
    import json
    with open(path) as fh:
        blob = json.load(fh)
    d = blob["detail"]
    if "point" not in d or "batch" not in d or not isinstance(d["batch"][0], list):
        print("C09 replay: %s is not a recorded two-row call; run ./check C09" % blob["key"])
        return 2
    st = {"positive": lattice.positive_state, "complex": lattice.complex_state,
          "density": lattice.density_state}[d["state"]](d["point"])
    A = dict(region_forms(d["region_sites_1based"], d["point"]["nv"]))[d.get("form", "list")]
    batch = torch.tensor(d["batch"], dtype=torch.double)
    before = batch.clone()
    out = SWAP(A).apply(st, batch)
    print("SWAP(%r) on %s state, batch %s -> %s" % (A, d["state"], d["batch"], out.tolist()))
    if not same_tensor(before, batch):
        print("VIOLATION property=C09 replay=%s\n  the batch was modified: %s" % (path, batch.tolist()))
        return 1
    if "expected" in d and "row" in d:
        got, want, tol = out[d["row"]].item(), mpmath.mpf(d["expected"]), mpmath.mpf(d.get("tolerance", "1e-9"))
        print("row %d: got %r, exact %s" % (d["row"], got, d["expected"]))
        if not abs(mpmath.mpf(got) - want) <= tol + mpmath.mpf(10) ** -15 * abs(want):
            print("VIOLATION property=C09 replay=%s" % path)
            return 1
    print("C09 replay: agrees with the recorded expectation")
    return 0
