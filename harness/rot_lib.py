"""Library side of C04 / C19: build real-pair tensors from Gaussian-integer arrays,
construct the real state classes, call the rotation functions, turn results back
into exact integers.  Knows shapes and calling conventions only; what the results
must be comes from TLC's exports."""
import math

import numpy as np
import torch

import common

qucumber = common.import_qucumber()
from qucumber.nn_states import PositiveWaveFunction, ComplexWaveFunction, DensityMatrix  # noqa: E402
from qucumber.utils import unitaries as un  # noqa: E402
from qucumber.utils import cplx  # noqa: E402

INT_TOL = 1e-9


def vec_tensor(x):
    """[[re, im], ...] -> (2, N) double tensor"""
    a = np.array(x, dtype=np.float64)
    return torch.tensor(a.T.copy(), dtype=torch.double)


def mat_tensor(x):
    """[[[re, im], ...], ...] -> (2, N, N) double tensor"""
    a = np.array(x, dtype=np.float64)
    return torch.tensor(np.moveaxis(a, -1, 0).copy(), dtype=torch.double)


def to_gauss(t, scale):
    """real-pair tensor * scale -> (nested lists of [re, im] ints, max distance to the integers)"""
    a = t.detach().cpu().numpy().astype(np.float64) * scale
    r = np.rint(a)
    err = float(np.max(np.abs(a - r))) if a.size else 0.0
    g = np.moveaxis(r.astype(np.int64), 0, -1)
    return g.tolist(), err


def to_ints(t, scale):
    a = t.detach().cpu().numpy().astype(np.float64) * scale
    r = np.rint(a)
    err = float(np.max(np.abs(a - r))) if a.size else 0.0
    return r.astype(np.int64).tolist(), err


def cnum(x):
    """Gaussian-integer nested list -> complex numpy array"""
    a = np.array(x, dtype=np.float64)
    return a[..., 0] + 1j * a[..., 1]


def sqrt2pow(k):
    return math.sqrt(2.0) ** k


_STATES = {}


def state_for(kind, n, unitary_dict=None):
    """a real model object of the right class (its parameters are irrelevant on explicit paths)"""
    key = (kind, n)
    if unitary_dict is not None:
        return _make(kind, n, unitary_dict)
    if key not in _STATES:
        _STATES[key] = _make(kind, n, None)
    return _STATES[key]


def _make(kind, n, ud):
    if kind == "positive":
        return PositiveWaveFunction(n, num_hidden=2, gpu=False)
    if kind == "complex":
        return ComplexWaveFunction(n, num_hidden=2, unitary_dict=ud, gpu=False)
    return DensityMatrix(n, num_hidden=2, num_aux=2, unitary_dict=ud, gpu=False)


def randomise(state, gen, scale=0.6):
    """random non-zero parameters for every network of the state"""
    for net in state.networks:
        rbm = getattr(state, net)
        for p in rbm.parameters():
            with torch.no_grad():
                v = torch.randn(p.shape, generator=gen, dtype=torch.double) * scale
                v = torch.where(v.abs() < 0.05, torch.full_like(v, 0.11), v)
                p.copy_(v)


def user_matrix(u, fac, form):
    """the dictionary entry denoted by the integer matrix u and factor 2^(-fac/2), in one of
    the forms create_dict accepts"""
    a = np.moveaxis(np.array(u, dtype=np.float64), -1, 0) / sqrt2pow(fac)       # (2, 2, 2) re/im first
    if form == "tensor":
        return torch.tensor(a, dtype=torch.double)
    if form == "float32":
        return torch.tensor(a, dtype=torch.double)       # kept exact: single precision would break exactness
    if form == "list":
        return a.tolist()
    return a                                              # numpy array


def basis_form(letters, form):
    if form == "str":
        return "".join(letters)
    if form == "list":
        return list(letters)
    if form == "tuple":
        return tuple(letters)
    return np.array(list(letters))                        # as NLL / KL hand it over


def space_tensor(rows):
    return torch.tensor(rows, dtype=torch.double)
