"""Shared plumbing: importing QuCumber from the working tree, evidence, findings,
violation reporting.  No QuCumber semantics lives here."""
import hashlib
import json
import os
import sys
import time

VERIF = os.path.dirname(os.path.dirname(os.path.abspath(__file__)))
REPO = os.environ.get("VERIF_REPO", "/repo")
if os.path.realpath(REPO) == os.path.realpath("/repo"):
    EVIDENCE = os.path.join(VERIF, "evidence")
    REPLAYS = os.path.join(VERIF, "replays")
else:
    # a run against a scratch copy (seeded fault, benign change) must never write /verif/evidence:
    # the committed evidence describes /repo itself
    _OUT = os.environ.get("VERIF_OUT") or os.path.join(os.path.realpath(REPO), ".verif-out")
    EVIDENCE = os.path.join(_OUT, "evidence")
    REPLAYS = os.path.join(_OUT, "replays")
FINDINGS = os.path.join(VERIF, "known_findings.json")


class MachineryError(Exception):
    pass


class CodeFault(Exception):
    """Raised by a harness helper when the code under test, on a legal public call, leaves an object the check cannot
    go on with (e.g. a constructed model whose parameters do not have the shapes of the requested architecture).
    That is a verdict about the code, not a failure of the machinery: main.py records it as a violation."""

    def __init__(self, key, detail):
        super().__init__("%s: %s" % (key, detail))
        self.key, self.detail = key, detail


def import_qucumber():
    """Import qucumber from $VERIF_REPO's current working tree (pure Python, so a
    fresh interpreter with -B *is* the rebuild).  scipy is absent in /venv and
    training_statistics imports (but never uses) scipy.linalg.sqrtm: a shim
    package outside /repo and /venv provides the name."""
    sys.dont_write_bytecode = True
    if REPO not in sys.path:
        sys.path.insert(0, REPO)
    try:
        import scipy.linalg  # noqa: F401
    except Exception:
        shim = os.path.join(VERIF, "harness", "shim")
        if shim not in sys.path:
            sys.path.append(shim)
    import qucumber
    here = os.path.realpath(os.path.dirname(qucumber.__file__))
    if not here.startswith(os.path.realpath(REPO)):
        raise MachineryError("qucumber imported from %s, not from %s" % (here, REPO))
    return qucumber


def sha(b):
    return hashlib.sha1(b).hexdigest()[:16]


PRIMARY = []


class Check:
    """Collects counters, samples, violations and known findings for one run."""

    def __init__(self, pid, tier, seed):
        self.pid, self.tier, self.seed = pid, tier, seed
        self.t0 = time.time()
        self.states = 0
        self.transitions = 0
        self.traces = 0
        self.evaluations = 0
        self.nontrivial = set()
        self.samples = []
        self.violations = []       # list of (key, detail dict)
        self.ext_findings = []     # findings of extension phases about behaviour no listed property speaks of (never fatal)
        self.known_hit = []
        self.assumptions = []
        self.extra = {}
        self.rule = ""
        self.tlc_actions = {}      # module -> action -> states generated (summed over the -coverage runs)
        self.controls = 0          # negative controls that were (correctly) rejected
        with open(FINDINGS) as fh:
            self.findings = json.load(fh)
        if not PRIMARY:
            PRIMARY.append(self)       # the first Check of a run is the one whose verdict is reported

    # -- bookkeeping -------------------------------------------------------
    def add_tlc(self, res, label=None):
        self.states += res.distinct
        self.transitions += res.generated
        for (mod, act), n in getattr(res, "coverage", {}).items():      # -coverage 1 runs: per-action counts
            d = self.tlc_actions.setdefault(mod, {})
            d[act] = d.get(act, 0) + n
        if label:
            self.extra.setdefault("tlc_runs", []).append(dict(label=label, **res.summary()))

    def sample(self, obj, limit=6):
        if len(self.samples) < limit:
            self.samples.append(obj)

    def nontriv(self, key):
        self.nontrivial.add(key if isinstance(key, (str, int, tuple)) else json.dumps(key, sort_keys=True))

    # "A check may demand only what its property states" (DESIGN 10).  The extension phases grow the specification along
    # code that no listed property speaks of (Timer, LivePlotting, Logger texts, the progress bar; the renaming of
    # deprecated keyword arguments): a disagreement found there is reported, with a replay file, as an EXTENSION-FINDING
    # and does not change the verdict on the host property.  Extension findings that ARE instances of the host property
    # (CallbackList dispatch and the stop flag for C12, 1-D / batched call forms for C01, statistics of user-defined
    # observables for C13) stay violations.
    NOT_THE_PROPERTY = ("ext:auxcb:", "ext:dispatch:k-")

    @property
    def disagreements(self):
        return self.violations + self.ext_findings

    def violation(self, key, detail):
        """key identifies the failing call site + input class (for known findings)."""
        if key.startswith(self.NOT_THE_PROPERTY):
            self.ext_findings.append((key, detail))
            return
        for f in self.findings.get("known", []):
            if f["property"] == self.pid and f["key"] == key:
                if key not in self.known_hit:
                    self.known_hit.append(key)
                return
        self.violations.append((key, detail))

    def control(self, rejected, what):
        """Negative control: a corrupted trace/expected value MUST be rejected."""
        if not rejected:
            raise MachineryError("negative control accepted (vacuous check?): " + what)
        self.controls += 1

    # -- finish ------------------------------------------------------------
    def finish(self, level="model_checking", exhaustive=False):
        wall = time.time() - self.t0
        os.makedirs(EVIDENCE, exist_ok=True)
        cov = dict(states=self.states, transitions=self.transitions,
                   traces_validated_against_impl=self.traces,
                   evaluations=self.evaluations,
                   distinct_nontrivial=len(self.nontrivial),
                   rule=self.rule, samples=self.samples or ["(none)"],
                   negative_controls_rejected=self.controls,
                   exhaustive=bool(exhaustive))
        cov.update(self.extra)
        if self.tlc_actions:
            # anti-vacuity: an action of a specification that no TLC run of this check ever took
            cov["tlc_action_counts"] = self.tlc_actions
            cov["tlc_actions_never_taken"] = sorted("%s!%s" % (m, a) for m, d in self.tlc_actions.items()
                                                    for a, n in d.items() if n == 0)
            for x in cov["tlc_actions_never_taken"]:
                print("COVERAGE: action %s was never taken in any TLC run of this check" % x)
        ev = dict(property_id=self.pid, tier=self.tier, seed=self.seed, level=level,
                  coverage=cov, assumptions=self.assumptions, wall_s=round(wall, 2),
                  violations=len(self.violations))
        if self.ext_findings:
            ev["coverage"]["extension_findings"] = sorted({k for k, _ in self.ext_findings})[:40]
        with open(os.path.join(EVIDENCE, self.pid + ".json"), "w") as fh:
            json.dump(ev, fh, indent=1, default=str)
        if self.ext_findings:
            d = os.path.join(REPLAYS, self.pid)
            os.makedirs(d, exist_ok=True)
            seen = set()
            for key, detail in self.ext_findings[:20]:
                if key in seen:
                    continue
                seen.add(key)
                blob = json.dumps(dict(host_property=self.pid, extension_finding=key, detail=detail), indent=1, default=str)
                path = os.path.join(d, "ext-" + sha(blob.encode()) + ".json")
                with open(path, "w") as fh:
                    fh.write(blob)
                print("EXTENSION-FINDING: host=%s key=%s replay=%s (behaviour outside the listed properties; not a verdict on %s)"
                      % (self.pid, key, path, self.pid))
        for k in self.known_hit:
            f = [x for x in self.findings["known"] if x["property"] == self.pid and x["key"] == k][0]
            print("KNOWN-FINDING: property=%s %s" % (self.pid, f["what"]))
        if self.violations:
            d = os.path.join(REPLAYS, self.pid)
            os.makedirs(d, exist_ok=True)
            seen = set()
            for key, detail in self.violations[:20]:
                blob = json.dumps(dict(property=self.pid, key=key, detail=detail), indent=1, default=str)
                path = os.path.join(d, sha(blob.encode()) + ".json")
                with open(path, "w") as fh:
                    fh.write(blob)
                if key in seen:
                    continue
                seen.add(key)
                print("VIOLATION property=%s replay=%s" % (self.pid, path))
                print("  key=%s" % key)
                print("  " + json.dumps(detail, default=str)[:600])
            print("%s: %d violation(s) (%d distinct keys) in %.1fs" % (self.pid, len(self.violations), len(seen), wall))
            return 1
        print("%s %s: held; states=%d transitions=%d traces=%d evaluations=%d nontrivial=%d controls=%d %.1fs" % (
            self.pid, self.tier, self.states, self.transitions, self.traces, self.evaluations,
            len(self.nontrivial), self.controls, wall))
        return 0


# ---------------------------------------------------------------------------------------------
# Documented arguments are passed by position as often as by keyword: `order` is the documented order of the
# parameters (as the docstrings list them), `given` the values.  Every other call passes the longest leading run
# of given parameters positionally and the rest by keyword; the calls in between pass everything by keyword.
_ROT = {}


def api_call(f, order, given, first=(), positional=None, defaults=None):
    # one counter per callable and per set of given parameters, so that every call site alternates on its own
    key = (getattr(f, "__qualname__", repr(f)), tuple(sorted(given)))
    _ROT[key] = _ROT.get(key, 0) + 1
    pos = (_ROT[key] % 2 == 0) if positional is None else positional
    args, kw = list(first), dict(given)
    if defaults:
        # a parameter whose requested value IS the default of the published signature is left out on every other call
        # that has such a parameter (a counter of its own: the calls that qualify may come with any period)
        same = [name for name, dv in defaults.items() if name in kw and type(kw[name]) is type(dv) and kw[name] == dv]
        if same:
            dkey = ("defaults",) + key
            _ROT[dkey] = _ROT.get(dkey, 0) + 1
            if _ROT[dkey] % 2 == 1:
                for name in same:
                    del kw[name]
    if pos:
        for name in order:
            if name not in kw:
                break
            args.append(kw.pop(name))
    return f(*args, **kw)
