"""Extension - the auxiliary callbacks that spec/Train.tla does not model: Timer (also the one
fit(time=True) appends), LivePlotting, the message content of Logger, and the progbar argument.

spec/AuxCallbacks.tla re-models the fit loop in the small (epochs, batches, a stop requested at any
event by any recording callback, entry stop, list order, time flag, a second fit on the same
objects) with one history record per HOOK INVOCATION that carries everything an outside observer
can record about it (arguments, stop flag seen, clock reading taken, lines printed / passed to
logger_fn, figure created, curve drawn).

  spec -> code   every terminal behaviour exported by TLC is replayed into a real
                 PositiveWaveFunction(2, 2).fit (a subset also into a ComplexWaveFunction with
                 bases): scripted clock (qucumber.callbacks.timer.time replaced for the duration),
                 recording callbacks that request the stop where the behaviour does, captured
                 stdout / stderr, Agg figures whose line data are read back; the hook records and
                 the final object states must be equal.
  code -> spec   sessions with random configurations / stop plans are recorded as ndjson and
                 validated in batch by spec/TraceAuxCallbacks.tla (shape validated here first).
  progbar        additionally, behaviours that differ in progbar only must produce identical
                 records (cross-behaviour comparison, here).

Entry point: run(chk, tier, seed) - adds phases to an existing common.Check.
Worker mode (`python -B ext_auxcb.py --worker`): reads a JSON list of work items on stdin, writes
the JSON list of results on stdout; used to spread the (matplotlib-bound) replays over processes.
"""
import contextlib
import copy
import gc
import io
import json
import os
import random
import re
import shutil
import subprocess
import sys
import tempfile
import threading
import warnings

import common
import tlc

os.environ.setdefault("MPLBACKEND", "Agg")
qucumber = common.import_qucumber()
import matplotlib  # noqa: E402
matplotlib.use("Agg")
import matplotlib.pyplot as plt  # noqa: E402
from matplotlib.backends.backend_agg import FigureCanvasAgg  # noqa: E402
import numpy as np  # noqa: E402
import torch  # noqa: E402
import tqdm as tqdm_pkg  # noqa: E402
import tqdm.notebook as tqdm_nb  # noqa: E402
from qucumber.callbacks import (CallbackBase, Timer, LivePlotting, Logger, MetricEvaluator,  # noqa: E402
                                ObservableEvaluator)
import qucumber.callbacks.timer as timer_mod  # noqa: E402
import qucumber.nn_states.neural_state as ns_mod  # noqa: E402
from qucumber.nn_states import PositiveWaveFunction, ComplexWaveFunction  # noqa: E402
from qucumber.observables import SigmaZ  # noqa: E402

K = "ext:auxcb:"
WORKERS, HEAP = 8, "4g"
TICK = 8.0          # clock ticks per second: readings are multiples of 1/8 s, exact in binary and in %.3f

INV = ["TypeOK", "ListOrder", "TimerLast", "FlagTimerPresent", "NoticeAtMostOnce", "NoticeOnlyAfterStop",
       "NoticeAtFirstOpportunity", "ElapsedIsEndMinusStart", "TimerAttributes", "EntryStopInert",
       "RedrawSchedule", "SeriesAreEvaluatorHistory", "FinalRedraw", "CrashEndsFit", "LoggerLines",
       "ProgbarIrrelevant", "BarCountsEpochs", "NotebookNeedsWidgets"]
HOOK_FIELDS = ["n", "run", "k", "ep", "b", "cb", "t", "o", "seen", "inj", "clk", "say", "draw", "err", "fig",
               "xfix", "last", "cd"]
EXPORT = ("HT(h) == <<h.n, h.run, h.k, h.ep, h.b, h.cb, h.t, h.o, h.seen, h.inj, h.clk, h.say, h.draw, h.err, "
          "h.fig, h.xfix, h.last, h.cd>>\n"
          "MC_Export == Live /\\ Finished => PrintT(ToJson([cfg |-> cfg, ev |-> [i \\in 1..Len(ev) |-> HT(ev[i])], "
          "fin |-> [stop |-> stop, err |-> err, tmU |-> tmU, tmF |-> tmF, lp |-> lp, bar |-> bar, evh |-> evh]]))")

# --------------------------------------------------------------------------------------------
# configuration spaces (TLA+ text)

R = 'D("rec", 0, FALSE, "", 0)'
TV = 'D("timer", 0, TRUE, "U", 0)'
TQ = 'D("timer", 0, FALSE, "U", 0)'


def EV(p, kind="metric"):
    return 'D("eval", %s, FALSE, "%s", 0)' % (p, kind)


def PL(p, band, tot):
    return 'D("plot", %s, %s, "", %s)' % (p, band, tot)


def LG(p, fn, gen, n):
    """gen: a TLA+ expression (a bound variable or a quoted string)"""
    return 'D("logger", %s, %s, %s, %s)' % (p, fn, gen, n)


def seq(*items):
    return "<<" + ", ".join(items) + ">>"


VALS = ["<<7, 10, -20, 30, 5>>", "<<0, 0, 0, 0, 0>>", "<<-3, 1000, 2, 0, 8>>"]
ERRS = ["<<1, 2, 3, 4, 5>>", "<<0, 5, 0, 1, 2>>"]


def cfgset(binds, **f):
    """{ [cfg record] : binds } with defaults for the fields not given"""
    d = dict(startEp="1", epochs="2", nb="1", cbs=seq(R), time="FALSE", entryStop="FALSE", runs="1",
             again='"reset"', progbar='"off"', t0="3", dt="2", dj="1", vals=VALS[0], errs=ERRS[0])
    d.update(f)
    rec = "[" + ", ".join("%s |-> %s" % kv for kv in d.items()) + "]"
    return "{ %s : %s }" % (rec, binds) if binds else "{ %s }" % rec


def replay_space(tier):
    """The shards whose terminal behaviours are ALL exported and replayed."""
    PB = '{"off", "on", "nb"}'
    if tier == "quick":
        return [
            # Timer: fit's own / the user's in front of and behind the stopper / silent between two stoppers
            cfgset("n \\in 1..2", nb="n", time="TRUE"),
            cfgset("n \\in 1..2", nb="n", cbs=seq(TV, R)),
            cfgset("n \\in 1..2, tf \\in BOOLEAN", nb="n", cbs=seq(R, TQ, R), time="tf"),
            cfgset("", cbs=seq(R, TV), time="TRUE", t0="0", dt="0", dj="0"),
            cfgset("e \\in 0..2, n \\in 1..2", epochs="e", nb="n", cbs="<<>>", time="TRUE"),
            # no epoch at all / entry stop / the three progress bars
            cfgset("e \\in 0..1, es \\in BOOLEAN, pb \\in %s" % PB, epochs="e", entryStop="es", progbar="pb",
                   cbs=seq(R, TV), time="TRUE"),
            cfgset("pb \\in %s" % PB, nb="2", progbar="pb", cbs=seq(TV, R)),
            # a second fit with the same Timer object
            cfgset('a \\in {"reset", "keep"}', epochs="1", runs="2", again="a", cbs=seq(R, TV), time="TRUE"),
            cfgset("", epochs="1", runs="2", cbs=seq(TV, R)),
            # Logger
            cfgset('g \\in {"default", "custom", "junk"}, f \\in BOOLEAN', epochs="3", cbs=seq(R, LG(2, "f", "g", 2))),
            cfgset("k \\in 0..1", epochs="1", cbs=seq(LG(1, "FALSE", '"default"', "k"), R)),
            # LivePlotting
            cfgset("q \\in {<<1, 2>>, <<2, 1>>, <<2, 3>>}", epochs="3",
                   cbs=seq(R, EV("q[1]"), PL("q[2]", "q[1] = 2", "IF q[2] = 2 THEN 3 ELSE 0")), time="TRUE"),
            cfgset("", epochs="2", cbs=seq(R, PL(1, "TRUE", 0), EV(1))),
            cfgset("", epochs="2", cbs=seq(EV(1, "obs"), PL(2, "FALSE", 2), R)),
            cfgset("", epochs="0", cbs=seq(R, EV(1), PL(1, "FALSE", 0)), time="TRUE"),
            cfgset("pb \\in %s" % PB, epochs="1", progbar="pb", cbs=seq(EV(1), PL(1, "TRUE", 1), R), vals=VALS[2]),
            cfgset("", epochs="1", runs="2", again='"keep"', cbs=seq(EV(1), PL(1, "TRUE", 1), R), vals=VALS[1]),
        ]
    return [
        cfgset("e \\in 0..3, n \\in 1..2, s \\in 0..1", startEp="s", epochs="e", nb="n", time="TRUE"),
        cfgset("e \\in 1..3, n \\in 1..2, c \\in {%s}, tf \\in BOOLEAN" % ", ".join(
            [seq(TV, R), seq(R, TV), seq(R, TQ), seq(R, TV, R)]), epochs="e", nb="n", cbs="c", time="tf"),
        cfgset("e \\in 0..3, n \\in 1..2, s \\in 0..1, pb \\in %s" % PB, startEp="s", epochs="e", nb="n", progbar="pb",
               cbs="<<>>", time="TRUE"),
        cfgset("c \\in {<<0, 0, 0>>, <<5, 1, 0>>, <<0, 3, 2>>}", cbs=seq(R, TV), time="TRUE", nb="2",
               t0="c[1]", dt="c[2]", dj="c[3]"),
        cfgset("e \\in 0..2, n \\in 1..2, es \\in BOOLEAN, pb \\in %s, c \\in {%s}" % (PB, ", ".join(
            [seq(R, TV), seq(TV, R)])), epochs="e", nb="n", entryStop="es", progbar="pb", cbs="c", time="TRUE"),
        cfgset('e \\in 1..2, a \\in {"reset", "keep"}, es \\in BOOLEAN, tf \\in BOOLEAN, c \\in {%s}' % ", ".join(
            [seq(R, TV), seq(TV, R), seq(R, TQ)]), epochs="e", runs="2", again="a", entryStop="es", cbs="c", time="tf"),
        cfgset('p \\in 1..3, g \\in {"default", "custom", "junk"}, f \\in BOOLEAN, k \\in 0..2', epochs="3",
               cbs=seq(R, LG("p", "f", "g", "k"))),
        cfgset("k \\in 0..2, s \\in 0..1", startEp="s", cbs=seq(LG(2, "FALSE", '"custom"', "k"), R), time="TRUE"),
        cfgset("pe \\in 1..2, pp \\in 1..3, bd \\in BOOLEAN, e \\in 1..3", epochs="e",
               cbs=seq(R, EV("pe"), PL("pp", "bd", "IF bd THEN e ELSE 0")), time="TRUE"),
        cfgset("pe \\in 1..2, pp \\in 1..3, v \\in {%s}, s \\in 0..1" % ", ".join(VALS), startEp="s", epochs="3",
               nb="2", cbs=seq(EV("pe"), PL("pp", "TRUE", 2), R), vals="v", errs=ERRS[1]),
        cfgset("pe \\in 1..2, pp \\in 1..2", epochs="3", cbs=seq(R, PL("pp", "TRUE", 0), EV("pe"), LG(1, "FALSE", '"default"', 1))),
        cfgset("pp \\in 1..3, bd \\in BOOLEAN", epochs="2", cbs=seq(R, EV(1, "obs"), PL("pp", "bd", 0)), time="TRUE"),
        cfgset("e \\in 0..1, pb \\in %s" % PB, epochs="e", progbar="pb", cbs=seq(R, EV(1), PL(2, "FALSE", 4)), time="TRUE"),
        cfgset('pp \\in 1..2, a \\in {"reset", "keep"}, pb \\in {"off", "on"}', epochs="2", runs="2", again="a",
               progbar="pb", cbs=seq(EV(1), PL("pp", "TRUE", 2), R, TV), vals=VALS[2]),
    ]


def wide_space(tier):
    """A wider space that TLC explores for the invariants only (nothing exported)."""
    PB = '{"off", "on", "nb"}'
    quick = tier == "quick"
    e = "1..2" if quick else "0..3"
    lists = [seq(R, TV), seq(TV, R), seq(R, TQ, R), seq(R, EV("pe"), PL("pp", "TRUE", 2)), seq(R, PL("pp", "FALSE", 0), EV("pe")),
             seq(EV("pe", "obs"), PL("pp", "TRUE", 0), R), seq(R, EV("pe"), LG("pp", "TRUE", '"custom"', 1), PL("pp", "TRUE", 1), TV, R)]
    out = []
    for l in (lists[:1] + lists[3:5] + lists[6:] if quick else lists):
        out.append(cfgset("e \\in %s, n \\in 1..2, s \\in %s, pe \\in 1..2, pp \\in 1..3, tf \\in BOOLEAN, es \\in %s, "
                          "pb \\in %s" % (e, "{1}" if quick else "0..1", "{FALSE}" if quick else "BOOLEAN", PB),
                          startEp="s", epochs="e", nb="n", cbs=l, time="tf", entryStop="es", progbar="pb"))
    for l in (lists[1:2] + lists[3:4] if quick else lists[:2] + lists[3:4] + lists[6:]):
        out.append(cfgset('e \\in 1..2, pe \\in 1..2, pp \\in 1..2, tf \\in BOOLEAN, a \\in {"reset", "keep"}',
                          epochs="e", cbs=l, time="tf", runs="2", again="a"))
    return out


def tlc_model(shards, export=True, invariants=INV, widgets=False, latch=True, liveness=False, defs_over=None,
              timeout=900, workers=WORKERS):
    """workers=1 for runs that are expected to stop at a violation: the state count at the stop is then reproducible"""
    d = {"Shards": "1..%d" % len(shards),
         "CfgsOf(shardNo)": "CASE " + " [] ".join("shardNo = %d -> %s" % (i + 1, t) for i, t in enumerate(shards))}
    if defs_over:
        d.update(defs_over)
    return tlc.run("AuxCallbacks", constants={"MaxInj": 1, "NbWidgets": widgets, "LatchPerObject": latch}, defs=d,
                   spec="Spec" if liveness else None, properties=["Terminates"] if liveness else (),
                   invariants=list(invariants) + (["MC_Export"] if export else []),
                   extends_extra=["Json"], extra_text=EXPORT if export else "",
                   workers=workers, heap=HEAP, timeout=timeout)


def beh_from_export(x):
    """TLC's JSON -> behaviour with hook records as dictionaries"""
    ev = []
    for t in x["ev"]:
        if not isinstance(t, list) or len(t) != len(HOOK_FIELDS):
            raise common.MachineryError("malformed hook record exported by the specification: %r" % (t,))
        ev.append(dict(zip(HOOK_FIELDS, t)))
    return dict(cfg=x["cfg"], ev=ev, fin=x["fin"])


# --------------------------------------------------------------------------------------------
# the observed real session

def clk(cfg, n):
    return cfg["t0"] + cfg["dt"] * n + cfg["dj"] * (n // 2)


LOGGER_KW = [{}, {"a": 1}, {"b": "x", "a": 1}]
_TERM_B = re.compile(r"Training terminated at epoch: (-?\d+), batch: (-?\d+)")
_TERM_E = re.compile(r"Training terminated at epoch: (-?\d+)")
_TOTAL = re.compile(r"Total time elapsed during training: *(-?\d+\.\d{3}) s")


class _Clock:
    """stands in for the `time` module inside qucumber.callbacks.timer"""

    def __init__(self):
        self.now = -1.0
        self.calls = []

    def time(self):
        self.calls.append(self.now)
        return self.now


class _Ctx:
    def __init__(self, cfg, plan):
        self.cfg, self.plan = cfg, set(plan)
        self.n = 0
        self.run = 1
        self.log = []
        self.out = io.StringIO()
        self.err = io.StringIO()
        self.clock = _Clock()
        self.logged = []            # calls of a custom logger_fn
        self.cur_ep = None
        self.draws = 0              # FigureCanvasAgg.draw calls
        self.flag_timers = []
        self.figs = []
        self.bar = None
        self.bars = 0
        self.hook_exc = None
        self.exc_names = []
        self.nn = None
        self.displayed = 0
        self.self_tick = not cfg["cbs"]


CTX = None


class Tick(CallbackBase):
    """Harness device, first in the real list, not part of the modelled list: counts the dispatches and
    moves the scripted clock."""

    def _t(self, *a):
        CTX.n += 1
        CTX.clock.now = clk(CTX.cfg, CTX.n) / TICK

    on_train_start = on_train_end = on_epoch_start = on_epoch_end = on_batch_start = on_batch_end = _t


def _lines(text, want_log):
    out = []
    for ln in text.splitlines():
        m = _TERM_B.fullmatch(ln)
        if m:
            out.append(dict(m="term", ep=int(m.group(1)), b=int(m.group(2)), t=0))
            continue
        m = _TERM_E.fullmatch(ln)
        if m:
            out.append(dict(m="term", ep=int(m.group(1)), b=-1, t=0))
            continue
        m = _TOTAL.fullmatch(ln)
        if m and ln == "Total time elapsed during training: {:6.3f} s".format(float(m.group(1))) \
                and (float(m.group(1)) * TICK).is_integer():
            out.append(dict(m="total", ep=-1, b=-1, t=int(float(m.group(1)) * TICK)))
            continue
        if want_log is not None and ln == want_log[1]:
            out.append(dict(m="log", ep=want_log[0], b=-1, t=0))
            continue
        out.append(dict(m="?", ep=-1, b=-1, t=0, text=ln))
    return out


class _Obs:
    """Observation mixed into the library's callback classes: every hook logs one record, calls the
    library's own method, and notes what that method did (nothing is altered)."""
    _t, _o = "?", ""
    _inside = False         # class attributes: the evaluators define __getattr__ for unknown names
    _expected = None

    def _hook(self, name, k, nn, ep, b):
        c = CTX
        args = (nn,) if k in ("TS", "TE") else ((nn, ep) if k in ("ES", "EE") else (nn, ep, b))
        if self._inside:
            # the library's method calling another hook of its own object (LivePlotting.on_train_end ->
            # self.on_epoch_end): part of the hook that is being observed, not a dispatch
            return getattr(super(), name)(*args)
        self._inside = True
        try:
            self._observed(name, k, nn, ep, b, args)
        finally:
            self._inside = False

    def _observed(self, name, k, nn, ep, b, args):
        c = CTX
        if c.self_tick:
            Tick()._t()         # fit(callbacks=None, time=True): its Timer is the only callback there is
        h = dict(n=c.n, run=c.run, k=k, ep=ep, b=b, cb=1 + sum(1 for x in c.log if x["n"] == c.n and x["run"] == c.run),
                 t=self._t, o=self._o, seen=bool(nn.stop_training), inj=False, clk=-1, say=[], draw=[], err="",
                 fig=0, xfix=False, last=-1, cd=0)
        c.log.append(h)
        o0, k0, d0, l0 = len(c.out.getvalue()), len(c.clock.calls), c.draws, len(c.logged)
        pre = self._pre(k, ep)
        try:
            getattr(super(), name)(*args)
        except Exception as ex:
            h["err"] = "raise"
            c.exc_names.append(type(ex).__name__)
            c.hook_exc = ex
            raise
        finally:
            want = self._want_log(k, ep)
            h["say"] = _lines(c.out.getvalue()[o0:], want)
            for a, kw in c.logged[l0:]:
                ok = want is not None and len(a) == 1 and not kw and a[0] == want[1]
                h["say"].append(dict(m="log", ep=ep, b=-1, t=0) if ok else dict(m="?", ep=-1, b=-1, t=0, text=repr((a, kw))))
            reads = c.clock.calls[k0:]
            if len(reads) == 1 and (reads[0] * TICK).is_integer():
                h["clk"] = int(reads[0] * TICK)
            elif reads:
                h["clk"] = -2 - len(reads)
            h["cd"] = c.draws - d0
            self._post(h, pre)

    def _pre(self, k, ep):
        return None

    def _post(self, h, pre):
        pass

    def _want_log(self, k, ep):
        return None

    def on_train_start(self, nn):
        self._hook("on_train_start", "TS", nn, -1, -1)

    def on_train_end(self, nn):
        self._hook("on_train_end", "TE", nn, -1, -1)

    def on_epoch_start(self, nn, ep):
        self._hook("on_epoch_start", "ES", nn, ep, -1)

    def on_epoch_end(self, nn, ep):
        self._hook("on_epoch_end", "EE", nn, ep, -1)

    def on_batch_start(self, nn, ep, b):
        self._hook("on_batch_start", "BS", nn, ep, b)

    def on_batch_end(self, nn, ep, b):
        self._hook("on_batch_end", "BE", nn, ep, b)


class RecCb(_Obs, CallbackBase):
    """The user's callback: records, and requests the stop where the plan says."""
    _t = "rec"

    def _post(self, h, pre):
        if (h["run"], h["k"], h["ep"], h["b"], h["cb"]) in CTX.plan and not CTX.nn.stop_training:
            h["inj"] = True
            CTX.nn.stop_training = True


class RecTimerU(_Obs, Timer):
    _t, _o = "timer", "U"


class RecTimerF(_Obs, Timer):
    """what fit(time=True) instantiates while the session is observed"""
    _t, _o = "timer", "F"

    def __init__(self, *a, **k):
        super().__init__(*a, **k)
        CTX.flag_timers.append(self)


class RecMetric(_Obs, MetricEvaluator):
    _t = "eval"

    def _pre(self, k, ep):
        if k == "EE":
            CTX.cur_ep = ep


class RecObsEval(_Obs, ObservableEvaluator):
    _t = "eval"

    def _pre(self, k, ep):
        if k == "EE":
            CTX.cur_ep = ep


class RecLogger(_Obs, Logger):
    _t = "logger"

    def _want_log(self, k, ep):
        return (ep, self._expected(ep)) if k == "EE" else None


class RecLive(_Obs, LivePlotting):
    _t = "plot"

    def _pre(self, k, ep):
        ax = getattr(self, "ax", None)
        return (getattr(self, "fig", None), ax.lines[0] if ax is not None and ax.lines else None)

    def _post(self, h, pre):
        fig, ax = getattr(self, "fig", None), getattr(self, "ax", None)
        if fig is not None and fig is not pre[0]:
            h["fig"] = 1
            CTX.figs.append(fig)
        h["last"] = self.last_epoch
        if ax is not None:
            h["xfix"] = xlim_fixed(ax, self.total_epochs)
            line = ax.lines[0] if ax.lines else None
            if line is not None and line is not pre[1] and h["err"] == "":
                h["draw"] = [snapshot(ax, self.last_epoch)]


def xlim_fixed(ax, total):
    """the x-axis is pinned to (0, total_epochs): limits set by hand (autoscaling off), not the defaults of a cleared axes"""
    return bool(total) and not ax.get_autoscalex_on() and tuple(float(v) for v in ax.get_xlim()) == (0.0, float(total))


def _ints(vs):
    out = []
    for v in vs:
        f = float(v)
        out.append(int(f) if f.is_integer() else f)
    return out


def snapshot(ax, ep):
    """the curve (and band) now on the axes, read back from the artists"""
    if len(ax.lines) != 1:
        return dict(ep=ep, xs=["%d lines" % len(ax.lines)], ys=[], lo=[], hi=[])
    xs, ys = _ints(ax.lines[0].get_xdata()), _ints(ax.lines[0].get_ydata())
    lo, hi = [], []
    if len(ax.collections) == 1:
        paths = ax.collections[0].get_paths()
        n = len(xs)
        v = paths[0].vertices if len(paths) == 1 else np.zeros((0, 2))
        if len(v) != 2 * n + 3:
            raise common.MachineryError("fill_between polygon with %d vertices for %d points (matplotlib internals)" % (len(v), n))
        # (x0, f2_0), (x_i, f1_i) i = 0..n-1, (x_n-1, f2_n-1), (x_i, f2_i) i = n-1..0, closing vertex
        f1, f2 = v[1:n + 1], v[n + 2:2 * n + 2][::-1]
        if _ints(f1[:, 0]) != xs or _ints(f2[:, 0]) != xs:
            raise common.MachineryError("fill_between polygon not over the plotted epochs (matplotlib internals)")
        lo, hi = _ints(f1[:, 1]), _ints(f2[:, 1])
    elif len(ax.collections) > 1:
        lo = hi = ["%d collections" % len(ax.collections)]
    return dict(ep=ep, xs=xs, ys=ys, lo=lo, hi=hi)


class _Counting:
    """the epoch range handed to the progress bar, counting the items pulled"""

    def __init__(self, it, bar):
        self.it, self.bar = it, bar

    def __len__(self):
        return len(self.it)

    def __iter__(self):
        for x in self.it:
            self.bar["pulled"] += 1
            yield x


class _W:
    """minimal widget: what tqdm.notebook touches"""

    def __init__(self, **kw):
        self.value, self.bar_style, self.visible = 0, "", True
        self.layout, self.style = type("NS", (), {})(), type("NS", (), {})()
        self.__dict__.update(kw)

    def close(self):
        pass


_ABSENT = object()


@contextlib.contextmanager
def observed(ctx, widgets):
    """Install the observation; everything is restored on exit."""
    global CTX
    saved = dict(time=timer_mod.time, Timer=ns_mod.Timer, tqdm=ns_mod.tqdm, tqdm_nb=ns_mod.tqdm_notebook,
                 draw=FigureCanvasAgg.draw, hook=sys.unraisablehook, ctx=CTX,
                 nb={a: getattr(tqdm_nb, a, _ABSENT) for a in ("IProgress", "HTML", "TqdmHBox", "display")})
    figs0 = set(plt.get_fignums())
    orig_draw = FigureCanvasAgg.draw

    def draw(self, *a, **k):
        ctx.draws += 1
        return orig_draw(self, *a, **k)

    def w_tqdm(it, *a, **k):
        ctx.bars += 1
        ctx.bar = dict(kind="tqdm", disable=bool(k.get("disable")), pulled=0)
        return saved["tqdm"](_Counting(it, ctx.bar), *a, **k)

    def w_nb(it, *a, **k):
        ctx.bars += 1
        ctx.bar = dict(kind="notebook", disable=bool(k.get("disable")), pulled=0)
        return saved["tqdm_nb"](_Counting(it, ctx.bar), *a, **k)

    CTX = ctx
    try:
        timer_mod.time = ctx.clock
        ns_mod.Timer = RecTimerF
        ns_mod.tqdm, ns_mod.tqdm_notebook = w_tqdm, w_nb
        FigureCanvasAgg.draw = draw
        sys.unraisablehook = lambda u: None      # tqdm_notebook.__del__ of a bar whose constructor raised
        if widgets:
            tqdm_nb.IProgress = tqdm_nb.HTML = tqdm_nb.TqdmHBox = _W

            def display(*a, **k):
                ctx.displayed += 1
            tqdm_nb.display = display
        with warnings.catch_warnings(), plt.rc_context({"figure.dpi": 30, "figure.figsize": (2.4, 1.8)}):
            warnings.simplefilter("ignore")
            with contextlib.redirect_stdout(ctx.out), contextlib.redirect_stderr(ctx.err):
                yield
    finally:
        timer_mod.time = saved["time"]
        ns_mod.Timer = saved["Timer"]
        ns_mod.tqdm, ns_mod.tqdm_notebook = saved["tqdm"], saved["tqdm_nb"]
        FigureCanvasAgg.draw = saved["draw"]
        sys.unraisablehook = saved["hook"]
        for a, v in saved["nb"].items():
            if v is _ABSENT:
                if hasattr(tqdm_nb, a):
                    delattr(tqdm_nb, a)
            else:
                setattr(tqdm_nb, a, v)
        for f in ctx.figs:
            plt.close(f)
        for num in set(plt.get_fignums()) - figs0:
            plt.close(num)
        CTX = saved["ctx"]


def build(cfg, ctx):
    """cfg['cbs'] descriptors -> real callback objects (list order preserved)"""
    objs, ev = [], None
    for d in cfg["cbs"]:
        if d["t"] == "eval":
            if d["x"] == "metric":
                ev = RecMetric(d["p"], {"m": lambda nn, **kw: float(cfg["vals"][ctx.cur_ep]),
                                        "e": lambda nn, **kw: float(cfg["errs"][ctx.cur_ep])})
            else:
                ev = RecObsEval(d["p"], [SigmaZ()], num_samples=4)
                ev.system.statistics = lambda nn, **kw: {"m": {"mean": float(cfg["vals"][ctx.cur_ep]), "variance": 1.0,
                                                               "std_error": float(cfg["errs"][ctx.cur_ep]), "num_samples": 4}}
    for d in cfg["cbs"]:
        t = d["t"]
        if t == "rec":
            objs.append(RecCb())
        elif t == "timer":
            objs.append(RecTimerU(verbose=False) if not d["v"] else RecTimerU())
        elif t == "eval":
            objs.append(ev)
        elif t == "plot":
            band = ("e" if isinstance(ev, RecMetric) else "std_error") if d["v"] else None
            objs.append(RecLive(d["p"], ev, "m", error_name=band, total_epochs=d["n"] if d["n"] > 0 else None))
        elif t == "logger":
            kw = dict(LOGGER_KW[d["n"]])
            args = {}
            if d["v"]:
                args["logger_fn"] = lambda *a, **k: ctx.logged.append((a, k))
            if d["x"] == "custom":
                def gen(*a, **k):
                    return "G" + repr((len(a), a[0] is ctx.nn, a[1] if len(a) > 1 else None, list(k.items())))
                args["msg_gen"] = gen
                expected = lambda ep, kw=kw: "G" + repr((2, True, ep, list(kw.items())))  # noqa: E731
            else:
                if d["x"] == "junk":
                    args["msg_gen"] = "not a callable"
                expected = lambda ep, kw=kw: "Epoch " + str(ep) + ": " + str(kw)  # noqa: E731
            lg = RecLogger(d["p"], **args, **kw)
            lg._expected = expected
            objs.append(lg)
        else:
            raise common.MachineryError("unknown callback descriptor %r" % (d,))
    return objs, ev


def timer_state(t):
    def rd(a):
        v = getattr(t, a, None)
        if v is None:
            return -1
        return int(v * TICK) if float(v * TICK).is_integer() else v
    return dict(verbose=bool(t.verbose), start=rd("start_time"), end=rd("end_time"), time=rd("training_time"),
                notified=bool(t.already_notified))


FRESH = dict(start=-1, end=-1, time=-1, notified=False)


def real_session(cfg, plan, widgets=False, nn_kind="positive", seed=0):
    """Run the session `cfg` (one or two fits) on the real classes under observation.
    plan: set of (run, k, ep, b, cb) at which recording callback cb requests the stop."""
    torch.manual_seed(seed)
    ctx = _Ctx(cfg, plan)
    if nn_kind == "positive":
        nn = PositiveWaveFunction(2, 2, gpu=False)
        extra = {}
    else:
        nn = ComplexWaveFunction(2, 2, gpu=False)
        extra = dict(input_bases=np.array([["Z", "Z"], ["X", "Z"], ["Z", "Y"]][:cfg["nb"]] if cfg["nb"] <= 3 else None))
    ctx.nn = nn
    data = torch.tensor([[float(r % 2), float((r // 2) % 2)] for r in range(cfg["nb"])], dtype=torch.double)
    objs, ev = build(cfg, ctx)
    user_timer = next((o for o in objs if isinstance(o, RecTimerU)), None)
    live = next((o for o in objs if isinstance(o, RecLive)), None)
    err = ""
    pb = {"off": False, "on": True, "nb": "notebook"}[cfg["progbar"]]
    with observed(ctx, widgets):
        if cfg["entryStop"]:
            nn.stop_training = True
        for run in range(1, cfg["runs"] + 1):
            ctx.run = run
            if run > 1:
                if cfg["again"] == "reset":
                    nn.stop_training = False
            ctx.hook_exc = None
            try:
                # no user callback at all: callbacks=None / [] (both spellings), fit's Timer ticks the clock itself
                real_list = [Tick()] + objs if objs else (None if cfg["epochs"] % 2 == 0 else [])
                nn.fit(data, epochs=cfg["epochs"], pos_batch_size=1, k=1, lr=0.01, starting_epoch=cfg["startEp"],
                       callbacks=real_list, time=cfg["time"], progbar=pb, **extra)
            except Exception as ex:
                if ctx.hook_exc is ex:
                    err = "callback"
                else:
                    err = type(ex).__name__
                    ctx.exc_names.append(err)
                    ctx.fit_exc_text = repr(ex)[:300]
                ctx.hook_exc = None
                break
        xfix = False
        if live is not None and getattr(live, "ax", None) is not None:
            xfix = xlim_fixed(live.ax, live.total_epochs)
        stderr = ctx.err.getvalue()
    tmU = dict(timer_state(user_timer)) if user_timer is not None else dict(FRESH, verbose=False)
    tmF = dict(timer_state(ctx.flag_timers[-1])) if ctx.flag_timers else dict(FRESH, verbose=True)
    if ev is None:
        evh = []
    elif isinstance(ev, RecMetric):
        evh = [_ints([e, v["m"], v["e"]]) for e, v in ev.past_values]
    else:
        evh = [_ints([e, v["m"]["mean"], v["m"]["std_error"]]) for e, v in ev.past_values]
    fin = dict(stop=bool(nn.stop_training), err=err, tmU=tmU, tmF=tmF,
               lp=dict(last=live.last_epoch if live else 0, figs=len(ctx.figs), xfix=xfix, drawn=ctx.draws),
               bar=ctx.bar if ctx.bar is not None else dict(kind="none", disable=False, pulled=0), evh=evh)
    # what is not part of the specification's state but is compared all the same
    side = dict(stderr="bar" if "Epochs" in stderr else ("" if not stderr.strip() else "?" + stderr[:200]),
                flag_timers=len(ctx.flag_timers), bars=ctx.bars, exc=list(ctx.exc_names),
                figs_left=len(plt.get_fignums()), stdout=ctx.out.getvalue(), exc_text=getattr(ctx, "fit_exc_text", ""))
    return dict(ev=ctx.log, fin=fin, side=side)


def plan_of(beh):
    return {(h["run"], h["k"], h["ep"], h["b"], h["cb"]) for h in beh["ev"] if h["inj"]}


def expected_side(beh, widgets):
    """the observations outside the specification's state that follow from it"""
    cfg, ev = beh["cfg"], beh["ev"]
    runs = sorted({h["run"] for h in ev})
    entered = len(runs)
    last = [h for h in ev if h["run"] == runs[-1]] if runs else []
    # the bar is built once per entered fit, after train start (unless a callback raised there)
    bars = sum(1 for r in runs if not any(h["run"] == r and h["k"] == "TS" and h["err"] for h in ev))
    shown = bool(last) and cfg["progbar"] == "on" and bars > 0
    return dict(stderr="bar" if shown else "", flag_timers=entered if cfg["time"] else 0, bars=bars)


def compare(beh, real, widgets):
    """projection of the real session against the behaviour -> None or a mismatch description"""
    ev_s, ev_r = beh["ev"], real["ev"]
    for i, (a, b) in enumerate(zip(ev_s, ev_r)):
        if a != b:
            return dict(what="hook %d" % (i + 1), field=[f for f in HOOK_FIELDS if a.get(f) != b.get(f)] or ["?"],
                        expected=a, got=b)
    if len(ev_s) != len(ev_r):
        i = min(len(ev_s), len(ev_r))
        return dict(what="number of hook invocations", expected=len(ev_s), got=len(ev_r),
                    next_expected=ev_s[i] if i < len(ev_s) else None, next_got=ev_r[i] if i < len(ev_r) else None)
    for f in ("stop", "err", "tmU", "tmF", "lp", "bar", "evh"):
        if beh["fin"][f] != real["fin"][f]:
            return dict(what="final " + f, expected=beh["fin"][f], got=real["fin"][f])
    want = expected_side(beh, widgets)
    for f, v in want.items():
        if real["side"][f] != v:
            return dict(what="side " + f, expected=v, got=real["side"][f])
    if real["side"]["figs_left"]:
        raise common.MachineryError("figures left open by the harness")
    return None


def guarded(fn, *a, **k):
    try:
        return fn(*a, **k)
    except common.MachineryError:
        raise
    except Exception as ex:
        import traceback
        return dict(what="exception", error=repr(ex), where=traceback.format_exc().splitlines()[-4:])


def replay(beh, widgets, nn_kind="positive"):
    real = real_session(beh["cfg"], plan_of(beh), widgets=widgets, nn_kind=nn_kind)
    bad = compare(beh, real, widgets)
    return bad, real


def beh_key(beh, how):
    cfg = beh["cfg"]
    kinds = "+".join(d["t"] + (":" + d["x"] if d["t"] == "eval" else "") for d in cfg["cbs"]) + ("+time" if cfg["time"] else "")
    inj = [h["k"] for h in beh["ev"] if h["inj"]]
    return "%s%s:%s:%dfit:%s:stop-at-%s" % (K, how, kinds, cfg["runs"], cfg["progbar"], "+".join(inj) if inj else "none")


# --------------------------------------------------------------------------------------------
# traces (code -> spec)

def random_cfg(rng):
    kind = rng.choice(["timer", "timer", "plot", "plot", "logger", "mix"])
    R_ = dict(t="rec", p=0, v=False, x="", n=0)
    epochs = rng.randint(0, 3)
    pe, pp = rng.randint(1, 2), rng.randint(1, 3)
    if kind == "timer":
        cbs = rng.choice([[R_], [dict(t="timer", p=0, v=rng.random() < 0.8, x="U", n=0), R_],
                          [R_, dict(t="timer", p=0, v=rng.random() < 0.8, x="U", n=0)],
                          [R_, dict(t="timer", p=0, v=True, x="U", n=0), R_]])
    elif kind == "plot":
        e = dict(t="eval", p=pe, v=False, x="metric" if rng.random() < 0.85 else "obs", n=0)
        p = dict(t="plot", p=pp, v=rng.random() < 0.6, x="", n=rng.choice([0, 0, epochs, 5]))
        cbs = rng.choice([[R_, e, p], [e, p, R_], [R_, p, e], [e, R_, p]])
    elif kind == "logger":
        cbs = [R_, dict(t="logger", p=pp, v=rng.random() < 0.5, x=rng.choice(["default", "custom", "junk"]), n=rng.randint(0, 2))]
        rng.shuffle(cbs)
    else:
        cbs = [R_, dict(t="eval", p=pe, v=False, x="metric", n=0),
               dict(t="logger", p=pp, v=rng.random() < 0.5, x=rng.choice(["default", "custom"]), n=rng.randint(0, 2)),
               dict(t="plot", p=pp, v=True, x="", n=0), dict(t="timer", p=0, v=True, x="U", n=0), R_]
    cbs = [dict(d) for d in cbs]
    runs = 2 if rng.random() < 0.3 else 1
    return dict(startEp=rng.choice([0, 1, 1, 1, 2]), epochs=epochs, nb=rng.randint(1, 3), cbs=cbs,
                time=rng.random() < 0.6 or not any(d["t"] == "timer" for d in cbs) and rng.random() < 0.5,
                entryStop=rng.random() < 0.08, runs=runs, again=rng.choice(["reset", "reset", "keep"]),
                progbar=rng.choice(["off", "off", "on", "nb"]), t0=rng.randint(0, 40), dt=rng.randint(0, 5),
                dj=rng.randint(0, 3), vals=[rng.choice([0, 1, -7, 12, 250]) for _ in range(5)],
                errs=[rng.randint(0, 6) for _ in range(5)])


def random_plan(rng, cfg):
    recs = [i for i, d in enumerate(cfg["cbs"], start=1) if d["t"] == "rec"]
    plan = set()
    for run in range(1, cfg["runs"] + 1):
        if rng.random() < 0.75 and recs:
            k = rng.choice(["TS", "ES", "BS", "BE", "BE", "EE", "EE", "TE"])
            ep = -1 if k in ("TS", "TE") else rng.randint(cfg["startEp"], max(cfg["startEp"], cfg["epochs"]))
            b = rng.randint(0, cfg["nb"] - 1) if k in ("BS", "BE") else -1
            plan.add((run, k, ep, b, rng.choice(recs)))
    return plan


def donor_sessions():
    """Fixed sessions recorded with the random ones: together they carry a donor for every corrupted trace."""
    R_ = dict(t="rec", p=0, v=False, x="", n=0)
    TU = dict(t="timer", p=0, v=True, x="U", n=0)
    base = dict(startEp=1, epochs=3, nb=2, time=True, entryStop=False, runs=1, again="reset", progbar="off",
                t0=4, dt=3, dj=1, vals=[0, 10, -20, 30, 5], errs=[1, 2, 3, 4, 5])
    full = [R_, dict(t="eval", p=1, v=False, x="metric", n=0), dict(t="plot", p=2, v=True, x="", n=3),
            dict(t="logger", p=2, v=False, x="default", n=1), TU]
    return [(dict(base, cbs=full), {(1, "BE", 3, 0, 1)}),          # notice at a batch end, epoch end follows
            (dict(base, cbs=full), set()),                           # no stop at all
            (dict(base, cbs=full, epochs=2), {(1, "EE", 2, -1, 1)}), # notice at an epoch end
            (dict(base, cbs=[R_], nb=1, epochs=1), set())]           # fit's Timer behind a single user callback


def record_trace(cfg, plan, widgets, seed=0):
    real = real_session(cfg, plan, widgets=widgets, seed=seed)
    return dict(cfg=cfg, ev=real["ev"], fin=real["fin"], side=real["side"], widgets=widgets)


_LINE_KEYS = {"m", "ep", "b", "t"}
_SNAP_KEYS = {"ep", "xs", "ys", "lo", "hi"}


def _isint(v):
    return type(v) is int


def malformed(tr):
    """Shape validation (TraceAuxCallbacks is total only on well-shaped records) -> None or a description"""
    for i, h in enumerate(tr["ev"]):
        if set(h) != set(HOOK_FIELDS):
            return "hook %d: fields %s" % (i + 1, sorted(set(h) ^ set(HOOK_FIELDS)))
        if not all(_isint(h[f]) for f in ("n", "run", "ep", "b", "cb", "clk", "fig", "last", "cd")):
            return "hook %d: non-integer field (%r)" % (i + 1, {f: h[f] for f in ("clk", "last", "ep", "b") if not _isint(h[f])})
        if not all(type(h[f]) is bool for f in ("seen", "inj", "xfix")) or not all(isinstance(h[f], str) for f in ("k", "t", "o", "err")):
            return "hook %d: wrong field type" % (i + 1)
        if h["clk"] < -1:
            return "hook %d: the clock was read %d times in one hook" % (i + 1, -2 - h["clk"])
        for ln in h["say"]:
            if set(ln) != _LINE_KEYS or ln["m"] not in ("term", "total", "log") or not all(_isint(ln[f]) for f in ("ep", "b", "t")):
                return "hook %d: unexpected output %r" % (i + 1, ln)
        for s in h["draw"]:
            if set(s) != _SNAP_KEYS or not _isint(s["ep"]) or not all(all(_isint(v) for v in s[f]) for f in ("xs", "ys", "lo", "hi")):
                return "hook %d: curve data not integral / not one line %r" % (i + 1, s)
    f = tr["fin"]
    for t in ("tmU", "tmF"):
        if not all(_isint(f[t][a]) for a in ("start", "end", "time")):
            return "final %s: %r" % (t, f[t])
    if not all(all(_isint(v) for v in r) and len(r) == 3 for r in f["evh"]):
        return "final evaluator records %r" % (f["evh"],)
    if f["err"] not in ("", "callback", "ImportError"):
        return "the fit raised %s" % f["err"]
    return None


def validate_traces(lines, widgets, timeout=900):
    d = tempfile.mkdtemp(prefix="verif-auxtrace-")
    try:
        path = os.path.join(d, "traces.ndjson")
        with open(path, "w") as fh:
            for ln in lines:
                fh.write(json.dumps(dict(cfg=ln["cfg"], ev=ln["ev"], fin=ln["fin"])) + "\n")
        res = tlc.run("TraceAuxCallbacks", constants={"MaxInj": 1, "NbWidgets": widgets, "LatchPerObject": True},
                      defs={"Shards": "{}", "CfgsOf(s)": "{}"}, init="TrInit", next="TrNext",
                      constraints=["TrTrack"], postcondition="TrVerdicts", invariants=INV,
                      workers=1, heap=HEAP, timeout=timeout, env={"TRACE_FILE": path})
    finally:
        shutil.rmtree(d, ignore_errors=True)
    verdict = {e["tid"]: e for e in res.exports if isinstance(e, dict) and "tid" in e}
    acc, matched = [], []
    for i in range(1, len(lines) + 1):
        if i not in verdict:
            raise common.MachineryError("no verdict for trace %d\n%s" % (i, res.raw[-3000:]))
        acc.append(verdict[i]["matched"] == verdict[i]["need"])
        matched.append(verdict[i]["matched"])
    return res, acc, matched


def corrupt_traces(good):
    """(what, corrupted trace) - each must be rejected by TraceAuxCallbacks"""
    out = []

    def find(pred):
        for t in good:
            for i, h in enumerate(t["ev"]):
                if pred(t, i, h):
                    return copy.deepcopy(t), i
        return None, None

    def term(h):
        return any(ln["m"] == "term" for ln in h["say"])

    # a second notice: a later batch end / epoch end of the same Timer, stop seen, repeats it
    def later_opportunity(t, i, h):
        return (h["t"] == "timer" and h["k"] in ("BE", "EE") and h["seen"] and not term(h)
                and any(term(g) and g["o"] == h["o"] and g["run"] == h["run"] for g in t["ev"][:i]))
    t, i = find(later_opportunity)
    if t:
        t["ev"][i]["say"] = [dict(m="term", ep=t["ev"][i]["ep"], b=t["ev"][i]["b"], t=0)]
        out.append(("trace with a second termination notice accepted", t))
    # a notice without a stop
    t, i = find(lambda t, i, h: h["t"] == "timer" and h["k"] in ("BE", "EE") and not h["seen"] and h["say"] == []
                and (h["o"] == "F" or t["fin"]["tmU"]["verbose"]))
    if t:
        t["ev"][i]["say"] = [dict(m="term", ep=t["ev"][i]["ep"], b=t["ev"][i]["b"], t=0)]
        out.append(("trace with a termination notice although no stop was requested accepted", t))
    # elapsed != end - start
    t, i = find(lambda t, i, h: any(ln["m"] == "total" for ln in h["say"]))
    if t:
        t["ev"][i]["say"][0]["t"] += 1
        out.append(("trace whose total line is not end - start accepted", t))
    t, i = find(lambda t, i, h: h["o"] == "F" and h["k"] == "TE" and t["ev"][-1] is h)
    if t:
        t["fin"]["tmF"]["time"] += 1
        out.append(("trace whose training_time is not end_time - start_time accepted", t))
    # the notice in the batch form at an epoch end
    t, i = find(lambda t, i, h: term(h) and h["k"] == "EE")
    if t:
        t["ev"][i]["say"][0]["b"] = 0
        out.append(("trace whose epoch-end notice names a batch accepted", t))
    # a redraw at an epoch that is not a multiple of the period
    def not_due(t, i, h):
        return h["t"] == "plot" and h["k"] == "EE" and h["draw"] == [] and h["err"] == "" \
            and any(g["draw"] for g in t["ev"][:i] if g["run"] == h["run"])
    t, i = find(not_due)
    if t:
        prev = [g for g in t["ev"][:i] if g["draw"]][-1]
        s = copy.deepcopy(prev["draw"][0])
        s["ep"] = t["ev"][i]["ep"]
        t["ev"][i].update(draw=[s], last=t["ev"][i]["ep"], cd=1, xfix=False)
        out.append(("trace with a redraw at an epoch that is not a multiple of the period accepted", t))
    # a curve that misses the newest record
    t, i = find(lambda t, i, h: h["draw"] and len(h["draw"][0]["xs"]) >= 2)
    if t:
        s = t["ev"][i]["draw"][0]
        for f in ("xs", "ys", "lo", "hi"):
            s[f] = s[f][:-1] if s[f] else s[f]
        out.append(("trace whose curve misses the evaluator's newest record accepted", t))
    # band upside down
    t, i = find(lambda t, i, h: h["draw"] and h["draw"][0]["lo"] and h["draw"][0]["lo"] != h["draw"][0]["hi"])
    if t:
        s = t["ev"][i]["draw"][0]
        s["lo"], s["hi"] = s["hi"], s["lo"]
        out.append(("trace whose error band has lower and upper swapped accepted", t))
    # no final redraw
    t, i = find(lambda t, i, h: h["t"] == "plot" and h["k"] == "TE" and h["draw"])
    if t:
        t["ev"][i].update(draw=[], cd=0)
        out.append(("trace without the redraw at train end accepted", t))
    # fit's Timer in front of the user's callbacks
    def flag_first(t, i, h):
        return h["o"] == "F" and h["k"] == "TS" and h["cb"] == 2 and t["cfg"]["runs"] == 1 and len(t["cfg"]["cbs"]) == 1
    t, i = find(flag_first)
    if t:
        for j in range(0, len(t["ev"]) - 1, 2):
            a, b = t["ev"][j], t["ev"][j + 1]
            if a["n"] == b["n"] and b["o"] == "F":
                a["cb"], b["cb"] = 2, 1
                t["ev"][j], t["ev"][j + 1] = b, a
        out.append(("trace in which fit's Timer runs before the user's callback accepted", t))
    # a log message for an epoch that is not due
    t, i = find(lambda t, i, h: h["t"] == "logger" and h["k"] == "EE" and h["say"] == [])
    if t:
        t["ev"][i]["say"] = [dict(m="log", ep=t["ev"][i]["ep"], b=-1, t=0)]
        out.append(("trace with a log message at an epoch that is not due accepted", t))
    return out


# --------------------------------------------------------------------------------------------
# worker processes

def do_item(item):
    kind = item[0]
    if kind == "replay":
        _, beh, widgets, nn_kind = item
        r = guarded(replay, beh, widgets, nn_kind)
        if isinstance(r, dict):
            return dict(bad=r, real=None)
        bad, real = r
        return dict(bad=bad, real=dict(ev=real["ev"], fin=real["fin"], side=real["side"]) if bad is None else None,
                    exc=real["side"]["exc"])
    if kind == "trace":
        _, cfg, plan, widgets, seed = item
        r = guarded(record_trace, cfg, {tuple(p) for p in plan}, widgets, seed)
        return r
    raise common.MachineryError("unknown work item %r" % (kind,))


def warm_up():
    torch.set_num_threads(1)
    PositiveWaveFunction(2, 2, gpu=False).fit(torch.tensor([[0., 1.]], dtype=torch.double), epochs=1, pos_batch_size=1)
    f, a = plt.subplots()
    f.canvas.draw()
    plt.close(f)


def worker_main():
    # the results travel on the process's real stdout; whatever the library prints while the items run (a Timer
    # that was not asked for, a stray progress line) goes to stderr and cannot corrupt them
    channel, sys.stdout = sys.stdout, sys.stderr
    warm_up()
    items = json.load(sys.stdin)
    out = [do_item(it) for it in items]
    if plt.get_fignums():
        raise common.MachineryError("figures left open in a worker")
    channel.write(json.dumps(out, default=str))
    channel.flush()


class Pool:
    """n worker processes started at once (import + warm-up overlap with TLC); map() deals the items out
    round-robin, one batch per worker, and runs a share in this process."""

    def __init__(self, n):
        env = dict(os.environ, MPLBACKEND="Agg", OMP_NUM_THREADS="1", MKL_NUM_THREADS="1")
        self.procs = [subprocess.Popen([sys.executable, "-B", os.path.abspath(__file__), "--worker"],
                                       stdin=subprocess.PIPE, stdout=subprocess.PIPE, stderr=subprocess.PIPE,
                                       env=env, text=True) for _ in range(n)]
        self.used = False

    def map(self, items, timeout=3600):
        if self.used:
            raise common.MachineryError("Pool.map may be called once")
        self.used = True
        n = len(self.procs) + 1
        shares = [items[i::n] for i in range(n)]
        results = [None] * n

        def feed(i, p):
            try:
                out, err = p.communicate(json.dumps(shares[i]), timeout=timeout)
            except subprocess.TimeoutExpired:
                p.kill()
                results[i] = common.MachineryError("worker timed out")
                return
            if p.returncode != 0:
                results[i] = common.MachineryError("worker failed:\n" + err[-2000:])
            else:
                try:
                    results[i] = json.loads(out)
                except ValueError:
                    results[i] = common.MachineryError("worker output is not JSON:\n" + out[:500])
        ths = [threading.Thread(target=feed, args=(i, p)) for i, p in enumerate(self.procs)]
        for t in ths:
            t.start()
        results[n - 1] = json.loads(json.dumps([do_item(it) for it in shares[n - 1]], default=str))
        for t in ths:
            t.join()
        out = [None] * len(items)
        for i, rs in enumerate(results):
            if isinstance(rs, Exception):
                raise rs
            if len(rs) != len(shares[i]):
                raise common.MachineryError("worker returned %d results for %d items" % (len(rs), len(shares[i])))
            out[i::n] = rs
        return out

    def close(self):
        for p in self.procs:
            if p.poll() is None:
                p.kill()
            for s in (p.stdin, p.stdout, p.stderr):
                try:
                    s.close()
                except Exception:
                    pass
            p.wait()


# --------------------------------------------------------------------------------------------

def control(chk, rejected, what):
    if not rejected and chk.disagreements:
        return          # on an implementation that already disagrees a corrupted expectation may coincide with it
    chk.control(rejected, what)


def comparator_controls(chk, behs, widgets_of):
    """Corrupt the EXPECTATION of a behaviour; the replay comparison must flag it."""
    def pick(pred):
        cand = [b for b in behs if pred(b)]
        if cand:                        # the cheapest donor: fewest figures and redraws, then fewest hook invocations
            return copy.deepcopy(min(cand, key=lambda b: (sum(h["fig"] + len(h["draw"]) for h in b["ev"]), len(b["ev"]),
                                                          json.dumps(b["cfg"], sort_keys=True))))
        if chk.disagreements:
            return None
        raise common.MachineryError("no donor behaviour for a negative control")

    def rejected(b):
        return guarded(lambda: replay(b, widgets_of(b))[0]) is not None

    def term(h):
        return any(ln["m"] == "term" for ln in h["say"])

    b = pick(lambda b: any(term(h) and h["o"] == "F" for h in b["ev"]))
    if b:
        for h in b["ev"]:
            if term(h):
                h["say"] = []
        control(chk, rejected(b), "behaviour with the termination notice dropped compared equal")
    b = pick(lambda b: any(h["t"] == "timer" and h["k"] == "EE" and h["seen"] and not term(h) and any(
        term(g) for g in b["ev"][:i]) for i, h in enumerate(b["ev"])))
    if b:
        i = next(i for i, h in enumerate(b["ev"]) if h["t"] == "timer" and h["k"] == "EE" and h["seen"] and not term(h)
                 and any(term(g) for g in b["ev"][:i]))
        b["ev"][i]["say"] = [dict(m="term", ep=b["ev"][i]["ep"], b=-1, t=0)]
        control(chk, rejected(b), "behaviour with a second termination notice compared equal")
    b = pick(lambda b: b["fin"]["tmF"]["time"] > 0)
    if b:
        b["fin"]["tmF"]["time"] = -b["fin"]["tmF"]["time"]
        for h in b["ev"]:
            for ln in h["say"]:
                if ln["m"] == "total" and h["o"] == "F":
                    ln["t"] = -ln["t"]
        control(chk, rejected(b), "behaviour with elapsed = start - end compared equal")
    b = pick(lambda b: any(h["draw"] and h["draw"][0]["lo"] and h["draw"][0]["lo"] != h["draw"][0]["hi"] for h in b["ev"]))
    if b:
        for h in b["ev"]:
            for s in h["draw"]:
                s["lo"], s["hi"] = s["hi"], s["lo"]
        control(chk, rejected(b), "behaviour with lower and upper band swapped compared equal")
    b = pick(lambda b: any(h["t"] == "plot" and h["k"] == "TE" and h["draw"] for h in b["ev"]))
    if b:
        for h in b["ev"]:
            if h["t"] == "plot" and h["k"] == "TE":
                h.update(draw=[], cd=0)
        b["fin"]["lp"]["drawn"] -= 1
        control(chk, rejected(b), "behaviour without the redraw at train end compared equal")
    b = pick(lambda b: any(len(h["draw"]) and len(h["draw"][0]["xs"]) >= 2 for h in b["ev"]))
    if b:
        h = next(h for h in b["ev"] if h["draw"] and len(h["draw"][0]["xs"]) >= 2)
        h["draw"][0]["ys"][-1] += 1
        control(chk, rejected(b), "behaviour whose curve differs from the evaluator's newest value compared equal")
    b = pick(lambda b: any(ln["m"] == "log" for h in b["ev"] for ln in h["say"]))
    if b:
        h = next(h for h in b["ev"] if h["t"] == "logger" and h["k"] == "EE" and not h["say"]) if any(
            h["t"] == "logger" and h["k"] == "EE" and not h["say"] for h in b["ev"]) else None
        if h is not None:
            h["say"] = [dict(m="log", ep=h["ep"], b=-1, t=0)]
        else:
            for h in b["ev"]:
                if h["t"] == "logger":
                    h["say"] = []
        control(chk, rejected(b), "behaviour with a log message off schedule compared equal")
    b = pick(lambda b: b["cfg"]["progbar"] == "on" and b["ev"])
    if b:
        b["fin"]["bar"]["pulled"] += 1
        control(chk, rejected(b), "behaviour whose progress bar pulled one more epoch compared equal")


def progbar_groups(chk, behs, reals):
    """Behaviours that differ in progbar only: everything recorded must be identical."""
    groups = {}
    for b, r in zip(behs, reals):
        if r is None or (b["fin"]["err"] == "ImportError"):
            continue
        cfg = dict(b["cfg"])
        pb = cfg.pop("progbar")
        key = json.dumps([cfg, sorted(plan_of(b))], sort_keys=True)
        groups.setdefault(key, {})[pb] = (b, r)
    n = 0
    for key, g in groups.items():
        if len(g) < 2:
            continue
        n += 1
        ref_pb = sorted(g)[0]
        ref = g[ref_pb][1]
        for pb, (b, r) in g.items():
            chk.evaluations += 1
            fa = dict(ref["fin"], bar=None)
            fb = dict(r["fin"], bar=None)
            if r["ev"] != ref["ev"] or fa != fb or r["side"]["stdout"] != ref["side"]["stdout"]:
                chk.violation(K + "progbar:differs:%s-vs-%s" % (ref_pb, pb),
                              dict(cfg=b["cfg"], plan=sorted(plan_of(b)), reference=ref["fin"], got=r["fin"]))
    return n


def run(chk, tier, seed):
    quick = tier == "quick"
    rng = random.Random(seed * 6151 + 31)
    info = chk.extra.setdefault("ext_auxcb", {})
    pool = Pool(4 if quick else 7)
    try:
        _run(chk, tier, seed, quick, rng, info, pool)
    finally:
        pool.close()
        plt.close("all")
    return chk


def _tick(t0, what):
    if os.environ.get("XAUX_TIMING"):
        import time
        sys.stderr.write("[ext_auxcb %6.1fs] %s\n" % (time.time() - t0, what))


def _run(chk, tier, seed, quick, rng, info, pool):
    import concurrent.futures as cf
    import time
    t0 = time.time()
    shards = replay_space(tier)
    with cf.ThreadPoolExecutor(max_workers=6) as ex:
        f_plain = ex.submit(tlc_model, shards, True, INV, False, True, not quick)
        f_widg = ex.submit(tlc_model, shards, True, INV, True, True, False,
                           {"CfgsOf(shardNo)": "{c \\in (CASE " + " [] ".join(
                               "shardNo = %d -> %s" % (i + 1, t) for i, t in enumerate(shards)) + ') : c.progbar = "nb"}'})
        f_wide = ex.submit(tlc_model, wide_space(tier), False)
        two_fits = [cfgset('a \\in {"reset", "keep"}, tf \\in BOOLEAN, c \\in {%s}' % ", ".join([seq(R, TV), seq(TV, R)]),
                           epochs="1", runs="2", again="a", cbs="c", time="tf")]
        ctl = {
            "the code's per-object latch must violate the per-fit reading of the Timer docstring (PerFitNotice)":
                ex.submit(tlc_model, two_fits, False, ["PerFitNotice"], workers=1),
        }
        small = [cfgset("", epochs="3", cbs=seq(R, EV(1), PL(2, "TRUE", 0)), time="TRUE")]
        ctl["a Timer inserted first must violate TimerLast"] = ex.submit(
            tlc_model, small, False, ["TimerLast"], False, True, False,
            {"Cbs(c)": "IF c.time THEN <<FlagTimer>> \\o c.cbs ELSE c.cbs"}, workers=1)
        if not quick:
            ctl["a redraw that forgets the newest record must violate SeriesAreEvaluatorHistory"] = ex.submit(
                tlc_model, small, False, ["SeriesAreEvaluatorHistory"], False, True, False,
                {"Snapshot(d, H, e)": "[ep |-> e, xs |-> [j \\in 1..(Len(H) - 1) |-> H[j][1]], ys |-> [j \\in 1..(Len(H) - 1) |-> H[j][2]], "
                                      "lo |-> <<>>, hi |-> <<>>]"}, workers=1)
            ctl["elapsed = start - end must violate ElapsedIsEndMinusStart"] = ex.submit(
                tlc_model, small, False, ["ElapsedIsEndMinusStart"], False, True, False,
                {"Clk(c, n)": "100 - n"}, workers=1)

        # the documented / natural readings that the code does NOT follow (named deviations of the specification):
        # behaviours exported under such a reading must be refuted by the real classes
        readings = {
            "LivePlotting draws the records of an ObservableEvaluator (class docstring)": (
                ex.submit(tlc_model, [cfgset("", epochs="2", cbs=seq(EV(1, "obs"), PL(1, "FALSE", 0), R))], True, ["TypeOK"],
                          False, True, False, {"DevObsRecordsRaise": "FALSE"}),
                lambda b: any(h["draw"] for h in b["ev"])),
            "a re-used Timer announces the stop of every fit (Timer docstring read per fit)": (
                ex.submit(tlc_model, [cfgset("", epochs="1", runs="2", cbs=seq(R, TV))], True, ["TypeOK", "PerFitNotice"],
                          False, False),
                lambda b: sum(1 for h in b["ev"] for ln in h["say"] if ln["m"] == "term") == 2),
        }
        if not quick:
            readings["total_epochs keeps the x-axis at (0, total_epochs) for the whole fit"] = (
                ex.submit(tlc_model, [cfgset("", epochs="2", cbs=seq(EV(1), PL(1, "FALSE", 2), R))], True, ["TypeOK"],
                          False, True, False, {"DevClearForgetsXlim": "FALSE"}),
                lambda b: any(h["draw"] for h in b["ev"]))
            readings["a redraw without any evaluator record shows an empty curve"] = (
                ex.submit(tlc_model, [cfgset("", epochs="0", cbs=seq(R, EV(1), PL(1, "FALSE", 0)))], True, ["TypeOK"],
                          False, True, False, {"DevEmptyHistoryRaises": "FALSE"}),
                lambda b: any(h["draw"] for h in b["ev"]))

        # ---- code -> spec: random sessions, recorded while TLC runs
        n_tr = 32 if quick else 1200
        jobs = [["trace", copy.deepcopy(c), sorted(pl), False, seed] for c, pl in donor_sessions()]
        n_tr += len(jobs)
        for i in range(n_tr - len(jobs)):
            cfg = random_cfg(rng)
            widgets = cfg["progbar"] == "nb" and rng.random() < 0.6
            jobs.append(["trace", cfg, sorted(random_plan(rng, cfg)), widgets, seed + i])

        # ---- spec -> code
        r_plain, r_widg = f_plain.result(), f_widg.result()
        _tick(t0, "replay-space TLC runs done")
        chk.add_tlc(r_plain, "AuxCallbacks.tla: replay space, no widget toolkit (what is installed)" + ("" if quick else " + termination"))
        chk.add_tlc(r_widg, "AuxCallbacks.tla: the progbar=\"notebook\" configurations with a widget toolkit")
        for r, nm in ((r_plain, "plain"), (r_widg, "widgets")):
            if r.violation:
                chk.violation(K + "spec:%s:%s" % (nm, r.violation), dict(tlc=r.raw[-3000:]))
        behs = [(beh_from_export(x), False) for x in r_plain.exports] + [(beh_from_export(x), True) for x in r_widg.exports]
        behs.sort(key=lambda bw: json.dumps([bw[0]["cfg"], sorted(plan_of(bw[0])), bw[1]], sort_keys=True))
        if not behs:
            raise common.MachineryError("the specification exported no behaviour")
        for b, w in behs:
            jobs.append(["replay", b, w, "positive"])
        sub = [bw for bw in behs if bw[0]["ev"] and bw[0]["cfg"]["nb"] <= 3]
        rng.shuffle(sub)
        for b, w in sub[:(16 if quick else 800)]:
            jobs.append(["replay", b, w, "complex"])
        results = pool.map(jobs)
        _tick(t0, "%d work items done" % len(jobs))
        traces, replays = results[:n_tr], results[n_tr:]

        n_bad = 0
        reals = []
        exc_seen = {}
        for job, res in zip(jobs[n_tr:], replays):
            beh, widgets, nn_kind = job[1], job[2], job[3]
            chk.evaluations += 1
            if any(h["say"] or h["draw"] or h["err"] for h in beh["ev"]):
                chk.nontriv(("replay", nn_kind, json.dumps(beh["cfg"], sort_keys=True), tuple(sorted(plan_of(beh))), widgets))
            for e in res.get("exc") or []:
                exc_seen[e] = exc_seen.get(e, 0) + 1
            reals.append(res["real"] if nn_kind == "positive" else None)
            if res["bad"] is not None:
                n_bad += 1
                if n_bad <= 25:
                    chk.violation(beh_key(beh, "replay:" + nn_kind), dict(cfg=beh["cfg"], plan=sorted(plan_of(beh)),
                                                                          widgets=widgets, mismatch=res["bad"]))
        info["behaviours_replayed"] = len(replays)
        info["exceptions_observed_in_replays"] = exc_seen
        groups = progbar_groups(chk, [b for b, _ in behs], reals[:len(behs)])
        info["progbar_groups_compared"] = groups
        if groups == 0:
            raise common.MachineryError("no group of behaviours differing in progbar only")
        _tick(t0, "replays judged")
        chk.sample(dict(aux_behaviour=next((dict(cfg=b["cfg"], hooks=[h for h in b["ev"] if h["say"] or h["draw"] or h["err"]][:4])
                                            for b, _ in behs if any(h["draw"] for h in b["ev"])), None)))

        # ---- traces
        good = []
        for job, tr in zip(jobs[:n_tr], traces):
            if "cfg" not in tr:
                chk.violation(K + "trace:exception", dict(cfg=job[1], plan=job[2], error=tr))
                continue
            why = malformed(tr)
            if why is not None:
                chk.violation(K + "trace:malformed:" + why.split(":")[0].split(" ")[0], dict(cfg=tr["cfg"], plan=job[2], why=why))
                continue
            good.append(tr)
        bad = corrupt_traces(good)
        if len(bad) < 11 and not chk.disagreements:
            raise common.MachineryError("only %d corrupted traces could be built: %s" % (len(bad), [w for w, _ in bad]))
        info["corrupted_traces"] = [w for w, _ in bad]
        parts = {w: ([t for t in good if t["widgets"] == w], [(what, t) for what, t in bad if t["widgets"] == w])
                 for w in (False, True)}
        futs = {w: ex.submit(validate_traces, part + [t for _, t in cpart], w) for w, (part, cpart) in parts.items() if part}
        comparator_controls(chk, [b for b, _ in behs], lambda b: b["cfg"]["progbar"] == "nb" and b["fin"]["err"] != "ImportError")
        _tick(t0, "comparator controls done")
        for widgets, fut in futs.items():
            part, cpart = parts[widgets]
            rt, acc, matched = fut.result()
            chk.add_tlc(rt, "TraceAuxCallbacks.tla (%d recorded sessions, widget toolkit %s)" % (len(part), "stubbed" if widgets else "absent"))
            if rt.violation:
                chk.violation(K + "trace:invariant:" + str(rt.violation), dict(tlc=rt.raw[-3000:]))
            for j, (what, _) in enumerate(cpart):
                control(chk, not acc[len(part) + j], what)
            for i, ok in enumerate(acc[:len(part)]):
                chk.evaluations += 1
                if ok:
                    chk.traces += 1
                    if any(h["say"] or h["draw"] or h["err"] for h in part[i]["ev"]):
                        chk.nontriv(("trace", widgets, i))
                else:
                    evs = part[i]["ev"]
                    nxt = evs[matched[i]] if matched[i] < len(evs) else None
                    chk.violation(K + "trace:rejected:" + ((nxt["t"] + ":" + nxt["k"]) if nxt else "final-state"),
                                  dict(cfg=part[i]["cfg"], matched_prefix=matched[i], next_hook=nxt, fin=part[i]["fin"]))
        info["traces_recorded"] = len(good)
        _tick(t0, "traces validated")

        # ---- the wide space and the specification controls
        r_wide = f_wide.result()
        _tick(t0, "wide space done")
        chk.add_tlc(r_wide, "AuxCallbacks.tla: wide space, invariants only")
        if r_wide.violation:
            chk.violation(K + "spec:wide:" + str(r_wide.violation), dict(tlc=r_wide.raw[-3000:]))
        refuted = {}
        for what, (f, relevant) in readings.items():
            r = f.result()
            chk.add_tlc(r, "reading not followed by the code: " + what)
            if r.violation:
                raise common.MachineryError("the variant specification is inconsistent (%s): %s" % (what, r.violation))
            cand = sorted((beh_from_export(x) for x in r.exports), key=lambda b: json.dumps(b, sort_keys=True))
            cand = [b for b in cand if relevant(b)][:6]
            if not cand:
                raise common.MachineryError("no behaviour exhibits the reading: " + what)
            bads = [guarded(lambda b=b: replay(b, False)[0]) for b in cand]
            refuted[what] = sum(1 for x in bads if x is not None)
            control(chk, all(x is not None for x in bads), "the code agrees with a reading it is known not to follow: " + what)
        info["readings_refuted_by_the_code"] = refuted
        _tick(t0, "readings done")
        for what, f in ctl.items():
            r = f.result()
            chk.add_tlc(r, "control: " + what)
            chk.control(r.violation is not None, "specification control held although it must fail: " + what)

    chk.assumptions += [
        "auxiliary callbacks: the scripted clock replaces the name `time` in qucumber.callbacks.timer for the duration of a "
        "session (restored afterwards) and is advanced by a harness callback standing first in the real list; the clock never "
        "runs backwards; readings are multiples of 1/8 s",
        "LivePlotting is observed on matplotlib's Agg backend (no display); curve and band are read back from the Line2D / "
        "PolyCollection artists (fill_between vertex layout of the installed matplotlib is trusted); tick locators, colours, "
        "labels and the rendered pixels are not examined",
        "progbar=\"notebook\": ipywidgets / IPython are not installed - the installed behaviour (ImportError after "
        "on_train_start) is modelled as it is; the with-widgets case uses minimal stub widgets put into tqdm.notebook",
        "sessions: <= 3 epochs, <= 3 batches, at most one stop request per fit (at any event, by any recording callback), "
        "at most two fits on the same objects, one evaluator / plot / logger / user Timer per list"]
    chk.rule += ("  || ext_auxcb: every terminal behaviour of AuxCallbacks.tla in the replay space (a stop at every event by "
                 "every recording callback; list orders; time flag; progbar; entry stop; second fit) replayed into real fits; "
                 "non-trivial = a behaviour / recorded session in which some hook printed, drew or raised")


if __name__ == "__main__":
    if "--worker" in sys.argv:
        worker_main()
