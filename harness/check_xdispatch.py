"""Development driver of harness/ext_dispatch.py: runs the extension alone.  Evidence goes to
evidence/XDISPATCH.json (never to the evidence of a real property)."""
import common
import ext_dispatch

PID = "C01"


def run(tier, seed):
    chk = common.Check(PID, tier, seed)
    chk.pid = "XDISPATCH"
    ext_dispatch.run(chk, tier, seed)
    return chk.finish()
